(** * HSP terminates whenever a head normal form exists; HNO reaches every existing normal form (C07) *)
From LC Require Import Spec.HeadRed Model.Reduction Proofs.Generic Proofs.Char Proofs.Sound.

Lemma step_hsp_sound t u : step_hsp t = Some u -> step t u.
Proof. apply (step_of_sound HSP). Qed.
Lemma step_hno_sound t u : step_hno t = Some u -> step t u.
Proof. apply (step_of_sound HNO). Qed.

Lemma iter_red f : (forall t u, f t = Some u -> step t u) -> forall n t u, iter f n t = Some u -> red t u.
Proof.
  intros H n. induction n; simpl; intros t u E.
  - inversion E; constructor.
  - destruct (f t) eqn:F; try discriminate. econstructor; eauto.
Qed.

(** ** lifting iterations *)
Lemma hsp_lift_abs n b u : iter step_hsp n b = Some u -> iter step_hsp n (Abs b) = Some (Abs u).
Proof.
  revert b; induction n; simpl; intros b H; [congruence|].
  destruct (step_hsp b); [simpl; auto|discriminate].
Qed.
Lemma hsp_lift_app n l l' r : iter step_hsp n l = Some l' -> iter step_hsp n (App l r) = Some (App l' r).
Proof.
  revert l; induction n; simpl; intros l H; [congruence|].
  destruct (step_hsp l); [auto|discriminate].
Qed.
Lemma hno_lift_hsp n l l' r : iter step_hsp n l = Some l' -> iter step_hno n (App l r) = Some (App l' r).
Proof.
  revert l; induction n; simpl; intros l H; [congruence|].
  destruct (step_hsp l); [auto|discriminate].
Qed.
Lemma hno_lift_abs n b u : iter step_hno n b = Some u -> iter step_hno n (Abs b) = Some (Abs u).
Proof.
  revert b; induction n; simpl; intros b H; [congruence|].
  destruct (step_hno b); [simpl; auto|discriminate].
Qed.

(** ** HSP *)
Theorem hsp_terminates : forall n t, HL t n -> exists k u, iter step_hsp k t = Some u /\ step_hsp u = None.
Proof.
  induction n as [n IHn] using lt_wf_ind.
  induction t as [i|b IHb|l IHl r _]; intros H.
  - exists 0, (Var i). auto.
  - apply (proj1 (HL_abs b n)) in H. destruct (IHb H) as (k & u & I & S).
    exists k, (Abs u). split; [apply hsp_lift_abs; auto|]. simpl. rewrite S. reflexivity.
  - destruct (HL_app _ _ _ H) as (m & Lm & Hm).
    assert (Tl : exists k u, iter step_hsp k l = Some u /\ step_hsp u = None).
    { destruct (Nat.eq_dec m n) as [->|Ne]; [apply IHl; auto|apply (IHn m); auto; lia]. }
    destruct Tl as (k1 & l' & I1 & S1).
    pose proof (hsp_lift_app _ _ _ r I1) as L1.
    destruct l' as [j|b2|l1 l2].
    + exists k1, (App (Var j) r). split; auto.
    + (* the operator became an abstraction: contract and continue with a shorter head reduction *)
      assert (R : red (App l r) (App (Abs b2) r)) by (eapply iter_red; [apply step_hsp_sound|exact L1]).
      destruct (HL_red _ _ _ R H) as (n1 & Ln1 & Hn1).
      pose proof (HL_inv _ _ Hn1) as Inv. simpl in Inv. destruct Inv as (m1 & -> & Hm1).
      destruct (IHn m1 ltac:(lia) _ Hm1) as (k2 & u & I2 & S2).
      exists (k1 + S k2), u. split; auto.
      eapply iter_plus; [exact L1|]. simpl. simpl in S1. rewrite S1. exact I2.
    + exists k1, (App (App l1 l2) r). split; auto.
      change (step_hsp (App (App l1 l2) r)) with
        (match step_hsp (App l1 l2) with Some l' => Some (App l' r) | None => None end). rewrite S1. reflexivity.
Qed.

Theorem hsp_normalises t h : red t h -> hnfb h = true -> exists k u, iter step_hsp k t = Some u /\ step_hsp u = None.
Proof. intros R N. destruct (head_normalization _ _ R N) as [n H]. eapply hsp_terminates; eauto. Qed.

(** ** HNO *)
Lemma red_var_inv i v : red (Var i) v -> v = Var i.
Proof. intros H. inversion H; subst; auto. inversion H0. Qed.

Lemma red_abs_inv : forall t v, red t v -> forall b, t = Abs b -> exists v', v = Abs v' /\ red b v'.
Proof.
  induction 1 as [x|x y z S R IH]; intros b E; subst.
  - exists b. split; auto. constructor.
  - inversion S; subst. destruct (IH _ eq_refl) as (v' & -> & R'). exists v'. split; auto. econstructor; eauto.
Qed.

Lemma step_neutral t u : step t u -> neutralb t = true -> neutralb u = true.
Proof. intros S. apply par_neutral. apply step_par. auto. Qed.

Lemma red_neutral_app : forall t v, red t v -> forall l r, t = App l r -> neutralb l = true ->
  exists vl vr, v = App vl vr /\ red l vl /\ red r vr /\ neutralb vl = true.
Proof.
  induction 1 as [x|x y z S R IH]; intros l r E N; subst.
  - exists l, r. repeat split; auto; constructor.
  - inversion S; subst.
    + discriminate.
    + destruct (IH _ _ eq_refl (step_neutral _ _ H2 N)) as (vl & vr & -> & Rl & Rr & Nl).
      exists vl, vr. repeat split; auto. econstructor; eauto.
    + destruct (IH _ _ eq_refl N) as (vl & vr & -> & Rl & Rr & Nl).
      exists vl, vr. repeat split; auto. econstructor; eauto.
Qed.

Lemma hnf_of_nf' t : nfb t = true -> hnfb t = true.
Proof. apply hnf_of_nf. Qed.

Lemma hnf_not_abs_neutral t : hnfb t = true -> is_abs t = false -> neutralb t = true.
Proof. destruct t; simpl; auto; discriminate. Qed.

(** a step of HNO on a term that is stuck for HSP keeps it stuck for HSP and keeps its shape *)
Lemma hno_keeps_hsp_stuck x y : step_hsp x = None -> step_hno x = Some y -> step_hsp y = None /\ is_abs y = is_abs x.
Proof.
  intros H1 H2. change step_hsp with (step_of HSP) in *. change step_hno with (step_of HNO) in H2.
  rewrite <- !step_g_spec in *. apply (compat_hsp_hno x y H1 H2).
Qed.

Lemma step_hno_app l r : step_hno (App l r) =
  match step_hsp l with
  | Some l' => Some (App l' r)
  | None => match l with
            | Abs b => Some (subst 1 r b)
            | _ => match step_hno l with Some l' => Some (App l' r) | None => option_map (App l) (step_hno r) end
            end
  end.
Proof. reflexivity. Qed.

Lemma step_hno_app_stuck l r : step_hsp l = None -> is_abs l = false ->
  step_hno (App l r) = match step_hno l with Some l' => Some (App l' r) | None => option_map (App l) (step_hno r) end.
Proof. intros S A. rewrite step_hno_app, S. destruct l; try discriminate; reflexivity. Qed.

Lemma hno_lift_neutral : forall k l l' r, step_hsp l = None -> is_abs l = false ->
  iter step_hno k l = Some l' -> iter step_hno k (App l r) = Some (App l' r).
Proof.
  induction k; intros l l' r S A H; cbn [iter] in *.
  - congruence.
  - destruct (step_hno l) as [x|] eqn:E; [|discriminate].
    destruct (hno_keeps_hsp_stuck _ _ S E) as [S' A'].
    rewrite (step_hno_app_stuck l r S A), E. apply IHk; auto. congruence.
Qed.

Lemma hno_lift_arg : forall k l r r', nfb l = true -> is_abs l = false ->
  iter step_hno k r = Some r' -> iter step_hno k (App l r) = Some (App l r').
Proof.
  induction k; intros l r r' N A H; cbn [iter] in *.
  - congruence.
  - destruct (step_hno r) as [x|] eqn:E; [|discriminate].
    assert (S1 : step_hsp l = None) by (apply (proj2 (stuck_nf HSP l)); apply hnf_of_nf; auto).
    assert (S2 : step_hno l = None) by (apply (proj2 (stuck_nf HNO l)); auto).
    rewrite (step_hno_app_stuck l r S1 A), S2, E. cbn [option_map]. apply IHk; auto.
Qed.

Theorem hno_normalises_aux : forall s v, size v <= s -> nfb v = true ->
  forall n t, HL t n -> red t v -> exists k, iter step_hno k t = Some v.
Proof.
  induction s as [|s IHs]; intros v Hs N; [destruct v; simpl in Hs; lia|].
  induction n as [n IHn] using lt_wf_ind. intros t H R.
  destruct t as [i|b|l r].
  - apply red_var_inv in R. subst. exists 0. reflexivity.
  - destruct (red_abs_inv _ _ R b eq_refl) as (v' & -> & R').
    simpl in Hs, N. destruct (head_normalization _ _ R' (hnf_of_nf _ N)) as [n' H'].
    destruct (IHs v' ltac:(lia) N n' b H' R') as [k I]. exists k. apply hno_lift_abs; auto.
  - destruct (HL_app _ _ _ H) as (m & Lm & Hm).
    destruct (hsp_terminates _ _ Hm) as (k1 & l' & I1 & S1).
    pose proof (hno_lift_hsp _ _ _ r I1) as L1.
    assert (R1 : red (App l r) (App l' r)) by (eapply iter_red; [apply step_hno_sound|exact L1]).
    assert (R2 : red (App l' r) v) by (eapply nf_stable; eauto; apply nfb_nf; auto).
    destruct (is_abs l') eqn:A.
    + destruct l' as [|b2|]; try discriminate.
      destruct (HL_red _ _ _ R1 H) as (n1 & Ln1 & Hn1).
      pose proof (HL_inv _ _ Hn1) as Inv. simpl in Inv. destruct Inv as (m1 & -> & Hm1).
      assert (R3 : red (subst 1 r b2) v).
      { eapply nf_stable; [|exact R2|apply nfb_nf; auto]. apply star_one. constructor. }
      destruct (IHn m1 ltac:(lia) _ Hm1 R3) as [k2 I2].
      exists (k1 + S k2). eapply iter_plus; [exact L1|]. simpl. simpl in S1. rewrite S1. exact I2.
    + assert (Nl : neutralb l' = true).
      { apply hnf_not_abs_neutral; auto. apply (proj1 (stuck_nf HSP l')). exact S1. }
      destruct (red_neutral_app _ _ R2 l' r eq_refl Nl) as (vl & vr & -> & Rl & Rr & Nvl).
      simpl in Hs. apply nfb_app in N. destruct N as (Avl & Nvl' & Nvr).
      destruct (head_normalization _ _ Rl (hnf_of_nf _ Nvl')) as [nl Hl].
      destruct (IHs vl ltac:(lia) Nvl' nl l' Hl Rl) as [k2 I2].
      destruct (head_normalization _ _ Rr (hnf_of_nf _ Nvr)) as [nr Hr].
      destruct (IHs vr ltac:(lia) Nvr nr r Hr Rr) as [k3 I3].
      exists (k1 + (k2 + k3)). eapply iter_plus; [exact L1|].
      eapply iter_plus; [apply hno_lift_neutral; eauto|]. apply hno_lift_arg; auto.
Qed.

Theorem hno_normalises t v : red t v -> nfb v = true -> exists k, iter step_hno k t = Some v.
Proof.
  intros R N. destruct (head_normalization _ _ R (hnf_of_nf _ N)) as [n H].
  eapply hno_normalises_aux; eauto.
Qed.
