
(** val negb : bool -> bool **)

let negb = function
| true -> false
| false -> true

type nat =
| O
| S of nat

(** val option_map : ('a1 -> 'a2) -> 'a1 option -> 'a2 option **)

let option_map f = function
| Some a -> Some (f a)
| None -> None

type ('a, 'b) sum =
| Inl of 'a
| Inr of 'b

(** val fst : ('a1 * 'a2) -> 'a1 **)

let fst = function
| (x, _) -> x

(** val snd : ('a1 * 'a2) -> 'a2 **)

let snd = function
| (_, y) -> y

(** val length : 'a1 list -> nat **)

let rec length = function
| [] -> O
| _ :: l' -> S (length l')

(** val app : 'a1 list -> 'a1 list -> 'a1 list **)

let rec app l m =
  match l with
  | [] -> m
  | a :: l1 -> a :: (app l1 m)

type comparison =
| Eq
| Lt
| Gt

(** val add : nat -> nat -> nat **)

let rec add n0 m =
  match n0 with
  | O -> m
  | S p -> S (add p m)

(** val mul : nat -> nat -> nat **)

let rec mul n0 m =
  match n0 with
  | O -> O
  | S p -> add m (mul p m)

(** val sub : nat -> nat -> nat **)

let rec sub n0 m =
  match n0 with
  | O -> n0
  | S k -> (match m with
            | O -> n0
            | S l -> sub k l)

(** val max : nat -> nat -> nat **)

let rec max n0 m =
  match n0 with
  | O -> m
  | S n' -> (match m with
             | O -> n0
             | S m' -> S (max n' m'))

module Nat =
 struct
  (** val sub : nat -> nat -> nat **)

  let rec sub n0 m =
    match n0 with
    | O -> n0
    | S k -> (match m with
              | O -> n0
              | S l -> sub k l)

  (** val eqb : nat -> nat -> bool **)

  let rec eqb n0 m =
    match n0 with
    | O -> (match m with
            | O -> true
            | S _ -> false)
    | S n' -> (match m with
               | O -> false
               | S m' -> eqb n' m')

  (** val leb : nat -> nat -> bool **)

  let rec leb n0 m =
    match n0 with
    | O -> true
    | S n' -> (match m with
               | O -> false
               | S m' -> leb n' m')

  (** val ltb : nat -> nat -> bool **)

  let ltb n0 m =
    leb (S n0) m

  (** val compare : nat -> nat -> comparison **)

  let rec compare n0 m =
    match n0 with
    | O -> (match m with
            | O -> Eq
            | S _ -> Lt)
    | S n' -> (match m with
               | O -> Gt
               | S m' -> compare n' m')

  (** val max : nat -> nat -> nat **)

  let rec max n0 m =
    match n0 with
    | O -> m
    | S n' -> (match m with
               | O -> n0
               | S m' -> S (max n' m'))

  (** val even : nat -> bool **)

  let rec even = function
  | O -> true
  | S n1 -> (match n1 with
             | O -> false
             | S n' -> even n')

  (** val odd : nat -> bool **)

  let odd n0 =
    negb (even n0)

  (** val divmod : nat -> nat -> nat -> nat -> nat * nat **)

  let rec divmod x y q u =
    match x with
    | O -> (q, u)
    | S x' ->
      (match u with
       | O -> divmod x' y (S q) y
       | S u' -> divmod x' y q u')

  (** val div : nat -> nat -> nat **)

  let div x y = match y with
  | O -> y
  | S y' -> fst (divmod x y' O y')

  (** val modulo : nat -> nat -> nat **)

  let modulo x = function
  | O -> x
  | S y' -> sub y' (snd (divmod x y' O y'))
 end

(** val tl : 'a1 list -> 'a1 list **)

let tl = function
| [] -> []
| _ :: m -> m

(** val rev : 'a1 list -> 'a1 list **)

let rec rev = function
| [] -> []
| x :: l' -> app (rev l') (x :: [])

(** val map : ('a1 -> 'a2) -> 'a1 list -> 'a2 list **)

let rec map f = function
| [] -> []
| a :: t -> (f a) :: (map f t)

(** val flat_map : ('a1 -> 'a2 list) -> 'a1 list -> 'a2 list **)

let rec flat_map f = function
| [] -> []
| x :: t -> app (f x) (flat_map f t)

(** val fold_left : ('a1 -> 'a2 -> 'a1) -> 'a2 list -> 'a1 -> 'a1 **)

let rec fold_left f l a0 =
  match l with
  | [] -> a0
  | b :: t -> fold_left f t (f a0 b)

(** val fold_right : ('a2 -> 'a1 -> 'a1) -> 'a1 -> 'a2 list -> 'a1 **)

let rec fold_right f a0 = function
| [] -> a0
| b :: t -> f b (fold_right f a0 t)

(** val existsb : ('a1 -> bool) -> 'a1 list -> bool **)

let rec existsb f = function
| [] -> false
| a :: l0 -> (||) (f a) (existsb f l0)

(** val forallb : ('a1 -> bool) -> 'a1 list -> bool **)

let rec forallb f = function
| [] -> true
| a :: l0 -> (&&) (f a) (forallb f l0)

(** val filter : ('a1 -> bool) -> 'a1 list -> 'a1 list **)

let rec filter f = function
| [] -> []
| x :: l0 -> if f x then x :: (filter f l0) else filter f l0

(** val firstn : nat -> 'a1 list -> 'a1 list **)

let rec firstn n0 l =
  match n0 with
  | O -> []
  | S n1 -> (match l with
             | [] -> []
             | a :: l0 -> a :: (firstn n1 l0))

(** val list_max : nat list -> nat **)

let list_max l =
  fold_right max O l

type positive =
| XI of positive
| XO of positive
| XH

type n =
| N0
| Npos of positive

module Pos =
 struct
  (** val succ : positive -> positive **)

  let rec succ = function
  | XI p -> XO (succ p)
  | XO p -> XI p
  | XH -> XO XH

  (** val eqb : positive -> positive -> bool **)

  let rec eqb p q =
    match p with
    | XI p0 -> (match q with
                | XI q0 -> eqb p0 q0
                | _ -> false)
    | XO p0 -> (match q with
                | XO q0 -> eqb p0 q0
                | _ -> false)
    | XH -> (match q with
             | XH -> true
             | _ -> false)

  (** val iter_op : ('a1 -> 'a1 -> 'a1) -> positive -> 'a1 -> 'a1 **)

  let rec iter_op op p a =
    match p with
    | XI p0 -> op a (iter_op op p0 (op a a))
    | XO p0 -> iter_op op p0 (op a a)
    | XH -> a

  (** val to_nat : positive -> nat **)

  let to_nat x =
    iter_op add x (S O)

  (** val of_succ_nat : nat -> positive **)

  let rec of_succ_nat = function
  | O -> XH
  | S x -> succ (of_succ_nat x)
 end

module N =
 struct
  (** val succ_double : n -> n **)

  let succ_double = function
  | N0 -> Npos XH
  | Npos p -> Npos (XI p)

  (** val double : n -> n **)

  let double = function
  | N0 -> N0
  | Npos p -> Npos (XO p)

  (** val eqb : n -> n -> bool **)

  let eqb n0 m =
    match n0 with
    | N0 -> (match m with
             | N0 -> true
             | Npos _ -> false)
    | Npos p -> (match m with
                 | N0 -> false
                 | Npos q -> Pos.eqb p q)

  (** val to_nat : n -> nat **)

  let to_nat = function
  | N0 -> O
  | Npos p -> Pos.to_nat p

  (** val of_nat : nat -> n **)

  let of_nat = function
  | O -> N0
  | S n' -> Npos (Pos.of_succ_nat n')
 end

type term =
| Var of nat
| Abs of term
| App of term * term

(** val size : term -> nat **)

let rec size = function
| Var _ -> S O
| Abs b -> S (size b)
| App (l, r0) -> S (add (size l) (size r0))

(** val is_abs : term -> bool **)

let is_abs = function
| Abs _ -> true
| _ -> false

(** val term_eqb : term -> term -> bool **)

let rec term_eqb t u =
  match t with
  | Var i -> (match u with
              | Var j -> Nat.eqb i j
              | _ -> false)
  | Abs a -> (match u with
              | Abs b -> term_eqb a b
              | _ -> false)
  | App (a, b) ->
    (match u with
     | App (c, d) -> (&&) (term_eqb a c) (term_eqb b d)
     | _ -> false)

(** val shift : nat -> nat -> term -> term **)

let rec shift d c = function
| Var i -> if Nat.ltb c i then Var (add i d) else Var i
| Abs b -> Abs (shift d (S c) b)
| App (l, r0) -> App ((shift d c l), (shift d c r0))

(** val subst : nat -> term -> term -> term **)

let rec subst k a = function
| Var i ->
  (match Nat.compare i k with
   | Eq -> shift (sub k (S O)) O a
   | Lt -> Var i
   | Gt -> Var (sub i (S O)))
| Abs b -> Abs (subst (S k) a b)
| App (l, r0) -> App ((subst k a l), (subst k a r0))

(** val up : (nat -> term) -> nat -> term **)

let up s = function
| O -> Var O
| S j -> (match j with
          | O -> Var (S O)
          | S _ -> shift (S O) O (s j))

(** val inst : (nat -> term) -> term -> term **)

let rec inst s = function
| Var i -> (match i with
            | O -> Var O
            | S _ -> s i)
| Abs b -> Abs (inst (up s) b)
| App (l, r0) -> App ((inst s l), (inst s r0))

(** val beta_sub : term -> nat -> term **)

let beta_sub a = function
| O -> Var O
| S j -> (match j with
          | O -> a
          | S _ -> Var j)

(** val neutralb : term -> bool **)

let rec neutralb = function
| Var _ -> true
| Abs _ -> false
| App (l, _) -> neutralb l

(** val nfb : term -> bool **)

let rec nfb = function
| Var _ -> true
| Abs b -> nfb b
| App (l, r0) -> (&&) ((&&) (negb (is_abs l)) (nfb l)) (nfb r0)

(** val whnfb : term -> bool **)

let whnfb t =
  (||) (is_abs t) (neutralb t)

(** val wnfb : term -> bool **)

let rec wnfb = function
| App (l, r0) -> (&&) ((&&) (negb (is_abs l)) (wnfb l)) (wnfb r0)
| _ -> true

(** val hnfb : term -> bool **)

let rec hnfb = function
| Var _ -> true
| Abs b -> hnfb b
| App (l, _) -> neutralb l

(** val fv_at : nat -> term -> nat list **)

let rec fv_at d = function
| Var i -> if Nat.ltb d i then (sub i d) :: [] else []
| Abs b -> fv_at (S d) b
| App (l, r0) -> app (fv_at d l) (fv_at d r0)

(** val fv : term -> nat list **)

let fv t =
  fv_at O t

(** val has_ud : term -> bool **)

let rec has_ud = function
| Var i -> Nat.eqb i O
| Abs b -> has_ud b
| App (l, r0) -> (||) (has_ud l) (has_ud r0)

(** val closed_at : nat -> term -> bool **)

let rec closed_at d = function
| Var i -> Nat.leb i d
| Abs b -> closed_at (S d) b
| App (l, r0) -> (&&) (closed_at d l) (closed_at d r0)

(** val closed : term -> bool **)

let closed t =
  closed_at O t

type order =
| NOR
| CBN
| HSP
| HNO
| APP
| CBV
| HAP

(** val step_cbn : term -> term option **)

let rec step_cbn = function
| App (l, r0) ->
  (match step_cbn l with
   | Some l' -> Some (App (l', r0))
   | None -> (match l with
              | Abs b -> Some (subst (S O) r0 b)
              | _ -> None))
| _ -> None

(** val step_nor : term -> term option **)

let rec step_nor = function
| Var _ -> None
| Abs b -> option_map (fun x -> Abs x) (step_nor b)
| App (l, r0) ->
  (match step_cbn l with
   | Some l' -> Some (App (l', r0))
   | None ->
     (match l with
      | Abs b -> Some (subst (S O) r0 b)
      | _ ->
        (match step_nor l with
         | Some l' -> Some (App (l', r0))
         | None -> option_map (fun x -> App (l, x)) (step_nor r0))))

(** val step_cbv : term -> term option **)

let rec step_cbv = function
| App (l, r0) ->
  (match step_cbv l with
   | Some l' -> Some (App (l', r0))
   | None ->
     (match step_cbv r0 with
      | Some r' -> Some (App (l, r'))
      | None -> (match l with
                 | Abs b -> Some (subst (S O) r0 b)
                 | _ -> None)))
| _ -> None

(** val step_app : term -> term option **)

let rec step_app = function
| Var _ -> None
| Abs b -> option_map (fun x -> Abs x) (step_app b)
| App (l, r0) ->
  (match step_app l with
   | Some l' -> Some (App (l', r0))
   | None ->
     (match step_app r0 with
      | Some r' -> Some (App (l, r'))
      | None -> (match l with
                 | Abs b -> Some (subst (S O) r0 b)
                 | _ -> None)))

(** val step_hsp : term -> term option **)

let rec step_hsp = function
| Var _ -> None
| Abs b -> option_map (fun x -> Abs x) (step_hsp b)
| App (l, r0) ->
  (match step_hsp l with
   | Some l' -> Some (App (l', r0))
   | None -> (match l with
              | Abs b -> Some (subst (S O) r0 b)
              | _ -> None))

(** val step_hno : term -> term option **)

let rec step_hno = function
| Var _ -> None
| Abs b -> option_map (fun x -> Abs x) (step_hno b)
| App (l, r0) ->
  (match step_hsp l with
   | Some l' -> Some (App (l', r0))
   | None ->
     (match l with
      | Abs b -> Some (subst (S O) r0 b)
      | _ ->
        (match step_hno l with
         | Some l' -> Some (App (l', r0))
         | None -> option_map (fun x -> App (l, x)) (step_hno r0))))

(** val step_hap : term -> term option **)

let rec step_hap = function
| Var _ -> None
| Abs b -> option_map (fun x -> Abs x) (step_hap b)
| App (l, r0) ->
  (match step_cbv l with
   | Some l' -> Some (App (l', r0))
   | None ->
     (match step_hap r0 with
      | Some r' -> Some (App (l, r'))
      | None ->
        (match l with
         | Abs b -> Some (subst (S O) r0 b)
         | _ -> option_map (fun l' -> App (l', r0)) (step_hap l))))

(** val step_of : order -> term -> term option **)

let step_of = function
| NOR -> step_nor
| CBN -> step_cbn
| HSP -> step_hsp
| HNO -> step_hno
| APP -> step_app
| CBV -> step_cbv
| HAP -> step_hap

(** val nf_of : order -> term -> bool **)

let nf_of = function
| CBN -> whnfb
| HSP -> hnfb
| CBV -> wnfb
| _ -> nfb

(** val iter : (term -> term option) -> nat -> term -> term option **)

let rec iter f n0 t =
  match n0 with
  | O -> Some t
  | S m -> (match f t with
            | Some u -> iter f m u
            | None -> None)

type dir =
| DL
| DR
| DB

type path = dir list

(** val is_redex : term -> bool **)

let is_redex = function
| App (l, _) -> (match l with
                 | Abs _ -> true
                 | _ -> false)
| _ -> false

(** val redexes_pre : term -> path list **)

let rec redexes_pre t =
  app (if is_redex t then [] :: [] else [])
    (match t with
     | Var _ -> []
     | Abs b -> map (fun x -> DB :: x) (redexes_pre b)
     | App (l, r0) ->
       app (map (fun x -> DL :: x) (redexes_pre l))
         (map (fun x -> DR :: x) (redexes_pre r0)))

(** val redexes_post : term -> path list **)

let rec redexes_post t =
  app
    (match t with
     | Var _ -> []
     | Abs b -> map (fun x -> DB :: x) (redexes_post b)
     | App (l, r0) ->
       app (map (fun x -> DL :: x) (redexes_post l))
         (map (fun x -> DR :: x) (redexes_post r0)))
    (if is_redex t then [] :: [] else [])

(** val contract_at : path -> term -> term option **)

let rec contract_at p t =
  match p with
  | [] ->
    (match t with
     | App (l, a) ->
       (match l with
        | Abs b -> Some (subst (S O) a b)
        | _ -> None)
     | _ -> None)
  | d :: p' ->
    (match d with
     | DL ->
       (match t with
        | App (l, r0) ->
          option_map (fun l' -> App (l', r0)) (contract_at p' l)
        | _ -> None)
     | DR ->
       (match t with
        | App (l, r0) ->
          option_map (fun r' -> App (l, r')) (contract_at p' r0)
        | _ -> None)
     | DB ->
       (match t with
        | Abs b -> option_map (fun x -> Abs x) (contract_at p' b)
        | _ -> None))

(** val under_abs : path -> bool **)

let under_abs p =
  existsb (fun d -> match d with
                    | DB -> true
                    | _ -> false) p

(** val head_path : path -> bool **)

let head_path p =
  forallb (fun d -> match d with
                    | DL -> true
                    | _ -> false) p

(** val spine_path : path -> bool **)

let spine_path p =
  forallb (fun d -> match d with
                    | DR -> false
                    | _ -> true) p

(** val first_path : path list -> path option **)

let first_path = function
| [] -> None
| p :: _ -> Some p

(** val pos_select : order -> term -> path option **)

let pos_select o t =
  match o with
  | NOR -> first_path (redexes_pre t)
  | CBN ->
    (match first_path (redexes_pre t) with
     | Some p -> if head_path p then Some p else None
     | None -> None)
  | APP -> first_path (redexes_post t)
  | CBV -> first_path (filter (fun p -> negb (under_abs p)) (redexes_post t))
  | _ -> None

(** val pos_step : order -> term -> term option **)

let pos_step o t =
  match pos_select o t with
  | Some p -> contract_at p t
  | None -> None

(** val reducts : term -> term list **)

let reducts t =
  flat_map (fun p ->
    match contract_at p t with
    | Some u -> u :: []
    | None -> []) (redexes_pre t)

(** val spine_reducts : term -> term list **)

let spine_reducts t =
  flat_map (fun p ->
    match contract_at p t with
    | Some u -> u :: []
    | None -> []) (filter spine_path (redexes_pre t))

(** val has_fv_spec : term -> bool **)

let has_fv_spec t =
  (||) (negb (closed t)) (has_ud t)

(** val strip : term -> term **)

let rec strip t = match t with
| Abs b -> strip b
| _ -> t

(** val leaf_depths : nat -> term -> nat list **)

let rec leaf_depths d = function
| Var _ -> d :: []
| Abs b -> leaf_depths (S d) b
| App (l, r0) -> app (leaf_depths d l) (leaf_depths d r0)

(** val max_depth_spec : term -> nat **)

let max_depth_spec t =
  list_max (leaf_depths O t)

(** val supercombb : nat -> term -> bool **)

let rec supercombb fuel t =
  match fuel with
  | O -> false
  | S f ->
    (&&) (closed t)
      (let rec aa e = match e with
       | Var _ -> true
       | Abs _ -> supercombb f e
       | App (l, r0) -> (&&) (aa l) (aa r0)
       in aa (strip t))

type cchar = { code : n; is_alphabetic : bool; is_alphanumeric : bool;
               is_whitespace : bool; to_digit16 : nat option }

(** val c_backslash : n **)

let c_backslash =
  Npos (XO (XO (XI (XI (XI (XO XH))))))

(** val c_lambda : n **)

let c_lambda =
  Npos (XI (XI (XO (XI (XI (XI (XO (XI (XI XH)))))))))

(** val c_lparen : n **)

let c_lparen =
  Npos (XO (XO (XO (XI (XO XH)))))

(** val c_rparen : n **)

let c_rparen =
  Npos (XI (XO (XO (XI (XO XH)))))

(** val c_dot : n **)

let c_dot =
  Npos (XO (XI (XI (XI (XO XH)))))

(** val is_char : n -> cchar -> bool **)

let is_char n0 c =
  N.eqb c.code n0

(** val is_lambda_glyph : cchar -> bool **)

let is_lambda_glyph c =
  (||) (is_char c_backslash c) (is_char c_lambda c)

type name = n list

(** val name_eqb : name -> name -> bool **)

let rec name_eqb a b =
  match a with
  | [] -> (match b with
           | [] -> true
           | _ :: _ -> false)
  | x :: a' ->
    (match b with
     | [] -> false
     | y :: b' -> (&&) (N.eqb x y) (name_eqb a' b'))

type token =
| Lambda
| Lparen
| Rparen
| Number of nat

type atok =
| TLam of name
| TLp
| TRp
| TIdx of nat
| TName of name

type lex_result =
| LexOk of atok list
| LexBadStart of nat * n
| LexBad

(** val lex_dbr : nat -> cchar list -> lex_result **)

let rec lex_dbr i = function
| [] -> LexOk []
| c :: r0 ->
  let k = fun t ->
    match lex_dbr (S i) r0 with
    | LexOk ts -> LexOk (app t ts)
    | x -> x
  in
  if is_lambda_glyph c
  then k ((TLam []) :: [])
  else if is_char c_lparen c
       then k (TLp :: [])
       else if is_char c_rparen c
            then k (TRp :: [])
            else (match c.to_digit16 with
                  | Some n0 -> k ((TIdx n0) :: [])
                  | None ->
                    if c.is_whitespace then k [] else LexBadStart (i, c.code))

type lstate =
| LTop
| LBinder0
| LBinder of name
| LName of name

(** val lex_cla : lstate -> nat -> cchar list -> lex_result **)

let rec lex_cla st i = function
| [] ->
  (match st with
   | LTop -> LexOk []
   | LBinder0 -> LexOk ((TLam []) :: [])
   | LBinder nm -> LexOk ((TLam nm) :: [])
   | LName nm -> LexOk ((TName nm) :: []))
| c :: r0 ->
  let push = fun t res ->
    match res with
    | LexOk ts -> LexOk (t :: ts)
    | _ -> res
  in
  let top = fun _ ->
    if is_lambda_glyph c
    then lex_cla LBinder0 (S i) r0
    else if is_char c_lparen c
         then push TLp (lex_cla LTop (S i) r0)
         else if is_char c_rparen c
              then push TRp (lex_cla LTop (S i) r0)
              else if c.is_whitespace
                   then lex_cla LTop (S i) r0
                   else if c.is_alphabetic
                        then lex_cla (LName (c.code :: [])) (S i) r0
                        else LexBadStart (i, c.code)
  in
  (match st with
   | LTop -> top ()
   | LBinder0 ->
     if c.is_alphabetic
     then lex_cla (LBinder (c.code :: [])) (S i) r0
     else LexBad
   | LBinder nm ->
     if is_char c_dot c
     then push (TLam nm) (lex_cla LTop (S i) r0)
     else if c.is_alphanumeric
          then lex_cla (LBinder (app nm (c.code :: []))) (S i) r0
          else LexBad
   | LName nm ->
     if c.is_alphanumeric
     then lex_cla (LName (app nm (c.code :: []))) (S i) r0
     else push (TName nm) (top ()))

(** val index_of : name -> name list -> nat option **)

let rec index_of nm = function
| [] -> None
| x :: r0 ->
  if name_eqb x nm
  then Some O
  else option_map (fun x0 -> S x0) (index_of nm r0)

(** val res_group :
    nat -> name list -> name list -> atok list -> (token list * atok
    list) * name list **)

let rec res_group fuel env frees toks =
  match fuel with
  | O -> (([], toks), frees)
  | S f ->
    (match toks with
     | [] -> (([], []), frees)
     | a :: r0 ->
       (match a with
        | TLam b ->
          let (p, fr) = res_group f (b :: env) frees r0 in
          let (o, rest) = p in (((Lambda :: o), rest), fr)
        | TLp ->
          let (p, fr1) = res_group f env frees r0 in
          let (o1, rest1) = p in
          let (p0, fr2) = res_group f env fr1 (tl rest1) in
          let (o2, rest2) = p0 in (((Lparen :: (app o1 o2)), rest2), fr2)
        | TRp -> (((Rparen :: []), toks), frees)
        | TIdx n0 ->
          let (p, fr) = res_group f env frees r0 in
          let (o, rest) = p in ((((Number n0) :: o), rest), fr)
        | TName s ->
          (match index_of s env with
           | Some i ->
             let (p, fr) = res_group f env frees r0 in
             let (o, rest) = p in ((((Number (S i)) :: o), rest), fr)
           | None ->
             let frees' =
               match index_of s frees with
               | Some _ -> frees
               | None -> app frees (s :: [])
             in
             let j = match index_of s frees' with
                     | Some j -> j
                     | None -> O in
             let (p, fr) = res_group f env frees' r0 in
             let (o, rest) = p in
             ((((Number (add (add (length env) j) (S O))) :: o), rest), fr))))

(** val resolve : atok list -> token list **)

let resolve toks =
  let (p, _) = res_group (S (length toks)) [] [] toks in let (o, _) = p in o

(** val apps : term list -> term option **)

let apps = function
| [] -> None
| t :: r0 -> Some (fold_left (fun x x0 -> App (x, x0)) r0 t)

(** val rgroup : nat -> token list -> (term * token list) option **)

let rec rgroup fuel toks =
  match fuel with
  | O -> None
  | S f ->
    let ratoms =
      let rec ratoms fuel2 toks0 =
        match fuel2 with
        | O -> None
        | S f2 ->
          (match toks0 with
           | [] -> Some ([], toks0)
           | t :: r0 ->
             (match t with
              | Lambda -> Some ([], toks0)
              | Lparen ->
                (match rgroup f r0 with
                 | Some p ->
                   let (t0, l) = p in
                   (match l with
                    | [] -> None
                    | t1 :: r' ->
                      (match t1 with
                       | Rparen ->
                         (match ratoms f2 r' with
                          | Some p0 ->
                            let (ts, r'') = p0 in Some ((t0 :: ts), r'')
                          | None -> None)
                       | Number _ -> None
                       | _ -> None))
                 | None -> None)
              | Rparen -> Some ([], toks0)
              | Number n0 ->
                (match ratoms f2 r0 with
                 | Some p -> let (ts, r') = p in Some (((Var n0) :: ts), r')
                 | None -> None)))
      in ratoms
    in
    (match ratoms fuel toks with
     | Some p ->
       let (atoms, rest) = p in
       (match rest with
        | [] ->
          (match apps atoms with
           | Some t -> Some (t, rest)
           | None -> None)
        | t :: rest' ->
          (match t with
           | Lambda ->
             (match rgroup f rest' with
              | Some p0 ->
                let (body, rest'') = p0 in
                (match apps (app atoms ((Abs body) :: [])) with
                 | Some t0 -> Some (t0, rest'')
                 | None -> None)
              | None -> None)
           | _ ->
             (match apps atoms with
              | Some t0 -> Some (t0, rest)
              | None -> None)))
     | None -> None)

(** val idx_tokens : atok list -> token list **)

let idx_tokens ts =
  map (fun t ->
    match t with
    | TLam _ -> Lambda
    | TLp -> Lparen
    | TRp -> Rparen
    | TIdx n0 -> Number n0
    | TName _ -> Number O) ts

(** val rparse : token list -> term option **)

let rparse toks =
  match rgroup (S (length toks)) toks with
  | Some p -> let (t, l) = p in (match l with
                                 | [] -> Some t
                                 | _ :: _ -> None)
  | None -> None

type ref_result =
| RefOk of term
| RefBadStart of nat * n
| RefErr

(** val ref_parse : bool -> cchar list -> ref_result **)

let ref_parse classic s =
  match if classic then lex_cla LTop O s else lex_dbr O s with
  | LexOk ts ->
    (match rparse (if classic then resolve ts else idx_tokens ts) with
     | Some t -> RefOk t
     | None -> RefErr)
  | LexBadStart (i, c) -> RefBadStart (i, c)
  | LexBad -> RefErr

type str = n list

(** val b26_fuel : nat -> nat -> str **)

let rec b26_fuel fuel n0 =
  match fuel with
  | O -> []
  | S f ->
    if Nat.ltb n0 (S (S (S (S (S (S (S (S (S (S (S (S (S (S (S (S (S (S (S (S
         (S (S (S (S (S (S O))))))))))))))))))))))))))
    then (N.of_nat
           (add (S (S (S (S (S (S (S (S (S (S (S (S (S (S (S (S (S (S (S (S
             (S (S (S (S (S (S (S (S (S (S (S (S (S (S (S (S (S (S (S (S (S
             (S (S (S (S (S (S (S (S (S (S (S (S (S (S (S (S (S (S (S (S (S
             (S (S (S (S (S (S (S (S (S (S (S (S (S (S (S (S (S (S (S (S (S
             (S (S (S (S (S (S (S (S (S (S (S (S (S (S
             O)))))))))))))))))))))))))))))))))))))))))))))))))))))))))))))))))))))))))))))))))))))))))))))))))
             n0)) :: []
    else app
           (b26_fuel f
             (sub
               (Nat.div n0 (S (S (S (S (S (S (S (S (S (S (S (S (S (S (S (S (S
                 (S (S (S (S (S (S (S (S (S O))))))))))))))))))))))))))) (S
               O)))
           ((N.of_nat
              (add (S (S (S (S (S (S (S (S (S (S (S (S (S (S (S (S (S (S (S
                (S (S (S (S (S (S (S (S (S (S (S (S (S (S (S (S (S (S (S (S
                (S (S (S (S (S (S (S (S (S (S (S (S (S (S (S (S (S (S (S (S
                (S (S (S (S (S (S (S (S (S (S (S (S (S (S (S (S (S (S (S (S
                (S (S (S (S (S (S (S (S (S (S (S (S (S (S (S (S (S (S
                O)))))))))))))))))))))))))))))))))))))))))))))))))))))))))))))))))))))))))))))))))))))))))))))))))
                (Nat.modulo n0 (S (S (S (S (S (S (S (S (S (S (S (S (S (S (S
                  (S (S (S (S (S (S (S (S (S (S (S
                  O))))))))))))))))))))))))))))) :: [])

(** val b26 : nat -> str **)

let b26 n0 =
  b26_fuel (S n0) n0

(** val s_undef : str **)

let s_undef =
  (Npos (XI (XO (XI (XO (XI (XI XH))))))) :: ((Npos (XO (XI (XI (XI (XO (XI
    XH))))))) :: ((Npos (XO (XO (XI (XO (XO (XI XH))))))) :: ((Npos (XI (XO
    (XI (XO (XO (XI XH))))))) :: ((Npos (XO (XI (XI (XO (XO (XI
    XH))))))) :: ((Npos (XI (XO (XO (XI (XO (XI XH))))))) :: ((Npos (XO (XI
    (XI (XI (XO (XI XH))))))) :: ((Npos (XI (XO (XI (XO (XO (XI
    XH))))))) :: ((Npos (XO (XO (XI (XO (XO (XI XH))))))) :: []))))))))

type position =
| Top
| Operator
| Operand

(** val tdepth : term -> nat **)

let rec tdepth = function
| Var _ -> O
| Abs b -> S (tdepth b)
| App (l, r0) -> Nat.max (tdepth l) (tdepth r0)

(** val print_cla : n -> nat -> term -> position -> nat -> str **)

let rec print_cla lam maxd t pos depth =
  match t with
  | Var i ->
    (match i with
     | O -> s_undef
     | S _ ->
       if Nat.leb i depth
       then b26 (sub depth i)
       else b26 (sub (add maxd (sub i depth)) (S O)))
  | Abs b ->
    let s =
      app (lam :: [])
        (app (b26 depth)
          (app ((Npos (XO (XI (XI (XI (XO XH)))))) :: [])
            (print_cla lam maxd b Top (S depth))))
    in
    (match pos with
     | Top -> s
     | _ ->
       app ((Npos (XO (XO (XO (XI (XO XH)))))) :: [])
         (app s ((Npos (XI (XO (XO (XI (XO XH)))))) :: [])))
  | App (l, r0) ->
    let s =
      app (print_cla lam maxd l Operator depth)
        (app ((Npos (XO (XO (XO (XO (XO XH)))))) :: [])
          (print_cla lam maxd r0 Operand depth))
    in
    (match pos with
     | Operand ->
       app ((Npos (XO (XO (XO (XI (XO XH)))))) :: [])
         (app s ((Npos (XI (XO (XO (XI (XO XH)))))) :: []))
     | _ -> s)

(** val ref_print_cla : n -> term -> str **)

let ref_print_cla lam t =
  print_cla lam (tdepth t) t Top O

(** val hexd : nat -> n **)

let hexd d =
  if Nat.ltb d (S (S (S (S (S (S (S (S (S (S O))))))))))
  then N.of_nat
         (add (S (S (S (S (S (S (S (S (S (S (S (S (S (S (S (S (S (S (S (S (S
           (S (S (S (S (S (S (S (S (S (S (S (S (S (S (S (S (S (S (S (S (S (S
           (S (S (S (S (S O)))))))))))))))))))))))))))))))))))))))))))))))) d)
  else N.of_nat
         (add (S (S (S (S (S (S (S (S (S (S (S (S (S (S (S (S (S (S (S (S (S
           (S (S (S (S (S (S (S (S (S (S (S (S (S (S (S (S (S (S (S (S (S (S
           (S (S (S (S (S (S (S (S (S (S (S (S
           O))))))))))))))))))))))))))))))))))))))))))))))))))))))) d)

(** val print_dbr : n -> term -> position -> str **)

let rec print_dbr lam t pos =
  match t with
  | Var i -> (match i with
              | O -> s_undef
              | S _ -> (hexd i) :: [])
  | Abs b ->
    let s = app (lam :: []) (print_dbr lam b Top) in
    (match pos with
     | Top -> s
     | _ ->
       app ((Npos (XO (XO (XO (XI (XO XH)))))) :: [])
         (app s ((Npos (XI (XO (XO (XI (XO XH)))))) :: [])))
  | App (l, r0) ->
    let s = app (print_dbr lam l Operator) (print_dbr lam r0 Operand) in
    (match pos with
     | Operand ->
       app ((Npos (XO (XO (XO (XI (XO XH)))))) :: [])
         (app s ((Npos (XI (XO (XO (XI (XO XH)))))) :: []))
     | _ -> s)

(** val ref_print_dbr : n -> term -> str **)

let ref_print_dbr lam t =
  print_dbr lam t Top

(** val indices_in : nat -> nat -> term -> bool **)

let rec indices_in lo hi = function
| Var i -> (&&) (Nat.leb lo i) (Nat.leb i hi)
| Abs b -> indices_in lo hi b
| App (l, r0) -> (&&) (indices_in lo hi l) (indices_in lo hi r0)

(** val nat_index_of : nat -> nat list -> nat option **)

let rec nat_index_of x = function
| [] -> None
| y :: r0 ->
  if Nat.eqb x y
  then Some O
  else option_map (fun x0 -> S x0) (nat_index_of x r0)

(** val canon_at : nat -> nat list -> term -> term * nat list **)

let rec canon_at d frees = function
| Var i ->
  if Nat.leb i d
  then ((Var i), frees)
  else let lvl = sub i d in
       (match nat_index_of lvl frees with
        | Some j -> ((Var (add (add d j) (S O))), frees)
        | None ->
          ((Var (add (add d (length frees)) (S O))), (app frees (lvl :: []))))
| Abs b -> let (b', f) = canon_at (S d) frees b in ((Abs b'), f)
| App (l, r0) ->
  let (l', f1) = canon_at d frees l in
  let (r', f2) = canon_at d f1 r0 in ((App (l', r')), f2)

(** val canon : term -> term **)

let canon t =
  fst (canon_at O [] t)

(** val classify : n -> cchar **)

let classify c =
  let n0 = N.to_nat c in
  let lower =
    (&&)
      (Nat.leb (S (S (S (S (S (S (S (S (S (S (S (S (S (S (S (S (S (S (S (S (S
        (S (S (S (S (S (S (S (S (S (S (S (S (S (S (S (S (S (S (S (S (S (S (S
        (S (S (S (S (S (S (S (S (S (S (S (S (S (S (S (S (S (S (S (S (S (S (S
        (S (S (S (S (S (S (S (S (S (S (S (S (S (S (S (S (S (S (S (S (S (S (S
        (S (S (S (S (S (S (S
        O)))))))))))))))))))))))))))))))))))))))))))))))))))))))))))))))))))))))))))))))))))))))))))))))))
        n0)
      (Nat.leb n0 (S (S (S (S (S (S (S (S (S (S (S (S (S (S (S (S (S (S (S (S
        (S (S (S (S (S (S (S (S (S (S (S (S (S (S (S (S (S (S (S (S (S (S (S
        (S (S (S (S (S (S (S (S (S (S (S (S (S (S (S (S (S (S (S (S (S (S (S
        (S (S (S (S (S (S (S (S (S (S (S (S (S (S (S (S (S (S (S (S (S (S (S
        (S (S (S (S (S (S (S (S (S (S (S (S (S (S (S (S (S (S (S (S (S (S (S
        (S (S (S (S (S (S (S (S (S (S
        O)))))))))))))))))))))))))))))))))))))))))))))))))))))))))))))))))))))))))))))))))))))))))))))))))))))))))))))))))))))))))))
  in
  let upper =
    (&&)
      (Nat.leb (S (S (S (S (S (S (S (S (S (S (S (S (S (S (S (S (S (S (S (S (S
        (S (S (S (S (S (S (S (S (S (S (S (S (S (S (S (S (S (S (S (S (S (S (S
        (S (S (S (S (S (S (S (S (S (S (S (S (S (S (S (S (S (S (S (S (S
        O))))))))))))))))))))))))))))))))))))))))))))))))))))))))))))))))) n0)
      (Nat.leb n0 (S (S (S (S (S (S (S (S (S (S (S (S (S (S (S (S (S (S (S (S
        (S (S (S (S (S (S (S (S (S (S (S (S (S (S (S (S (S (S (S (S (S (S (S
        (S (S (S (S (S (S (S (S (S (S (S (S (S (S (S (S (S (S (S (S (S (S (S
        (S (S (S (S (S (S (S (S (S (S (S (S (S (S (S (S (S (S (S (S (S (S (S
        (S
        O)))))))))))))))))))))))))))))))))))))))))))))))))))))))))))))))))))))))))))))))))))))))))))
  in
  let digit =
    (&&)
      (Nat.leb (S (S (S (S (S (S (S (S (S (S (S (S (S (S (S (S (S (S (S (S (S
        (S (S (S (S (S (S (S (S (S (S (S (S (S (S (S (S (S (S (S (S (S (S (S
        (S (S (S (S O)))))))))))))))))))))))))))))))))))))))))))))))) n0)
      (Nat.leb n0 (S (S (S (S (S (S (S (S (S (S (S (S (S (S (S (S (S (S (S (S
        (S (S (S (S (S (S (S (S (S (S (S (S (S (S (S (S (S (S (S (S (S (S (S
        (S (S (S (S (S (S (S (S (S (S (S (S (S (S
        O))))))))))))))))))))))))))))))))))))))))))))))))))))))))))
  in
  let greek_lambda =
    Nat.eqb n0 (S (S (S (S (S (S (S (S (S (S (S (S (S (S (S (S (S (S (S (S (S
      (S (S (S (S (S (S (S (S (S (S (S (S (S (S (S (S (S (S (S (S (S (S (S (S
      (S (S (S (S (S (S (S (S (S (S (S (S (S (S (S (S (S (S (S (S (S (S (S (S
      (S (S (S (S (S (S (S (S (S (S (S (S (S (S (S (S (S (S (S (S (S (S (S (S
      (S (S (S (S (S (S (S (S (S (S (S (S (S (S (S (S (S (S (S (S (S (S (S (S
      (S (S (S (S (S (S (S (S (S (S (S (S (S (S (S (S (S (S (S (S (S (S (S (S
      (S (S (S (S (S (S (S (S (S (S (S (S (S (S (S (S (S (S (S (S (S (S (S (S
      (S (S (S (S (S (S (S (S (S (S (S (S (S (S (S (S (S (S (S (S (S (S (S (S
      (S (S (S (S (S (S (S (S (S (S (S (S (S (S (S (S (S (S (S (S (S (S (S (S
      (S (S (S (S (S (S (S (S (S (S (S (S (S (S (S (S (S (S (S (S (S (S (S (S
      (S (S (S (S (S (S (S (S (S (S (S (S (S (S (S (S (S (S (S (S (S (S (S (S
      (S (S (S (S (S (S (S (S (S (S (S (S (S (S (S (S (S (S (S (S (S (S (S (S
      (S (S (S (S (S (S (S (S (S (S (S (S (S (S (S (S (S (S (S (S (S (S (S (S
      (S (S (S (S (S (S (S (S (S (S (S (S (S (S (S (S (S (S (S (S (S (S (S (S
      (S (S (S (S (S (S (S (S (S (S (S (S (S (S (S (S (S (S (S (S (S (S (S (S
      (S (S (S (S (S (S (S (S (S (S (S (S (S (S (S (S (S (S (S (S (S (S (S (S
      (S (S (S (S (S (S (S (S (S (S (S (S (S (S (S (S (S (S (S (S (S (S (S (S
      (S (S (S (S (S (S (S (S (S (S (S (S (S (S (S (S (S (S (S (S (S (S (S (S
      (S (S (S (S (S (S (S (S (S (S (S (S (S (S (S (S (S (S (S (S (S (S (S (S
      (S (S (S (S (S (S (S (S (S (S (S (S (S (S (S (S (S (S (S (S (S (S (S (S
      (S (S (S (S (S (S (S (S (S (S (S (S (S (S (S (S (S (S (S (S (S (S (S (S
      (S (S (S (S (S (S (S (S (S (S (S (S (S (S (S (S (S (S (S (S (S (S (S (S
      (S (S (S (S (S (S (S (S (S (S (S (S (S (S (S (S (S (S (S (S (S (S (S (S
      (S (S (S (S (S (S (S (S (S (S (S (S (S (S (S (S (S (S (S (S (S (S (S (S
      (S (S (S (S (S (S (S (S (S (S (S (S (S (S (S (S (S (S (S (S (S (S (S (S
      (S (S (S (S (S (S (S (S (S (S (S (S (S (S (S (S (S (S (S (S (S (S (S (S
      (S (S (S (S (S (S (S (S (S (S (S (S (S (S (S (S (S (S (S (S (S (S (S (S
      (S (S (S (S (S (S (S (S (S (S (S (S (S (S (S (S (S (S (S (S (S (S (S (S
      (S (S (S (S (S (S (S (S (S (S (S (S (S (S (S (S (S (S (S (S (S (S (S (S
      (S (S (S (S (S (S (S (S (S (S (S (S (S (S (S (S (S (S (S (S (S (S (S (S
      (S (S (S (S (S (S (S (S (S (S (S (S (S (S (S (S (S (S (S (S (S (S (S (S
      (S (S (S (S (S (S (S (S (S (S (S (S (S (S (S (S (S (S (S (S (S (S (S (S
      (S (S (S (S (S (S (S (S (S (S (S (S (S (S (S (S (S (S (S (S (S (S (S (S
      (S (S (S (S (S (S (S (S (S (S (S (S (S (S (S (S (S (S (S (S (S (S (S (S
      (S (S (S (S (S (S (S (S (S (S (S (S (S (S (S (S (S (S (S (S (S (S (S (S
      (S (S (S (S (S (S (S (S (S (S (S (S (S (S (S (S (S (S (S (S (S (S (S (S
      (S (S (S (S (S (S (S (S (S (S (S (S (S (S (S (S (S (S (S (S (S (S (S (S
      (S (S (S (S (S (S (S (S (S (S (S (S (S (S (S (S (S (S (S (S (S (S (S (S
      (S (S (S (S (S (S (S (S (S (S (S (S (S (S (S (S (S (S (S (S (S (S (S (S
      (S (S (S (S (S (S (S (S (S (S (S (S (S (S (S (S (S (S (S (S (S (S
      O)))))))))))))))))))))))))))))))))))))))))))))))))))))))))))))))))))))))))))))))))))))))))))))))))))))))))))))))))))))))))))))))))))))))))))))))))))))))))))))))))))))))))))))))))))))))))))))))))))))))))))))))))))))))))))))))))))))))))))))))))))))))))))))))))))))))))))))))))))))))))))))))))))))))))))))))))))))))))))))))))))))))))))))))))))))))))))))))))))))))))))))))))))))))))))))))))))))))))))))))))))))))))))))))))))))))))))))))))))))))))))))))))))))))))))))))))))))))))))))))))))))))))))))))))))))))))))))))))))))))))))))))))))))))))))))))))))))))))))))))))))))))))))))))))))))))))))))))))))))))))))))))))))))))))))))))))))))))))))))))))))))))))))))))))))))))))))))))))))))))))))))))))))))))))))))))))))))))))))))))))))))))))))))))))))))))))))))))))))))))))))))))))))))))))))))))))))))))))))))))))))))))))))))))))))))))))))))))))))))))))))))))))))))))))))))))))))))))))))))))))))))))))))))))))))))))))))))))))))))))))))))))))))))))))))))))))))))))))))
  in
  { code = c; is_alphabetic = ((||) ((||) lower upper) greek_lambda);
  is_alphanumeric = ((||) ((||) ((||) lower upper) digit) greek_lambda);
  is_whitespace =
  ((||)
    (Nat.eqb n0 (S (S (S (S (S (S (S (S (S (S (S (S (S (S (S (S (S (S (S (S
      (S (S (S (S (S (S (S (S (S (S (S (S O)))))))))))))))))))))))))))))))))
    ((&&) (Nat.leb (S (S (S (S (S (S (S (S (S O))))))))) n0)
      (Nat.leb n0 (S (S (S (S (S (S (S (S (S (S (S (S (S O))))))))))))))));
  to_digit16 =
  (if digit
   then Some
          (sub n0 (S (S (S (S (S (S (S (S (S (S (S (S (S (S (S (S (S (S (S (S
            (S (S (S (S (S (S (S (S (S (S (S (S (S (S (S (S (S (S (S (S (S (S
            (S (S (S (S (S (S
            O)))))))))))))))))))))))))))))))))))))))))))))))))
   else if (&&)
             (Nat.leb (S (S (S (S (S (S (S (S (S (S (S (S (S (S (S (S (S (S
               (S (S (S (S (S (S (S (S (S (S (S (S (S (S (S (S (S (S (S (S (S
               (S (S (S (S (S (S (S (S (S (S (S (S (S (S (S (S (S (S (S (S (S
               (S (S (S (S (S (S (S (S (S (S (S (S (S (S (S (S (S (S (S (S (S
               (S (S (S (S (S (S (S (S (S (S (S (S (S (S (S (S
               O)))))))))))))))))))))))))))))))))))))))))))))))))))))))))))))))))))))))))))))))))))))))))))))))))
               n0)
             (Nat.leb n0 (S (S (S (S (S (S (S (S (S (S (S (S (S (S (S (S (S
               (S (S (S (S (S (S (S (S (S (S (S (S (S (S (S (S (S (S (S (S (S
               (S (S (S (S (S (S (S (S (S (S (S (S (S (S (S (S (S (S (S (S (S
               (S (S (S (S (S (S (S (S (S (S (S (S (S (S (S (S (S (S (S (S (S
               (S (S (S (S (S (S (S (S (S (S (S (S (S (S (S (S (S (S (S (S (S
               (S
               O)))))))))))))))))))))))))))))))))))))))))))))))))))))))))))))))))))))))))))))))))))))))))))))))))))))))
        then Some
               (sub n0 (S (S (S (S (S (S (S (S (S (S (S (S (S (S (S (S (S (S
                 (S (S (S (S (S (S (S (S (S (S (S (S (S (S (S (S (S (S (S (S
                 (S (S (S (S (S (S (S (S (S (S (S (S (S (S (S (S (S (S (S (S
                 (S (S (S (S (S (S (S (S (S (S (S (S (S (S (S (S (S (S (S (S
                 (S (S (S (S (S (S (S (S (S
                 O))))))))))))))))))))))))))))))))))))))))))))))))))))))))))))))))))))))))))))))))))))))))
        else if (&&)
                  (Nat.leb (S (S (S (S (S (S (S (S (S (S (S (S (S (S (S (S (S
                    (S (S (S (S (S (S (S (S (S (S (S (S (S (S (S (S (S (S (S
                    (S (S (S (S (S (S (S (S (S (S (S (S (S (S (S (S (S (S (S
                    (S (S (S (S (S (S (S (S (S (S
                    O)))))))))))))))))))))))))))))))))))))))))))))))))))))))))))))))))
                    n0)
                  (Nat.leb n0 (S (S (S (S (S (S (S (S (S (S (S (S (S (S (S (S
                    (S (S (S (S (S (S (S (S (S (S (S (S (S (S (S (S (S (S (S
                    (S (S (S (S (S (S (S (S (S (S (S (S (S (S (S (S (S (S (S
                    (S (S (S (S (S (S (S (S (S (S (S (S (S (S (S (S
                    O)))))))))))))))))))))))))))))))))))))))))))))))))))))))))))))))))))))))
             then Some
                    (sub n0 (S (S (S (S (S (S (S (S (S (S (S (S (S (S (S (S
                      (S (S (S (S (S (S (S (S (S (S (S (S (S (S (S (S (S (S
                      (S (S (S (S (S (S (S (S (S (S (S (S (S (S (S (S (S (S
                      (S (S (S
                      O))))))))))))))))))))))))))))))))))))))))))))))))))))))))
             else None) }

(** val iter_app : nat -> term -> term -> term **)

let rec iter_app n0 f x =
  match n0 with
  | O -> x
  | S k -> App (f, (iter_app k f x))

(** val church : nat -> term **)

let church n0 =
  Abs (Abs (iter_app n0 (Var (S (S O))) (Var (S O))))

(** val scott : nat -> term **)

let rec scott = function
| O -> Abs (Abs (Var (S (S O))))
| S k -> Abs (Abs (App ((Var (S O)), (scott k))))

(** val body2 : term -> term **)

let body2 t = match t with
| Abs t0 -> (match t0 with
             | Abs b -> b
             | _ -> t)
| _ -> t

(** val parigot : nat -> term **)

let rec parigot = function
| O -> Abs (Abs (Var (S O)))
| S k ->
  Abs (Abs (App ((App ((Var (S (S O))), (parigot k))), (body2 (parigot k)))))

(** val stumpfu : nat -> term **)

let rec stumpfu = function
| O -> Abs (Abs (Var (S O)))
| S k ->
  Abs (Abs (App ((App ((Var (S (S O))), (church (S k)))), (stumpfu k))))

(** val bits_term : bool list -> term **)

let rec bits_term = function
| [] -> Var (S (S (S O)))
| b :: r0 -> App ((Var (if b then S O else S (S O))), (bits_term r0))

(** val bits_of : nat -> nat -> bool list **)

let rec bits_of fuel n0 =
  match fuel with
  | O -> []
  | S f ->
    if Nat.eqb n0 O
    then []
    else (Nat.odd n0) :: (bits_of f (Nat.div n0 (S (S O))))

(** val binary : nat -> term **)

let binary n0 =
  Abs (Abs (Abs (bits_term (bits_of n0 n0))))

(** val tru_t : term **)

let tru_t =
  Abs (Abs (Var (S (S O))))

(** val fls_t : term **)

let fls_t =
  Abs (Abs (Var (S O)))

(** val bool_t : bool -> term **)

let bool_t = function
| true -> tru_t
| false -> fls_t

(** val pair_t : term -> term -> term **)

let pair_t a b =
  Abs (App ((App ((Var (S O)), a)), b))

(** val none_t : term **)

let none_t =
  Abs (Abs (Var (S (S O))))

(** val some_t : term -> term **)

let some_t x =
  Abs (Abs (App ((Var (S O)), x)))

(** val ok_t : term -> term **)

let ok_t x =
  Abs (Abs (App ((Var (S (S O))), x)))

(** val err_t : term -> term **)

let err_t x =
  Abs (Abs (App ((Var (S O)), x)))

(** val tuple_t : term list -> term **)

let tuple_t xs =
  Abs (fold_left (fun x x0 -> App (x, x0)) xs (Var (S O)))

(** val pair_list : term list -> term **)

let rec pair_list = function
| [] -> Abs (Abs (Var (S O)))
| x :: r0 -> Abs (App ((App ((Var (S O)), x)), (pair_list r0)))

(** val church_list_body : term list -> term **)

let rec church_list_body = function
| [] -> Var (S (S O))
| x :: r0 -> App ((App ((Var (S O)), x)), (church_list_body r0))

(** val church_list : term list -> term **)

let church_list xs =
  Abs (Abs (church_list_body xs))

(** val scott_list : term list -> term **)

let rec scott_list = function
| [] -> Abs (Abs (Var (S (S O))))
| x :: r0 -> Abs (Abs (App ((App ((Var (S O)), x)), (scott_list r0))))

(** val parigot_list : term list -> term **)

let rec parigot_list = function
| [] -> Abs (Abs (Var (S (S O))))
| x :: r0 ->
  Abs (Abs (App ((App ((App ((Var (S O)), x)), (parigot_list r0))),
    (body2 (parigot_list r0)))))

(** val count_apps : nat -> term -> nat option **)

let rec count_apps f = function
| Var n0 ->
  (match n0 with
   | O -> None
   | S n1 -> (match n1 with
              | O -> Some O
              | S _ -> None))
| Abs _ -> None
| App (l, r0) ->
  (match l with
   | Var g ->
     if Nat.eqb g f then option_map (fun x -> S x) (count_apps f r0) else None
   | _ -> None)

(** val dec_church : term -> nat option **)

let dec_church = function
| Abs t0 -> (match t0 with
             | Abs b -> count_apps (S (S O)) b
             | _ -> None)
| _ -> None

(** val dec_scott : nat -> term -> nat option **)

let rec dec_scott fuel t =
  match fuel with
  | O -> None
  | S f ->
    (match t with
     | Abs t0 ->
       (match t0 with
        | Abs t1 ->
          (match t1 with
           | Var n0 ->
             (match n0 with
              | O -> None
              | S n1 ->
                (match n1 with
                 | O -> None
                 | S n2 -> (match n2 with
                            | O -> Some O
                            | S _ -> None)))
           | Abs _ -> None
           | App (l, p) ->
             (match l with
              | Var n0 ->
                (match n0 with
                 | O -> None
                 | S n1 ->
                   (match n1 with
                    | O -> option_map (fun x -> S x) (dec_scott f p)
                    | S _ -> None))
              | _ -> None))
        | _ -> None)
     | _ -> None)

(** val dec_parigot : nat -> term -> nat option **)

let rec dec_parigot fuel t =
  match fuel with
  | O -> None
  | S f ->
    (match t with
     | Abs t0 ->
       (match t0 with
        | Abs t1 ->
          (match t1 with
           | Var n0 ->
             (match n0 with
              | O -> None
              | S n1 -> (match n1 with
                         | O -> Some O
                         | S _ -> None))
           | Abs _ -> None
           | App (l, _) ->
             (match l with
              | App (l0, p) ->
                (match l0 with
                 | Var n0 ->
                   (match n0 with
                    | O -> None
                    | S n1 ->
                      (match n1 with
                       | O -> None
                       | S n2 ->
                         (match n2 with
                          | O -> option_map (fun x -> S x) (dec_parigot f p)
                          | S _ -> None)))
                 | _ -> None)
              | _ -> None))
        | _ -> None)
     | _ -> None)

(** val dec_stumpfu : nat -> term -> nat option **)

let rec dec_stumpfu fuel t =
  match fuel with
  | O -> None
  | S f ->
    (match t with
     | Abs t0 ->
       (match t0 with
        | Abs t1 ->
          (match t1 with
           | Var n0 ->
             (match n0 with
              | O -> None
              | S n1 -> (match n1 with
                         | O -> Some O
                         | S _ -> None))
           | Abs _ -> None
           | App (l, p) ->
             (match l with
              | App (l0, c) ->
                (match l0 with
                 | Var n0 ->
                   (match n0 with
                    | O -> None
                    | S n1 ->
                      (match n1 with
                       | O -> None
                       | S n2 ->
                         (match n2 with
                          | O ->
                            (match dec_church c with
                             | Some a ->
                               (match dec_stumpfu f p with
                                | Some b ->
                                  if Nat.eqb a (S b) then Some a else None
                                | None -> None)
                             | None -> None)
                          | S _ -> None)))
                 | _ -> None)
              | _ -> None))
        | _ -> None)
     | _ -> None)

(** val dec_bits : term -> nat option **)

let rec dec_bits = function
| Var n0 ->
  (match n0 with
   | O -> None
   | S n1 ->
     (match n1 with
      | O -> None
      | S n2 ->
        (match n2 with
         | O -> None
         | S n3 -> (match n3 with
                    | O -> Some O
                    | S _ -> None))))
| Abs _ -> None
| App (l, r0) ->
  (match l with
   | Var n0 ->
     (match n0 with
      | O -> None
      | S n1 ->
        (match n1 with
         | O ->
           option_map (fun v -> add (mul (S (S O)) v) (S O)) (dec_bits r0)
         | S n2 ->
           (match n2 with
            | O -> option_map (fun v -> mul (S (S O)) v) (dec_bits r0)
            | S _ -> None)))
   | _ -> None)

(** val dec_binary : term -> nat option **)

let dec_binary = function
| Abs t0 ->
  (match t0 with
   | Abs t1 -> (match t1 with
                | Abs b -> dec_bits b
                | _ -> None)
   | _ -> None)
| _ -> None

(** val bits_of_pos : positive -> bool list **)

let rec bits_of_pos = function
| XI q -> true :: (bits_of_pos q)
| XO q -> false :: (bits_of_pos q)
| XH -> true :: []

(** val bits_of_N : n -> bool list **)

let bits_of_N = function
| N0 -> []
| Npos p -> bits_of_pos p

(** val binary_N : n -> term **)

let binary_N n0 =
  Abs (Abs (Abs (bits_term (bits_of_N n0))))

(** val dec_bits_N : term -> n option **)

let rec dec_bits_N = function
| Var n0 ->
  (match n0 with
   | O -> None
   | S n1 ->
     (match n1 with
      | O -> None
      | S n2 ->
        (match n2 with
         | O -> None
         | S n3 -> (match n3 with
                    | O -> Some N0
                    | S _ -> None))))
| Abs _ -> None
| App (l, r0) ->
  (match l with
   | Var n0 ->
     (match n0 with
      | O -> None
      | S n1 ->
        (match n1 with
         | O -> option_map N.succ_double (dec_bits_N r0)
         | S n2 ->
           (match n2 with
            | O -> option_map N.double (dec_bits_N r0)
            | S _ -> None)))
   | _ -> None)

(** val dec_binary_N : term -> n option **)

let dec_binary_N = function
| Abs t0 ->
  (match t0 with
   | Abs t1 -> (match t1 with
                | Abs b -> dec_bits_N b
                | _ -> None)
   | _ -> None)
| _ -> None

(** val n_of_bits_msb : bool list -> n **)

let n_of_bits_msb bs =
  fold_left (fun acc b -> if b then N.succ_double acc else N.double acc) bs N0

type term_error =
| NotVar
| NotAbs
| NotApp

type r = (term * nat) option

(** val bind : r -> (term -> nat -> r) -> r **)

let bind x k =
  match x with
  | Some p -> let (t, c) = p in k t c
  | None -> None

(** val ret : term -> nat -> r **)

let ret t c =
  Some (t, c)

(** val update_free_variables : nat -> nat -> term -> term **)

let rec update_free_variables added_depth own_depth = function
| Var i -> if Nat.ltb own_depth i then Var (add i added_depth) else Var i
| Abs b -> Abs (update_free_variables added_depth (S own_depth) b)
| App (l, r0) ->
  App ((update_free_variables added_depth own_depth l),
    (update_free_variables added_depth own_depth r0))

(** val apply_rec : term -> nat -> term -> term **)

let rec apply_rec rhs0 depth = function
| Var i ->
  (match Nat.compare i depth with
   | Eq -> update_free_variables (sub depth (S O)) O rhs0
   | Lt -> Var i
   | Gt -> Var (sub i (S O)))
| Abs b -> Abs (apply_rec rhs0 (S depth) b)
| App (l, r0) -> App ((apply_rec rhs0 depth l), (apply_rec rhs0 depth r0))

(** val apply_m : term -> term -> (term_error * term, term) sum **)

let apply_m t rhs0 =
  match t with
  | Abs _ ->
    (match apply_rec rhs0 O t with
     | Abs b' -> Inr b'
     | x -> Inl (NotAbs, x))
  | _ -> Inl (NotAbs, t)

(** val eval_m : term -> term **)

let eval_m t = match t with
| App (l, r0) -> (match apply_m l r0 with
                  | Inl _ -> t
                  | Inr t' -> t')
| _ -> t

(** val limit_hit : nat -> nat -> bool **)

let limit_hit limit count =
  (&&) (negb (Nat.eqb limit O)) (Nat.eqb count limit)

(** val is_reducible : term -> nat -> nat -> bool **)

let is_reducible t limit count =
  match t with
  | App (l, _) ->
    (match l with
     | Abs _ -> (||) (Nat.eqb limit O) (Nat.ltb count limit)
     | _ -> false)
  | _ -> false

(** val beta_app : nat -> nat -> nat -> term -> r **)

let rec beta_app fuel limit count t =
  match fuel with
  | O -> None
  | S f ->
    if limit_hit limit count
    then ret t count
    else (match t with
          | Var _ -> ret t count
          | Abs b ->
            bind (beta_app f limit count b) (fun b1 c1 -> ret (Abs b1) c1)
          | App (l, r0) ->
            bind (beta_app f limit count l) (fun l1 c1 ->
              bind (beta_app f limit c1 r0) (fun r1 c2 ->
                let t1 = App (l1, r1) in
                if is_reducible t1 limit c2
                then beta_app f limit (S c2) (eval_m t1)
                else ret t1 c2)))

(** val beta_cbn : nat -> nat -> nat -> term -> r **)

let rec beta_cbn fuel limit count t =
  match fuel with
  | O -> None
  | S f ->
    if limit_hit limit count
    then ret t count
    else (match t with
          | App (l, r0) ->
            bind (beta_cbn f limit count l) (fun l1 c1 ->
              let t1 = App (l1, r0) in
              if is_reducible t1 limit c1
              then beta_cbn f limit (S c1) (eval_m t1)
              else ret t1 c1)
          | _ -> ret t count)

(** val beta_cbv : nat -> nat -> nat -> term -> r **)

let rec beta_cbv fuel limit count t =
  match fuel with
  | O -> None
  | S f ->
    if limit_hit limit count
    then ret t count
    else (match t with
          | App (l, r0) ->
            bind (beta_cbv f limit count l) (fun l1 c1 ->
              bind (beta_cbv f limit c1 r0) (fun r1 c2 ->
                let t1 = App (l1, r1) in
                if is_reducible t1 limit c2
                then beta_cbv f limit (S c2) (eval_m t1)
                else ret t1 c2))
          | _ -> ret t count)

(** val beta_hap : nat -> nat -> nat -> term -> r **)

let rec beta_hap fuel limit count t =
  match fuel with
  | O -> None
  | S f ->
    if limit_hit limit count
    then ret t count
    else (match t with
          | Var _ -> ret t count
          | Abs b ->
            bind (beta_hap f limit count b) (fun b1 c1 -> ret (Abs b1) c1)
          | App (l, r0) ->
            bind (beta_cbv f limit count l) (fun l1 c1 ->
              bind (beta_hap f limit c1 r0) (fun r1 c2 ->
                let t1 = App (l1, r1) in
                if is_reducible t1 limit c2
                then beta_hap f limit (S c2) (eval_m t1)
                else bind (beta_hap f limit c2 l1) (fun l2 c3 ->
                       ret (App (l2, r1)) c3))))

(** val beta_hsp : nat -> nat -> nat -> term -> r **)

let rec beta_hsp fuel limit count t =
  match fuel with
  | O -> None
  | S f ->
    if limit_hit limit count
    then ret t count
    else (match t with
          | Var _ -> ret t count
          | Abs b ->
            bind (beta_hsp f limit count b) (fun b1 c1 -> ret (Abs b1) c1)
          | App (l, r0) ->
            bind (beta_hsp f limit count l) (fun l1 c1 ->
              let t1 = App (l1, r0) in
              if is_reducible t1 limit c1
              then beta_hsp f limit (S c1) (eval_m t1)
              else ret t1 c1))

(** val beta_hno : nat -> nat -> nat -> term -> r **)

let rec beta_hno fuel limit count t =
  match fuel with
  | O -> None
  | S f ->
    if limit_hit limit count
    then ret t count
    else (match t with
          | Var _ -> ret t count
          | Abs b ->
            bind (beta_hno f limit count b) (fun b1 c1 -> ret (Abs b1) c1)
          | App (l, r0) ->
            bind (beta_hsp f limit count l) (fun l1 c1 ->
              let t1 = App (l1, r0) in
              if is_reducible t1 limit c1
              then beta_hno f limit (S c1) (eval_m t1)
              else bind (beta_hno f limit c1 l1) (fun l2 c2 ->
                     bind (beta_hno f limit c2 r0) (fun r2 c3 ->
                       ret (App (l2, r2)) c3))))

(** val beta_nor : nat -> nat -> nat -> term -> r **)

let rec beta_nor fuel limit count t =
  match fuel with
  | O -> None
  | S f ->
    if limit_hit limit count
    then ret t count
    else (match t with
          | Var _ -> ret t count
          | Abs b ->
            bind (beta_nor f limit count b) (fun b1 c1 -> ret (Abs b1) c1)
          | App (l, r0) ->
            bind (beta_cbn f limit count l) (fun l1 c1 ->
              let t1 = App (l1, r0) in
              if is_reducible t1 limit c1
              then beta_nor f limit (S c1) (eval_m t1)
              else bind (beta_nor f limit c1 l1) (fun l2 c2 ->
                     bind (beta_nor f limit c2 r0) (fun r2 c3 ->
                       ret (App (l2, r2)) c3))))

(** val reduce_m : nat -> order -> nat -> term -> r **)

let reduce_m fuel o limit t =
  match o with
  | NOR -> beta_nor fuel limit O t
  | CBN -> beta_cbn fuel limit O t
  | HSP -> beta_hsp fuel limit O t
  | HNO -> beta_hno fuel limit O t
  | APP -> beta_app fuel limit O t
  | CBV -> beta_cbv fuel limit O t
  | HAP -> beta_hap fuel limit O t

(** val beta_fn : nat -> term -> order -> nat -> term option **)

let beta_fn fuel t o limit =
  option_map fst (reduce_m fuel o limit t)

(** val run_history :
    nat -> (order * nat) list -> term -> (term * nat list) option **)

let rec run_history fuel h t =
  match h with
  | [] -> Some (t, [])
  | p :: h' ->
    let (o, n0) = p in
    (match reduce_m fuel o n0 t with
     | Some p0 ->
       let (t1, c) = p0 in
       (match run_history fuel h' t1 with
        | Some p1 -> let (t2, cs) = p1 in Some (t2, (c :: cs))
        | None -> None)
     | None -> None)

(** val unvar : term -> (term_error, nat) sum **)

let unvar = function
| Var n0 -> Inr n0
| _ -> Inl NotVar

(** val unabs : term -> (term_error, term) sum **)

let unabs = function
| Abs b -> Inr b
| _ -> Inl NotAbs

(** val unapp : term -> (term_error, term * term) sum **)

let unapp = function
| App (l, r0) -> Inr (l, r0)
| _ -> Inl NotApp

(** val lhs : term -> (term_error, term) sum **)

let lhs t =
  match unapp t with
  | Inl _ -> Inl NotApp
  | Inr p -> let (l, _) = p in Inr l

(** val rhs : term -> (term_error, term) sum **)

let rhs t =
  match unapp t with
  | Inl _ -> Inl NotApp
  | Inr p -> let (_, r0) = p in Inr r0

(** val set_var : nat -> term -> term **)

let set_var n0 t = match t with
| Var _ -> Var n0
| _ -> t

(** val set_abs : term -> term -> term **)

let set_abs b t = match t with
| Abs _ -> Abs b
| _ -> t

(** val set_app_l : term -> term -> term **)

let set_app_l x t = match t with
| App (_, r0) -> App (x, r0)
| _ -> t

(** val set_app_r : term -> term -> term **)

let set_app_r x t = match t with
| App (l, _) -> App (l, x)
| _ -> t

(** val abs_c : term -> term **)

let abs_c t =
  Abs t

(** val app_c : term -> term -> term **)

let app_c l r0 =
  App (l, r0)

(** val abs_macro : nat -> term -> term **)

let rec abs_macro n0 t =
  match n0 with
  | O -> t
  | S k -> abs_macro k (Abs t)

(** val app_macro : term -> term list -> term **)

let app_macro t1 args =
  fold_left app_c args t1

(** val has_free_variables_helper : nat -> term -> bool **)

let rec has_free_variables_helper depth = function
| Var x -> (||) (Nat.ltb depth x) (Nat.eqb x O)
| Abs p -> has_free_variables_helper (S depth) p
| App (f, a) ->
  (||) (has_free_variables_helper depth f) (has_free_variables_helper depth a)

(** val has_free_variables : term -> bool **)

let has_free_variables t =
  has_free_variables_helper O t

(** val max_depth : term -> nat **)

let rec max_depth = function
| Var _ -> O
| Abs b -> add (max_depth b) (S O)
| App (l, r0) -> Nat.max (max_depth l) (max_depth r0)

(** val is_isomorphic_to : term -> term -> bool **)

let rec is_isomorphic_to t u =
  match t with
  | Var x -> (match u with
              | Var y -> Nat.eqb x y
              | _ -> false)
  | Abs p -> (match u with
              | Abs q -> is_isomorphic_to p q
              | _ -> false)
  | App (fp, ap) ->
    (match u with
     | App (fq, aq) -> (&&) (is_isomorphic_to fp fq) (is_isomorphic_to ap aq)
     | _ -> false)

(** val child_depth : nat -> term -> nat **)

let child_depth depth t =
  if is_abs t then O else depth

(** val sc_loop : nat -> (nat * term) list -> bool option **)

let rec sc_loop fuel stack =
  match fuel with
  | O -> None
  | S f ->
    (match stack with
     | [] -> Some true
     | p :: rest ->
       let (depth, t) = p in
       (match t with
        | Var i -> if Nat.ltb depth i then Some false else sc_loop f rest
        | Abs b -> sc_loop f (((S depth), b) :: rest)
        | App (l, r0) ->
          sc_loop f (((child_depth depth r0), r0) :: (((child_depth depth l),
            l) :: rest))))

(** val is_supercombinator : term -> bool option **)

let is_supercombinator t =
  sc_loop (S (size t)) ((O, t) :: [])

type parse_error =
| InvalidCharacter of nat * n
| InvalidExpression
| EmptyExpression

type ctoken =
| CLambda of name
| CLparen
| CRparen
| CName of name

(** val tokenize_dbr_from :
    nat -> cchar list -> (parse_error, token list) sum **)

let rec tokenize_dbr_from i = function
| [] -> Inr []
| c :: rest ->
  let continue = fun t ->
    match tokenize_dbr_from (S i) rest with
    | Inl e -> Inl e
    | Inr ts -> Inr (match t with
                     | Some t0 -> t0 :: ts
                     | None -> ts)
  in
  if is_lambda_glyph c
  then continue (Some Lambda)
  else if is_char c_lparen c
       then continue (Some Lparen)
       else if is_char c_rparen c
            then continue (Some Rparen)
            else (match c.to_digit16 with
                  | Some n0 -> continue (Some (Number n0))
                  | None ->
                    if c.is_whitespace
                    then continue None
                    else Inl (InvalidCharacter (i, c.code)))

(** val tokenize_dbr : cchar list -> (parse_error, token list) sum **)

let tokenize_dbr s =
  tokenize_dbr_from O s

(** val scan_binder :
    nat -> cchar list -> name -> bool -> (parse_error, (name * cchar
    list) * nat) sum **)

let rec scan_binder i s nm first_char =
  match s with
  | [] -> Inr ((nm, []), i)
  | c :: rest ->
    if (&&) (is_char c_dot c) (negb first_char)
    then Inr ((nm, rest), (S i))
    else if (&&) first_char c.is_alphabetic
         then scan_binder (S i) rest (app nm (c.code :: [])) false
         else if (&&) (negb first_char) c.is_alphanumeric
              then scan_binder (S i) rest (app nm (c.code :: [])) false
              else Inl (InvalidCharacter (i, c.code))

(** val scan_name : nat -> cchar list -> name -> (name * cchar list) * nat **)

let rec scan_name i s nm =
  match s with
  | [] -> ((nm, []), i)
  | c :: rest ->
    if c.is_alphanumeric
    then scan_name (S i) rest (app nm (c.code :: []))
    else ((nm, s), i)

(** val tokenize_cla_from :
    nat -> nat -> cchar list -> (parse_error, ctoken list) sum **)

let rec tokenize_cla_from fuel i s =
  match fuel with
  | O -> Inr []
  | S f ->
    (match s with
     | [] -> Inr []
     | c :: rest ->
       if is_lambda_glyph c
       then (match scan_binder (S i) rest [] true with
             | Inl e -> Inl e
             | Inr p ->
               let (p0, i') = p in
               let (nm, rest') = p0 in
               (match tokenize_cla_from f i' rest' with
                | Inl e -> Inl e
                | Inr ts -> Inr ((CLambda nm) :: ts)))
       else if is_char c_lparen c
            then (match tokenize_cla_from f (S i) rest with
                  | Inl e -> Inl e
                  | Inr ts -> Inr (CLparen :: ts))
            else if is_char c_rparen c
                 then (match tokenize_cla_from f (S i) rest with
                       | Inl e -> Inl e
                       | Inr ts -> Inr (CRparen :: ts))
                 else if c.is_whitespace
                      then tokenize_cla_from f (S i) rest
                      else if c.is_alphabetic
                           then let (p, i') =
                                  scan_name (S i) rest (c.code :: [])
                                in
                                let (nm, rest') = p in
                                (match tokenize_cla_from f i' rest' with
                                 | Inl e -> Inl e
                                 | Inr ts -> Inr ((CName nm) :: ts))
                           else Inl (InvalidCharacter (i, c.code)))

(** val tokenize_cla : cchar list -> (parse_error, ctoken list) sum **)

let tokenize_cla s =
  tokenize_cla_from (S (length s)) O s

(** val rposition : name -> name list -> nat option **)

let rec rposition nm = function
| [] -> None
| x :: r0 ->
  if name_eqb x nm
  then Some O
  else option_map (fun x0 -> S x0) (rposition nm r0)

(** val convert_from :
    nat -> ctoken list -> name list -> nat -> token list -> (token
    list * ctoken list) * name list **)

let rec convert_from fuel toks stack inner out =
  match fuel with
  | O -> ((out, toks), stack)
  | S f ->
    (match toks with
     | [] -> ((out, []), stack)
     | c :: rest ->
       (match c with
        | CLambda nm ->
          convert_from f rest (app stack (nm :: [])) (S inner)
            (app out (Lambda :: []))
        | CLparen ->
          let (p, stack') = convert_from f rest stack O [] in
          let (sub0, rest') = p in
          convert_from f (tl rest') stack' inner
            (app out (app (Lparen :: []) sub0))
        | CRparen ->
          (((app out (Rparen :: [])), toks),
            (firstn (sub (length stack) inner) stack))
        | CName nm ->
          (match rposition nm (rev stack) with
           | Some index ->
             convert_from f rest stack inner
               (app out ((Number (S index)) :: []))
           | None ->
             convert_from f rest (nm :: stack) inner
               (app out ((Number (S (length stack))) :: [])))))

(** val convert_classic_tokens : ctoken list -> token list **)

let convert_classic_tokens toks =
  let (p, _) = convert_from (S (length toks)) toks [] O [] in
  let (out, _) = p in out

type expression =
| EAbstraction
| ESequence of expression list
| EVariable of nat

(** val ast_from :
    nat -> token list -> bool -> expression list -> (parse_error,
    expression * token list) sum **)

let rec ast_from fuel toks nested acc =
  match fuel with
  | O -> Inl InvalidExpression
  | S f ->
    (match toks with
     | [] ->
       if nested then Inl InvalidExpression else Inr ((ESequence acc), [])
     | t :: r0 ->
       (match t with
        | Lambda -> ast_from f r0 nested (app acc (EAbstraction :: []))
        | Lparen ->
          (match ast_from f r0 true [] with
           | Inl e -> Inl e
           | Inr p ->
             let (sub0, r') = p in
             ast_from f (tl r') nested (app acc (sub0 :: [])))
        | Rparen ->
          if nested
          then Inr ((ESequence acc), toks)
          else Inl InvalidExpression
        | Number i -> ast_from f r0 nested (app acc ((EVariable i) :: []))))

(** val get_ast : token list -> (parse_error, expression) sum **)

let get_ast toks = match toks with
| [] -> Inl EmptyExpression
| _ :: _ ->
  (match ast_from (S (length toks)) toks false [] with
   | Inl e -> Inl e
   | Inr p -> let (e, _) = p in Inr e)

(** val fold_terms : term list -> (parse_error, term) sum **)

let fold_terms = function
| [] -> Inl EmptyExpression
| fst0 :: rest -> Inr (fold_left (fun x x0 -> App (x, x0)) rest fst0)

(** val abs_times : nat -> term -> term **)

let rec abs_times n0 t =
  match n0 with
  | O -> t
  | S k -> abs_times k (Abs t)

(** val expr_size : expression -> nat **)

let rec expr_size = function
| ESequence l -> S (fold_right (fun x acc -> add (expr_size x) acc) O l)
| _ -> S O

(** val exprs_size : expression list -> nat **)

let exprs_size l =
  fold_right (fun x acc -> add (expr_size x) acc) O l

(** val fold_exprs_from :
    nat -> expression list -> nat -> term list -> (parse_error, term) sum **)

let rec fold_exprs_from fuel exprs depth output =
  match fuel with
  | O -> Inl InvalidExpression
  | S f ->
    let finish = fun output0 ->
      match fold_terms output0 with
      | Inl e -> Inl e
      | Inr t -> Inr (abs_times depth t)
    in
    (match exprs with
     | [] -> finish output
     | e :: r0 ->
       (match e with
        | EAbstraction ->
          (match output with
           | [] -> fold_exprs_from f r0 (S depth) output
           | _ :: _ ->
             (match fold_exprs_from f exprs O [] with
              | Inl e0 -> Inl e0
              | Inr t -> finish (app output (t :: []))))
        | ESequence es ->
          (match fold_exprs_from f es O [] with
           | Inl e0 -> Inl e0
           | Inr t -> fold_exprs_from f r0 depth (app output (t :: [])))
        | EVariable i ->
          fold_exprs_from f r0 depth (app output ((Var i) :: []))))

(** val fold_exprs : expression list -> (parse_error, term) sum **)

let fold_exprs exprs =
  fold_exprs_from (S (mul (S (S O)) (exprs_size exprs))) exprs O []

type notation =
| Classic
| DeBruijn

(** val parse : cchar list -> notation -> (parse_error, term) sum **)

let parse input n0 =
  let tokens =
    match n0 with
    | Classic ->
      (match tokenize_cla input with
       | Inl e -> Inl e
       | Inr ts -> Inr (convert_classic_tokens ts))
    | DeBruijn -> tokenize_dbr input
  in
  (match tokens with
   | Inl e -> Inl e
   | Inr tokens0 ->
     (match get_ast tokens0 with
      | Inl e -> Inl e
      | Inr e ->
        (match e with
         | ESequence exprs -> fold_exprs exprs
         | _ -> Inl InvalidExpression)))

type str0 = n list

(** val base26_loop : nat -> nat -> n list -> n list **)

let rec base26_loop fuel n0 buf =
  match fuel with
  | O -> buf
  | S f ->
    if Nat.eqb n0 O
    then buf
    else let m =
           Nat.modulo n0 (S (S (S (S (S (S (S (S (S (S (S (S (S (S (S (S (S
             (S (S (S (S (S (S (S (S (S O))))))))))))))))))))))))))
         in
         let m0 =
           if Nat.eqb m O
           then S (S (S (S (S (S (S (S (S (S (S (S (S (S (S (S (S (S (S (S (S
                  (S (S (S (S (S O)))))))))))))))))))))))))
           else m
         in
         base26_loop f
           (Nat.div (sub n0 (S O)) (S (S (S (S (S (S (S (S (S (S (S (S (S (S
             (S (S (S (S (S (S (S (S (S (S (S (S O)))))))))))))))))))))))))))
           (app buf
             ((N.of_nat
                (sub
                  (add m0 (S (S (S (S (S (S (S (S (S (S (S (S (S (S (S (S (S
                    (S (S (S (S (S (S (S (S (S (S (S (S (S (S (S (S (S (S (S
                    (S (S (S (S (S (S (S (S (S (S (S (S (S (S (S (S (S (S (S
                    (S (S (S (S (S (S (S (S (S (S (S (S (S (S (S (S (S (S (S
                    (S (S (S (S (S (S (S (S (S (S (S (S (S (S (S (S (S (S (S
                    (S (S (S (S
                    O))))))))))))))))))))))))))))))))))))))))))))))))))))))))))))))))))))))))))))))))))))))))))))))))))
                  (S O))) :: []))

(** val base26_encode : nat -> str0 **)

let base26_encode n0 =
  rev (base26_loop (S (S n0)) (S n0) [])

(** val s_undefined : str0 **)

let s_undefined =
  (Npos (XI (XO (XI (XO (XI (XI XH))))))) :: ((Npos (XO (XI (XI (XI (XO (XI
    XH))))))) :: ((Npos (XO (XO (XI (XO (XO (XI XH))))))) :: ((Npos (XI (XO
    (XI (XO (XO (XI XH))))))) :: ((Npos (XO (XI (XI (XO (XO (XI
    XH))))))) :: ((Npos (XI (XO (XO (XI (XO (XI XH))))))) :: ((Npos (XO (XI
    (XI (XI (XO (XI XH))))))) :: ((Npos (XI (XO (XI (XO (XO (XI
    XH))))))) :: ((Npos (XO (XO (XI (XO (XO (XI XH))))))) :: []))))))))

(** val parenthesize_if : str0 -> bool -> str0 **)

let parenthesize_if s = function
| true ->
  app ((Npos (XO (XO (XO (XI (XO XH)))))) :: [])
    (app s ((Npos (XI (XO (XO (XI (XO XH)))))) :: []))
| false -> s

(** val show_precedence_cla : n -> term -> nat -> nat -> nat -> str0 **)

let rec show_precedence_cla lambda t ctx max_depth0 depth =
  match t with
  | Var i ->
    (match i with
     | O -> s_undefined
     | S _ ->
       let ix =
         if Nat.leb i depth
         then sub depth i
         else sub (sub (add max_depth0 i) depth) (S O)
       in
       base26_encode ix)
  | Abs b ->
    let ret0 =
      app (lambda :: [])
        (app (base26_encode depth)
          (app ((Npos (XO (XI (XI (XI (XO XH)))))) :: [])
            (show_precedence_cla lambda b O max_depth0 (S depth))))
    in
    parenthesize_if ret0 (Nat.ltb (S O) ctx)
  | App (t1, t2) ->
    let ret0 =
      app (show_precedence_cla lambda t1 (S (S O)) max_depth0 depth)
        (app ((Npos (XO (XO (XO (XO (XO XH)))))) :: [])
          (show_precedence_cla lambda t2 (S (S (S O))) max_depth0 depth))
    in
    parenthesize_if ret0 (Nat.eqb ctx (S (S (S O))))

(** val display : n -> term -> str0 **)

let display lambda t =
  show_precedence_cla lambda t O (max_depth t) O

(** val hex_digit : nat -> n **)

let hex_digit d =
  if Nat.ltb d (S (S (S (S (S (S (S (S (S (S O))))))))))
  then N.of_nat
         (add (S (S (S (S (S (S (S (S (S (S (S (S (S (S (S (S (S (S (S (S (S
           (S (S (S (S (S (S (S (S (S (S (S (S (S (S (S (S (S (S (S (S (S (S
           (S (S (S (S (S O)))))))))))))))))))))))))))))))))))))))))))))))) d)
  else N.of_nat
         (add (S (S (S (S (S (S (S (S (S (S (S (S (S (S (S (S (S (S (S (S (S
           (S (S (S (S (S (S (S (S (S (S (S (S (S (S (S (S (S (S (S (S (S (S
           (S (S (S (S (S (S (S (S (S (S (S (S
           O))))))))))))))))))))))))))))))))))))))))))))))))))))))) d)

(** val hex_loop : nat -> nat -> str0 -> str0 **)

let rec hex_loop fuel n0 acc =
  match fuel with
  | O -> acc
  | S f ->
    if Nat.ltb n0 (S (S (S (S (S (S (S (S (S (S (S (S (S (S (S (S
         O))))))))))))))))
    then (hex_digit n0) :: acc
    else hex_loop f
           (Nat.div n0 (S (S (S (S (S (S (S (S (S (S (S (S (S (S (S (S
             O)))))))))))))))))
           ((hex_digit
              (Nat.modulo n0 (S (S (S (S (S (S (S (S (S (S (S (S (S (S (S (S
                O)))))))))))))))))) :: acc)

(** val upper_hex : nat -> str0 **)

let upper_hex n0 =
  hex_loop (S n0) n0 []

(** val show_precedence_dbr : n -> term -> nat -> str0 **)

let rec show_precedence_dbr lambda t ctx =
  match t with
  | Var i -> (match i with
              | O -> s_undefined
              | S _ -> upper_hex i)
  | Abs b ->
    parenthesize_if (app (lambda :: []) (show_precedence_dbr lambda b O))
      (Nat.ltb (S O) ctx)
  | App (t1, t2) ->
    parenthesize_if
      (app (show_precedence_dbr lambda t1 (S (S O)))
        (show_precedence_dbr lambda t2 (S (S (S O)))))
      (Nat.eqb ctx (S (S (S O))))

(** val debug : n -> term -> str0 **)

let debug lambda t =
  show_precedence_dbr lambda t O

(** val repeat_fn : nat -> (term -> term) -> term -> term **)

let rec repeat_fn n0 f x =
  match n0 with
  | O -> x
  | S k -> repeat_fn k f (f x)

(** val into_church : nat -> term **)

let into_church n0 =
  abs_macro (S (S O))
    (repeat_fn n0 (fun ret0 -> app_c (Var (S (S O))) ret0) (Var (S O)))

(** val into_scott : nat -> term **)

let into_scott n0 =
  repeat_fn n0 (fun ret0 -> abs_macro (S (S O)) (app_c (Var (S O)) ret0))
    (abs_macro (S (S O)) (Var (S (S O))))

(** val unabs2 : term -> term **)

let unabs2 t =
  match unabs t with
  | Inl _ -> t
  | Inr r0 -> (match unabs r0 with
               | Inl _ -> t
               | Inr b -> b)

(** val into_parigot : nat -> term **)

let into_parigot n0 =
  repeat_fn n0 (fun ret0 ->
    abs_macro (S (S O))
      (app_macro (Var (S (S O))) (ret0 :: ((unabs2 ret0) :: []))))
    (abs_macro (S (S O)) (Var (S O)))

(** val into_stumpfu_from : nat -> nat -> term -> term **)

let rec into_stumpfu_from k count ret0 =
  match count with
  | O -> ret0
  | S c ->
    into_stumpfu_from (S k) c
      (abs_macro (S (S O))
        (app_macro (Var (S (S O))) ((into_church k) :: (ret0 :: []))))

(** val into_stumpfu : nat -> term **)

let into_stumpfu n0 =
  into_stumpfu_from (S O) n0 (abs_macro (S (S O)) (Var (S O)))

(** val binstr_fuel : nat -> nat -> bool list -> bool list **)

let rec binstr_fuel fuel n0 acc =
  match fuel with
  | O -> acc
  | S f ->
    if Nat.eqb n0 O
    then acc
    else binstr_fuel f (Nat.div n0 (S (S O))) ((Nat.odd n0) :: acc)

(** val binstr : nat -> bool list **)

let binstr n0 =
  binstr_fuel n0 n0 []

(** val into_binary : nat -> term **)

let into_binary n0 =
  let ret0 =
    if Nat.eqb n0 O
    then Var (S (S (S O)))
    else fold_left (fun ret0 bit ->
           if bit then app_c (Var (S O)) ret0 else app_c (Var (S (S O))) ret0)
           (binstr n0) (Var (S (S (S O))))
  in
  abs_macro (S (S (S O))) ret0

type encoding =
| Church
| Scott
| Parigot
| StumpFu
| Binary

(** val tuple_macro : term -> term list -> term **)

let tuple_macro first next =
  abs_c (fold_left app_c next (app_c (Var (S O)) first))

(** val pi_macro : nat -> nat -> term **)

let pi_macro i n0 =
  abs_c (app_c (Var (S O)) (repeat_fn n0 abs_c (Var (sub (add n0 (S O)) i))))

(** val into_signed : bool -> nat -> encoding -> term option **)

let into_signed positive0 modulus e =
  let numeral =
    match e with
    | Church -> Some (into_church modulus)
    | Scott -> Some (into_scott modulus)
    | Parigot -> Some (into_parigot modulus)
    | StumpFu -> Some (into_stumpfu modulus)
    | Binary -> None
  in
  (match numeral with
   | Some numeral0 ->
     let zero =
       match e with
       | Scott -> abs_macro (S (S O)) (Var (S (S O)))
       | _ -> abs_macro (S (S O)) (Var (S O))
     in
     Some
     (if positive0
      then tuple_macro numeral0 (zero :: [])
      else tuple_macro zero (numeral0 :: []))
   | None -> None)

(** val into_pair : term -> term -> term **)

let into_pair a b =
  abs_c (app_macro (Var (S O)) (a :: (b :: [])))

(** val into_option : term option -> term **)

let into_option = function
| Some v -> abs_macro (S (S O)) (app_c (Var (S O)) v)
| None -> abs_macro (S (S O)) (Var (S (S O)))

(** val into_result : (term, term) sum -> term **)

let into_result = function
| Inl ok -> abs_macro (S (S O)) (app_c (Var (S (S O))) ok)
| Inr err -> abs_macro (S (S O)) (app_c (Var (S O)) err)

(** val into_pair_list : term list -> term **)

let into_pair_list xs =
  fold_left (fun ret0 t -> abs_c (app_macro (Var (S O)) (t :: (ret0 :: []))))
    (rev xs) (abs_macro (S (S O)) (Var (S O)))

(** val into_church_list : term list -> term **)

let into_church_list xs =
  abs_macro (S (S O))
    (fold_left (fun ret0 t -> app_macro (Var (S O)) (t :: (ret0 :: [])))
      (rev xs) (Var (S (S O))))

(** val into_scott_list : term list -> term **)

let into_scott_list xs =
  fold_left (fun ret0 t ->
    abs_macro (S (S O)) (app_macro (Var (S O)) (t :: (ret0 :: [])))) 
    (rev xs) (abs_macro (S (S O)) (Var (S (S O))))

(** val into_parigot_list : term list -> term **)

let into_parigot_list xs =
  fold_left (fun ret0 t ->
    abs_macro (S (S O))
      (app_macro (Var (S O)) (t :: (ret0 :: ((unabs2 ret0) :: [])))))
    (rev xs) (abs_macro (S (S O)) (Var (S (S O))))

(** val lc_combinators_I : term **)

let lc_combinators_I =
  Abs (Var (S O))

(** val lc_combinators_K : term **)

let lc_combinators_K =
  Abs (Abs (Var (S (S O))))

(** val lc_combinators_S : term **)

let lc_combinators_S =
  Abs (Abs (Abs (App ((App ((Var (S (S (S O)))), (Var (S O)))), (App ((Var (S
    (S O))), (Var (S O))))))))

(** val lc_combinators_i : term **)

let lc_combinators_i =
  Abs (App ((App ((Var (S O)), (Abs (Abs (Abs (App ((App ((Var (S (S (S
    O)))), (Var (S O)))), (App ((Var (S (S O))), (Var (S O))))))))))), (Abs
    (Abs (Var (S (S O)))))))

(** val lc_combinators_B : term **)

let lc_combinators_B =
  Abs (Abs (Abs (App ((Var (S (S (S O)))), (App ((Var (S (S O))), (Var (S
    O))))))))

(** val lc_combinators_C : term **)

let lc_combinators_C =
  Abs (Abs (Abs (App ((App ((Var (S (S (S O)))), (Var (S O)))), (Var (S (S
    O)))))))

(** val lc_combinators_W : term **)

let lc_combinators_W =
  Abs (Abs (App ((App ((Var (S (S O))), (Var (S O)))), (Var (S O)))))

(** val lc_combinators_o : term **)

let lc_combinators_o =
  Abs (App ((Var (S O)), (Var (S O))))

(** val lc_combinators_O : term **)

let lc_combinators_O =
  App ((Abs (App ((Var (S O)), (Var (S O))))), (Abs (App ((Var (S O)), (Var
    (S O))))))

(** val lc_combinators_Y : term **)

let lc_combinators_Y =
  Abs (App ((Abs (App ((Var (S (S O))), (App ((Var (S O)), (Var (S O))))))),
    (Abs (App ((Var (S (S O))), (App ((Var (S O)), (Var (S O)))))))))

(** val lc_combinators_Z : term **)

let lc_combinators_Z =
  Abs (App ((Abs (App ((Var (S (S O))), (Abs (App ((App ((Var (S (S O))),
    (Var (S (S O))))), (Var (S O)))))))), (Abs (App ((Var (S (S O))), (Abs
    (App ((App ((Var (S (S O))), (Var (S (S O))))), (Var (S O))))))))))

(** val lc_combinators_R : term **)

let lc_combinators_R =
  Abs (Abs (App ((Var (S O)), (Var (S (S O))))))

(** val lc_combinators_T : term **)

let lc_combinators_T =
  App ((Abs (Abs (App ((Var (S O)), (App ((App ((Var (S (S O))), (Var (S (S
    O))))), (Var (S O)))))))), (Abs (Abs (App ((Var (S O)), (App ((App ((Var
    (S (S O))), (Var (S (S O))))), (Var (S O)))))))))

(** val lc_boolean_tru : term **)

let lc_boolean_tru =
  Abs (Abs (Var (S (S O))))

(** val lc_boolean_fls : term **)

let lc_boolean_fls =
  Abs (Abs (Var (S O)))

(** val lc_boolean_and : term **)

let lc_boolean_and =
  Abs (Abs (App ((App ((Var (S (S O))), (Var (S O)))), (Var (S (S O))))))

(** val lc_boolean_or : term **)

let lc_boolean_or =
  Abs (Abs (App ((App ((Var (S (S O))), (Var (S (S O))))), (Var (S O)))))

(** val lc_boolean_not : term **)

let lc_boolean_not =
  Abs (App ((App ((Var (S O)), (Abs (Abs (Var (S O)))))), (Abs (Abs (Var (S
    (S O)))))))

(** val lc_boolean_xor : term **)

let lc_boolean_xor =
  Abs (Abs (App ((App ((Var (S (S O))), (App ((Abs (App ((App ((Var (S O)),
    (Abs (Abs (Var (S O)))))), (Abs (Abs (Var (S (S O)))))))), (Var (S
    O)))))), (Var (S O)))))

(** val lc_boolean_nor : term **)

let lc_boolean_nor =
  Abs (Abs (App ((App ((App ((App ((Var (S (S O))), (Var (S (S O))))), (Var
    (S O)))), (Abs (Abs (Var (S O)))))), (Abs (Abs (Var (S (S O))))))))

(** val lc_boolean_xnor : term **)

let lc_boolean_xnor =
  Abs (Abs (App ((App ((Var (S (S O))), (Var (S O)))), (App ((Abs (App ((App
    ((Var (S O)), (Abs (Abs (Var (S O)))))), (Abs (Abs (Var (S (S O)))))))),
    (Var (S O)))))))

(** val lc_boolean_nand : term **)

let lc_boolean_nand =
  Abs (Abs (App ((App ((App ((App ((Var (S (S O))), (Var (S O)))), (Var (S (S
    O))))), (Abs (Abs (Var (S O)))))), (Abs (Abs (Var (S (S O))))))))

(** val lc_boolean_if_else : term **)

let lc_boolean_if_else =
  Abs (Abs (Abs (App ((App ((Var (S (S (S O)))), (Var (S (S O))))), (Var (S
    O))))))

(** val lc_boolean_imply : term **)

let lc_boolean_imply =
  Abs (Abs (App ((App ((Abs (Abs (App ((App ((Var (S (S O))), (Var (S (S
    O))))), (Var (S O)))))), (App ((Abs (App ((App ((Var (S O)), (Abs (Abs
    (Var (S O)))))), (Abs (Abs (Var (S (S O)))))))), (Var (S (S O))))))),
    (Var (S O)))))

(** val lc_pair_pair : term **)

let lc_pair_pair =
  Abs (Abs (Abs (App ((App ((Var (S O)), (Var (S (S (S O)))))), (Var (S (S
    O)))))))

(** val lc_pair_fst : term **)

let lc_pair_fst =
  Abs (App ((Var (S O)), (Abs (Abs (Var (S (S O)))))))

(** val lc_pair_snd : term **)

let lc_pair_snd =
  Abs (App ((Var (S O)), (Abs (Abs (Var (S O))))))

(** val lc_pair_uncurry : term **)

let lc_pair_uncurry =
  Abs (Abs (App ((App ((Var (S (S O))), (App ((Abs (App ((Var (S O)), (Abs
    (Abs (Var (S (S O)))))))), (Var (S O)))))), (App ((Abs (App ((Var (S O)),
    (Abs (Abs (Var (S O))))))), (Var (S O)))))))

(** val lc_pair_curry : term **)

let lc_pair_curry =
  Abs (Abs (Abs (App ((Var (S (S (S O)))), (App ((App ((Abs (Abs (Abs (App
    ((App ((Var (S O)), (Var (S (S (S O)))))), (Var (S (S O)))))))), (Var (S
    (S O))))), (Var (S O))))))))

(** val lc_pair_swap : term **)

let lc_pair_swap =
  Abs (App ((App ((Abs (Abs (Abs (App ((App ((Var (S O)), (Var (S (S (S
    O)))))), (Var (S (S O)))))))), (App ((Abs (App ((Var (S O)), (Abs (Abs
    (Var (S O))))))), (Var (S O)))))), (App ((Abs (App ((Var (S O)), (Abs
    (Abs (Var (S (S O)))))))), (Var (S O))))))

(** val lc_option_none : term **)

let lc_option_none =
  Abs (Abs (Var (S (S O))))

(** val lc_option_some : term **)

let lc_option_some =
  Abs (Abs (Abs (App ((Var (S O)), (Var (S (S (S O))))))))

(** val lc_option_is_none : term **)

let lc_option_is_none =
  Abs (App ((App ((Var (S O)), (Abs (Abs (Var (S (S O))))))), (Abs (Abs (Abs
    (Var (S O)))))))

(** val lc_option_is_some : term **)

let lc_option_is_some =
  Abs (App ((App ((Var (S O)), (Abs (Abs (Var (S O)))))), (Abs (Abs (Abs (Var
    (S (S O))))))))

(** val lc_option_map : term **)

let lc_option_map =
  Abs (Abs (App ((App ((Var (S O)), (Abs (Abs (Var (S (S O))))))), (Abs (App
    ((Abs (Abs (Abs (App ((Var (S O)), (Var (S (S (S O))))))))), (App ((Var
    (S (S (S O)))), (Var (S O))))))))))

(** val lc_option_map_or : term **)

let lc_option_map_or =
  Abs (Abs (Abs (App ((App ((Var (S O)), (Var (S (S (S O)))))), (Var (S (S
    O)))))))

(** val lc_option_unwrap_or : term **)

let lc_option_unwrap_or =
  Abs (Abs (App ((App ((Var (S O)), (Var (S (S O))))), (Abs (Var (S O))))))

(** val lc_option_and_then : term **)

let lc_option_and_then =
  Abs (Abs (App ((App ((Var (S (S O))), (Abs (Abs (Var (S (S O))))))), (Var
    (S O)))))

(** val lc_result_ok : term **)

let lc_result_ok =
  Abs (Abs (Abs (App ((Var (S (S O))), (Var (S (S (S O))))))))

(** val lc_result_err : term **)

let lc_result_err =
  Abs (Abs (Abs (App ((Var (S O)), (Var (S (S (S O))))))))

(** val lc_result_is_ok : term **)

let lc_result_is_ok =
  Abs (App ((App ((Var (S O)), (Abs (Abs (Abs (Var (S (S O)))))))), (Abs (Abs
    (Abs (Var (S O)))))))

(** val lc_result_is_err : term **)

let lc_result_is_err =
  Abs (App ((App ((Var (S O)), (Abs (Abs (Abs (Var (S O))))))), (Abs (Abs
    (Abs (Var (S (S O))))))))

(** val lc_result_option_ok : term **)

let lc_result_option_ok =
  Abs (App ((App ((Var (S O)), (Abs (Abs (Abs (App ((Var (S O)), (Var (S (S
    (S O))))))))))), (Abs (Abs (Abs (Var (S (S O))))))))

(** val lc_result_option_err : term **)

let lc_result_option_err =
  Abs (App ((App ((Var (S O)), (Abs (Abs (Abs (Var (S (S O)))))))), (Abs (Abs
    (Abs (App ((Var (S O)), (Var (S (S (S O)))))))))))

(** val lc_result_unwrap_or : term **)

let lc_result_unwrap_or =
  Abs (Abs (App ((App ((Var (S O)), (Abs (Var (S O))))), (Abs (Var (S (S (S
    O))))))))

(** val lc_result_map : term **)

let lc_result_map =
  Abs (Abs (App ((App ((Var (S O)), (Abs (App ((Abs (Abs (Abs (App ((Var (S
    (S O))), (Var (S (S (S O))))))))), (App ((Var (S (S (S O)))), (Var (S
    O))))))))), (Abs (Abs (Abs (App ((Var (S O)), (Var (S (S (S O))))))))))))

(** val lc_result_map_err : term **)

let lc_result_map_err =
  Abs (Abs (App ((App ((Var (S O)), (Abs (Abs (Abs (App ((Var (S (S O))),
    (Var (S (S (S O))))))))))), (Abs (App ((Abs (Abs (Abs (App ((Var (S O)),
    (Var (S (S (S O))))))))), (App ((Var (S (S (S O)))), (Var (S O))))))))))

(** val lc_result_and_then : term **)

let lc_result_and_then =
  Abs (Abs (App ((App ((Var (S (S O))), (Var (S O)))), (Abs (Abs (Abs (App
    ((Var (S O)), (Var (S (S (S O))))))))))))

(** val lc_num_church_zero : term **)

let lc_num_church_zero =
  Abs (Abs (Var (S O)))

(** val lc_num_church_is_zero : term **)

let lc_num_church_is_zero =
  Abs (App ((App ((Var (S O)), (Abs (Abs (Abs (Var (S O))))))), (Abs (Abs
    (Var (S (S O)))))))

(** val lc_num_church_one : term **)

let lc_num_church_one =
  Abs (Abs (App ((Var (S (S O))), (Var (S O)))))

(** val lc_num_church_succ : term **)

let lc_num_church_succ =
  Abs (Abs (Abs (App ((Var (S (S O))), (App ((App ((Var (S (S (S O)))), (Var
    (S (S O))))), (Var (S O))))))))

(** val lc_num_church_pred : term **)

let lc_num_church_pred =
  Abs (Abs (Abs (App ((App ((App ((Var (S (S (S O)))), (Abs (Abs (App ((Var
    (S O)), (App ((Var (S (S O))), (Var (S (S (S (S O))))))))))))), (Abs (Var
    (S (S O)))))), (Abs (Var (S O)))))))

(** val lc_num_church_add : term **)

let lc_num_church_add =
  Abs (Abs (App ((App ((Var (S O)), (Abs (Abs (Abs (App ((Var (S (S O))),
    (App ((App ((Var (S (S (S O)))), (Var (S (S O))))), (Var (S O))))))))))),
    (Var (S (S O))))))

(** val lc_num_church_sub : term **)

let lc_num_church_sub =
  Abs (Abs (App ((App ((Var (S O)), (Abs (Abs (Abs (App ((App ((App ((Var (S
    (S (S O)))), (Abs (Abs (App ((Var (S O)), (App ((Var (S (S O))), (Var (S
    (S (S (S O))))))))))))), (Abs (Var (S (S O)))))), (Abs (Var (S
    O)))))))))), (Var (S (S O))))))

(** val lc_num_church_mul : term **)

let lc_num_church_mul =
  Abs (Abs (Abs (App ((Var (S (S (S O)))), (App ((Var (S (S O))), (Var (S
    O))))))))

(** val lc_num_church_pow : term **)

let lc_num_church_pow =
  Abs (Abs (App ((App ((App ((Abs (App ((App ((Var (S O)), (Abs (Abs (Abs
    (Var (S O))))))), (Abs (Abs (Var (S (S O)))))))), (Var (S O)))), (Abs
    (Abs (App ((Var (S (S O))), (Var (S O)))))))), (App ((Var (S O)), (Var (S
    (S O))))))))

(** val lc_num_church_lt : term **)

let lc_num_church_lt =
  Abs (Abs (App ((Abs (App ((App ((Var (S O)), (Abs (Abs (Var (S O)))))),
    (Abs (Abs (Var (S (S O)))))))), (App ((App ((Abs (Abs (App ((Abs (App
    ((App ((Var (S O)), (Abs (Abs (Abs (Var (S O))))))), (Abs (Abs (Var (S (S
    O)))))))), (App ((App ((Abs (Abs (App ((App ((Var (S O)), (Abs (Abs (Abs
    (App ((App ((App ((Var (S (S (S O)))), (Abs (Abs (App ((Var (S O)), (App
    ((Var (S (S O))), (Var (S (S (S (S O))))))))))))), (Abs (Var (S (S
    O)))))), (Abs (Var (S O)))))))))), (Var (S (S O))))))), (Var (S (S
    O))))), (Var (S O)))))))), (Var (S O)))), (Var (S (S O))))))))

(** val lc_num_church_leq : term **)

let lc_num_church_leq =
  Abs (Abs (App ((Abs (App ((App ((Var (S O)), (Abs (Abs (Abs (Var (S
    O))))))), (Abs (Abs (Var (S (S O)))))))), (App ((App ((Abs (Abs (App
    ((App ((Var (S O)), (Abs (Abs (Abs (App ((App ((App ((Var (S (S (S O)))),
    (Abs (Abs (App ((Var (S O)), (App ((Var (S (S O))), (Var (S (S (S (S
    O))))))))))))), (Abs (Var (S (S O)))))), (Abs (Var (S O)))))))))), (Var
    (S (S O))))))), (Var (S (S O))))), (Var (S O)))))))

(** val lc_num_church_eq : term **)

let lc_num_church_eq =
  Abs (Abs (App ((App ((Abs (Abs (App ((App ((Var (S (S O))), (Var (S O)))),
    (Var (S (S O))))))), (App ((App ((Abs (Abs (App ((Abs (App ((App ((Var (S
    O)), (Abs (Abs (Abs (Var (S O))))))), (Abs (Abs (Var (S (S O)))))))),
    (App ((App ((Abs (Abs (App ((App ((Var (S O)), (Abs (Abs (Abs (App ((App
    ((App ((Var (S (S (S O)))), (Abs (Abs (App ((Var (S O)), (App ((Var (S (S
    O))), (Var (S (S (S (S O))))))))))))), (Abs (Var (S (S O)))))), (Abs (Var
    (S O)))))))))), (Var (S (S O))))))), (Var (S (S O))))), (Var (S
    O)))))))), (Var (S (S O))))), (Var (S O)))))), (App ((App ((Abs (Abs (App
    ((Abs (App ((App ((Var (S O)), (Abs (Abs (Abs (Var (S O))))))), (Abs (Abs
    (Var (S (S O)))))))), (App ((App ((Abs (Abs (App ((App ((Var (S O)), (Abs
    (Abs (Abs (App ((App ((App ((Var (S (S (S O)))), (Abs (Abs (App ((Var (S
    O)), (App ((Var (S (S O))), (Var (S (S (S (S O))))))))))))), (Abs (Var (S
    (S O)))))), (Abs (Var (S O)))))))))), (Var (S (S O))))))), (Var (S (S
    O))))), (Var (S O)))))))), (Var (S O)))), (Var (S (S O))))))))

(** val lc_num_church_neq : term **)

let lc_num_church_neq =
  Abs (Abs (App ((App ((Abs (Abs (App ((App ((Var (S (S O))), (Var (S (S
    O))))), (Var (S O)))))), (App ((Abs (App ((App ((Var (S O)), (Abs (Abs
    (Var (S O)))))), (Abs (Abs (Var (S (S O)))))))), (App ((App ((Abs (Abs
    (App ((Abs (App ((App ((Var (S O)), (Abs (Abs (Abs (Var (S O))))))), (Abs
    (Abs (Var (S (S O)))))))), (App ((App ((Abs (Abs (App ((App ((Var (S O)),
    (Abs (Abs (Abs (App ((App ((App ((Var (S (S (S O)))), (Abs (Abs (App
    ((Var (S O)), (App ((Var (S (S O))), (Var (S (S (S (S O))))))))))))),
    (Abs (Var (S (S O)))))), (Abs (Var (S O)))))))))), (Var (S (S O))))))),
    (Var (S (S O))))), (Var (S O)))))))), (Var (S (S O))))), (Var (S
    O)))))))), (App ((Abs (App ((App ((Var (S O)), (Abs (Abs (Var (S O)))))),
    (Abs (Abs (Var (S (S O)))))))), (App ((App ((Abs (Abs (App ((Abs (App
    ((App ((Var (S O)), (Abs (Abs (Abs (Var (S O))))))), (Abs (Abs (Var (S (S
    O)))))))), (App ((App ((Abs (Abs (App ((App ((Var (S O)), (Abs (Abs (Abs
    (App ((App ((App ((Var (S (S (S O)))), (Abs (Abs (App ((Var (S O)), (App
    ((Var (S (S O))), (Var (S (S (S (S O))))))))))))), (Abs (Var (S (S
    O)))))), (Abs (Var (S O)))))))))), (Var (S (S O))))))), (Var (S (S
    O))))), (Var (S O)))))))), (Var (S O)))), (Var (S (S O))))))))))

(** val lc_num_church_geq : term **)

let lc_num_church_geq =
  Abs (Abs (App ((App ((Abs (Abs (App ((Abs (App ((App ((Var (S O)), (Abs
    (Abs (Abs (Var (S O))))))), (Abs (Abs (Var (S (S O)))))))), (App ((App
    ((Abs (Abs (App ((App ((Var (S O)), (Abs (Abs (Abs (App ((App ((App ((Var
    (S (S (S O)))), (Abs (Abs (App ((Var (S O)), (App ((Var (S (S O))), (Var
    (S (S (S (S O))))))))))))), (Abs (Var (S (S O)))))), (Abs (Var (S
    O)))))))))), (Var (S (S O))))))), (Var (S (S O))))), (Var (S O)))))))),
    (Var (S O)))), (Var (S (S O))))))

(** val lc_num_church_gt : term **)

let lc_num_church_gt =
  Abs (Abs (App ((Abs (App ((App ((Var (S O)), (Abs (Abs (Var (S O)))))),
    (Abs (Abs (Var (S (S O)))))))), (App ((App ((Abs (Abs (App ((Abs (App
    ((App ((Var (S O)), (Abs (Abs (Abs (Var (S O))))))), (Abs (Abs (Var (S (S
    O)))))))), (App ((App ((Abs (Abs (App ((App ((Var (S O)), (Abs (Abs (Abs
    (App ((App ((App ((Var (S (S (S O)))), (Abs (Abs (App ((Var (S O)), (App
    ((Var (S (S O))), (Var (S (S (S (S O))))))))))))), (Abs (Var (S (S
    O)))))), (Abs (Var (S O)))))))))), (Var (S (S O))))))), (Var (S (S
    O))))), (Var (S O)))))))), (Var (S (S O))))), (Var (S O)))))))

(** val lc_num_church_div : term **)

let lc_num_church_div =
  App ((App ((Abs (App ((Abs (App ((Var (S (S O))), (Abs (App ((App ((Var (S
    (S O))), (Var (S (S O))))), (Var (S O)))))))), (Abs (App ((Var (S (S
    O))), (Abs (App ((App ((Var (S (S O))), (Var (S (S O))))), (Var (S
    O))))))))))), (Abs (Abs (Abs (Abs (App ((App ((App ((App ((App ((Abs (Abs
    (App ((Abs (App ((App ((Var (S O)), (Abs (Abs (Var (S O)))))), (Abs (Abs
    (Var (S (S O)))))))), (App ((App ((Abs (Abs (App ((Abs (App ((App ((Var
    (S O)), (Abs (Abs (Abs (Var (S O))))))), (Abs (Abs (Var (S (S O)))))))),
    (App ((App ((Abs (Abs (App ((App ((Var (S O)), (Abs (Abs (Abs (App ((App
    ((App ((Var (S (S (S O)))), (Abs (Abs (App ((Var (S O)), (App ((Var (S (S
    O))), (Var (S (S (S (S O))))))))))))), (Abs (Var (S (S O)))))), (Abs (Var
    (S O)))))))))), (Var (S (S O))))))), (Var (S (S O))))), (Var (S
    O)))))))), (Var (S O)))), (Var (S (S O))))))))), (Var (S (S O))))), (Var
    (S O)))), (Abs (App ((App ((Abs (Abs (Abs (App ((App ((Var (S O)), (Var
    (S (S (S O)))))), (Var (S (S O)))))))), (Var (S (S (S (S O))))))), (Var
    (S (S (S O))))))))), (Abs (App ((App ((App ((Var (S (S (S (S (S O)))))),
    (App ((Abs (Abs (Abs (App ((Var (S (S O))), (App ((App ((Var (S (S (S
    O)))), (Var (S (S O))))), (Var (S O))))))))), (Var (S (S (S (S
    O))))))))), (App ((App ((Abs (Abs (App ((App ((Var (S O)), (Abs (Abs (Abs
    (App ((App ((App ((Var (S (S (S O)))), (Abs (Abs (App ((Var (S O)), (App
    ((Var (S (S O))), (Var (S (S (S (S O))))))))))))), (Abs (Var (S (S
    O)))))), (Abs (Var (S O)))))))))), (Var (S (S O))))))), (Var (S (S (S
    O)))))), (Var (S (S O))))))), (Var (S (S O)))))))), (Abs (Var (S
    O))))))))))), (Abs (Abs (Var (S O)))))

(** val lc_num_church_quot : term **)

let lc_num_church_quot =
  App ((Abs (App ((Abs (App ((Var (S (S O))), (Abs (App ((App ((Var (S (S
    O))), (Var (S (S O))))), (Var (S O)))))))), (Abs (App ((Var (S (S O))),
    (Abs (App ((App ((Var (S (S O))), (Var (S (S O))))), (Var (S
    O))))))))))), (Abs (Abs (Abs (App ((App ((App ((App ((App ((Abs (Abs (App
    ((Abs (App ((App ((Var (S O)), (Abs (Abs (Var (S O)))))), (Abs (Abs (Var
    (S (S O)))))))), (App ((App ((Abs (Abs (App ((Abs (App ((App ((Var (S
    O)), (Abs (Abs (Abs (Var (S O))))))), (Abs (Abs (Var (S (S O)))))))),
    (App ((App ((Abs (Abs (App ((App ((Var (S O)), (Abs (Abs (Abs (App ((App
    ((App ((Var (S (S (S O)))), (Abs (Abs (App ((Var (S O)), (App ((Var (S (S
    O))), (Var (S (S (S (S O))))))))))))), (Abs (Var (S (S O)))))), (Abs (Var
    (S O)))))))))), (Var (S (S O))))))), (Var (S (S O))))), (Var (S
    O)))))))), (Var (S O)))), (Var (S (S O))))))))), (Var (S (S O))))), (Var
    (S O)))), (Abs (Abs (Abs (Var (S O))))))), (Abs (App ((Abs (Abs (Abs (App
    ((Var (S (S O))), (App ((App ((Var (S (S (S O)))), (Var (S (S O))))),
    (Var (S O))))))))), (App ((App ((Var (S (S (S (S O))))), (App ((App ((Abs
    (Abs (App ((App ((Var (S O)), (Abs (Abs (Abs (App ((App ((App ((Var (S (S
    (S O)))), (Abs (Abs (App ((Var (S O)), (App ((Var (S (S O))), (Var (S (S
    (S (S O))))))))))))), (Abs (Var (S (S O)))))), (Abs (Var (S O)))))))))),
    (Var (S (S O))))))), (Var (S (S (S O)))))), (Var (S (S O))))))), (Var (S
    (S O)))))))))), (Abs (Var (S O)))))))))

(** val lc_num_church_rem : term **)

let lc_num_church_rem =
  App ((Abs (App ((Abs (App ((Var (S (S O))), (Abs (App ((App ((Var (S (S
    O))), (Var (S (S O))))), (Var (S O)))))))), (Abs (App ((Var (S (S O))),
    (Abs (App ((App ((Var (S (S O))), (Var (S (S O))))), (Var (S
    O))))))))))), (Abs (Abs (Abs (App ((App ((App ((App ((App ((Abs (Abs (App
    ((Abs (App ((App ((Var (S O)), (Abs (Abs (Var (S O)))))), (Abs (Abs (Var
    (S (S O)))))))), (App ((App ((Abs (Abs (App ((Abs (App ((App ((Var (S
    O)), (Abs (Abs (Abs (Var (S O))))))), (Abs (Abs (Var (S (S O)))))))),
    (App ((App ((Abs (Abs (App ((App ((Var (S O)), (Abs (Abs (Abs (App ((App
    ((App ((Var (S (S (S O)))), (Abs (Abs (App ((Var (S O)), (App ((Var (S (S
    O))), (Var (S (S (S (S O))))))))))))), (Abs (Var (S (S O)))))), (Abs (Var
    (S O)))))))))), (Var (S (S O))))))), (Var (S (S O))))), (Var (S
    O)))))))), (Var (S O)))), (Var (S (S O))))))))), (Var (S (S O))))), (Var
    (S O)))), (Abs (Var (S (S (S O))))))), (Abs (App ((App ((Var (S (S (S (S
    O))))), (App ((App ((Abs (Abs (App ((App ((Var (S O)), (Abs (Abs (Abs
    (App ((App ((App ((Var (S (S (S O)))), (Abs (Abs (App ((Var (S O)), (App
    ((Var (S (S O))), (Var (S (S (S (S O))))))))))))), (Abs (Var (S (S
    O)))))), (Abs (Var (S O)))))))))), (Var (S (S O))))))), (Var (S (S (S
    O)))))), (Var (S (S O))))))), (Var (S (S O)))))))), (Abs (Var (S
    O)))))))))

(** val lc_num_church_fac : term **)

let lc_num_church_fac =
  Abs (App ((App ((App ((App ((Var (S O)), (Abs (Abs (Abs (App ((App ((Var (S
    (S (S O)))), (App ((App ((Abs (Abs (Abs (App ((Var (S (S (S O)))), (App
    ((Var (S (S O))), (Var (S O))))))))), (Var (S (S O))))), (Var (S O)))))),
    (App ((Abs (Abs (Abs (App ((Var (S (S O))), (App ((App ((Var (S (S (S
    O)))), (Var (S (S O))))), (Var (S O))))))))), (Var (S O))))))))))), (Abs
    (Abs (Var (S (S O))))))), (Abs (Abs (App ((Var (S (S O))), (Var (S
    O)))))))), (Abs (Abs (App ((Var (S (S O))), (Var (S O))))))))

(** val lc_num_church_min : term **)

let lc_num_church_min =
  Abs (Abs (App ((App ((App ((App ((Abs (Abs (App ((Abs (App ((App ((Var (S
    O)), (Abs (Abs (Abs (Var (S O))))))), (Abs (Abs (Var (S (S O)))))))),
    (App ((App ((Abs (Abs (App ((App ((Var (S O)), (Abs (Abs (Abs (App ((App
    ((App ((Var (S (S (S O)))), (Abs (Abs (App ((Var (S O)), (App ((Var (S (S
    O))), (Var (S (S (S (S O))))))))))))), (Abs (Var (S (S O)))))), (Abs (Var
    (S O)))))))))), (Var (S (S O))))))), (Var (S (S O))))), (Var (S
    O)))))))), (Var (S (S O))))), (Var (S O)))), (Var (S (S O))))), (Var (S
    O)))))

(** val lc_num_church_max : term **)

let lc_num_church_max =
  Abs (Abs (App ((App ((App ((App ((Abs (Abs (App ((Abs (App ((App ((Var (S
    O)), (Abs (Abs (Abs (Var (S O))))))), (Abs (Abs (Var (S (S O)))))))),
    (App ((App ((Abs (Abs (App ((App ((Var (S O)), (Abs (Abs (Abs (App ((App
    ((App ((Var (S (S (S O)))), (Abs (Abs (App ((Var (S O)), (App ((Var (S (S
    O))), (Var (S (S (S (S O))))))))))))), (Abs (Var (S (S O)))))), (Abs (Var
    (S O)))))))))), (Var (S (S O))))))), (Var (S (S O))))), (Var (S
    O)))))))), (Var (S (S O))))), (Var (S O)))), (Var (S O)))), (Var (S (S
    O))))))

(** val lc_num_church_shl : term **)

let lc_num_church_shl =
  Abs (Abs (App ((App ((Abs (Abs (Abs (App ((Var (S (S (S O)))), (App ((Var
    (S (S O))), (Var (S O))))))))), (Var (S (S O))))), (App ((App ((Abs (Abs
    (App ((App ((App ((Abs (App ((App ((Var (S O)), (Abs (Abs (Abs (Var (S
    O))))))), (Abs (Abs (Var (S (S O)))))))), (Var (S O)))), (Abs (Abs (App
    ((Var (S (S O))), (Var (S O)))))))), (App ((Var (S O)), (Var (S (S
    O))))))))), (App ((Abs (Abs (Abs (App ((Var (S (S O))), (App ((App ((Var
    (S (S (S O)))), (Var (S (S O))))), (Var (S O))))))))), (Abs (Abs (App
    ((Var (S (S O))), (Var (S O)))))))))), (Var (S O)))))))

(** val lc_num_church_shr : term **)

let lc_num_church_shr =
  Abs (Abs (App ((App ((App ((Abs (App ((App ((Var (S O)), (Abs (Abs (Abs
    (Var (S O))))))), (Abs (Abs (Var (S (S O)))))))), (Var (S O)))), (Var (S
    (S O))))), (App ((App ((App ((Abs (App ((Abs (App ((Var (S (S O))), (Abs
    (App ((App ((Var (S (S O))), (Var (S (S O))))), (Var (S O)))))))), (Abs
    (App ((Var (S (S O))), (Abs (App ((App ((Var (S (S O))), (Var (S (S
    O))))), (Var (S O))))))))))), (Abs (Abs (Abs (App ((App ((App ((App ((App
    ((Abs (Abs (App ((Abs (App ((App ((Var (S O)), (Abs (Abs (Var (S O)))))),
    (Abs (Abs (Var (S (S O)))))))), (App ((App ((Abs (Abs (App ((Abs (App
    ((App ((Var (S O)), (Abs (Abs (Abs (Var (S O))))))), (Abs (Abs (Var (S (S
    O)))))))), (App ((App ((Abs (Abs (App ((App ((Var (S O)), (Abs (Abs (Abs
    (App ((App ((App ((Var (S (S (S O)))), (Abs (Abs (App ((Var (S O)), (App
    ((Var (S (S O))), (Var (S (S (S (S O))))))))))))), (Abs (Var (S (S
    O)))))), (Abs (Var (S O)))))))))), (Var (S (S O))))))), (Var (S (S
    O))))), (Var (S O)))))))), (Var (S O)))), (Var (S (S O))))))))), (Var (S
    (S O))))), (Var (S O)))), (Abs (Abs (Abs (Var (S O))))))), (Abs (App
    ((Abs (Abs (Abs (App ((Var (S (S O))), (App ((App ((Var (S (S (S O)))),
    (Var (S (S O))))), (Var (S O))))))))), (App ((App ((Var (S (S (S (S
    O))))), (App ((App ((Abs (Abs (App ((App ((Var (S O)), (Abs (Abs (Abs
    (App ((App ((App ((Var (S (S (S O)))), (Abs (Abs (App ((Var (S O)), (App
    ((Var (S (S O))), (Var (S (S (S (S O))))))))))))), (Abs (Var (S (S
    O)))))), (Abs (Var (S O)))))))))), (Var (S (S O))))))), (Var (S (S (S
    O)))))), (Var (S (S O))))))), (Var (S (S O)))))))))), (Abs (Var (S
    O)))))))))), (Var (S (S O))))), (App ((App ((Abs (Abs (App ((App ((App
    ((Abs (App ((App ((Var (S O)), (Abs (Abs (Abs (Var (S O))))))), (Abs (Abs
    (Var (S (S O)))))))), (Var (S O)))), (Abs (Abs (App ((Var (S (S O))),
    (Var (S O)))))))), (App ((Var (S O)), (Var (S (S O))))))))), (App ((Abs
    (Abs (Abs (App ((Var (S (S O))), (App ((App ((Var (S (S (S O)))), (Var (S
    (S O))))), (Var (S O))))))))), (Abs (Abs (App ((Var (S (S O))), (Var (S
    O)))))))))), (Var (S O)))))))))

(** val lc_num_church_is_even : term **)

let lc_num_church_is_even =
  Abs (App ((App ((Var (S O)), (Abs (App ((App ((Var (S O)), (Abs (Abs (Var
    (S O)))))), (Abs (Abs (Var (S (S O)))))))))), (Abs (Abs (Var (S (S
    O)))))))

(** val lc_num_church_is_odd : term **)

let lc_num_church_is_odd =
  Abs (App ((App ((Var (S O)), (Abs (App ((App ((Var (S O)), (Abs (Abs (Var
    (S O)))))), (Abs (Abs (Var (S (S O)))))))))), (Abs (Abs (Var (S O))))))

(** val lc_num_church_to_scott : term **)

let lc_num_church_to_scott =
  Abs (App ((App ((Var (S O)), (Abs (Abs (Abs (App ((Var (S O)), (Var (S (S
    (S O))))))))))), (Abs (Abs (Var (S (S O)))))))

(** val lc_num_church_to_parigot : term **)

let lc_num_church_to_parigot =
  Abs (App ((App ((Var (S O)), (Abs (Abs (Abs (App ((App ((Var (S (S O))),
    (Var (S (S (S O)))))), (App ((App ((Var (S (S (S O)))), (Var (S (S
    O))))), (Var (S O))))))))))), (Abs (Abs (Var (S O))))))

(** val lc_num_church_to_stumpfu : term **)

let lc_num_church_to_stumpfu =
  Abs (App ((App ((Var (S O)), (Abs (App ((App ((Var (S O)), (Abs (Abs (Abs
    (Abs (App ((App ((Var (S (S O))), (App ((Abs (Abs (Abs (App ((Var (S (S
    O))), (App ((App ((Var (S (S (S O)))), (Var (S (S O))))), (Var (S
    O))))))))), (Var (S (S (S (S O))))))))), (Var (S (S (S (S (S
    O)))))))))))))), (Abs (Abs (App ((App ((Var (S (S O))), (Abs (Abs (App
    ((Var (S (S O))), (Var (S O)))))))), (Abs (Abs (Var (S O))))))))))))),
    (Abs (Abs (Var (S O))))))

(** val lc_num_scott_zero : term **)

let lc_num_scott_zero =
  Abs (Abs (Var (S (S O))))

(** val lc_num_scott_is_zero : term **)

let lc_num_scott_is_zero =
  Abs (App ((App ((Var (S O)), (Abs (Abs (Var (S (S O))))))), (Abs (Abs (Abs
    (Var (S O)))))))

(** val lc_num_scott_one : term **)

let lc_num_scott_one =
  Abs (Abs (App ((Var (S O)), (Abs (Abs (Var (S (S O))))))))

(** val lc_num_scott_succ : term **)

let lc_num_scott_succ =
  Abs (Abs (Abs (App ((Var (S O)), (Var (S (S (S O))))))))

(** val lc_num_scott_pred : term **)

let lc_num_scott_pred =
  Abs (App ((App ((Var (S O)), (Abs (Abs (Var (S (S O))))))), (Abs (Var (S
    O)))))

(** val lc_num_scott_add : term **)

let lc_num_scott_add =
  App ((Abs (App ((Abs (App ((Var (S (S O))), (Abs (App ((App ((Var (S (S
    O))), (Var (S (S O))))), (Var (S O)))))))), (Abs (App ((Var (S (S O))),
    (Abs (App ((App ((Var (S (S O))), (Var (S (S O))))), (Var (S
    O))))))))))), (Abs (Abs (Abs (App ((App ((Var (S (S O))), (Var (S O)))),
    (Abs (App ((Abs (Abs (Abs (App ((Var (S O)), (Var (S (S (S O))))))))),
    (App ((App ((Var (S (S (S (S O))))), (Var (S O)))), (Var (S (S
    O))))))))))))))

(** val lc_num_scott_mul : term **)

let lc_num_scott_mul =
  App ((Abs (App ((Abs (App ((Var (S (S O))), (Abs (App ((App ((Var (S (S
    O))), (Var (S (S O))))), (Var (S O)))))))), (Abs (App ((Var (S (S O))),
    (Abs (App ((App ((Var (S (S O))), (Var (S (S O))))), (Var (S
    O))))))))))), (Abs (Abs (Abs (App ((App ((Var (S (S O))), (Abs (Abs (Var
    (S (S O))))))), (Abs (App ((App ((App ((Abs (App ((Abs (App ((Var (S (S
    O))), (Abs (App ((App ((Var (S (S O))), (Var (S (S O))))), (Var (S
    O)))))))), (Abs (App ((Var (S (S O))), (Abs (App ((App ((Var (S (S O))),
    (Var (S (S O))))), (Var (S O))))))))))), (Abs (Abs (Abs (App ((App ((Var
    (S (S O))), (Var (S O)))), (Abs (App ((Abs (Abs (Abs (App ((Var (S O)),
    (Var (S (S (S O))))))))), (App ((App ((Var (S (S (S (S O))))), (Var (S
    O)))), (Var (S (S O))))))))))))))), (Var (S (S O))))), (App ((App ((Var
    (S (S (S (S O))))), (Var (S O)))), (Var (S (S O))))))))))))))

(** val lc_num_scott_pow : term **)

let lc_num_scott_pow =
  App ((Abs (App ((Abs (App ((Var (S (S O))), (Abs (App ((App ((Var (S (S
    O))), (Var (S (S O))))), (Var (S O)))))))), (Abs (App ((Var (S (S O))),
    (Abs (App ((App ((Var (S (S O))), (Var (S (S O))))), (Var (S
    O))))))))))), (Abs (Abs (Abs (App ((App ((Var (S O)), (Abs (Abs (App
    ((Var (S O)), (Abs (Abs (Var (S (S O))))))))))), (Abs (App ((App ((App
    ((Abs (App ((Abs (App ((Var (S (S O))), (Abs (App ((App ((Var (S (S O))),
    (Var (S (S O))))), (Var (S O)))))))), (Abs (App ((Var (S (S O))), (Abs
    (App ((App ((Var (S (S O))), (Var (S (S O))))), (Var (S O))))))))))),
    (Abs (Abs (Abs (App ((App ((Var (S (S O))), (Abs (Abs (Var (S (S
    O))))))), (Abs (App ((App ((App ((Abs (App ((Abs (App ((Var (S (S O))),
    (Abs (App ((App ((Var (S (S O))), (Var (S (S O))))), (Var (S O)))))))),
    (Abs (App ((Var (S (S O))), (Abs (App ((App ((Var (S (S O))), (Var (S (S
    O))))), (Var (S O))))))))))), (Abs (Abs (Abs (App ((App ((Var (S (S O))),
    (Var (S O)))), (Abs (App ((Abs (Abs (Abs (App ((Var (S O)), (Var (S (S (S
    O))))))))), (App ((App ((Var (S (S (S (S O))))), (Var (S O)))), (Var (S
    (S O))))))))))))))), (Var (S (S O))))), (App ((App ((Var (S (S (S (S
    O))))), (Var (S O)))), (Var (S (S O))))))))))))))), (Var (S (S (S
    O)))))), (App ((App ((Var (S (S (S (S O))))), (Var (S (S (S O)))))), (Var
    (S O)))))))))))))

(** val lc_num_scott_to_church : term **)

let lc_num_scott_to_church =
  Abs (Abs (Abs (App ((App ((App ((App ((Abs (App ((Abs (App ((Var (S (S
    O))), (Abs (App ((App ((Var (S (S O))), (Var (S (S O))))), (Var (S
    O)))))))), (Abs (App ((Var (S (S O))), (Abs (App ((App ((Var (S (S O))),
    (Var (S (S O))))), (Var (S O))))))))))), (Abs (Abs (Abs (Abs (App ((App
    ((Var (S O)), (Var (S (S O))))), (Abs (App ((Var (S (S (S (S O))))), (App
    ((App ((App ((Var (S (S (S (S (S O)))))), (Var (S (S (S (S O))))))), (Var
    (S (S (S O)))))), (Var (S O))))))))))))))), (Var (S (S O))))), (Var (S
    O)))), (Var (S (S (S O))))))))

(** val lc_num_parigot_zero : term **)

let lc_num_parigot_zero =
  Abs (Abs (Var (S O)))

(** val lc_num_parigot_is_zero : term **)

let lc_num_parigot_is_zero =
  Abs (App ((App ((Var (S O)), (Abs (Abs (Abs (Abs (Var (S O)))))))), (Abs
    (Abs (Var (S (S O)))))))

(** val lc_num_parigot_one : term **)

let lc_num_parigot_one =
  Abs (Abs (App ((App ((Var (S (S O))), (Abs (Abs (Var (S O)))))), (Var (S
    O)))))

(** val lc_num_parigot_succ : term **)

let lc_num_parigot_succ =
  Abs (Abs (Abs (App ((App ((Var (S (S O))), (Var (S (S (S O)))))), (App
    ((App ((Var (S (S (S O)))), (Var (S (S O))))), (Var (S O))))))))

(** val lc_num_parigot_pred : term **)

let lc_num_parigot_pred =
  Abs (App ((App ((Var (S O)), (Abs (Abs (Var (S (S O))))))), (Abs (Abs (Var
    (S O))))))

(** val lc_num_parigot_add : term **)

let lc_num_parigot_add =
  Abs (Abs (App ((App ((Var (S (S O))), (Abs (Abs (Abs (Abs (App ((App ((Var
    (S (S O))), (Var (S (S (S O)))))), (App ((App ((Var (S (S (S O)))), (Var
    (S (S O))))), (Var (S O)))))))))))), (Var (S O)))))

(** val lc_num_parigot_sub : term **)

let lc_num_parigot_sub =
  Abs (Abs (App ((App ((Var (S O)), (Abs (Abs (App ((App ((Var (S O)), (Abs
    (Abs (Var (S (S O))))))), (Abs (Abs (Var (S O)))))))))), (Var (S (S
    O))))))

(** val lc_num_parigot_mul : term **)

let lc_num_parigot_mul =
  Abs (Abs (App ((App ((Var (S (S O))), (Abs (App ((Abs (Abs (App ((App ((Var
    (S (S O))), (Abs (Abs (Abs (Abs (App ((App ((Var (S (S O))), (Var (S (S
    (S O)))))), (App ((App ((Var (S (S (S O)))), (Var (S (S O))))), (Var (S
    O)))))))))))), (Var (S O)))))), (Var (S (S O)))))))), (Abs (Abs (Var (S
    O)))))))

(** val lc_num_stumpfu_zero : term **)

let lc_num_stumpfu_zero =
  Abs (Abs (Var (S O)))

(** val lc_num_stumpfu_is_zero : term **)

let lc_num_stumpfu_is_zero =
  Abs (App ((App ((Var (S O)), (Abs (Abs (Abs (Abs (Var (S O)))))))), (Abs
    (Abs (Var (S (S O)))))))

(** val lc_num_stumpfu_one : term **)

let lc_num_stumpfu_one =
  Abs (Abs (App ((App ((Var (S (S O))), (Abs (Abs (App ((Var (S (S O))), (Var
    (S O)))))))), (Abs (Abs (Var (S O)))))))

(** val lc_num_stumpfu_succ : term **)

let lc_num_stumpfu_succ =
  Abs (App ((App ((Var (S O)), (Abs (Abs (Abs (Abs (App ((App ((Var (S (S
    O))), (App ((Abs (Abs (Abs (App ((Var (S (S O))), (App ((App ((Var (S (S
    (S O)))), (Var (S (S O))))), (Var (S O))))))))), (Var (S (S (S (S
    O))))))))), (Var (S (S (S (S (S O)))))))))))))), (Abs (Abs (App ((App
    ((Var (S (S O))), (Abs (Abs (App ((Var (S (S O))), (Var (S O)))))))),
    (Abs (Abs (Var (S O))))))))))

(** val lc_num_stumpfu_pred : term **)

let lc_num_stumpfu_pred =
  Abs (App ((App ((Var (S O)), (Abs (Abs (Var (S O)))))), (Abs (Abs (Var (S
    O))))))

(** val lc_num_stumpfu_add : term **)

let lc_num_stumpfu_add =
  Abs (Abs (App ((App ((Var (S (S O))), (Abs (Abs (App ((App ((Var (S (S
    O))), (Abs (App ((App ((Var (S O)), (Abs (Abs (Abs (Abs (App ((App ((Var
    (S (S O))), (App ((Abs (Abs (Abs (App ((Var (S (S O))), (App ((App ((Var
    (S (S (S O)))), (Var (S (S O))))), (Var (S O))))))))), (Var (S (S (S (S
    O))))))))), (Var (S (S (S (S (S O)))))))))))))), (Abs (Abs (App ((App
    ((Var (S (S O))), (Abs (Abs (App ((Var (S (S O))), (Var (S O)))))))),
    (Abs (Abs (Var (S O))))))))))))), (Var (S (S (S O)))))))))), (Var (S
    O)))))

(** val lc_num_stumpfu_mul : term **)

let lc_num_stumpfu_mul =
  Abs (Abs (App ((App ((Var (S (S O))), (Abs (Abs (App ((App ((Var (S (S
    O))), (Abs (App ((App ((Abs (Abs (App ((App ((Var (S (S O))), (Abs (Abs
    (App ((App ((Var (S (S O))), (Abs (App ((App ((Var (S O)), (Abs (Abs (Abs
    (Abs (App ((App ((Var (S (S O))), (App ((Abs (Abs (Abs (App ((Var (S (S
    O))), (App ((App ((Var (S (S (S O)))), (Var (S (S O))))), (Var (S
    O))))))))), (Var (S (S (S (S O))))))))), (Var (S (S (S (S (S
    O)))))))))))))), (Abs (Abs (App ((App ((Var (S (S O))), (Abs (Abs (App
    ((Var (S (S O))), (Var (S O)))))))), (Abs (Abs (Var (S O))))))))))))),
    (Var (S (S (S O)))))))))), (Var (S O)))))), (Var (S (S (S (S O))))))),
    (Var (S O))))))), (Abs (Abs (Var (S O)))))))))), (Abs (Abs (Var (S
    O)))))))

(** val lc_num_stumpfu_to_church : term **)

let lc_num_stumpfu_to_church =
  Abs (App ((App ((Var (S O)), (Abs (Abs (Var (S (S O))))))), (Var (S O))))

(** val lc_num_stumpfu_to_scott : term **)

let lc_num_stumpfu_to_scott =
  Abs (App ((Abs (App ((App ((Var (S O)), (Abs (Abs (Abs (App ((Var (S O)),
    (Var (S (S (S O))))))))))), (Abs (Abs (Var (S (S O)))))))), (App ((App
    ((Var (S O)), (Abs (Abs (Var (S (S O))))))), (Var (S O))))))

(** val lc_num_stumpfu_to_parigot : term **)

let lc_num_stumpfu_to_parigot =
  Abs (App ((Abs (App ((App ((Var (S O)), (Abs (Abs (Abs (App ((App ((Var (S
    (S O))), (Var (S (S (S O)))))), (App ((App ((Var (S (S (S O)))), (Var (S
    (S O))))), (Var (S O))))))))))), (Abs (Abs (Var (S O))))))), (App ((App
    ((Var (S O)), (Abs (Abs (Var (S (S O))))))), (Var (S O))))))

(** val lc_num_binary_b0 : term **)

let lc_num_binary_b0 =
  Abs (Abs (Var (S (S O))))

(** val lc_num_binary_b1 : term **)

let lc_num_binary_b1 =
  Abs (Abs (Var (S O)))

(** val lc_num_binary_zero : term **)

let lc_num_binary_zero =
  Abs (Abs (Abs (Var (S (S (S O))))))

(** val lc_num_binary_is_zero : term **)

let lc_num_binary_is_zero =
  Abs (App ((App ((App ((Var (S O)), (Abs (Abs (Var (S (S O))))))), (Abs (Var
    (S O))))), (Abs (Abs (Abs (Var (S O)))))))

(** val lc_num_binary_one : term **)

let lc_num_binary_one =
  Abs (Abs (Abs (App ((Var (S O)), (Var (S (S (S O))))))))

(** val lc_num_binary_succ : term **)

let lc_num_binary_succ =
  Abs (App ((Abs (App ((Var (S O)), (Abs (Abs (Var (S O))))))), (App ((App
    ((App ((Var (S O)), (App ((App ((Abs (Abs (Abs (App ((App ((Var (S O)),
    (Var (S (S (S O)))))), (Var (S (S O)))))))), (Abs (Abs (Abs (Var (S (S (S
    O))))))))), (Abs (Abs (Abs (App ((Var (S O)), (Var (S (S (S
    O))))))))))))), (Abs (App ((Var (S O)), (Abs (Abs (App ((App ((Abs (Abs
    (Abs (App ((App ((Var (S O)), (Var (S (S (S O)))))), (Var (S (S
    O)))))))), (App ((Abs (Abs (Abs (Abs (App ((Var (S (S O))), (App ((App
    ((App ((Var (S (S (S (S O))))), (Var (S (S (S O)))))), (Var (S (S O))))),
    (Var (S O)))))))))), (Var (S (S O))))))), (App ((Abs (Abs (Abs (Abs (App
    ((Var (S O)), (App ((App ((App ((Var (S (S (S (S O))))), (Var (S (S (S
    O)))))), (Var (S (S O))))), (Var (S O)))))))))), (Var (S (S
    O)))))))))))))), (Abs (App ((Var (S O)), (Abs (Abs (App ((App ((Abs (Abs
    (Abs (App ((App ((Var (S O)), (Var (S (S (S O)))))), (Var (S (S
    O)))))))), (App ((Abs (Abs (Abs (Abs (App ((Var (S O)), (App ((App ((App
    ((Var (S (S (S (S O))))), (Var (S (S (S O)))))), (Var (S (S O))))), (Var
    (S O)))))))))), (Var (S (S O))))))), (App ((Abs (Abs (Abs (Abs (App ((Var
    (S (S O))), (App ((App ((App ((Var (S (S (S (S O))))), (Var (S (S (S
    O)))))), (Var (S (S O))))), (Var (S O)))))))))), (Var (S O)))))))))))))))

(** val lc_num_binary_pred : term **)

let lc_num_binary_pred =
  Abs (App ((Abs (App ((Var (S O)), (Abs (Abs (Var (S O))))))), (App ((App
    ((App ((Var (S O)), (App ((App ((Abs (Abs (Abs (App ((App ((Var (S O)),
    (Var (S (S (S O)))))), (Var (S (S O)))))))), (Abs (Abs (Abs (Var (S (S (S
    O))))))))), (Abs (Abs (Abs (Var (S (S (S O))))))))))), (Abs (App ((Var (S
    O)), (Abs (Abs (App ((App ((Abs (Abs (Abs (App ((App ((Var (S O)), (Var
    (S (S (S O)))))), (Var (S (S O)))))))), (App ((Abs (Abs (Abs (Abs (App
    ((Var (S (S O))), (App ((App ((App ((Var (S (S (S (S O))))), (Var (S (S
    (S O)))))), (Var (S (S O))))), (Var (S O)))))))))), (Var (S (S O))))))),
    (App ((Abs (Abs (Abs (Abs (App ((Var (S O)), (App ((App ((App ((Var (S (S
    (S (S O))))), (Var (S (S (S O)))))), (Var (S (S O))))), (Var (S
    O)))))))))), (Var (S O))))))))))))), (Abs (App ((Var (S O)), (Abs (Abs
    (App ((App ((Abs (Abs (Abs (App ((App ((Var (S O)), (Var (S (S (S
    O)))))), (Var (S (S O)))))))), (App ((Abs (Abs (Abs (Abs (App ((Var (S
    O)), (App ((App ((App ((Var (S (S (S (S O))))), (Var (S (S (S O)))))),
    (Var (S (S O))))), (Var (S O)))))))))), (Var (S (S O))))))), (App ((Abs
    (Abs (Abs (Abs (App ((Var (S (S O))), (App ((App ((App ((Var (S (S (S (S
    O))))), (Var (S (S (S O)))))), (Var (S (S O))))), (Var (S O)))))))))),
    (Var (S (S O))))))))))))))))

(** val lc_num_binary_lsb : term **)

let lc_num_binary_lsb =
  Abs (App ((App ((App ((Var (S O)), (Abs (Abs (Var (S (S O))))))), (Abs (Abs
    (Abs (Var (S (S O)))))))), (Abs (Abs (Abs (Var (S O)))))))

(** val lc_num_binary_shl0 : term **)

let lc_num_binary_shl0 =
  Abs (Abs (Abs (Abs (App ((Var (S (S O))), (App ((App ((App ((Var (S (S (S
    (S O))))), (Var (S (S (S O)))))), (Var (S (S O))))), (Var (S O)))))))))

(** val lc_num_binary_shl1 : term **)

let lc_num_binary_shl1 =
  Abs (Abs (Abs (Abs (App ((Var (S O)), (App ((App ((App ((Var (S (S (S (S
    O))))), (Var (S (S (S O)))))), (Var (S (S O))))), (Var (S O)))))))))

(** val lc_num_binary_strip : term **)

let lc_num_binary_strip =
  Abs (App ((Abs (App ((Var (S O)), (Abs (Abs (Var (S (S O)))))))), (App
    ((App ((App ((Var (S O)), (App ((App ((Abs (Abs (Abs (App ((App ((Var (S
    O)), (Var (S (S (S O)))))), (Var (S (S O)))))))), (Abs (Abs (Abs (Var (S
    (S (S O))))))))), (Abs (Abs (Var (S (S O))))))))), (Abs (App ((Var (S
    O)), (Abs (Abs (App ((App ((Abs (Abs (Abs (App ((App ((Var (S O)), (Var
    (S (S (S O)))))), (Var (S (S O)))))))), (App ((App ((Var (S O)), (Abs
    (Abs (Abs (Var (S (S (S O))))))))), (App ((Abs (Abs (Abs (Abs (App ((Var
    (S (S O))), (App ((App ((App ((Var (S (S (S (S O))))), (Var (S (S (S
    O)))))), (Var (S (S O))))), (Var (S O)))))))))), (Var (S (S O))))))))),
    (Var (S O))))))))))), (Abs (App ((Var (S O)), (Abs (Abs (App ((App ((Abs
    (Abs (Abs (App ((App ((Var (S O)), (Var (S (S (S O)))))), (Var (S (S
    O)))))))), (App ((Abs (Abs (Abs (Abs (App ((Var (S O)), (App ((App ((App
    ((Var (S (S (S (S O))))), (Var (S (S (S O)))))), (Var (S (S O))))), (Var
    (S O)))))))))), (Var (S (S O))))))), (Abs (Abs (Var (S O)))))))))))))))

(** val lc_num_signed_neg : term **)

let lc_num_signed_neg =
  Abs (App ((App ((Abs (Abs (Abs (App ((App ((Var (S O)), (Var (S (S (S
    O)))))), (Var (S (S O)))))))), (App ((Abs (App ((Var (S O)), (Abs (Abs
    (Var (S O))))))), (Var (S O)))))), (App ((Abs (App ((Var (S O)), (Abs
    (Abs (Var (S (S O)))))))), (Var (S O))))))

(** val lc_list_pair_nil : term **)

let lc_list_pair_nil =
  Abs (Abs (Var (S O)))

(** val lc_list_pair_is_nil : term **)

let lc_list_pair_is_nil =
  Abs (App ((App ((Var (S O)), (Abs (Abs (Abs (Abs (Abs (Var (S O))))))))),
    (Abs (Abs (Var (S (S O)))))))

(** val lc_list_pair_cons : term **)

let lc_list_pair_cons =
  Abs (Abs (Abs (App ((App ((Var (S O)), (Var (S (S (S O)))))), (Var (S (S
    O)))))))

(** val lc_list_pair_head : term **)

let lc_list_pair_head =
  Abs (App ((Var (S O)), (Abs (Abs (Var (S (S O)))))))

(** val lc_list_pair_tail : term **)

let lc_list_pair_tail =
  Abs (App ((Var (S O)), (Abs (Abs (Var (S O))))))

(** val lc_list_pair_length : term **)

let lc_list_pair_length =
  App ((App ((Abs (App ((Abs (App ((Var (S (S O))), (Abs (App ((App ((Var (S
    (S O))), (Var (S (S O))))), (Var (S O)))))))), (Abs (App ((Var (S (S
    O))), (Abs (App ((App ((Var (S (S O))), (Var (S (S O))))), (Var (S
    O))))))))))), (Abs (Abs (Abs (App ((App ((App ((App ((Abs (App ((App
    ((Var (S O)), (Abs (Abs (Abs (Abs (Abs (Var (S O))))))))), (Abs (Abs (Var
    (S (S O)))))))), (Var (S O)))), (Abs (Var (S (S (S O))))))), (Abs (App
    ((App ((Var (S (S (S (S O))))), (App ((Abs (Abs (Abs (App ((Var (S (S
    O))), (App ((App ((Var (S (S (S O)))), (Var (S (S O))))), (Var (S
    O))))))))), (Var (S (S (S O)))))))), (App ((Abs (App ((Var (S O)), (Abs
    (Abs (Var (S O))))))), (Var (S (S O)))))))))), (Abs (Var (S O)))))))))),
    (Abs (Abs (Var (S O)))))

(** val lc_list_pair_index : term **)

let lc_list_pair_index =
  Abs (Abs (App ((Abs (App ((Var (S O)), (Abs (Abs (Var (S (S O)))))))), (App
    ((App ((Var (S (S O))), (Abs (App ((Var (S O)), (Abs (Abs (Var (S
    O))))))))), (Var (S O)))))))

(** val lc_list_pair_reverse : term **)

let lc_list_pair_reverse =
  App ((App ((Abs (App ((Abs (App ((Var (S (S O))), (Abs (App ((App ((Var (S
    (S O))), (Var (S (S O))))), (Var (S O)))))))), (Abs (App ((Var (S (S
    O))), (Abs (App ((App ((Var (S (S O))), (Var (S (S O))))), (Var (S
    O))))))))))), (Abs (Abs (Abs (App ((App ((App ((App ((Abs (App ((App
    ((Var (S O)), (Abs (Abs (Abs (Abs (Abs (Var (S O))))))))), (Abs (Abs (Var
    (S (S O)))))))), (Var (S O)))), (Abs (Var (S (S (S O))))))), (Abs (App
    ((App ((Var (S (S (S (S O))))), (App ((App ((Abs (Abs (Abs (App ((App
    ((Var (S O)), (Var (S (S (S O)))))), (Var (S (S O)))))))), (App ((Abs
    (App ((Var (S O)), (Abs (Abs (Var (S (S O)))))))), (Var (S (S O))))))),
    (Var (S (S (S O)))))))), (App ((Abs (App ((Var (S O)), (Abs (Abs (Var (S
    O))))))), (Var (S (S O)))))))))), (Abs (Var (S O)))))))))), (Abs (Abs
    (Var (S O)))))

(** val lc_list_pair_list : term **)

let lc_list_pair_list =
  Abs (App ((App ((App ((Var (S O)), (Abs (Abs (Abs (App ((Var (S (S (S
    O)))), (App ((App ((Abs (Abs (Abs (App ((App ((Var (S O)), (Var (S (S (S
    O)))))), (Var (S (S O)))))))), (Var (S O)))), (Var (S (S O)))))))))))),
    (App ((App ((Abs (App ((Abs (App ((Var (S (S O))), (Abs (App ((App ((Var
    (S (S O))), (Var (S (S O))))), (Var (S O)))))))), (Abs (App ((Var (S (S
    O))), (Abs (App ((App ((Var (S (S O))), (Var (S (S O))))), (Var (S
    O))))))))))), (Abs (Abs (Abs (App ((App ((App ((App ((Abs (App ((App
    ((Var (S O)), (Abs (Abs (Abs (Abs (Abs (Var (S O))))))))), (Abs (Abs (Var
    (S (S O)))))))), (Var (S O)))), (Abs (Var (S (S (S O))))))), (Abs (App
    ((App ((Var (S (S (S (S O))))), (App ((App ((Abs (Abs (Abs (App ((App
    ((Var (S O)), (Var (S (S (S O)))))), (Var (S (S O)))))))), (App ((Abs
    (App ((Var (S O)), (Abs (Abs (Var (S (S O)))))))), (Var (S (S O))))))),
    (Var (S (S (S O)))))))), (App ((Abs (App ((Var (S O)), (Abs (Abs (Var (S
    O))))))), (Var (S (S O)))))))))), (Abs (Var (S O)))))))))), (Abs (Abs
    (Var (S O)))))))), (Abs (Abs (Var (S O))))))

(** val lc_list_pair_append : term **)

let lc_list_pair_append =
  App ((Abs (App ((Abs (App ((Var (S (S O))), (Abs (App ((App ((Var (S (S
    O))), (Var (S (S O))))), (Var (S O)))))))), (Abs (App ((Var (S (S O))),
    (Abs (App ((App ((Var (S (S O))), (Var (S (S O))))), (Var (S
    O))))))))))), (Abs (Abs (Abs (App ((App ((App ((App ((Abs (App ((App
    ((Var (S O)), (Abs (Abs (Abs (Abs (Abs (Var (S O))))))))), (Abs (Abs (Var
    (S (S O)))))))), (Var (S (S O))))), (Abs (Var (S (S O)))))), (Abs (App
    ((App ((Abs (Abs (Abs (App ((App ((Var (S O)), (Var (S (S (S O)))))),
    (Var (S (S O)))))))), (App ((Abs (App ((Var (S O)), (Abs (Abs (Var (S (S
    O)))))))), (Var (S (S (S O)))))))), (App ((App ((Var (S (S (S (S O))))),
    (App ((Abs (App ((Var (S O)), (Abs (Abs (Var (S O))))))), (Var (S (S (S
    O)))))))), (Var (S (S O)))))))))), (Abs (Var (S O)))))))))

(** val lc_list_pair_map : term **)

let lc_list_pair_map =
  App ((Abs (App ((Abs (App ((Var (S (S O))), (Abs (App ((App ((Var (S (S
    O))), (Var (S (S O))))), (Var (S O)))))))), (Abs (App ((Var (S (S O))),
    (Abs (App ((App ((Var (S (S O))), (Var (S (S O))))), (Var (S
    O))))))))))), (Abs (Abs (Abs (App ((App ((App ((App ((Abs (App ((App
    ((Var (S O)), (Abs (Abs (Abs (Abs (Abs (Var (S O))))))))), (Abs (Abs (Var
    (S (S O)))))))), (Var (S O)))), (Abs (Abs (Abs (Var (S O))))))), (Abs
    (App ((App ((Abs (Abs (Abs (App ((App ((Var (S O)), (Var (S (S (S
    O)))))), (Var (S (S O)))))))), (App ((Var (S (S (S O)))), (App ((Abs (App
    ((Var (S O)), (Abs (Abs (Var (S (S O)))))))), (Var (S (S O))))))))), (App
    ((App ((Var (S (S (S (S O))))), (Var (S (S (S O)))))), (App ((Abs (App
    ((Var (S O)), (Abs (Abs (Var (S O))))))), (Var (S (S O)))))))))))), (Abs
    (Var (S O)))))))))

(** val lc_list_pair_foldl : term **)

let lc_list_pair_foldl =
  App ((Abs (App ((Abs (App ((Var (S (S O))), (Abs (App ((App ((Var (S (S
    O))), (Var (S (S O))))), (Var (S O)))))))), (Abs (App ((Var (S (S O))),
    (Abs (App ((App ((Var (S (S O))), (Var (S (S O))))), (Var (S
    O))))))))))), (Abs (Abs (Abs (Abs (App ((App ((App ((App ((Abs (App ((App
    ((Var (S O)), (Abs (Abs (Abs (Abs (Abs (Var (S O))))))))), (Abs (Abs (Var
    (S (S O)))))))), (Var (S O)))), (Abs (Var (S (S (S O))))))), (Abs (App
    ((App ((App ((Var (S (S (S (S (S O)))))), (Var (S (S (S (S O))))))), (App
    ((App ((Var (S (S (S (S O))))), (Var (S (S (S O)))))), (App ((Abs (App
    ((Var (S O)), (Abs (Abs (Var (S (S O)))))))), (Var (S (S O))))))))), (App
    ((Abs (App ((Var (S O)), (Abs (Abs (Var (S O))))))), (Var (S (S
    O)))))))))), (Abs (Var (S O))))))))))

(** val lc_list_pair_foldr : term **)

let lc_list_pair_foldr =
  Abs (Abs (Abs (App ((App ((Abs (App ((Abs (App ((Var (S (S O))), (Abs (App
    ((App ((Var (S (S O))), (Var (S (S O))))), (Var (S O)))))))), (Abs (App
    ((Var (S (S O))), (Abs (App ((App ((Var (S (S O))), (Var (S (S O))))),
    (Var (S O))))))))))), (Abs (Abs (App ((App ((App ((App ((Abs (App ((App
    ((Var (S O)), (Abs (Abs (Abs (Abs (Abs (Var (S O))))))))), (Abs (Abs (Var
    (S (S O)))))))), (Var (S O)))), (Abs (Var (S (S (S (S (S O))))))))), (Abs
    (App ((App ((Var (S (S (S (S (S (S O))))))), (App ((Abs (App ((Var (S
    O)), (Abs (Abs (Var (S (S O)))))))), (Var (S (S O))))))), (App ((Var (S
    (S (S O)))), (App ((Abs (App ((Var (S O)), (Abs (Abs (Var (S O))))))),
    (Var (S (S O)))))))))))), (Abs (Var (S O))))))))), (Var (S O))))))

(** val lc_list_pair_filter : term **)

let lc_list_pair_filter =
  App ((Abs (App ((Abs (App ((Var (S (S O))), (Abs (App ((App ((Var (S (S
    O))), (Var (S (S O))))), (Var (S O)))))))), (Abs (App ((Var (S (S O))),
    (Abs (App ((App ((Var (S (S O))), (Var (S (S O))))), (Var (S
    O))))))))))), (Abs (Abs (Abs (App ((App ((App ((App ((Abs (App ((App
    ((Var (S O)), (Abs (Abs (Abs (Abs (Abs (Var (S O))))))))), (Abs (Abs (Var
    (S (S O)))))))), (Var (S O)))), (Abs (Abs (Abs (Var (S O))))))), (Abs
    (App ((App ((App ((App ((Var (S (S (S O)))), (App ((Abs (App ((Var (S
    O)), (Abs (Abs (Var (S (S O)))))))), (Var (S (S O))))))), (App ((Abs (Abs
    (Abs (App ((App ((Var (S O)), (Var (S (S (S O)))))), (Var (S (S
    O)))))))), (App ((Abs (App ((Var (S O)), (Abs (Abs (Var (S (S O)))))))),
    (Var (S (S O))))))))), (Abs (Var (S O))))), (App ((App ((Var (S (S (S (S
    O))))), (Var (S (S (S O)))))), (App ((Abs (App ((Var (S O)), (Abs (Abs
    (Var (S O))))))), (Var (S (S O)))))))))))), (Abs (Var (S O)))))))))

(** val lc_list_pair_last : term **)

let lc_list_pair_last =
  App ((Abs (App ((Abs (App ((Var (S (S O))), (Abs (App ((App ((Var (S (S
    O))), (Var (S (S O))))), (Var (S O)))))))), (Abs (App ((Var (S (S O))),
    (Abs (App ((App ((Var (S (S O))), (Var (S (S O))))), (Var (S
    O))))))))))), (Abs (Abs (App ((App ((App ((App ((Abs (App ((App ((Var (S
    O)), (Abs (Abs (Abs (Abs (Abs (Var (S O))))))))), (Abs (Abs (Var (S (S
    O)))))))), (Var (S O)))), (Abs (Abs (Abs (Var (S O))))))), (Abs (App
    ((App ((App ((Abs (App ((App ((Var (S O)), (Abs (Abs (Abs (Abs (Abs (Var
    (S O))))))))), (Abs (Abs (Var (S (S O)))))))), (App ((Abs (App ((Var (S
    O)), (Abs (Abs (Var (S O))))))), (Var (S (S O))))))), (App ((Abs (App
    ((Var (S O)), (Abs (Abs (Var (S (S O)))))))), (Var (S (S O))))))), (App
    ((Var (S (S (S O)))), (App ((Abs (App ((Var (S O)), (Abs (Abs (Var (S
    O))))))), (Var (S (S O)))))))))))), (Abs (Var (S O))))))))

(** val lc_list_pair_init : term **)

let lc_list_pair_init =
  App ((Abs (App ((Abs (App ((Var (S (S O))), (Abs (App ((App ((Var (S (S
    O))), (Var (S (S O))))), (Var (S O)))))))), (Abs (App ((Var (S (S O))),
    (Abs (App ((App ((Var (S (S O))), (Var (S (S O))))), (Var (S
    O))))))))))), (Abs (Abs (App ((App ((App ((App ((Abs (App ((App ((Var (S
    O)), (Abs (Abs (Abs (Abs (Abs (Var (S O))))))))), (Abs (Abs (Var (S (S
    O)))))))), (Var (S O)))), (Abs (Abs (Abs (Var (S O))))))), (Abs (App
    ((App ((App ((Abs (App ((App ((Var (S O)), (Abs (Abs (Abs (Abs (Abs (Var
    (S O))))))))), (Abs (Abs (Var (S (S O)))))))), (App ((Abs (App ((Var (S
    O)), (Abs (Abs (Var (S O))))))), (Var (S (S O))))))), (Abs (Abs (Var (S
    O)))))), (App ((App ((Abs (Abs (Abs (App ((App ((Var (S O)), (Var (S (S
    (S O)))))), (Var (S (S O)))))))), (App ((Abs (App ((Var (S O)), (Abs (Abs
    (Var (S (S O)))))))), (Var (S (S O))))))), (App ((Var (S (S (S O)))),
    (App ((Abs (App ((Var (S O)), (Abs (Abs (Var (S O))))))), (Var (S (S
    O)))))))))))))), (Abs (Var (S O))))))))

(** val lc_list_pair_zip : term **)

let lc_list_pair_zip =
  App ((Abs (App ((Abs (App ((Var (S (S O))), (Abs (App ((App ((Var (S (S
    O))), (Var (S (S O))))), (Var (S O)))))))), (Abs (App ((Var (S (S O))),
    (Abs (App ((App ((Var (S (S O))), (Var (S (S O))))), (Var (S
    O))))))))))), (Abs (Abs (Abs (App ((App ((App ((App ((Abs (App ((App
    ((Var (S O)), (Abs (Abs (Abs (Abs (Abs (Var (S O))))))))), (Abs (Abs (Var
    (S (S O)))))))), (Var (S (S O))))), (Abs (Abs (Abs (Var (S O))))))), (Abs
    (App ((App ((App ((Abs (App ((App ((Var (S O)), (Abs (Abs (Abs (Abs (Abs
    (Var (S O))))))))), (Abs (Abs (Var (S (S O)))))))), (Var (S (S O))))),
    (Abs (Abs (Var (S O)))))), (App ((App ((Abs (Abs (Abs (App ((App ((Var (S
    O)), (Var (S (S (S O)))))), (Var (S (S O)))))))), (App ((App ((Abs (Abs
    (Abs (App ((App ((Var (S O)), (Var (S (S (S O)))))), (Var (S (S
    O)))))))), (App ((Abs (App ((Var (S O)), (Abs (Abs (Var (S (S O)))))))),
    (Var (S (S (S O)))))))), (App ((Abs (App ((Var (S O)), (Abs (Abs (Var (S
    (S O)))))))), (Var (S (S O))))))))), (App ((App ((Var (S (S (S (S O))))),
    (App ((Abs (App ((Var (S O)), (Abs (Abs (Var (S O))))))), (Var (S (S (S
    O)))))))), (App ((Abs (App ((Var (S O)), (Abs (Abs (Var (S O))))))), (Var
    (S (S O)))))))))))))), (Abs (Var (S O)))))))))

(** val lc_list_pair_zip_with : term **)

let lc_list_pair_zip_with =
  App ((Abs (App ((Abs (App ((Var (S (S O))), (Abs (App ((App ((Var (S (S
    O))), (Var (S (S O))))), (Var (S O)))))))), (Abs (App ((Var (S (S O))),
    (Abs (App ((App ((Var (S (S O))), (Var (S (S O))))), (Var (S
    O))))))))))), (Abs (Abs (Abs (Abs (App ((App ((App ((App ((Abs (App ((App
    ((Var (S O)), (Abs (Abs (Abs (Abs (Abs (Var (S O))))))))), (Abs (Abs (Var
    (S (S O)))))))), (Var (S (S O))))), (Abs (Abs (Abs (Var (S O))))))), (Abs
    (App ((App ((App ((Abs (App ((App ((Var (S O)), (Abs (Abs (Abs (Abs (Abs
    (Var (S O))))))))), (Abs (Abs (Var (S (S O)))))))), (Var (S (S O))))),
    (Abs (Abs (Var (S O)))))), (App ((App ((Abs (Abs (Abs (App ((App ((Var (S
    O)), (Var (S (S (S O)))))), (Var (S (S O)))))))), (App ((App ((Var (S (S
    (S (S O))))), (App ((Abs (App ((Var (S O)), (Abs (Abs (Var (S (S
    O)))))))), (Var (S (S (S O)))))))), (App ((Abs (App ((Var (S O)), (Abs
    (Abs (Var (S (S O)))))))), (Var (S (S O))))))))), (App ((App ((App ((Var
    (S (S (S (S (S O)))))), (Var (S (S (S (S O))))))), (App ((Abs (App ((Var
    (S O)), (Abs (Abs (Var (S O))))))), (Var (S (S (S O)))))))), (App ((Abs
    (App ((Var (S O)), (Abs (Abs (Var (S O))))))), (Var (S (S
    O)))))))))))))), (Abs (Var (S O))))))))))

(** val lc_list_pair_take : term **)

let lc_list_pair_take =
  App ((Abs (App ((Abs (App ((Var (S (S O))), (Abs (App ((App ((Var (S (S
    O))), (Var (S (S O))))), (Var (S O)))))))), (Abs (App ((Var (S (S O))),
    (Abs (App ((App ((Var (S (S O))), (Var (S (S O))))), (Var (S
    O))))))))))), (Abs (Abs (Abs (App ((App ((App ((App ((Abs (App ((App
    ((Var (S O)), (Abs (Abs (Abs (Abs (Abs (Var (S O))))))))), (Abs (Abs (Var
    (S (S O)))))))), (Var (S O)))), (Abs (Abs (Abs (Var (S O))))))), (Abs
    (App ((App ((App ((Abs (App ((App ((Var (S O)), (Abs (Abs (Abs (Var (S
    O))))))), (Abs (Abs (Var (S (S O)))))))), (Var (S (S (S O)))))), (Abs
    (Abs (Var (S O)))))), (App ((App ((Abs (Abs (Abs (App ((App ((Var (S O)),
    (Var (S (S (S O)))))), (Var (S (S O)))))))), (App ((Abs (App ((Var (S
    O)), (Abs (Abs (Var (S (S O)))))))), (Var (S (S O))))))), (App ((App
    ((Var (S (S (S (S O))))), (App ((Abs (Abs (Abs (App ((App ((App ((Var (S
    (S (S O)))), (Abs (Abs (App ((Var (S O)), (App ((Var (S (S O))), (Var (S
    (S (S (S O))))))))))))), (Abs (Var (S (S O)))))), (Abs (Var (S O)))))))),
    (Var (S (S (S O)))))))), (App ((Abs (App ((Var (S O)), (Abs (Abs (Var (S
    O))))))), (Var (S (S O)))))))))))))), (Abs (Var (S O)))))))))

(** val lc_list_pair_take_while : term **)

let lc_list_pair_take_while =
  App ((Abs (App ((Abs (App ((Var (S (S O))), (Abs (App ((App ((Var (S (S
    O))), (Var (S (S O))))), (Var (S O)))))))), (Abs (App ((Var (S (S O))),
    (Abs (App ((App ((Var (S (S O))), (Var (S (S O))))), (Var (S
    O))))))))))), (Abs (Abs (Abs (App ((App ((App ((App ((Abs (App ((App
    ((Var (S O)), (Abs (Abs (Abs (Abs (Abs (Var (S O))))))))), (Abs (Abs (Var
    (S (S O)))))))), (Var (S O)))), (Abs (Abs (Abs (Var (S O))))))), (Abs
    (App ((App ((App ((Var (S (S (S O)))), (App ((Abs (App ((Var (S O)), (Abs
    (Abs (Var (S (S O)))))))), (Var (S (S O))))))), (App ((App ((Abs (Abs
    (Abs (App ((App ((Var (S O)), (Var (S (S (S O)))))), (Var (S (S
    O)))))))), (App ((Abs (App ((Var (S O)), (Abs (Abs (Var (S (S O)))))))),
    (Var (S (S O))))))), (App ((App ((Var (S (S (S (S O))))), (Var (S (S (S
    O)))))), (App ((Abs (App ((Var (S O)), (Abs (Abs (Var (S O))))))), (Var
    (S (S O))))))))))), (Abs (Abs (Var (S O))))))))), (Abs (Var (S O)))))))))

(** val lc_list_pair_drop : term **)

let lc_list_pair_drop =
  App ((Abs (App ((Abs (App ((Var (S (S O))), (Abs (App ((App ((Var (S (S
    O))), (Var (S (S O))))), (Var (S O)))))))), (Abs (App ((Var (S (S O))),
    (Abs (App ((App ((Var (S (S O))), (Var (S (S O))))), (Var (S
    O))))))))))), (Abs (Abs (Abs (App ((App ((App ((App ((Abs (App ((App
    ((Var (S O)), (Abs (Abs (Abs (Abs (Abs (Var (S O))))))))), (Abs (Abs (Var
    (S (S O)))))))), (Var (S O)))), (Abs (Abs (Abs (Var (S O))))))), (Abs
    (App ((App ((App ((Abs (App ((App ((Var (S O)), (Abs (Abs (Abs (Var (S
    O))))))), (Abs (Abs (Var (S (S O)))))))), (Var (S (S (S O)))))), (Var (S
    (S O))))), (App ((App ((Var (S (S (S (S O))))), (App ((Abs (Abs (Abs (App
    ((App ((App ((Var (S (S (S O)))), (Abs (Abs (App ((Var (S O)), (App ((Var
    (S (S O))), (Var (S (S (S (S O))))))))))))), (Abs (Var (S (S O)))))),
    (Abs (Var (S O)))))))), (Var (S (S (S O)))))))), (App ((Abs (App ((Var (S
    O)), (Abs (Abs (Var (S O))))))), (Var (S (S O)))))))))))), (Abs (Var (S
    O)))))))))

(** val lc_list_pair_drop_while : term **)

let lc_list_pair_drop_while =
  App ((Abs (App ((Abs (App ((Var (S (S O))), (Abs (App ((App ((Var (S (S
    O))), (Var (S (S O))))), (Var (S O)))))))), (Abs (App ((Var (S (S O))),
    (Abs (App ((App ((Var (S (S O))), (Var (S (S O))))), (Var (S
    O))))))))))), (Abs (Abs (Abs (App ((App ((App ((App ((Abs (App ((App
    ((Var (S O)), (Abs (Abs (Abs (Abs (Abs (Var (S O))))))))), (Abs (Abs (Var
    (S (S O)))))))), (Var (S O)))), (Abs (Abs (Abs (Var (S O))))))), (Abs
    (App ((App ((App ((Var (S (S (S O)))), (App ((Abs (App ((Var (S O)), (Abs
    (Abs (Var (S (S O)))))))), (Var (S (S O))))))), (App ((App ((Var (S (S (S
    (S O))))), (Var (S (S (S O)))))), (App ((Abs (App ((Var (S O)), (Abs (Abs
    (Var (S O))))))), (Var (S (S O))))))))), (Var (S (S O)))))))), (Abs (Var
    (S O)))))))))

(** val lc_list_pair_replicate : term **)

let lc_list_pair_replicate =
  App ((Abs (App ((Abs (App ((Var (S (S O))), (Abs (App ((App ((Var (S (S
    O))), (Var (S (S O))))), (Var (S O)))))))), (Abs (App ((Var (S (S O))),
    (Abs (App ((App ((Var (S (S O))), (Var (S (S O))))), (Var (S
    O))))))))))), (Abs (Abs (Abs (App ((App ((App ((App ((Abs (App ((App
    ((Var (S O)), (Abs (Abs (Abs (Var (S O))))))), (Abs (Abs (Var (S (S
    O)))))))), (Var (S (S O))))), (Abs (Abs (Abs (Var (S O))))))), (Abs (App
    ((App ((Abs (Abs (Abs (App ((App ((Var (S O)), (Var (S (S (S O)))))),
    (Var (S (S O)))))))), (Var (S (S O))))), (App ((App ((Var (S (S (S (S
    O))))), (App ((Abs (Abs (Abs (App ((App ((App ((Var (S (S (S O)))), (Abs
    (Abs (App ((Var (S O)), (App ((Var (S (S O))), (Var (S (S (S (S
    O))))))))))))), (Abs (Var (S (S O)))))), (Abs (Var (S O)))))))), (Var (S
    (S (S O)))))))), (Var (S (S O)))))))))), (Abs (Var (S O)))))))))

(** val lc_list_church_nil : term **)

let lc_list_church_nil =
  Abs (Abs (Var (S (S O))))

(** val lc_list_church_is_nil : term **)

let lc_list_church_is_nil =
  Abs (App ((App ((Var (S O)), (Abs (Abs (Var (S (S O))))))), (Abs (Abs (Abs
    (Abs (Var (S O))))))))

(** val lc_list_church_cons : term **)

let lc_list_church_cons =
  Abs (Abs (Abs (Abs (App ((App ((Var (S O)), (Var (S (S (S (S O))))))), (App
    ((App ((App ((Abs (Var (S O))), (Var (S (S (S O)))))), (Var (S (S O))))),
    (Var (S O)))))))))

(** val lc_list_church_head : term **)

let lc_list_church_head =
  Abs (App ((App ((Var (S O)), (Var O))), (Abs (Abs (Var (S (S O)))))))

(** val lc_list_church_tail : term **)

let lc_list_church_tail =
  Abs (App ((Abs (App ((Var (S O)), (Abs (Abs (Var (S (S O)))))))), (App
    ((App ((Var (S O)), (App ((App ((Abs (Abs (Abs (App ((App ((Var (S O)),
    (Var (S (S (S O)))))), (Var (S (S O)))))))), (Var O))), (Abs (Abs (Var (S
    (S O))))))))), (Abs (Abs (App ((App ((Abs (Abs (Abs (App ((App ((Var (S
    O)), (Var (S (S (S O)))))), (Var (S (S O)))))))), (App ((Abs (App ((Var
    (S O)), (Abs (Abs (Var (S O))))))), (Var (S O)))))), (App ((App ((Abs
    (Abs (Abs (Abs (App ((App ((Var (S O)), (Var (S (S (S (S O))))))), (App
    ((App ((App ((Abs (Var (S O))), (Var (S (S (S O)))))), (Var (S (S O))))),
    (Var (S O)))))))))), (Var (S (S O))))), (App ((Abs (App ((Var (S O)),
    (Abs (Abs (Var (S O))))))), (Var (S O))))))))))))))

(** val lc_list_scott_nil : term **)

let lc_list_scott_nil =
  Abs (Abs (Var (S (S O))))

(** val lc_list_scott_is_nil : term **)

let lc_list_scott_is_nil =
  Abs (App ((App ((Var (S O)), (Abs (Abs (Var (S (S O))))))), (Abs (Abs (Abs
    (Abs (Var (S O))))))))

(** val lc_list_scott_cons : term **)

let lc_list_scott_cons =
  Abs (Abs (Abs (Abs (App ((App ((Var (S O)), (Var (S (S (S (S O))))))), (Var
    (S (S (S O)))))))))

(** val lc_list_scott_head : term **)

let lc_list_scott_head =
  Abs (App ((App ((Var (S O)), (Var O))), (Abs (Abs (Var (S (S O)))))))

(** val lc_list_scott_tail : term **)

let lc_list_scott_tail =
  Abs (App ((App ((Var (S O)), (Var O))), (Abs (Abs (Var (S O))))))

(** val lc_list_parigot_nil : term **)

let lc_list_parigot_nil =
  Abs (Abs (Var (S (S O))))

(** val lc_list_parigot_is_nil : term **)

let lc_list_parigot_is_nil =
  Abs (App ((App ((Var (S O)), (Abs (Abs (Var (S (S O))))))), (Abs (Abs (Abs
    (Abs (Abs (Var (S O)))))))))

(** val lc_list_parigot_cons : term **)

let lc_list_parigot_cons =
  Abs (Abs (Abs (Abs (App ((App ((App ((Var (S O)), (Var (S (S (S (S
    O))))))), (Var (S (S (S O)))))), (App ((App ((App ((Abs (Var (S O))),
    (Var (S (S (S O)))))), (Var (S (S O))))), (Var (S O)))))))))

(** val lc_list_parigot_head : term **)

let lc_list_parigot_head =
  Abs (App ((App ((Var (S O)), (Var O))), (Abs (Abs (Abs (Var (S (S (S
    O)))))))))

(** val lc_list_parigot_tail : term **)

let lc_list_parigot_tail =
  Abs (App ((App ((Var (S O)), (Var O))), (Abs (Abs (Abs (Var (S (S O))))))))

(** val lc_num_signed_to_signed_church : term **)

let lc_num_signed_to_signed_church =
  Abs (App ((App ((Abs (Abs (Abs (App ((App ((Var (S O)), (Var (S (S (S
    O)))))), (Var (S (S O)))))))), (Var (S O)))), (Abs (Abs (Var (S O))))))

(** val lc_num_signed_simplify_church : term **)

let lc_num_signed_simplify_church =
  App ((Abs (App ((Abs (App ((Var (S (S O))), (Abs (App ((App ((Var (S (S
    O))), (Var (S (S O))))), (Var (S O)))))))), (Abs (App ((Var (S (S O))),
    (Abs (App ((App ((Var (S (S O))), (Var (S (S O))))), (Var (S
    O))))))))))), (Abs (Abs (App ((App ((App ((App ((Abs (App ((App ((Var (S
    O)), (Abs (Abs (Abs (Var (S O))))))), (Abs (Abs (Var (S (S O)))))))),
    (App ((Abs (App ((Var (S O)), (Abs (Abs (Var (S (S O)))))))), (Var (S
    O)))))), (Abs (Var (S (S O)))))), (Abs (App ((App ((App ((Abs (App ((App
    ((Var (S O)), (Abs (Abs (Abs (Var (S O))))))), (Abs (Abs (Var (S (S
    O)))))))), (App ((Abs (App ((Var (S O)), (Abs (Abs (Var (S O))))))), (Var
    (S (S O))))))), (Var (S (S O))))), (App ((Var (S (S (S O)))), (App ((App
    ((Abs (Abs (Abs (App ((App ((Var (S O)), (Var (S (S (S O)))))), (Var (S
    (S O)))))))), (App ((Abs (Abs (Abs (App ((App ((App ((Var (S (S (S O)))),
    (Abs (Abs (App ((Var (S O)), (App ((Var (S (S O))), (Var (S (S (S (S
    O))))))))))))), (Abs (Var (S (S O)))))), (Abs (Var (S O)))))))), (App
    ((Abs (App ((Var (S O)), (Abs (Abs (Var (S (S O)))))))), (Var (S (S
    O))))))))), (App ((Abs (Abs (Abs (App ((App ((App ((Var (S (S (S O)))),
    (Abs (Abs (App ((Var (S O)), (App ((Var (S (S O))), (Var (S (S (S (S
    O))))))))))))), (Abs (Var (S (S O)))))), (Abs (Var (S O)))))))), (App
    ((Abs (App ((Var (S O)), (Abs (Abs (Var (S O))))))), (Var (S (S
    O)))))))))))))))), (Abs (Var (S O))))))))

(** val lc_num_signed_modulus_church : term **)

let lc_num_signed_modulus_church =
  Abs (App ((Abs (App ((App ((App ((Abs (App ((App ((Var (S O)), (Abs (Abs
    (Abs (Var (S O))))))), (Abs (Abs (Var (S (S O)))))))), (App ((Abs (App
    ((Var (S O)), (Abs (Abs (Var (S (S O)))))))), (Var (S O)))))), (App ((Abs
    (App ((Var (S O)), (Abs (Abs (Var (S O))))))), (Var (S O)))))), (App
    ((Abs (App ((Var (S O)), (Abs (Abs (Var (S (S O)))))))), (Var (S
    O))))))), (App ((App ((Abs (App ((Abs (App ((Var (S (S O))), (Abs (App
    ((App ((Var (S (S O))), (Var (S (S O))))), (Var (S O)))))))), (Abs (App
    ((Var (S (S O))), (Abs (App ((App ((Var (S (S O))), (Var (S (S O))))),
    (Var (S O))))))))))), (Abs (Abs (App ((App ((App ((App ((Abs (App ((App
    ((Var (S O)), (Abs (Abs (Abs (Var (S O))))))), (Abs (Abs (Var (S (S
    O)))))))), (App ((Abs (App ((Var (S O)), (Abs (Abs (Var (S (S O)))))))),
    (Var (S O)))))), (Abs (Var (S (S O)))))), (Abs (App ((App ((App ((Abs
    (App ((App ((Var (S O)), (Abs (Abs (Abs (Var (S O))))))), (Abs (Abs (Var
    (S (S O)))))))), (App ((Abs (App ((Var (S O)), (Abs (Abs (Var (S
    O))))))), (Var (S (S O))))))), (Var (S (S O))))), (App ((Var (S (S (S
    O)))), (App ((App ((Abs (Abs (Abs (App ((App ((Var (S O)), (Var (S (S (S
    O)))))), (Var (S (S O)))))))), (App ((Abs (Abs (Abs (App ((App ((App
    ((Var (S (S (S O)))), (Abs (Abs (App ((Var (S O)), (App ((Var (S (S O))),
    (Var (S (S (S (S O))))))))))))), (Abs (Var (S (S O)))))), (Abs (Var (S
    O)))))))), (App ((Abs (App ((Var (S O)), (Abs (Abs (Var (S (S O)))))))),
    (Var (S (S O))))))))), (App ((Abs (Abs (Abs (App ((App ((App ((Var (S (S
    (S O)))), (Abs (Abs (App ((Var (S O)), (App ((Var (S (S O))), (Var (S (S
    (S (S O))))))))))))), (Abs (Var (S (S O)))))), (Abs (Var (S O)))))))),
    (App ((Abs (App ((Var (S O)), (Abs (Abs (Var (S O))))))), (Var (S (S
    O)))))))))))))))), (Abs (Var (S O))))))))), (Var (S O))))))

(** val lc_num_signed_add_church : term **)

let lc_num_signed_add_church =
  Abs (Abs (App ((App ((Abs (App ((Abs (App ((Var (S (S O))), (Abs (App ((App
    ((Var (S (S O))), (Var (S (S O))))), (Var (S O)))))))), (Abs (App ((Var
    (S (S O))), (Abs (App ((App ((Var (S (S O))), (Var (S (S O))))), (Var (S
    O))))))))))), (Abs (Abs (App ((App ((App ((App ((Abs (App ((App ((Var (S
    O)), (Abs (Abs (Abs (Var (S O))))))), (Abs (Abs (Var (S (S O)))))))),
    (App ((Abs (App ((Var (S O)), (Abs (Abs (Var (S (S O)))))))), (Var (S
    O)))))), (Abs (Var (S (S O)))))), (Abs (App ((App ((App ((Abs (App ((App
    ((Var (S O)), (Abs (Abs (Abs (Var (S O))))))), (Abs (Abs (Var (S (S
    O)))))))), (App ((Abs (App ((Var (S O)), (Abs (Abs (Var (S O))))))), (Var
    (S (S O))))))), (Var (S (S O))))), (App ((Var (S (S (S O)))), (App ((App
    ((Abs (Abs (Abs (App ((App ((Var (S O)), (Var (S (S (S O)))))), (Var (S
    (S O)))))))), (App ((Abs (Abs (Abs (App ((App ((App ((Var (S (S (S O)))),
    (Abs (Abs (App ((Var (S O)), (App ((Var (S (S O))), (Var (S (S (S (S
    O))))))))))))), (Abs (Var (S (S O)))))), (Abs (Var (S O)))))))), (App
    ((Abs (App ((Var (S O)), (Abs (Abs (Var (S (S O)))))))), (Var (S (S
    O))))))))), (App ((Abs (Abs (Abs (App ((App ((App ((Var (S (S (S O)))),
    (Abs (Abs (App ((Var (S O)), (App ((Var (S (S O))), (Var (S (S (S (S
    O))))))))))))), (Abs (Var (S (S O)))))), (Abs (Var (S O)))))))), (App
    ((Abs (App ((Var (S O)), (Abs (Abs (Var (S O))))))), (Var (S (S
    O)))))))))))))))), (Abs (Var (S O))))))))), (App ((App ((Abs (Abs (Abs
    (App ((App ((Var (S O)), (Var (S (S (S O)))))), (Var (S (S O)))))))),
    (App ((App ((Abs (Abs (App ((App ((Var (S O)), (Abs (Abs (Abs (App ((Var
    (S (S O))), (App ((App ((Var (S (S (S O)))), (Var (S (S O))))), (Var (S
    O))))))))))), (Var (S (S O))))))), (App ((Abs (App ((Var (S O)), (Abs
    (Abs (Var (S (S O)))))))), (Var (S (S O))))))), (App ((Abs (App ((Var (S
    O)), (Abs (Abs (Var (S (S O)))))))), (Var (S O)))))))), (App ((App ((Abs
    (Abs (App ((App ((Var (S O)), (Abs (Abs (Abs (App ((Var (S (S O))), (App
    ((App ((Var (S (S (S O)))), (Var (S (S O))))), (Var (S O))))))))))), (Var
    (S (S O))))))), (App ((Abs (App ((Var (S O)), (Abs (Abs (Var (S O))))))),
    (Var (S (S O))))))), (App ((Abs (App ((Var (S O)), (Abs (Abs (Var (S
    O))))))), (Var (S O)))))))))))

(** val lc_num_signed_sub_church : term **)

let lc_num_signed_sub_church =
  Abs (Abs (App ((App ((Abs (App ((Abs (App ((Var (S (S O))), (Abs (App ((App
    ((Var (S (S O))), (Var (S (S O))))), (Var (S O)))))))), (Abs (App ((Var
    (S (S O))), (Abs (App ((App ((Var (S (S O))), (Var (S (S O))))), (Var (S
    O))))))))))), (Abs (Abs (App ((App ((App ((App ((Abs (App ((App ((Var (S
    O)), (Abs (Abs (Abs (Var (S O))))))), (Abs (Abs (Var (S (S O)))))))),
    (App ((Abs (App ((Var (S O)), (Abs (Abs (Var (S (S O)))))))), (Var (S
    O)))))), (Abs (Var (S (S O)))))), (Abs (App ((App ((App ((Abs (App ((App
    ((Var (S O)), (Abs (Abs (Abs (Var (S O))))))), (Abs (Abs (Var (S (S
    O)))))))), (App ((Abs (App ((Var (S O)), (Abs (Abs (Var (S O))))))), (Var
    (S (S O))))))), (Var (S (S O))))), (App ((Var (S (S (S O)))), (App ((App
    ((Abs (Abs (Abs (App ((App ((Var (S O)), (Var (S (S (S O)))))), (Var (S
    (S O)))))))), (App ((Abs (Abs (Abs (App ((App ((App ((Var (S (S (S O)))),
    (Abs (Abs (App ((Var (S O)), (App ((Var (S (S O))), (Var (S (S (S (S
    O))))))))))))), (Abs (Var (S (S O)))))), (Abs (Var (S O)))))))), (App
    ((Abs (App ((Var (S O)), (Abs (Abs (Var (S (S O)))))))), (Var (S (S
    O))))))))), (App ((Abs (Abs (Abs (App ((App ((App ((Var (S (S (S O)))),
    (Abs (Abs (App ((Var (S O)), (App ((Var (S (S O))), (Var (S (S (S (S
    O))))))))))))), (Abs (Var (S (S O)))))), (Abs (Var (S O)))))))), (App
    ((Abs (App ((Var (S O)), (Abs (Abs (Var (S O))))))), (Var (S (S
    O)))))))))))))))), (Abs (Var (S O))))))))), (App ((App ((Abs (Abs (Abs
    (App ((App ((Var (S O)), (Var (S (S (S O)))))), (Var (S (S O)))))))),
    (App ((App ((Abs (Abs (App ((App ((Var (S O)), (Abs (Abs (Abs (App ((Var
    (S (S O))), (App ((App ((Var (S (S (S O)))), (Var (S (S O))))), (Var (S
    O))))))))))), (Var (S (S O))))))), (App ((Abs (App ((Var (S O)), (Abs
    (Abs (Var (S (S O)))))))), (Var (S (S O))))))), (App ((Abs (App ((Var (S
    O)), (Abs (Abs (Var (S O))))))), (Var (S O)))))))), (App ((App ((Abs (Abs
    (App ((App ((Var (S O)), (Abs (Abs (Abs (App ((Var (S (S O))), (App ((App
    ((Var (S (S (S O)))), (Var (S (S O))))), (Var (S O))))))))))), (Var (S (S
    O))))))), (App ((Abs (App ((Var (S O)), (Abs (Abs (Var (S O))))))), (Var
    (S (S O))))))), (App ((Abs (App ((Var (S O)), (Abs (Abs (Var (S (S
    O)))))))), (Var (S O)))))))))))

(** val lc_num_signed_mul_church : term **)

let lc_num_signed_mul_church =
  Abs (Abs (App ((App ((Abs (App ((Abs (App ((Var (S (S O))), (Abs (App ((App
    ((Var (S (S O))), (Var (S (S O))))), (Var (S O)))))))), (Abs (App ((Var
    (S (S O))), (Abs (App ((App ((Var (S (S O))), (Var (S (S O))))), (Var (S
    O))))))))))), (Abs (Abs (App ((App ((App ((App ((Abs (App ((App ((Var (S
    O)), (Abs (Abs (Abs (Var (S O))))))), (Abs (Abs (Var (S (S O)))))))),
    (App ((Abs (App ((Var (S O)), (Abs (Abs (Var (S (S O)))))))), (Var (S
    O)))))), (Abs (Var (S (S O)))))), (Abs (App ((App ((App ((Abs (App ((App
    ((Var (S O)), (Abs (Abs (Abs (Var (S O))))))), (Abs (Abs (Var (S (S
    O)))))))), (App ((Abs (App ((Var (S O)), (Abs (Abs (Var (S O))))))), (Var
    (S (S O))))))), (Var (S (S O))))), (App ((Var (S (S (S O)))), (App ((App
    ((Abs (Abs (Abs (App ((App ((Var (S O)), (Var (S (S (S O)))))), (Var (S
    (S O)))))))), (App ((Abs (Abs (Abs (App ((App ((App ((Var (S (S (S O)))),
    (Abs (Abs (App ((Var (S O)), (App ((Var (S (S O))), (Var (S (S (S (S
    O))))))))))))), (Abs (Var (S (S O)))))), (Abs (Var (S O)))))))), (App
    ((Abs (App ((Var (S O)), (Abs (Abs (Var (S (S O)))))))), (Var (S (S
    O))))))))), (App ((Abs (Abs (Abs (App ((App ((App ((Var (S (S (S O)))),
    (Abs (Abs (App ((Var (S O)), (App ((Var (S (S O))), (Var (S (S (S (S
    O))))))))))))), (Abs (Var (S (S O)))))), (Abs (Var (S O)))))))), (App
    ((Abs (App ((Var (S O)), (Abs (Abs (Var (S O))))))), (Var (S (S
    O)))))))))))))))), (Abs (Var (S O))))))))), (App ((App ((Abs (Abs (Abs
    (App ((App ((Var (S O)), (Var (S (S (S O)))))), (Var (S (S O)))))))),
    (App ((App ((Abs (Abs (App ((App ((Var (S O)), (Abs (Abs (Abs (App ((Var
    (S (S O))), (App ((App ((Var (S (S (S O)))), (Var (S (S O))))), (Var (S
    O))))))))))), (Var (S (S O))))))), (App ((App ((Abs (Abs (Abs (App ((Var
    (S (S (S O)))), (App ((Var (S (S O))), (Var (S O))))))))), (App ((Abs
    (App ((Var (S O)), (Abs (Abs (Var (S (S O)))))))), (Var (S (S O))))))),
    (App ((Abs (App ((Var (S O)), (Abs (Abs (Var (S (S O)))))))), (Var (S
    O)))))))), (App ((App ((Abs (Abs (Abs (App ((Var (S (S (S O)))), (App
    ((Var (S (S O))), (Var (S O))))))))), (App ((Abs (App ((Var (S O)), (Abs
    (Abs (Var (S O))))))), (Var (S (S O))))))), (App ((Abs (App ((Var (S O)),
    (Abs (Abs (Var (S O))))))), (Var (S O)))))))))), (App ((App ((Abs (Abs
    (App ((App ((Var (S O)), (Abs (Abs (Abs (App ((Var (S (S O))), (App ((App
    ((Var (S (S (S O)))), (Var (S (S O))))), (Var (S O))))))))))), (Var (S (S
    O))))))), (App ((App ((Abs (Abs (Abs (App ((Var (S (S (S O)))), (App
    ((Var (S (S O))), (Var (S O))))))))), (App ((Abs (App ((Var (S O)), (Abs
    (Abs (Var (S (S O)))))))), (Var (S (S O))))))), (App ((Abs (App ((Var (S
    O)), (Abs (Abs (Var (S O))))))), (Var (S O)))))))), (App ((App ((Abs (Abs
    (Abs (App ((Var (S (S (S O)))), (App ((Var (S (S O))), (Var (S
    O))))))))), (App ((Abs (App ((Var (S O)), (Abs (Abs (Var (S O))))))),
    (Var (S (S O))))))), (App ((Abs (App ((Var (S O)), (Abs (Abs (Var (S (S
    O)))))))), (Var (S O)))))))))))))

(** val lc_num_signed_to_signed_scott : term **)

let lc_num_signed_to_signed_scott =
  Abs (App ((App ((Abs (Abs (Abs (App ((App ((Var (S O)), (Var (S (S (S
    O)))))), (Var (S (S O)))))))), (Var (S O)))), (Abs (Abs (Var (S (S
    O)))))))

(** val lc_num_signed_simplify_scott : term **)

let lc_num_signed_simplify_scott =
  App ((Abs (App ((Abs (App ((Var (S (S O))), (Abs (App ((App ((Var (S (S
    O))), (Var (S (S O))))), (Var (S O)))))))), (Abs (App ((Var (S (S O))),
    (Abs (App ((App ((Var (S (S O))), (Var (S (S O))))), (Var (S
    O))))))))))), (Abs (Abs (App ((App ((App ((App ((Abs (App ((App ((Var (S
    O)), (Abs (Abs (Var (S (S O))))))), (Abs (Abs (Abs (Var (S O)))))))),
    (App ((Abs (App ((Var (S O)), (Abs (Abs (Var (S (S O)))))))), (Var (S
    O)))))), (Abs (Var (S (S O)))))), (Abs (App ((App ((App ((Abs (App ((App
    ((Var (S O)), (Abs (Abs (Var (S (S O))))))), (Abs (Abs (Abs (Var (S
    O)))))))), (App ((Abs (App ((Var (S O)), (Abs (Abs (Var (S O))))))), (Var
    (S (S O))))))), (Var (S (S O))))), (App ((Var (S (S (S O)))), (App ((App
    ((Abs (Abs (Abs (App ((App ((Var (S O)), (Var (S (S (S O)))))), (Var (S
    (S O)))))))), (App ((Abs (App ((App ((Var (S O)), (Abs (Abs (Var (S (S
    O))))))), (Abs (Var (S O)))))), (App ((Abs (App ((Var (S O)), (Abs (Abs
    (Var (S (S O)))))))), (Var (S (S O))))))))), (App ((Abs (App ((App ((Var
    (S O)), (Abs (Abs (Var (S (S O))))))), (Abs (Var (S O)))))), (App ((Abs
    (App ((Var (S O)), (Abs (Abs (Var (S O))))))), (Var (S (S
    O)))))))))))))))), (Abs (Var (S O))))))))

(** val lc_num_signed_modulus_scott : term **)

let lc_num_signed_modulus_scott =
  Abs (App ((Abs (App ((App ((App ((Abs (App ((App ((Var (S O)), (Abs (Abs
    (Var (S (S O))))))), (Abs (Abs (Abs (Var (S O)))))))), (App ((Abs (App
    ((Var (S O)), (Abs (Abs (Var (S (S O)))))))), (Var (S O)))))), (App ((Abs
    (App ((Var (S O)), (Abs (Abs (Var (S O))))))), (Var (S O)))))), (App
    ((Abs (App ((Var (S O)), (Abs (Abs (Var (S (S O)))))))), (Var (S
    O))))))), (App ((App ((Abs (App ((Abs (App ((Var (S (S O))), (Abs (App
    ((App ((Var (S (S O))), (Var (S (S O))))), (Var (S O)))))))), (Abs (App
    ((Var (S (S O))), (Abs (App ((App ((Var (S (S O))), (Var (S (S O))))),
    (Var (S O))))))))))), (Abs (Abs (App ((App ((App ((App ((Abs (App ((App
    ((Var (S O)), (Abs (Abs (Var (S (S O))))))), (Abs (Abs (Abs (Var (S
    O)))))))), (App ((Abs (App ((Var (S O)), (Abs (Abs (Var (S (S O)))))))),
    (Var (S O)))))), (Abs (Var (S (S O)))))), (Abs (App ((App ((App ((Abs
    (App ((App ((Var (S O)), (Abs (Abs (Var (S (S O))))))), (Abs (Abs (Abs
    (Var (S O)))))))), (App ((Abs (App ((Var (S O)), (Abs (Abs (Var (S
    O))))))), (Var (S (S O))))))), (Var (S (S O))))), (App ((Var (S (S (S
    O)))), (App ((App ((Abs (Abs (Abs (App ((App ((Var (S O)), (Var (S (S (S
    O)))))), (Var (S (S O)))))))), (App ((Abs (App ((App ((Var (S O)), (Abs
    (Abs (Var (S (S O))))))), (Abs (Var (S O)))))), (App ((Abs (App ((Var (S
    O)), (Abs (Abs (Var (S (S O)))))))), (Var (S (S O))))))))), (App ((Abs
    (App ((App ((Var (S O)), (Abs (Abs (Var (S (S O))))))), (Abs (Var (S
    O)))))), (App ((Abs (App ((Var (S O)), (Abs (Abs (Var (S O))))))), (Var
    (S (S O)))))))))))))))), (Abs (Var (S O))))))))), (Var (S O))))))

(** val lc_num_signed_add_scott : term **)

let lc_num_signed_add_scott =
  Abs (Abs (App ((App ((Abs (App ((Abs (App ((Var (S (S O))), (Abs (App ((App
    ((Var (S (S O))), (Var (S (S O))))), (Var (S O)))))))), (Abs (App ((Var
    (S (S O))), (Abs (App ((App ((Var (S (S O))), (Var (S (S O))))), (Var (S
    O))))))))))), (Abs (Abs (App ((App ((App ((App ((Abs (App ((App ((Var (S
    O)), (Abs (Abs (Var (S (S O))))))), (Abs (Abs (Abs (Var (S O)))))))),
    (App ((Abs (App ((Var (S O)), (Abs (Abs (Var (S (S O)))))))), (Var (S
    O)))))), (Abs (Var (S (S O)))))), (Abs (App ((App ((App ((Abs (App ((App
    ((Var (S O)), (Abs (Abs (Var (S (S O))))))), (Abs (Abs (Abs (Var (S
    O)))))))), (App ((Abs (App ((Var (S O)), (Abs (Abs (Var (S O))))))), (Var
    (S (S O))))))), (Var (S (S O))))), (App ((Var (S (S (S O)))), (App ((App
    ((Abs (Abs (Abs (App ((App ((Var (S O)), (Var (S (S (S O)))))), (Var (S
    (S O)))))))), (App ((Abs (App ((App ((Var (S O)), (Abs (Abs (Var (S (S
    O))))))), (Abs (Var (S O)))))), (App ((Abs (App ((Var (S O)), (Abs (Abs
    (Var (S (S O)))))))), (Var (S (S O))))))))), (App ((Abs (App ((App ((Var
    (S O)), (Abs (Abs (Var (S (S O))))))), (Abs (Var (S O)))))), (App ((Abs
    (App ((Var (S O)), (Abs (Abs (Var (S O))))))), (Var (S (S
    O)))))))))))))))), (Abs (Var (S O))))))))), (App ((App ((Abs (Abs (Abs
    (App ((App ((Var (S O)), (Var (S (S (S O)))))), (Var (S (S O)))))))),
    (App ((App ((App ((Abs (App ((Abs (App ((Var (S (S O))), (Abs (App ((App
    ((Var (S (S O))), (Var (S (S O))))), (Var (S O)))))))), (Abs (App ((Var
    (S (S O))), (Abs (App ((App ((Var (S (S O))), (Var (S (S O))))), (Var (S
    O))))))))))), (Abs (Abs (Abs (App ((App ((Var (S (S O))), (Var (S O)))),
    (Abs (App ((Abs (Abs (Abs (App ((Var (S O)), (Var (S (S (S O))))))))),
    (App ((App ((Var (S (S (S (S O))))), (Var (S O)))), (Var (S (S
    O))))))))))))))), (App ((Abs (App ((Var (S O)), (Abs (Abs (Var (S (S
    O)))))))), (Var (S (S O))))))), (App ((Abs (App ((Var (S O)), (Abs (Abs
    (Var (S (S O)))))))), (Var (S O)))))))), (App ((App ((App ((Abs (App
    ((Abs (App ((Var (S (S O))), (Abs (App ((App ((Var (S (S O))), (Var (S (S
    O))))), (Var (S O)))))))), (Abs (App ((Var (S (S O))), (Abs (App ((App
    ((Var (S (S O))), (Var (S (S O))))), (Var (S O))))))))))), (Abs (Abs (Abs
    (App ((App ((Var (S (S O))), (Var (S O)))), (Abs (App ((Abs (Abs (Abs
    (App ((Var (S O)), (Var (S (S (S O))))))))), (App ((App ((Var (S (S (S (S
    O))))), (Var (S O)))), (Var (S (S O))))))))))))))), (App ((Abs (App ((Var
    (S O)), (Abs (Abs (Var (S O))))))), (Var (S (S O))))))), (App ((Abs (App
    ((Var (S O)), (Abs (Abs (Var (S O))))))), (Var (S O)))))))))))

(** val lc_num_signed_sub_scott : term **)

let lc_num_signed_sub_scott =
  Abs (Abs (App ((App ((Abs (App ((Abs (App ((Var (S (S O))), (Abs (App ((App
    ((Var (S (S O))), (Var (S (S O))))), (Var (S O)))))))), (Abs (App ((Var
    (S (S O))), (Abs (App ((App ((Var (S (S O))), (Var (S (S O))))), (Var (S
    O))))))))))), (Abs (Abs (App ((App ((App ((App ((Abs (App ((App ((Var (S
    O)), (Abs (Abs (Var (S (S O))))))), (Abs (Abs (Abs (Var (S O)))))))),
    (App ((Abs (App ((Var (S O)), (Abs (Abs (Var (S (S O)))))))), (Var (S
    O)))))), (Abs (Var (S (S O)))))), (Abs (App ((App ((App ((Abs (App ((App
    ((Var (S O)), (Abs (Abs (Var (S (S O))))))), (Abs (Abs (Abs (Var (S
    O)))))))), (App ((Abs (App ((Var (S O)), (Abs (Abs (Var (S O))))))), (Var
    (S (S O))))))), (Var (S (S O))))), (App ((Var (S (S (S O)))), (App ((App
    ((Abs (Abs (Abs (App ((App ((Var (S O)), (Var (S (S (S O)))))), (Var (S
    (S O)))))))), (App ((Abs (App ((App ((Var (S O)), (Abs (Abs (Var (S (S
    O))))))), (Abs (Var (S O)))))), (App ((Abs (App ((Var (S O)), (Abs (Abs
    (Var (S (S O)))))))), (Var (S (S O))))))))), (App ((Abs (App ((App ((Var
    (S O)), (Abs (Abs (Var (S (S O))))))), (Abs (Var (S O)))))), (App ((Abs
    (App ((Var (S O)), (Abs (Abs (Var (S O))))))), (Var (S (S
    O)))))))))))))))), (Abs (Var (S O))))))))), (App ((App ((Abs (Abs (Abs
    (App ((App ((Var (S O)), (Var (S (S (S O)))))), (Var (S (S O)))))))),
    (App ((App ((App ((Abs (App ((Abs (App ((Var (S (S O))), (Abs (App ((App
    ((Var (S (S O))), (Var (S (S O))))), (Var (S O)))))))), (Abs (App ((Var
    (S (S O))), (Abs (App ((App ((Var (S (S O))), (Var (S (S O))))), (Var (S
    O))))))))))), (Abs (Abs (Abs (App ((App ((Var (S (S O))), (Var (S O)))),
    (Abs (App ((Abs (Abs (Abs (App ((Var (S O)), (Var (S (S (S O))))))))),
    (App ((App ((Var (S (S (S (S O))))), (Var (S O)))), (Var (S (S
    O))))))))))))))), (App ((Abs (App ((Var (S O)), (Abs (Abs (Var (S (S
    O)))))))), (Var (S (S O))))))), (App ((Abs (App ((Var (S O)), (Abs (Abs
    (Var (S O))))))), (Var (S O)))))))), (App ((App ((App ((Abs (App ((Abs
    (App ((Var (S (S O))), (Abs (App ((App ((Var (S (S O))), (Var (S (S
    O))))), (Var (S O)))))))), (Abs (App ((Var (S (S O))), (Abs (App ((App
    ((Var (S (S O))), (Var (S (S O))))), (Var (S O))))))))))), (Abs (Abs (Abs
    (App ((App ((Var (S (S O))), (Var (S O)))), (Abs (App ((Abs (Abs (Abs
    (App ((Var (S O)), (Var (S (S (S O))))))))), (App ((App ((Var (S (S (S (S
    O))))), (Var (S O)))), (Var (S (S O))))))))))))))), (App ((Abs (App ((Var
    (S O)), (Abs (Abs (Var (S O))))))), (Var (S (S O))))))), (App ((Abs (App
    ((Var (S O)), (Abs (Abs (Var (S (S O)))))))), (Var (S O)))))))))))

(** val lc_num_signed_mul_scott : term **)

let lc_num_signed_mul_scott =
  Abs (Abs (App ((App ((Abs (App ((Abs (App ((Var (S (S O))), (Abs (App ((App
    ((Var (S (S O))), (Var (S (S O))))), (Var (S O)))))))), (Abs (App ((Var
    (S (S O))), (Abs (App ((App ((Var (S (S O))), (Var (S (S O))))), (Var (S
    O))))))))))), (Abs (Abs (App ((App ((App ((App ((Abs (App ((App ((Var (S
    O)), (Abs (Abs (Var (S (S O))))))), (Abs (Abs (Abs (Var (S O)))))))),
    (App ((Abs (App ((Var (S O)), (Abs (Abs (Var (S (S O)))))))), (Var (S
    O)))))), (Abs (Var (S (S O)))))), (Abs (App ((App ((App ((Abs (App ((App
    ((Var (S O)), (Abs (Abs (Var (S (S O))))))), (Abs (Abs (Abs (Var (S
    O)))))))), (App ((Abs (App ((Var (S O)), (Abs (Abs (Var (S O))))))), (Var
    (S (S O))))))), (Var (S (S O))))), (App ((Var (S (S (S O)))), (App ((App
    ((Abs (Abs (Abs (App ((App ((Var (S O)), (Var (S (S (S O)))))), (Var (S
    (S O)))))))), (App ((Abs (App ((App ((Var (S O)), (Abs (Abs (Var (S (S
    O))))))), (Abs (Var (S O)))))), (App ((Abs (App ((Var (S O)), (Abs (Abs
    (Var (S (S O)))))))), (Var (S (S O))))))))), (App ((Abs (App ((App ((Var
    (S O)), (Abs (Abs (Var (S (S O))))))), (Abs (Var (S O)))))), (App ((Abs
    (App ((Var (S O)), (Abs (Abs (Var (S O))))))), (Var (S (S
    O)))))))))))))))), (Abs (Var (S O))))))))), (App ((App ((Abs (Abs (Abs
    (App ((App ((Var (S O)), (Var (S (S (S O)))))), (Var (S (S O)))))))),
    (App ((App ((App ((Abs (App ((Abs (App ((Var (S (S O))), (Abs (App ((App
    ((Var (S (S O))), (Var (S (S O))))), (Var (S O)))))))), (Abs (App ((Var
    (S (S O))), (Abs (App ((App ((Var (S (S O))), (Var (S (S O))))), (Var (S
    O))))))))))), (Abs (Abs (Abs (App ((App ((Var (S (S O))), (Var (S O)))),
    (Abs (App ((Abs (Abs (Abs (App ((Var (S O)), (Var (S (S (S O))))))))),
    (App ((App ((Var (S (S (S (S O))))), (Var (S O)))), (Var (S (S
    O))))))))))))))), (App ((App ((App ((Abs (App ((Abs (App ((Var (S (S
    O))), (Abs (App ((App ((Var (S (S O))), (Var (S (S O))))), (Var (S
    O)))))))), (Abs (App ((Var (S (S O))), (Abs (App ((App ((Var (S (S O))),
    (Var (S (S O))))), (Var (S O))))))))))), (Abs (Abs (Abs (App ((App ((Var
    (S (S O))), (Abs (Abs (Var (S (S O))))))), (Abs (App ((App ((App ((Abs
    (App ((Abs (App ((Var (S (S O))), (Abs (App ((App ((Var (S (S O))), (Var
    (S (S O))))), (Var (S O)))))))), (Abs (App ((Var (S (S O))), (Abs (App
    ((App ((Var (S (S O))), (Var (S (S O))))), (Var (S O))))))))))), (Abs
    (Abs (Abs (App ((App ((Var (S (S O))), (Var (S O)))), (Abs (App ((Abs
    (Abs (Abs (App ((Var (S O)), (Var (S (S (S O))))))))), (App ((App ((Var
    (S (S (S (S O))))), (Var (S O)))), (Var (S (S O))))))))))))))), (Var (S
    (S O))))), (App ((App ((Var (S (S (S (S O))))), (Var (S O)))), (Var (S (S
    O))))))))))))))), (App ((Abs (App ((Var (S O)), (Abs (Abs (Var (S (S
    O)))))))), (Var (S (S O))))))), (App ((Abs (App ((Var (S O)), (Abs (Abs
    (Var (S (S O)))))))), (Var (S O)))))))), (App ((App ((App ((Abs (App
    ((Abs (App ((Var (S (S O))), (Abs (App ((App ((Var (S (S O))), (Var (S (S
    O))))), (Var (S O)))))))), (Abs (App ((Var (S (S O))), (Abs (App ((App
    ((Var (S (S O))), (Var (S (S O))))), (Var (S O))))))))))), (Abs (Abs (Abs
    (App ((App ((Var (S (S O))), (Abs (Abs (Var (S (S O))))))), (Abs (App
    ((App ((App ((Abs (App ((Abs (App ((Var (S (S O))), (Abs (App ((App ((Var
    (S (S O))), (Var (S (S O))))), (Var (S O)))))))), (Abs (App ((Var (S (S
    O))), (Abs (App ((App ((Var (S (S O))), (Var (S (S O))))), (Var (S
    O))))))))))), (Abs (Abs (Abs (App ((App ((Var (S (S O))), (Var (S O)))),
    (Abs (App ((Abs (Abs (Abs (App ((Var (S O)), (Var (S (S (S O))))))))),
    (App ((App ((Var (S (S (S (S O))))), (Var (S O)))), (Var (S (S
    O))))))))))))))), (Var (S (S O))))), (App ((App ((Var (S (S (S (S O))))),
    (Var (S O)))), (Var (S (S O))))))))))))))), (App ((Abs (App ((Var (S O)),
    (Abs (Abs (Var (S O))))))), (Var (S (S O))))))), (App ((Abs (App ((Var (S
    O)), (Abs (Abs (Var (S O))))))), (Var (S O)))))))))), (App ((App ((App
    ((Abs (App ((Abs (App ((Var (S (S O))), (Abs (App ((App ((Var (S (S O))),
    (Var (S (S O))))), (Var (S O)))))))), (Abs (App ((Var (S (S O))), (Abs
    (App ((App ((Var (S (S O))), (Var (S (S O))))), (Var (S O))))))))))),
    (Abs (Abs (Abs (App ((App ((Var (S (S O))), (Var (S O)))), (Abs (App
    ((Abs (Abs (Abs (App ((Var (S O)), (Var (S (S (S O))))))))), (App ((App
    ((Var (S (S (S (S O))))), (Var (S O)))), (Var (S (S O))))))))))))))),
    (App ((App ((App ((Abs (App ((Abs (App ((Var (S (S O))), (Abs (App ((App
    ((Var (S (S O))), (Var (S (S O))))), (Var (S O)))))))), (Abs (App ((Var
    (S (S O))), (Abs (App ((App ((Var (S (S O))), (Var (S (S O))))), (Var (S
    O))))))))))), (Abs (Abs (Abs (App ((App ((Var (S (S O))), (Abs (Abs (Var
    (S (S O))))))), (Abs (App ((App ((App ((Abs (App ((Abs (App ((Var (S (S
    O))), (Abs (App ((App ((Var (S (S O))), (Var (S (S O))))), (Var (S
    O)))))))), (Abs (App ((Var (S (S O))), (Abs (App ((App ((Var (S (S O))),
    (Var (S (S O))))), (Var (S O))))))))))), (Abs (Abs (Abs (App ((App ((Var
    (S (S O))), (Var (S O)))), (Abs (App ((Abs (Abs (Abs (App ((Var (S O)),
    (Var (S (S (S O))))))))), (App ((App ((Var (S (S (S (S O))))), (Var (S
    O)))), (Var (S (S O))))))))))))))), (Var (S (S O))))), (App ((App ((Var
    (S (S (S (S O))))), (Var (S O)))), (Var (S (S O))))))))))))))), (App
    ((Abs (App ((Var (S O)), (Abs (Abs (Var (S (S O)))))))), (Var (S (S
    O))))))), (App ((Abs (App ((Var (S O)), (Abs (Abs (Var (S O))))))), (Var
    (S O)))))))), (App ((App ((App ((Abs (App ((Abs (App ((Var (S (S O))),
    (Abs (App ((App ((Var (S (S O))), (Var (S (S O))))), (Var (S O)))))))),
    (Abs (App ((Var (S (S O))), (Abs (App ((App ((Var (S (S O))), (Var (S (S
    O))))), (Var (S O))))))))))), (Abs (Abs (Abs (App ((App ((Var (S (S O))),
    (Abs (Abs (Var (S (S O))))))), (Abs (App ((App ((App ((Abs (App ((Abs
    (App ((Var (S (S O))), (Abs (App ((App ((Var (S (S O))), (Var (S (S
    O))))), (Var (S O)))))))), (Abs (App ((Var (S (S O))), (Abs (App ((App
    ((Var (S (S O))), (Var (S (S O))))), (Var (S O))))))))))), (Abs (Abs (Abs
    (App ((App ((Var (S (S O))), (Var (S O)))), (Abs (App ((Abs (Abs (Abs
    (App ((Var (S O)), (Var (S (S (S O))))))))), (App ((App ((Var (S (S (S (S
    O))))), (Var (S O)))), (Var (S (S O))))))))))))))), (Var (S (S O))))),
    (App ((App ((Var (S (S (S (S O))))), (Var (S O)))), (Var (S (S
    O))))))))))))))), (App ((Abs (App ((Var (S O)), (Abs (Abs (Var (S
    O))))))), (Var (S (S O))))))), (App ((Abs (App ((Var (S O)), (Abs (Abs
    (Var (S (S O)))))))), (Var (S O)))))))))))))

(** val lc_num_signed_to_signed_parigot : term **)

let lc_num_signed_to_signed_parigot =
  Abs (App ((App ((Abs (Abs (Abs (App ((App ((Var (S O)), (Var (S (S (S
    O)))))), (Var (S (S O)))))))), (Var (S O)))), (Abs (Abs (Var (S O))))))

(** val lc_num_signed_simplify_parigot : term **)

let lc_num_signed_simplify_parigot =
  App ((Abs (App ((Abs (App ((Var (S (S O))), (Abs (App ((App ((Var (S (S
    O))), (Var (S (S O))))), (Var (S O)))))))), (Abs (App ((Var (S (S O))),
    (Abs (App ((App ((Var (S (S O))), (Var (S (S O))))), (Var (S
    O))))))))))), (Abs (Abs (App ((App ((App ((App ((Abs (App ((App ((Var (S
    O)), (Abs (Abs (Abs (Abs (Var (S O)))))))), (Abs (Abs (Var (S (S
    O)))))))), (App ((Abs (App ((Var (S O)), (Abs (Abs (Var (S (S O)))))))),
    (Var (S O)))))), (Abs (Var (S (S O)))))), (Abs (App ((App ((App ((Abs
    (App ((App ((Var (S O)), (Abs (Abs (Abs (Abs (Var (S O)))))))), (Abs (Abs
    (Var (S (S O)))))))), (App ((Abs (App ((Var (S O)), (Abs (Abs (Var (S
    O))))))), (Var (S (S O))))))), (Var (S (S O))))), (App ((Var (S (S (S
    O)))), (App ((App ((Abs (Abs (Abs (App ((App ((Var (S O)), (Var (S (S (S
    O)))))), (Var (S (S O)))))))), (App ((Abs (App ((App ((Var (S O)), (Abs
    (Abs (Var (S (S O))))))), (Abs (Abs (Var (S O))))))), (App ((Abs (App
    ((Var (S O)), (Abs (Abs (Var (S (S O)))))))), (Var (S (S O))))))))), (App
    ((Abs (App ((App ((Var (S O)), (Abs (Abs (Var (S (S O))))))), (Abs (Abs
    (Var (S O))))))), (App ((Abs (App ((Var (S O)), (Abs (Abs (Var (S
    O))))))), (Var (S (S O)))))))))))))))), (Abs (Var (S O))))))))

(** val lc_num_signed_modulus_parigot : term **)

let lc_num_signed_modulus_parigot =
  Abs (App ((Abs (App ((App ((App ((Abs (App ((App ((Var (S O)), (Abs (Abs
    (Abs (Abs (Var (S O)))))))), (Abs (Abs (Var (S (S O)))))))), (App ((Abs
    (App ((Var (S O)), (Abs (Abs (Var (S (S O)))))))), (Var (S O)))))), (App
    ((Abs (App ((Var (S O)), (Abs (Abs (Var (S O))))))), (Var (S O)))))),
    (App ((Abs (App ((Var (S O)), (Abs (Abs (Var (S (S O)))))))), (Var (S
    O))))))), (App ((App ((Abs (App ((Abs (App ((Var (S (S O))), (Abs (App
    ((App ((Var (S (S O))), (Var (S (S O))))), (Var (S O)))))))), (Abs (App
    ((Var (S (S O))), (Abs (App ((App ((Var (S (S O))), (Var (S (S O))))),
    (Var (S O))))))))))), (Abs (Abs (App ((App ((App ((App ((Abs (App ((App
    ((Var (S O)), (Abs (Abs (Abs (Abs (Var (S O)))))))), (Abs (Abs (Var (S (S
    O)))))))), (App ((Abs (App ((Var (S O)), (Abs (Abs (Var (S (S O)))))))),
    (Var (S O)))))), (Abs (Var (S (S O)))))), (Abs (App ((App ((App ((Abs
    (App ((App ((Var (S O)), (Abs (Abs (Abs (Abs (Var (S O)))))))), (Abs (Abs
    (Var (S (S O)))))))), (App ((Abs (App ((Var (S O)), (Abs (Abs (Var (S
    O))))))), (Var (S (S O))))))), (Var (S (S O))))), (App ((Var (S (S (S
    O)))), (App ((App ((Abs (Abs (Abs (App ((App ((Var (S O)), (Var (S (S (S
    O)))))), (Var (S (S O)))))))), (App ((Abs (App ((App ((Var (S O)), (Abs
    (Abs (Var (S (S O))))))), (Abs (Abs (Var (S O))))))), (App ((Abs (App
    ((Var (S O)), (Abs (Abs (Var (S (S O)))))))), (Var (S (S O))))))))), (App
    ((Abs (App ((App ((Var (S O)), (Abs (Abs (Var (S (S O))))))), (Abs (Abs
    (Var (S O))))))), (App ((Abs (App ((Var (S O)), (Abs (Abs (Var (S
    O))))))), (Var (S (S O)))))))))))))))), (Abs (Var (S O))))))))), (Var (S
    O))))))

(** val lc_num_signed_add_parigot : term **)

let lc_num_signed_add_parigot =
  Abs (Abs (App ((App ((Abs (App ((Abs (App ((Var (S (S O))), (Abs (App ((App
    ((Var (S (S O))), (Var (S (S O))))), (Var (S O)))))))), (Abs (App ((Var
    (S (S O))), (Abs (App ((App ((Var (S (S O))), (Var (S (S O))))), (Var (S
    O))))))))))), (Abs (Abs (App ((App ((App ((App ((Abs (App ((App ((Var (S
    O)), (Abs (Abs (Abs (Abs (Var (S O)))))))), (Abs (Abs (Var (S (S
    O)))))))), (App ((Abs (App ((Var (S O)), (Abs (Abs (Var (S (S O)))))))),
    (Var (S O)))))), (Abs (Var (S (S O)))))), (Abs (App ((App ((App ((Abs
    (App ((App ((Var (S O)), (Abs (Abs (Abs (Abs (Var (S O)))))))), (Abs (Abs
    (Var (S (S O)))))))), (App ((Abs (App ((Var (S O)), (Abs (Abs (Var (S
    O))))))), (Var (S (S O))))))), (Var (S (S O))))), (App ((Var (S (S (S
    O)))), (App ((App ((Abs (Abs (Abs (App ((App ((Var (S O)), (Var (S (S (S
    O)))))), (Var (S (S O)))))))), (App ((Abs (App ((App ((Var (S O)), (Abs
    (Abs (Var (S (S O))))))), (Abs (Abs (Var (S O))))))), (App ((Abs (App
    ((Var (S O)), (Abs (Abs (Var (S (S O)))))))), (Var (S (S O))))))))), (App
    ((Abs (App ((App ((Var (S O)), (Abs (Abs (Var (S (S O))))))), (Abs (Abs
    (Var (S O))))))), (App ((Abs (App ((Var (S O)), (Abs (Abs (Var (S
    O))))))), (Var (S (S O)))))))))))))))), (Abs (Var (S O))))))))), (App
    ((App ((Abs (Abs (Abs (App ((App ((Var (S O)), (Var (S (S (S O)))))),
    (Var (S (S O)))))))), (App ((App ((Abs (Abs (App ((App ((Var (S (S O))),
    (Abs (Abs (Abs (Abs (App ((App ((Var (S (S O))), (Var (S (S (S O)))))),
    (App ((App ((Var (S (S (S O)))), (Var (S (S O))))), (Var (S
    O)))))))))))), (Var (S O)))))), (App ((Abs (App ((Var (S O)), (Abs (Abs
    (Var (S (S O)))))))), (Var (S (S O))))))), (App ((Abs (App ((Var (S O)),
    (Abs (Abs (Var (S (S O)))))))), (Var (S O)))))))), (App ((App ((Abs (Abs
    (App ((App ((Var (S (S O))), (Abs (Abs (Abs (Abs (App ((App ((Var (S (S
    O))), (Var (S (S (S O)))))), (App ((App ((Var (S (S (S O)))), (Var (S (S
    O))))), (Var (S O)))))))))))), (Var (S O)))))), (App ((Abs (App ((Var (S
    O)), (Abs (Abs (Var (S O))))))), (Var (S (S O))))))), (App ((Abs (App
    ((Var (S O)), (Abs (Abs (Var (S O))))))), (Var (S O)))))))))))

(** val lc_num_signed_sub_parigot : term **)

let lc_num_signed_sub_parigot =
  Abs (Abs (App ((App ((Abs (App ((Abs (App ((Var (S (S O))), (Abs (App ((App
    ((Var (S (S O))), (Var (S (S O))))), (Var (S O)))))))), (Abs (App ((Var
    (S (S O))), (Abs (App ((App ((Var (S (S O))), (Var (S (S O))))), (Var (S
    O))))))))))), (Abs (Abs (App ((App ((App ((App ((Abs (App ((App ((Var (S
    O)), (Abs (Abs (Abs (Abs (Var (S O)))))))), (Abs (Abs (Var (S (S
    O)))))))), (App ((Abs (App ((Var (S O)), (Abs (Abs (Var (S (S O)))))))),
    (Var (S O)))))), (Abs (Var (S (S O)))))), (Abs (App ((App ((App ((Abs
    (App ((App ((Var (S O)), (Abs (Abs (Abs (Abs (Var (S O)))))))), (Abs (Abs
    (Var (S (S O)))))))), (App ((Abs (App ((Var (S O)), (Abs (Abs (Var (S
    O))))))), (Var (S (S O))))))), (Var (S (S O))))), (App ((Var (S (S (S
    O)))), (App ((App ((Abs (Abs (Abs (App ((App ((Var (S O)), (Var (S (S (S
    O)))))), (Var (S (S O)))))))), (App ((Abs (App ((App ((Var (S O)), (Abs
    (Abs (Var (S (S O))))))), (Abs (Abs (Var (S O))))))), (App ((Abs (App
    ((Var (S O)), (Abs (Abs (Var (S (S O)))))))), (Var (S (S O))))))))), (App
    ((Abs (App ((App ((Var (S O)), (Abs (Abs (Var (S (S O))))))), (Abs (Abs
    (Var (S O))))))), (App ((Abs (App ((Var (S O)), (Abs (Abs (Var (S
    O))))))), (Var (S (S O)))))))))))))))), (Abs (Var (S O))))))))), (App
    ((App ((Abs (Abs (Abs (App ((App ((Var (S O)), (Var (S (S (S O)))))),
    (Var (S (S O)))))))), (App ((App ((Abs (Abs (App ((App ((Var (S (S O))),
    (Abs (Abs (Abs (Abs (App ((App ((Var (S (S O))), (Var (S (S (S O)))))),
    (App ((App ((Var (S (S (S O)))), (Var (S (S O))))), (Var (S
    O)))))))))))), (Var (S O)))))), (App ((Abs (App ((Var (S O)), (Abs (Abs
    (Var (S (S O)))))))), (Var (S (S O))))))), (App ((Abs (App ((Var (S O)),
    (Abs (Abs (Var (S O))))))), (Var (S O)))))))), (App ((App ((Abs (Abs (App
    ((App ((Var (S (S O))), (Abs (Abs (Abs (Abs (App ((App ((Var (S (S O))),
    (Var (S (S (S O)))))), (App ((App ((Var (S (S (S O)))), (Var (S (S
    O))))), (Var (S O)))))))))))), (Var (S O)))))), (App ((Abs (App ((Var (S
    O)), (Abs (Abs (Var (S O))))))), (Var (S (S O))))))), (App ((Abs (App
    ((Var (S O)), (Abs (Abs (Var (S (S O)))))))), (Var (S O)))))))))))

(** val lc_num_signed_mul_parigot : term **)

let lc_num_signed_mul_parigot =
  Abs (Abs (App ((App ((Abs (App ((Abs (App ((Var (S (S O))), (Abs (App ((App
    ((Var (S (S O))), (Var (S (S O))))), (Var (S O)))))))), (Abs (App ((Var
    (S (S O))), (Abs (App ((App ((Var (S (S O))), (Var (S (S O))))), (Var (S
    O))))))))))), (Abs (Abs (App ((App ((App ((App ((Abs (App ((App ((Var (S
    O)), (Abs (Abs (Abs (Abs (Var (S O)))))))), (Abs (Abs (Var (S (S
    O)))))))), (App ((Abs (App ((Var (S O)), (Abs (Abs (Var (S (S O)))))))),
    (Var (S O)))))), (Abs (Var (S (S O)))))), (Abs (App ((App ((App ((Abs
    (App ((App ((Var (S O)), (Abs (Abs (Abs (Abs (Var (S O)))))))), (Abs (Abs
    (Var (S (S O)))))))), (App ((Abs (App ((Var (S O)), (Abs (Abs (Var (S
    O))))))), (Var (S (S O))))))), (Var (S (S O))))), (App ((Var (S (S (S
    O)))), (App ((App ((Abs (Abs (Abs (App ((App ((Var (S O)), (Var (S (S (S
    O)))))), (Var (S (S O)))))))), (App ((Abs (App ((App ((Var (S O)), (Abs
    (Abs (Var (S (S O))))))), (Abs (Abs (Var (S O))))))), (App ((Abs (App
    ((Var (S O)), (Abs (Abs (Var (S (S O)))))))), (Var (S (S O))))))))), (App
    ((Abs (App ((App ((Var (S O)), (Abs (Abs (Var (S (S O))))))), (Abs (Abs
    (Var (S O))))))), (App ((Abs (App ((Var (S O)), (Abs (Abs (Var (S
    O))))))), (Var (S (S O)))))))))))))))), (Abs (Var (S O))))))))), (App
    ((App ((Abs (Abs (Abs (App ((App ((Var (S O)), (Var (S (S (S O)))))),
    (Var (S (S O)))))))), (App ((App ((Abs (Abs (App ((App ((Var (S (S O))),
    (Abs (Abs (Abs (Abs (App ((App ((Var (S (S O))), (Var (S (S (S O)))))),
    (App ((App ((Var (S (S (S O)))), (Var (S (S O))))), (Var (S
    O)))))))))))), (Var (S O)))))), (App ((App ((Abs (Abs (App ((App ((Var (S
    (S O))), (Abs (App ((Abs (Abs (App ((App ((Var (S (S O))), (Abs (Abs (Abs
    (Abs (App ((App ((Var (S (S O))), (Var (S (S (S O)))))), (App ((App ((Var
    (S (S (S O)))), (Var (S (S O))))), (Var (S O)))))))))))), (Var (S
    O)))))), (Var (S (S O)))))))), (Abs (Abs (Var (S O)))))))), (App ((Abs
    (App ((Var (S O)), (Abs (Abs (Var (S (S O)))))))), (Var (S (S O))))))),
    (App ((Abs (App ((Var (S O)), (Abs (Abs (Var (S (S O)))))))), (Var (S
    O)))))))), (App ((App ((Abs (Abs (App ((App ((Var (S (S O))), (Abs (App
    ((Abs (Abs (App ((App ((Var (S (S O))), (Abs (Abs (Abs (Abs (App ((App
    ((Var (S (S O))), (Var (S (S (S O)))))), (App ((App ((Var (S (S (S O)))),
    (Var (S (S O))))), (Var (S O)))))))))))), (Var (S O)))))), (Var (S (S
    O)))))))), (Abs (Abs (Var (S O)))))))), (App ((Abs (App ((Var (S O)),
    (Abs (Abs (Var (S O))))))), (Var (S (S O))))))), (App ((Abs (App ((Var (S
    O)), (Abs (Abs (Var (S O))))))), (Var (S O)))))))))), (App ((App ((Abs
    (Abs (App ((App ((Var (S (S O))), (Abs (Abs (Abs (Abs (App ((App ((Var (S
    (S O))), (Var (S (S (S O)))))), (App ((App ((Var (S (S (S O)))), (Var (S
    (S O))))), (Var (S O)))))))))))), (Var (S O)))))), (App ((App ((Abs (Abs
    (App ((App ((Var (S (S O))), (Abs (App ((Abs (Abs (App ((App ((Var (S (S
    O))), (Abs (Abs (Abs (Abs (App ((App ((Var (S (S O))), (Var (S (S (S
    O)))))), (App ((App ((Var (S (S (S O)))), (Var (S (S O))))), (Var (S
    O)))))))))))), (Var (S O)))))), (Var (S (S O)))))))), (Abs (Abs (Var (S
    O)))))))), (App ((Abs (App ((Var (S O)), (Abs (Abs (Var (S (S O)))))))),
    (Var (S (S O))))))), (App ((Abs (App ((Var (S O)), (Abs (Abs (Var (S
    O))))))), (Var (S O)))))))), (App ((App ((Abs (Abs (App ((App ((Var (S (S
    O))), (Abs (App ((Abs (Abs (App ((App ((Var (S (S O))), (Abs (Abs (Abs
    (Abs (App ((App ((Var (S (S O))), (Var (S (S (S O)))))), (App ((App ((Var
    (S (S (S O)))), (Var (S (S O))))), (Var (S O)))))))))))), (Var (S
    O)))))), (Var (S (S O)))))))), (Abs (Abs (Var (S O)))))))), (App ((Abs
    (App ((Var (S O)), (Abs (Abs (Var (S O))))))), (Var (S (S O))))))), (App
    ((Abs (App ((Var (S O)), (Abs (Abs (Var (S (S O)))))))), (Var (S
    O)))))))))))))

(** val lc_num_signed_to_signed_stumpfu : term **)

let lc_num_signed_to_signed_stumpfu =
  Abs (App ((App ((Abs (Abs (Abs (App ((App ((Var (S O)), (Var (S (S (S
    O)))))), (Var (S (S O)))))))), (Var (S O)))), (Abs (Abs (Var (S O))))))

(** val lc_num_signed_simplify_stumpfu : term **)

let lc_num_signed_simplify_stumpfu =
  App ((Abs (App ((Abs (App ((Var (S (S O))), (Abs (App ((App ((Var (S (S
    O))), (Var (S (S O))))), (Var (S O)))))))), (Abs (App ((Var (S (S O))),
    (Abs (App ((App ((Var (S (S O))), (Var (S (S O))))), (Var (S
    O))))))))))), (Abs (Abs (App ((App ((App ((App ((Abs (App ((App ((Var (S
    O)), (Abs (Abs (Abs (Abs (Var (S O)))))))), (Abs (Abs (Var (S (S
    O)))))))), (App ((Abs (App ((Var (S O)), (Abs (Abs (Var (S (S O)))))))),
    (Var (S O)))))), (Abs (Var (S (S O)))))), (Abs (App ((App ((App ((Abs
    (App ((App ((Var (S O)), (Abs (Abs (Abs (Abs (Var (S O)))))))), (Abs (Abs
    (Var (S (S O)))))))), (App ((Abs (App ((Var (S O)), (Abs (Abs (Var (S
    O))))))), (Var (S (S O))))))), (Var (S (S O))))), (App ((Var (S (S (S
    O)))), (App ((App ((Abs (Abs (Abs (App ((App ((Var (S O)), (Var (S (S (S
    O)))))), (Var (S (S O)))))))), (App ((Abs (App ((App ((Var (S O)), (Abs
    (Abs (Var (S O)))))), (Abs (Abs (Var (S O))))))), (App ((Abs (App ((Var
    (S O)), (Abs (Abs (Var (S (S O)))))))), (Var (S (S O))))))))), (App ((Abs
    (App ((App ((Var (S O)), (Abs (Abs (Var (S O)))))), (Abs (Abs (Var (S
    O))))))), (App ((Abs (App ((Var (S O)), (Abs (Abs (Var (S O))))))), (Var
    (S (S O)))))))))))))))), (Abs (Var (S O))))))))

(** val lc_num_signed_modulus_stumpfu : term **)

let lc_num_signed_modulus_stumpfu =
  Abs (App ((Abs (App ((App ((App ((Abs (App ((App ((Var (S O)), (Abs (Abs
    (Abs (Abs (Var (S O)))))))), (Abs (Abs (Var (S (S O)))))))), (App ((Abs
    (App ((Var (S O)), (Abs (Abs (Var (S (S O)))))))), (Var (S O)))))), (App
    ((Abs (App ((Var (S O)), (Abs (Abs (Var (S O))))))), (Var (S O)))))),
    (App ((Abs (App ((Var (S O)), (Abs (Abs (Var (S (S O)))))))), (Var (S
    O))))))), (App ((App ((Abs (App ((Abs (App ((Var (S (S O))), (Abs (App
    ((App ((Var (S (S O))), (Var (S (S O))))), (Var (S O)))))))), (Abs (App
    ((Var (S (S O))), (Abs (App ((App ((Var (S (S O))), (Var (S (S O))))),
    (Var (S O))))))))))), (Abs (Abs (App ((App ((App ((App ((Abs (App ((App
    ((Var (S O)), (Abs (Abs (Abs (Abs (Var (S O)))))))), (Abs (Abs (Var (S (S
    O)))))))), (App ((Abs (App ((Var (S O)), (Abs (Abs (Var (S (S O)))))))),
    (Var (S O)))))), (Abs (Var (S (S O)))))), (Abs (App ((App ((App ((Abs
    (App ((App ((Var (S O)), (Abs (Abs (Abs (Abs (Var (S O)))))))), (Abs (Abs
    (Var (S (S O)))))))), (App ((Abs (App ((Var (S O)), (Abs (Abs (Var (S
    O))))))), (Var (S (S O))))))), (Var (S (S O))))), (App ((Var (S (S (S
    O)))), (App ((App ((Abs (Abs (Abs (App ((App ((Var (S O)), (Var (S (S (S
    O)))))), (Var (S (S O)))))))), (App ((Abs (App ((App ((Var (S O)), (Abs
    (Abs (Var (S O)))))), (Abs (Abs (Var (S O))))))), (App ((Abs (App ((Var
    (S O)), (Abs (Abs (Var (S (S O)))))))), (Var (S (S O))))))))), (App ((Abs
    (App ((App ((Var (S O)), (Abs (Abs (Var (S O)))))), (Abs (Abs (Var (S
    O))))))), (App ((Abs (App ((Var (S O)), (Abs (Abs (Var (S O))))))), (Var
    (S (S O)))))))))))))))), (Abs (Var (S O))))))))), (Var (S O))))))

(** val lc_num_signed_add_stumpfu : term **)

let lc_num_signed_add_stumpfu =
  Abs (Abs (App ((App ((Abs (App ((Abs (App ((Var (S (S O))), (Abs (App ((App
    ((Var (S (S O))), (Var (S (S O))))), (Var (S O)))))))), (Abs (App ((Var
    (S (S O))), (Abs (App ((App ((Var (S (S O))), (Var (S (S O))))), (Var (S
    O))))))))))), (Abs (Abs (App ((App ((App ((App ((Abs (App ((App ((Var (S
    O)), (Abs (Abs (Abs (Abs (Var (S O)))))))), (Abs (Abs (Var (S (S
    O)))))))), (App ((Abs (App ((Var (S O)), (Abs (Abs (Var (S (S O)))))))),
    (Var (S O)))))), (Abs (Var (S (S O)))))), (Abs (App ((App ((App ((Abs
    (App ((App ((Var (S O)), (Abs (Abs (Abs (Abs (Var (S O)))))))), (Abs (Abs
    (Var (S (S O)))))))), (App ((Abs (App ((Var (S O)), (Abs (Abs (Var (S
    O))))))), (Var (S (S O))))))), (Var (S (S O))))), (App ((Var (S (S (S
    O)))), (App ((App ((Abs (Abs (Abs (App ((App ((Var (S O)), (Var (S (S (S
    O)))))), (Var (S (S O)))))))), (App ((Abs (App ((App ((Var (S O)), (Abs
    (Abs (Var (S O)))))), (Abs (Abs (Var (S O))))))), (App ((Abs (App ((Var
    (S O)), (Abs (Abs (Var (S (S O)))))))), (Var (S (S O))))))))), (App ((Abs
    (App ((App ((Var (S O)), (Abs (Abs (Var (S O)))))), (Abs (Abs (Var (S
    O))))))), (App ((Abs (App ((Var (S O)), (Abs (Abs (Var (S O))))))), (Var
    (S (S O)))))))))))))))), (Abs (Var (S O))))))))), (App ((App ((Abs (Abs
    (Abs (App ((App ((Var (S O)), (Var (S (S (S O)))))), (Var (S (S
    O)))))))), (App ((App ((Abs (Abs (App ((App ((Var (S (S O))), (Abs (Abs
    (App ((App ((Var (S (S O))), (Abs (App ((App ((Var (S O)), (Abs (Abs (Abs
    (Abs (App ((App ((Var (S (S O))), (App ((Abs (Abs (Abs (App ((Var (S (S
    O))), (App ((App ((Var (S (S (S O)))), (Var (S (S O))))), (Var (S
    O))))))))), (Var (S (S (S (S O))))))))), (Var (S (S (S (S (S
    O)))))))))))))), (Abs (Abs (App ((App ((Var (S (S O))), (Abs (Abs (App
    ((Var (S (S O))), (Var (S O)))))))), (Abs (Abs (Var (S O))))))))))))),
    (Var (S (S (S O)))))))))), (Var (S O)))))), (App ((Abs (App ((Var (S O)),
    (Abs (Abs (Var (S (S O)))))))), (Var (S (S O))))))), (App ((Abs (App
    ((Var (S O)), (Abs (Abs (Var (S (S O)))))))), (Var (S O)))))))), (App
    ((App ((Abs (Abs (App ((App ((Var (S (S O))), (Abs (Abs (App ((App ((Var
    (S (S O))), (Abs (App ((App ((Var (S O)), (Abs (Abs (Abs (Abs (App ((App
    ((Var (S (S O))), (App ((Abs (Abs (Abs (App ((Var (S (S O))), (App ((App
    ((Var (S (S (S O)))), (Var (S (S O))))), (Var (S O))))))))), (Var (S (S
    (S (S O))))))))), (Var (S (S (S (S (S O)))))))))))))), (Abs (Abs (App
    ((App ((Var (S (S O))), (Abs (Abs (App ((Var (S (S O))), (Var (S
    O)))))))), (Abs (Abs (Var (S O))))))))))))), (Var (S (S (S O)))))))))),
    (Var (S O)))))), (App ((Abs (App ((Var (S O)), (Abs (Abs (Var (S
    O))))))), (Var (S (S O))))))), (App ((Abs (App ((Var (S O)), (Abs (Abs
    (Var (S O))))))), (Var (S O)))))))))))

(** val lc_num_signed_sub_stumpfu : term **)

let lc_num_signed_sub_stumpfu =
  Abs (Abs (App ((App ((Abs (App ((Abs (App ((Var (S (S O))), (Abs (App ((App
    ((Var (S (S O))), (Var (S (S O))))), (Var (S O)))))))), (Abs (App ((Var
    (S (S O))), (Abs (App ((App ((Var (S (S O))), (Var (S (S O))))), (Var (S
    O))))))))))), (Abs (Abs (App ((App ((App ((App ((Abs (App ((App ((Var (S
    O)), (Abs (Abs (Abs (Abs (Var (S O)))))))), (Abs (Abs (Var (S (S
    O)))))))), (App ((Abs (App ((Var (S O)), (Abs (Abs (Var (S (S O)))))))),
    (Var (S O)))))), (Abs (Var (S (S O)))))), (Abs (App ((App ((App ((Abs
    (App ((App ((Var (S O)), (Abs (Abs (Abs (Abs (Var (S O)))))))), (Abs (Abs
    (Var (S (S O)))))))), (App ((Abs (App ((Var (S O)), (Abs (Abs (Var (S
    O))))))), (Var (S (S O))))))), (Var (S (S O))))), (App ((Var (S (S (S
    O)))), (App ((App ((Abs (Abs (Abs (App ((App ((Var (S O)), (Var (S (S (S
    O)))))), (Var (S (S O)))))))), (App ((Abs (App ((App ((Var (S O)), (Abs
    (Abs (Var (S O)))))), (Abs (Abs (Var (S O))))))), (App ((Abs (App ((Var
    (S O)), (Abs (Abs (Var (S (S O)))))))), (Var (S (S O))))))))), (App ((Abs
    (App ((App ((Var (S O)), (Abs (Abs (Var (S O)))))), (Abs (Abs (Var (S
    O))))))), (App ((Abs (App ((Var (S O)), (Abs (Abs (Var (S O))))))), (Var
    (S (S O)))))))))))))))), (Abs (Var (S O))))))))), (App ((App ((Abs (Abs
    (Abs (App ((App ((Var (S O)), (Var (S (S (S O)))))), (Var (S (S
    O)))))))), (App ((App ((Abs (Abs (App ((App ((Var (S (S O))), (Abs (Abs
    (App ((App ((Var (S (S O))), (Abs (App ((App ((Var (S O)), (Abs (Abs (Abs
    (Abs (App ((App ((Var (S (S O))), (App ((Abs (Abs (Abs (App ((Var (S (S
    O))), (App ((App ((Var (S (S (S O)))), (Var (S (S O))))), (Var (S
    O))))))))), (Var (S (S (S (S O))))))))), (Var (S (S (S (S (S
    O)))))))))))))), (Abs (Abs (App ((App ((Var (S (S O))), (Abs (Abs (App
    ((Var (S (S O))), (Var (S O)))))))), (Abs (Abs (Var (S O))))))))))))),
    (Var (S (S (S O)))))))))), (Var (S O)))))), (App ((Abs (App ((Var (S O)),
    (Abs (Abs (Var (S (S O)))))))), (Var (S (S O))))))), (App ((Abs (App
    ((Var (S O)), (Abs (Abs (Var (S O))))))), (Var (S O)))))))), (App ((App
    ((Abs (Abs (App ((App ((Var (S (S O))), (Abs (Abs (App ((App ((Var (S (S
    O))), (Abs (App ((App ((Var (S O)), (Abs (Abs (Abs (Abs (App ((App ((Var
    (S (S O))), (App ((Abs (Abs (Abs (App ((Var (S (S O))), (App ((App ((Var
    (S (S (S O)))), (Var (S (S O))))), (Var (S O))))))))), (Var (S (S (S (S
    O))))))))), (Var (S (S (S (S (S O)))))))))))))), (Abs (Abs (App ((App
    ((Var (S (S O))), (Abs (Abs (App ((Var (S (S O))), (Var (S O)))))))),
    (Abs (Abs (Var (S O))))))))))))), (Var (S (S (S O)))))))))), (Var (S
    O)))))), (App ((Abs (App ((Var (S O)), (Abs (Abs (Var (S O))))))), (Var
    (S (S O))))))), (App ((Abs (App ((Var (S O)), (Abs (Abs (Var (S (S
    O)))))))), (Var (S O)))))))))))

(** val lc_num_signed_mul_stumpfu : term **)

let lc_num_signed_mul_stumpfu =
  Abs (Abs (App ((App ((Abs (App ((Abs (App ((Var (S (S O))), (Abs (App ((App
    ((Var (S (S O))), (Var (S (S O))))), (Var (S O)))))))), (Abs (App ((Var
    (S (S O))), (Abs (App ((App ((Var (S (S O))), (Var (S (S O))))), (Var (S
    O))))))))))), (Abs (Abs (App ((App ((App ((App ((Abs (App ((App ((Var (S
    O)), (Abs (Abs (Abs (Abs (Var (S O)))))))), (Abs (Abs (Var (S (S
    O)))))))), (App ((Abs (App ((Var (S O)), (Abs (Abs (Var (S (S O)))))))),
    (Var (S O)))))), (Abs (Var (S (S O)))))), (Abs (App ((App ((App ((Abs
    (App ((App ((Var (S O)), (Abs (Abs (Abs (Abs (Var (S O)))))))), (Abs (Abs
    (Var (S (S O)))))))), (App ((Abs (App ((Var (S O)), (Abs (Abs (Var (S
    O))))))), (Var (S (S O))))))), (Var (S (S O))))), (App ((Var (S (S (S
    O)))), (App ((App ((Abs (Abs (Abs (App ((App ((Var (S O)), (Var (S (S (S
    O)))))), (Var (S (S O)))))))), (App ((Abs (App ((App ((Var (S O)), (Abs
    (Abs (Var (S O)))))), (Abs (Abs (Var (S O))))))), (App ((Abs (App ((Var
    (S O)), (Abs (Abs (Var (S (S O)))))))), (Var (S (S O))))))))), (App ((Abs
    (App ((App ((Var (S O)), (Abs (Abs (Var (S O)))))), (Abs (Abs (Var (S
    O))))))), (App ((Abs (App ((Var (S O)), (Abs (Abs (Var (S O))))))), (Var
    (S (S O)))))))))))))))), (Abs (Var (S O))))))))), (App ((App ((Abs (Abs
    (Abs (App ((App ((Var (S O)), (Var (S (S (S O)))))), (Var (S (S
    O)))))))), (App ((App ((Abs (Abs (App ((App ((Var (S (S O))), (Abs (Abs
    (App ((App ((Var (S (S O))), (Abs (App ((App ((Var (S O)), (Abs (Abs (Abs
    (Abs (App ((App ((Var (S (S O))), (App ((Abs (Abs (Abs (App ((Var (S (S
    O))), (App ((App ((Var (S (S (S O)))), (Var (S (S O))))), (Var (S
    O))))))))), (Var (S (S (S (S O))))))))), (Var (S (S (S (S (S
    O)))))))))))))), (Abs (Abs (App ((App ((Var (S (S O))), (Abs (Abs (App
    ((Var (S (S O))), (Var (S O)))))))), (Abs (Abs (Var (S O))))))))))))),
    (Var (S (S (S O)))))))))), (Var (S O)))))), (App ((App ((Abs (Abs (App
    ((App ((Var (S (S O))), (Abs (Abs (App ((App ((Var (S (S O))), (Abs (App
    ((App ((Abs (Abs (App ((App ((Var (S (S O))), (Abs (Abs (App ((App ((Var
    (S (S O))), (Abs (App ((App ((Var (S O)), (Abs (Abs (Abs (Abs (App ((App
    ((Var (S (S O))), (App ((Abs (Abs (Abs (App ((Var (S (S O))), (App ((App
    ((Var (S (S (S O)))), (Var (S (S O))))), (Var (S O))))))))), (Var (S (S
    (S (S O))))))))), (Var (S (S (S (S (S O)))))))))))))), (Abs (Abs (App
    ((App ((Var (S (S O))), (Abs (Abs (App ((Var (S (S O))), (Var (S
    O)))))))), (Abs (Abs (Var (S O))))))))))))), (Var (S (S (S O)))))))))),
    (Var (S O)))))), (Var (S (S (S (S O))))))), (Var (S O))))))), (Abs (Abs
    (Var (S O)))))))))), (Abs (Abs (Var (S O)))))))), (App ((Abs (App ((Var
    (S O)), (Abs (Abs (Var (S (S O)))))))), (Var (S (S O))))))), (App ((Abs
    (App ((Var (S O)), (Abs (Abs (Var (S (S O)))))))), (Var (S O)))))))),
    (App ((App ((Abs (Abs (App ((App ((Var (S (S O))), (Abs (Abs (App ((App
    ((Var (S (S O))), (Abs (App ((App ((Abs (Abs (App ((App ((Var (S (S O))),
    (Abs (Abs (App ((App ((Var (S (S O))), (Abs (App ((App ((Var (S O)), (Abs
    (Abs (Abs (Abs (App ((App ((Var (S (S O))), (App ((Abs (Abs (Abs (App
    ((Var (S (S O))), (App ((App ((Var (S (S (S O)))), (Var (S (S O))))),
    (Var (S O))))))))), (Var (S (S (S (S O))))))))), (Var (S (S (S (S (S
    O)))))))))))))), (Abs (Abs (App ((App ((Var (S (S O))), (Abs (Abs (App
    ((Var (S (S O))), (Var (S O)))))))), (Abs (Abs (Var (S O))))))))))))),
    (Var (S (S (S O)))))))))), (Var (S O)))))), (Var (S (S (S (S O))))))),
    (Var (S O))))))), (Abs (Abs (Var (S O)))))))))), (Abs (Abs (Var (S
    O)))))))), (App ((Abs (App ((Var (S O)), (Abs (Abs (Var (S O))))))), (Var
    (S (S O))))))), (App ((Abs (App ((Var (S O)), (Abs (Abs (Var (S O))))))),
    (Var (S O)))))))))), (App ((App ((Abs (Abs (App ((App ((Var (S (S O))),
    (Abs (Abs (App ((App ((Var (S (S O))), (Abs (App ((App ((Var (S O)), (Abs
    (Abs (Abs (Abs (App ((App ((Var (S (S O))), (App ((Abs (Abs (Abs (App
    ((Var (S (S O))), (App ((App ((Var (S (S (S O)))), (Var (S (S O))))),
    (Var (S O))))))))), (Var (S (S (S (S O))))))))), (Var (S (S (S (S (S
    O)))))))))))))), (Abs (Abs (App ((App ((Var (S (S O))), (Abs (Abs (App
    ((Var (S (S O))), (Var (S O)))))))), (Abs (Abs (Var (S O))))))))))))),
    (Var (S (S (S O)))))))))), (Var (S O)))))), (App ((App ((Abs (Abs (App
    ((App ((Var (S (S O))), (Abs (Abs (App ((App ((Var (S (S O))), (Abs (App
    ((App ((Abs (Abs (App ((App ((Var (S (S O))), (Abs (Abs (App ((App ((Var
    (S (S O))), (Abs (App ((App ((Var (S O)), (Abs (Abs (Abs (Abs (App ((App
    ((Var (S (S O))), (App ((Abs (Abs (Abs (App ((Var (S (S O))), (App ((App
    ((Var (S (S (S O)))), (Var (S (S O))))), (Var (S O))))))))), (Var (S (S
    (S (S O))))))))), (Var (S (S (S (S (S O)))))))))))))), (Abs (Abs (App
    ((App ((Var (S (S O))), (Abs (Abs (App ((Var (S (S O))), (Var (S
    O)))))))), (Abs (Abs (Var (S O))))))))))))), (Var (S (S (S O)))))))))),
    (Var (S O)))))), (Var (S (S (S (S O))))))), (Var (S O))))))), (Abs (Abs
    (Var (S O)))))))))), (Abs (Abs (Var (S O)))))))), (App ((Abs (App ((Var
    (S O)), (Abs (Abs (Var (S (S O)))))))), (Var (S (S O))))))), (App ((Abs
    (App ((Var (S O)), (Abs (Abs (Var (S O))))))), (Var (S O)))))))), (App
    ((App ((Abs (Abs (App ((App ((Var (S (S O))), (Abs (Abs (App ((App ((Var
    (S (S O))), (Abs (App ((App ((Abs (Abs (App ((App ((Var (S (S O))), (Abs
    (Abs (App ((App ((Var (S (S O))), (Abs (App ((App ((Var (S O)), (Abs (Abs
    (Abs (Abs (App ((App ((Var (S (S O))), (App ((Abs (Abs (Abs (App ((Var (S
    (S O))), (App ((App ((Var (S (S (S O)))), (Var (S (S O))))), (Var (S
    O))))))))), (Var (S (S (S (S O))))))))), (Var (S (S (S (S (S
    O)))))))))))))), (Abs (Abs (App ((App ((Var (S (S O))), (Abs (Abs (App
    ((Var (S (S O))), (Var (S O)))))))), (Abs (Abs (Var (S O))))))))))))),
    (Var (S (S (S O)))))))))), (Var (S O)))))), (Var (S (S (S (S O))))))),
    (Var (S O))))))), (Abs (Abs (Var (S O)))))))))), (Abs (Abs (Var (S
    O)))))))), (App ((Abs (App ((Var (S O)), (Abs (Abs (Var (S O))))))), (Var
    (S (S O))))))), (App ((Abs (App ((Var (S O)), (Abs (Abs (Var (S (S
    O)))))))), (Var (S O)))))))))))))

(** val all_terms : term list **)

let all_terms =
  lc_combinators_I :: (lc_combinators_K :: (lc_combinators_S :: (lc_combinators_i :: (lc_combinators_B :: (lc_combinators_C :: (lc_combinators_W :: (lc_combinators_o :: (lc_combinators_O :: (lc_combinators_Y :: (lc_combinators_Z :: (lc_combinators_R :: (lc_combinators_T :: (lc_boolean_tru :: (lc_boolean_fls :: (lc_boolean_and :: (lc_boolean_or :: (lc_boolean_not :: (lc_boolean_xor :: (lc_boolean_nor :: (lc_boolean_xnor :: (lc_boolean_nand :: (lc_boolean_if_else :: (lc_boolean_imply :: (lc_pair_pair :: (lc_pair_fst :: (lc_pair_snd :: (lc_pair_uncurry :: (lc_pair_curry :: (lc_pair_swap :: (lc_option_none :: (lc_option_some :: (lc_option_is_none :: (lc_option_is_some :: (lc_option_map :: (lc_option_map_or :: (lc_option_unwrap_or :: (lc_option_and_then :: (lc_result_ok :: (lc_result_err :: (lc_result_is_ok :: (lc_result_is_err :: (lc_result_option_ok :: (lc_result_option_err :: (lc_result_unwrap_or :: (lc_result_map :: (lc_result_map_err :: (lc_result_and_then :: (lc_num_church_zero :: (lc_num_church_is_zero :: (lc_num_church_one :: (lc_num_church_succ :: (lc_num_church_pred :: (lc_num_church_add :: (lc_num_church_sub :: (lc_num_church_mul :: (lc_num_church_pow :: (lc_num_church_lt :: (lc_num_church_leq :: (lc_num_church_eq :: (lc_num_church_neq :: (lc_num_church_geq :: (lc_num_church_gt :: (lc_num_church_div :: (lc_num_church_quot :: (lc_num_church_rem :: (lc_num_church_fac :: (lc_num_church_min :: (lc_num_church_max :: (lc_num_church_shl :: (lc_num_church_shr :: (lc_num_church_is_even :: (lc_num_church_is_odd :: (lc_num_church_to_scott :: (lc_num_church_to_parigot :: (lc_num_church_to_stumpfu :: (lc_num_scott_zero :: (lc_num_scott_is_zero :: (lc_num_scott_one :: (lc_num_scott_succ :: (lc_num_scott_pred :: (lc_num_scott_add :: (lc_num_scott_mul :: (lc_num_scott_pow :: (lc_num_scott_to_church :: (lc_num_parigot_zero :: (lc_num_parigot_is_zero :: (lc_num_parigot_one :: (lc_num_parigot_succ :: (lc_num_parigot_pred :: (lc_num_parigot_add :: (lc_num_parigot_sub :: (lc_num_parigot_mul :: (lc_num_stumpfu_zero :: (lc_num_stumpfu_is_zero :: (lc_num_stumpfu_one :: (lc_num_stumpfu_succ :: (lc_num_stumpfu_pred :: (lc_num_stumpfu_add :: (lc_num_stumpfu_mul :: (lc_num_stumpfu_to_church :: (lc_num_stumpfu_to_scott :: (lc_num_stumpfu_to_parigot :: (lc_num_binary_b0 :: (lc_num_binary_b1 :: (lc_num_binary_zero :: (lc_num_binary_is_zero :: (lc_num_binary_one :: (lc_num_binary_succ :: (lc_num_binary_pred :: (lc_num_binary_lsb :: (lc_num_binary_shl0 :: (lc_num_binary_shl1 :: (lc_num_binary_strip :: (lc_num_signed_neg :: (lc_list_pair_nil :: (lc_list_pair_is_nil :: (lc_list_pair_cons :: (lc_list_pair_head :: (lc_list_pair_tail :: (lc_list_pair_length :: (lc_list_pair_index :: (lc_list_pair_reverse :: (lc_list_pair_list :: (lc_list_pair_append :: (lc_list_pair_map :: (lc_list_pair_foldl :: (lc_list_pair_foldr :: (lc_list_pair_filter :: (lc_list_pair_last :: (lc_list_pair_init :: (lc_list_pair_zip :: (lc_list_pair_zip_with :: (lc_list_pair_take :: (lc_list_pair_take_while :: (lc_list_pair_drop :: (lc_list_pair_drop_while :: (lc_list_pair_replicate :: (lc_list_church_nil :: (lc_list_church_is_nil :: (lc_list_church_cons :: (lc_list_church_head :: (lc_list_church_tail :: (lc_list_scott_nil :: (lc_list_scott_is_nil :: (lc_list_scott_cons :: (lc_list_scott_head :: (lc_list_scott_tail :: (lc_list_parigot_nil :: (lc_list_parigot_is_nil :: (lc_list_parigot_cons :: (lc_list_parigot_head :: (lc_list_parigot_tail :: (lc_num_signed_to_signed_church :: (lc_num_signed_simplify_church :: (lc_num_signed_modulus_church :: (lc_num_signed_add_church :: (lc_num_signed_sub_church :: (lc_num_signed_mul_church :: (lc_num_signed_to_signed_scott :: (lc_num_signed_simplify_scott :: (lc_num_signed_modulus_scott :: (lc_num_signed_add_scott :: (lc_num_signed_sub_scott :: (lc_num_signed_mul_scott :: (lc_num_signed_to_signed_parigot :: (lc_num_signed_simplify_parigot :: (lc_num_signed_modulus_parigot :: (lc_num_signed_add_parigot :: (lc_num_signed_sub_parigot :: (lc_num_signed_mul_parigot :: (lc_num_signed_to_signed_stumpfu :: (lc_num_signed_simplify_stumpfu :: (lc_num_signed_modulus_stumpfu :: (lc_num_signed_add_stumpfu :: (lc_num_signed_sub_stumpfu :: (lc_num_signed_mul_stumpfu :: []))))))))))))))))))))))))))))))))))))))))))))))))))))))))))))))))))))))))))))))))))))))))))))))))))))))))))))))))))))))))))))))))))))))))))))))))))))))))))))))))))))))))))))))))
