(** C19 — accessors return exactly the parts a term was built from, or the precise error *)
From LC Require Import Model.TermOps Proofs.TermOps Gen.TermSrc Proofs.TermSrcTie.

Theorem C19_accessors_ok : forall n b l r,
  unvar (Var n) = inr n /\ unabs (Abs b) = inr b /\ unapp (App l r) = inr (l, r) /\
  lhs (App l r) = inr l /\ rhs (App l r) = inr r.
Proof. intros; repeat split. Qed.

Theorem C19_accessors_err : forall t,
  ((forall n, t <> Var n) -> unvar t = inl NotVar) /\
  ((forall b, t <> Abs b) -> unabs t = inl NotAbs) /\
  ((forall l r, t <> App l r) -> unapp t = inl NotApp /\ lhs t = inl NotApp /\ rhs t = inl NotApp).
Proof.
  intros t. split; [apply unvar_err|]. split; [apply unabs_err|].
  intros H. split; [apply unapp_err|split; [apply lhs_err|apply rhs_err]]; exact H.
Qed.

(** writes through the [_mut] forms change only the addressed component; they are
    no-ops when the accessor fails *)
Theorem C19_lens : forall t x n,
  (forall m, unvar t = inr m -> unvar (set_var n t) = inr n) /\
  (forall m, unabs t = inr m -> unabs (set_abs x t) = inr x) /\
  (forall l r, unapp t = inr (l, r) -> unapp (set_app_l x t) = inr (x, r) /\ unapp (set_app_r x t) = inr (l, x)) /\
  (forall e, unvar t = inl e -> set_var n t = t) /\
  (forall e, unabs t = inl e -> set_abs x t = t) /\
  (forall e, unapp t = inl e -> set_app_l x t = t /\ set_app_r x t = t).
Proof.
  intros t x n. repeat split; intros.
  - eapply get_set_var; eauto.
  - eapply get_set_abs; eauto.
  - eapply get_set_app_l; eauto.
  - eapply get_set_app_r; eauto.
  - eapply set_err_noop_var; eauto.
  - eapply set_err_noop_abs; eauto.
  - eapply set_err_noop_app; eauto.
  - eapply set_err_noop_app; eauto.
Qed.

Theorem C19_macros : forall n t args, abs_macro n t = abs_n n t /\ app_macro t args = fold_left App args t.
Proof. intros; split; [apply abs_macro_abs_n|reflexivity]. Qed.

(** The accessor laws for each of the fifteen functions REGENERATED from src/term.rs on every run
    (Gen/TermSrc.v, lib/trans_term.py): consuming, _ref and _mut forms separately. *)
Theorem C19_src_accessors_ok : forall n b l r,
  (TSrc.unvar (Var n) = inr n /\ TSrc.unvar_ref (Var n) = inr n /\ TSrc.unvar_mut (Var n) = inr n) /\
  (TSrc.unabs (Abs b) = inr b /\ TSrc.unabs_ref (Abs b) = inr b /\ TSrc.unabs_mut (Abs b) = inr b) /\
  (TSrc.unapp (App l r) = inr (l, r) /\ TSrc.unapp_ref (App l r) = inr (l, r) /\ TSrc.unapp_mut (App l r) = inr (l, r)) /\
  (TSrc.lhs (App l r) = inr l /\ TSrc.lhs_ref (App l r) = inr l /\ TSrc.lhs_mut (App l r) = inr l) /\
  (TSrc.rhs (App l r) = inr r /\ TSrc.rhs_ref (App l r) = inr r /\ TSrc.rhs_mut (App l r) = inr r).
Proof. exact src_accessors_ok. Qed.

Theorem C19_src_accessors_err : forall t,
  ((forall n, t <> Var n) -> TSrc.unvar t = inl NotVar /\ TSrc.unvar_ref t = inl NotVar /\ TSrc.unvar_mut t = inl NotVar) /\
  ((forall b, t <> Abs b) -> TSrc.unabs t = inl NotAbs /\ TSrc.unabs_ref t = inl NotAbs /\ TSrc.unabs_mut t = inl NotAbs) /\
  ((forall l r, t <> App l r) ->
     (TSrc.unapp t = inl NotApp /\ TSrc.unapp_ref t = inl NotApp /\ TSrc.unapp_mut t = inl NotApp) /\
     (TSrc.lhs t = inl NotApp /\ TSrc.lhs_ref t = inl NotApp /\ TSrc.lhs_mut t = inl NotApp) /\
     (TSrc.rhs t = inl NotApp /\ TSrc.rhs_ref t = inl NotApp /\ TSrc.rhs_mut t = inl NotApp)).
Proof. exact src_accessors_err. Qed.

Print Assumptions C19_accessors_ok.
Print Assumptions C19_accessors_err.
Print Assumptions C19_lens.
Print Assumptions C19_macros.
Print Assumptions C19_src_accessors_ok.
Print Assumptions C19_src_accessors_err.
