(** C14 — Scott, Parigot, Stump-Fu and binary numerals compute and inter-convert correctly.
    Soundness for all arguments (if a normalising order returns, it returns the normal form) and NOR
    completeness are C13_sound / C13_nor_finds; here: the BOUNDED in-kernel grid on the generated
    constants (bounds in the statement: numbers <= 5, binary <= 20, multiplications <= 2). *)
From LC Require Import Spec.Encodings Model.Reduction Gen.Terms Proofs.Grids.

Theorem C14_bounded_grid : forallb (fun b => b) othernum_grid = true.
Proof. exact othernum_grid_ok. Qed.

Theorem C14_bounded_scott_add : forall o m n, In o [NOR; HNO] -> m <= 3 -> n <= 3 ->
  exists c, reduce_m FUEL o 0 (App (App lc_num_scott_add (scott m)) (scott n)) = Some (scott (m + n), c).
Proof.
  apply (grid2_sound orders_lazy 3 lc_num_scott_add scott (fun m n => scott (m + n))).
  vm_compute. reflexivity.
Qed.

Theorem C14_bounded_church_to_scott : forall o n, In o [NOR; HNO; HAP; APP] -> n <= 5 ->
  exists c, reduce_m FUEL o 0 (App lc_num_church_to_scott (church n)) = Some (scott n, c).
Proof. apply (grid1_sound orders_all 5 lc_num_church_to_scott church scott). vm_compute. reflexivity. Qed.

Print Assumptions C14_bounded_grid.
Print Assumptions C14_bounded_scott_add.
Print Assumptions C14_bounded_church_to_scott.
