#!/bin/bash
# usage: verify_seed5.sh <worktree> Cxx <letter>  -- fifth-round layout: <worktree>/out/Cxx/{patch.diff,demo.rs,notes.md}
#   demo passes without the change, whole suite passes with it, demo fails with it.  Then store under /verif/seeded/Cxx<letter>.
w=$1; id=$2; v=$3; o=$w/out/$id
export CARGO_TARGET_DIR=$w/target CARGO_NET_OFFLINE=true
cd $w || exit 2
git checkout -q -- . ; rm -f tests/zz_demo.rs
git apply --check $o/patch.diff || { echo "$id$v: patch does not apply"; exit 1; }
cp $o/demo.rs tests/zz_demo.rs
timeout 900 cargo test --offline --test zz_demo >$w/out/$id.before.log 2>&1; before=$?
rm tests/zz_demo.rs
git apply $o/patch.diff
timeout 1800 cargo test --offline --workspace --no-fail-fast >$w/out/$id.suite.log 2>&1; suite=$?
cp $o/demo.rs tests/zz_demo.rs
timeout 900 cargo test --offline --test zz_demo >$w/out/$id.after.log 2>&1; after=$?
rm tests/zz_demo.rs; git checkout -q -- .
echo "$id$v: demo-before=$before suite-with-change=$suite demo-after=$after"
if [ $before -eq 0 ] && [ $suite -eq 0 ] && [ $after -ne 0 ]; then
  d=/verif/seeded/$id$v; mkdir -p $d
  cp $o/patch.diff $d/patch.diff; cp $o/demo.rs $d/demo.rs; cp $o/notes.md $d/notes.md 2>/dev/null
  echo CONFIRMED
else
  echo REJECTED
fi
