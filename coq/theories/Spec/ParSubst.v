(** * Parallel substitution: composition laws and substitutivity of beta reduction.

    [inst s t] (Spec/Subst.v) replaces every index i >= 1 of t by [s i]; index 0 (UD) is a
    constant.  The main results: [inst_subst] (the substitution lemma) and [red_inst]
    (a reduction between open terms holds for every instance of their free variables). *)
From LC Require Export Spec.Beta.

(** renamings *)
Definition upr (r : nat -> nat) : nat -> nat :=
  fun i => match i with 0 => 0 | 1 => 1 | S j => S (r j) end.

Fixpoint ren (r : nat -> nat) (t : term) : term :=
  match t with
  | Var 0 => Var 0
  | Var i => Var (r i)
  | Abs b => Abs (ren (upr r) b)
  | App l r0 => App (ren r l) (ren r r0)
  end.

Definition shift_ren (d c : nat) : nat -> nat := fun i => if c <? i then i + d else i.

Lemma ren_ext r r' t : (forall i, 1 <= i -> r i = r' i) -> ren r t = ren r' t.
Proof.
  revert r r'; induction t as [i|b IH|l IHl r0 IHr]; intros r r' H; simpl.
  - destruct i; auto. rewrite H by lia. reflexivity.
  - f_equal. apply IH. intros [|[|j]] Hi; simpl; auto. rewrite H by lia; auto.
  - f_equal; auto.
Qed.

Lemma shift_is_ren d c t : shift d c t = ren (shift_ren d c) t.
Proof.
  revert c; induction t as [i|b IH|l IHl r IHr]; intros c; simpl.
  - destruct i.
    + unfold shift_ren. destruct (c <? 0) eqn:E; auto. apply Nat.ltb_lt in E; lia.
    + unfold shift_ren. destruct (c <? S i); reflexivity.
  - f_equal. rewrite IH. apply ren_ext. intros [|[|j]] Hi; try lia; unfold upr, shift_ren.
    + simpl. reflexivity.
    + change (S c <? S (S j)) with (c <? S j). destruct (c <? S j); simpl; reflexivity.
  - f_equal; auto.
Qed.

Lemma ren_ren r1 r2 t : (forall i, 1 <= i -> 1 <= r2 i) ->
  ren r1 (ren r2 t) = ren (fun i => r1 (r2 i)) t.
Proof.
  revert r1 r2; induction t as [i|b IH|l IHl r IHr]; intros r1 r2 H; simpl.
  - destruct i; auto. simpl. specialize (H (S i) ltac:(lia)). destruct (r2 (S i)); [lia|reflexivity].
  - f_equal. rewrite IH.
    + apply ren_ext. intros [|[|j]] Hi; simpl; auto.
      specialize (H (S j) ltac:(lia)). destruct (r2 (S j)); [lia|reflexivity].
    + intros [|[|j]] Hi; simpl; lia.
  - f_equal; auto.
Qed.

Lemma shift_ren_pos d c i : 1 <= i -> 1 <= shift_ren d c i.
Proof. intros. unfold shift_ren. destruct (c <? i); lia. Qed.
Lemma upr_pos r i : (forall i, 1 <= i -> 1 <= r i) -> 1 <= i -> 1 <= upr r i.
Proof. intros H Hi. destruct i as [|[|j]]; simpl; try lia. Qed.

(** instantiating a renamed term, renaming an instantiated term *)
Lemma inst_ren s r t : (forall i, 1 <= i -> 1 <= r i) ->
  inst s (ren r t) = inst (fun i => s (r i)) t.
Proof.
  revert s r; induction t as [i|b IH|l IHl r0 IHr]; intros s r H; simpl.
  - destruct i; auto. simpl. specialize (H (S i) ltac:(lia)). destruct (r (S i)); [lia|reflexivity].
  - f_equal. rewrite IH by (intros; apply upr_pos; auto).
    apply inst_ext. intros [|[|j]] Hi; simpl; auto.
    specialize (H (S j) ltac:(lia)). destruct (r (S j)) eqn:E; [lia|]. simpl. reflexivity.
  - f_equal; auto.
Qed.

Lemma ren_inst r s t : (forall i, 1 <= i -> 1 <= r i) ->
  ren r (inst s t) = inst (fun i => ren r (s i)) t.
Proof.
  revert r s; induction t as [i|b IH|l IHl r0 IHr]; intros r s H; simpl.
  - destruct i; auto.
  - f_equal. rewrite IH by (intros; apply upr_pos; auto).
    apply inst_ext. intros i Hi. destruct i as [|[|j]]; [lia|reflexivity|].
    change (up s (S (S j))) with (shift 1 0 (s (S j))).
    change (up (fun i => ren r (s i)) (S (S j))) with (shift 1 0 (ren r (s (S j)))).
    rewrite !shift_is_ren.
    rewrite (ren_ren (upr r) (shift_ren 1 0)) by (intros; apply shift_ren_pos; auto).
    rewrite (ren_ren (shift_ren 1 0) r) by auto.
    apply ren_ext. intros k Hk. unfold shift_ren. simpl.
    replace (k + 1) with (S k) by lia. specialize (H k Hk).
    destruct k; [lia|]. simpl. destruct (r (S k)) eqn:E; [lia|]. simpl. f_equal. lia.
  - f_equal; auto.
Qed.

Lemma up_shift s i : 1 <= i -> up s (S i) = shift 1 0 (s i).
Proof. intros. destruct i; [lia|reflexivity]. Qed.

(** composition *)
Lemma inst_inst s1 s2 t : inst s1 (inst s2 t) = inst (fun i => inst s1 (s2 i)) t.
Proof.
  revert s1 s2; induction t as [i|b IH|l IHl r IHr]; intros s1 s2; simpl.
  - destruct i; auto.
  - f_equal. rewrite IH. apply inst_ext. intros [|[|j]] Hi; simpl; auto.
    rewrite !shift_is_ren. rewrite inst_ren, ren_inst.
    + apply inst_ext. intros k Hk. unfold shift_ren.
      destruct (Nat.ltb_spec 0 k); [|lia]. replace (k + 1) with (S k) by lia.
      rewrite up_shift by lia. rewrite shift_is_ren. reflexivity.
    + intros k Hk. apply shift_ren_pos; auto.
    + intros k Hk. apply shift_ren_pos; auto.
  - f_equal; auto.
Qed.

Lemma inst_ids t : inst Var t = t.
Proof.
  induction t as [i|b IH|l IHl r IHr]; simpl.
  - destruct i; auto.
  - f_equal. rewrite <- IH at 2. apply inst_ext. intros [|[|j]] Hi; simpl; auto.
    f_equal. lia.
  - f_equal; auto.
Qed.

(** the substitution lemma *)
Theorem inst_subst s a b : inst s (subst 1 a b) = subst 1 (inst s a) (inst (up s) b).
Proof.
  rewrite <- !inst_beta_sub. rewrite !inst_inst. apply inst_ext.
  intros i Hi. destruct i as [|[|j]]; [lia|reflexivity|].
  change (up s (S (S j))) with (shift 1 0 (s (S j))). cbn [beta_sub inst].
  rewrite shift_is_ren, inst_ren by (intros; apply shift_ren_pos; auto).
  rewrite <- (inst_ids (s (S j))) at 1. apply inst_ext. intros k Hk. unfold shift_ren.
  destruct (Nat.ltb_spec 0 k); [|lia]. replace (k + 1) with (S k) by lia.
  destruct k; [lia|]. reflexivity.
Qed.

Theorem step_inst t u : step t u -> forall s, step (inst s t) (inst s u).
Proof.
  induction 1; intros s; simpl; try (constructor; auto).
  rewrite inst_subst. constructor.
Qed.

Theorem red_inst s t u : red t u -> red (inst s t) (inst s u).
Proof. intros H. induction H; [constructor|econstructor; eauto using step_inst]. Qed.

(** closed terms are not affected *)
Lemma inst_closed_at s s' d t : closed_at d t = true -> (forall i, 1 <= i -> i <= d -> s i = s' i) -> inst s t = inst s' t.
Proof.
  revert s s' d; induction t as [i|b IH|l IHl r IHr]; intros s s' d C H; simpl in *.
  - destruct i; auto. apply Nat.leb_le in C. apply H; lia.
  - f_equal. apply (IH _ _ (S d)); auto. intros [|[|j]] H1 H2; simpl; auto. rewrite H by lia. reflexivity.
  - apply andb_true_iff in C. destruct C. f_equal; eauto.
Qed.

Theorem inst_closed s t : closed t = true -> inst s t = t.
Proof.
  intros C. rewrite <- (inst_ids t) at 2. apply (inst_closed_at _ _ 0); auto. intros; lia.
Qed.

(** a substitution given by a list of payloads: index i (1-based) becomes the i-th payload *)
Definition payloads (ps : list term) : nat -> term :=
  fun i => match i with 0 => Var 0 | S j => nth j ps (Var (S j - length ps)) end.
