(** C18 — term predicates agree with their definitions on every term *)
From LC Require Import Model.TermOps Spec.Predicates Proofs.TermOps Gen.TermSrc Proofs.TermSrcTie.

Theorem C18_has_free_variables : forall t, has_free_variables t = has_fv_spec t.
Proof. exact has_free_variables_spec. Qed.

Theorem C18_max_depth : forall t, max_depth t = max_depth_spec t.
Proof. exact max_depth_spec_ok. Qed.

Theorem C18_is_isomorphic_to : forall t u, is_isomorphic_to t u = true <-> t = u.
Proof. exact is_isomorphic_to_spec. Qed.

(** the work-list loop always terminates within its fuel, and answers [true]
    exactly on supercombinators *)
Theorem C18_is_supercombinator_total : forall t, exists b, is_supercombinator t = Some b.
Proof. exact is_supercombinator_total. Qed.
Theorem C18_is_supercombinator : forall t b, is_supercombinator t = Some b -> (b = true <-> supercomb t).
Proof. exact is_supercombinator_spec. Qed.

(** The same statements about the functions REGENERATED from src/term.rs on every run (Gen/TermSrc.v,
    lib/trans_term.py): what the source says now meets the definitions. *)
Theorem C18_src_has_free_variables : forall t, TSrc.has_free_variables t = has_fv_spec t.
Proof. exact src_has_free_variables. Qed.
Theorem C18_src_max_depth : forall t, TSrc.max_depth t = max_depth_spec t.
Proof. exact src_max_depth. Qed.
Theorem C18_src_is_isomorphic_to : forall t u, TSrc.is_isomorphic_to t u = true <-> t = u.
Proof. exact src_is_isomorphic_to. Qed.
Theorem C18_src_is_supercombinator : forall t,
  exists b, TSrc.is_supercombinator t = Some b /\ (b = true <-> supercomb t).
Proof. exact src_is_supercombinator. Qed.

(** non-vacuity: the defect-D6 witness is not a supercombinator, λ.1 (λ.1) is *)
Example C18_example_no : is_supercombinator (Abs (App (Abs (Var 2)) (Var 1))) = Some false.
Proof. reflexivity. Qed.
Example C18_example_yes : is_supercombinator (Abs (App (Var 1) (Abs (Var 1)))) = Some true.
Proof. reflexivity. Qed.

Print Assumptions C18_has_free_variables.
Print Assumptions C18_max_depth.
Print Assumptions C18_is_isomorphic_to.
Print Assumptions C18_is_supercombinator_total.
Print Assumptions C18_is_supercombinator.
Print Assumptions C18_src_has_free_variables.
Print Assumptions C18_src_max_depth.
Print Assumptions C18_src_is_isomorphic_to.
Print Assumptions C18_src_is_supercombinator.
