
val negb : bool -> bool

type nat =
| O
| S of nat

val option_map : ('a1 -> 'a2) -> 'a1 option -> 'a2 option

type ('a, 'b) sum =
| Inl of 'a
| Inr of 'b

val fst : ('a1 * 'a2) -> 'a1

val snd : ('a1 * 'a2) -> 'a2

val length : 'a1 list -> nat

val app : 'a1 list -> 'a1 list -> 'a1 list

type comparison =
| Eq
| Lt
| Gt

val add : nat -> nat -> nat

val mul : nat -> nat -> nat

val sub : nat -> nat -> nat

val max : nat -> nat -> nat

module Nat :
 sig
  val sub : nat -> nat -> nat

  val eqb : nat -> nat -> bool

  val leb : nat -> nat -> bool

  val ltb : nat -> nat -> bool

  val compare : nat -> nat -> comparison

  val max : nat -> nat -> nat

  val divmod : nat -> nat -> nat -> nat -> nat * nat

  val div : nat -> nat -> nat

  val modulo : nat -> nat -> nat
 end

val tl : 'a1 list -> 'a1 list

val rev : 'a1 list -> 'a1 list

val map : ('a1 -> 'a2) -> 'a1 list -> 'a2 list

val flat_map : ('a1 -> 'a2 list) -> 'a1 list -> 'a2 list

val fold_left : ('a1 -> 'a2 -> 'a1) -> 'a2 list -> 'a1 -> 'a1

val fold_right : ('a2 -> 'a1 -> 'a1) -> 'a1 -> 'a2 list -> 'a1

val existsb : ('a1 -> bool) -> 'a1 list -> bool

val forallb : ('a1 -> bool) -> 'a1 list -> bool

val filter : ('a1 -> bool) -> 'a1 list -> 'a1 list

val firstn : nat -> 'a1 list -> 'a1 list

val list_max : nat list -> nat

type positive =
| XI of positive
| XO of positive
| XH

type n =
| N0
| Npos of positive

module Pos :
 sig
  val succ : positive -> positive

  val eqb : positive -> positive -> bool

  val iter_op : ('a1 -> 'a1 -> 'a1) -> positive -> 'a1 -> 'a1

  val to_nat : positive -> nat

  val of_succ_nat : nat -> positive
 end

module N :
 sig
  val eqb : n -> n -> bool

  val to_nat : n -> nat

  val of_nat : nat -> n
 end

type term =
| Var of nat
| Abs of term
| App of term * term

val size : term -> nat

val is_abs : term -> bool

val term_eqb : term -> term -> bool

val shift : nat -> nat -> term -> term

val subst : nat -> term -> term -> term

val up : (nat -> term) -> nat -> term

val inst : (nat -> term) -> term -> term

val beta_sub : term -> nat -> term

val neutralb : term -> bool

val nfb : term -> bool

val whnfb : term -> bool

val wnfb : term -> bool

val hnfb : term -> bool

val fv_at : nat -> term -> nat list

val fv : term -> nat list

val has_ud : term -> bool

val closed_at : nat -> term -> bool

val closed : term -> bool

type order =
| NOR
| CBN
| HSP
| HNO
| APP
| CBV
| HAP

val step_cbn : term -> term option

val step_nor : term -> term option

val step_cbv : term -> term option

val step_app : term -> term option

val step_hsp : term -> term option

val step_hno : term -> term option

val step_hap : term -> term option

val step_of : order -> term -> term option

val nf_of : order -> term -> bool

val iter : (term -> term option) -> nat -> term -> term option

type dir =
| DL
| DR
| DB

type path = dir list

val is_redex : term -> bool

val redexes_pre : term -> path list

val redexes_post : term -> path list

val contract_at : path -> term -> term option

val under_abs : path -> bool

val head_path : path -> bool

val spine_path : path -> bool

val first_path : path list -> path option

val pos_select : order -> term -> path option

val pos_step : order -> term -> term option

val reducts : term -> term list

val spine_reducts : term -> term list

val has_fv_spec : term -> bool

val strip : term -> term

val leaf_depths : nat -> term -> nat list

val max_depth_spec : term -> nat

val supercombb : nat -> term -> bool

type cchar = { code : n; is_alphabetic : bool; is_alphanumeric : bool;
               is_whitespace : bool; to_digit16 : nat option }

val c_backslash : n

val c_lambda : n

val c_lparen : n

val c_rparen : n

val c_dot : n

val is_char : n -> cchar -> bool

val is_lambda_glyph : cchar -> bool

type name = n list

val name_eqb : name -> name -> bool

type atok =
| TLam of name
| TLp
| TRp
| TIdx of nat
| TName of name

type lex_result =
| LexOk of atok list
| LexBadStart of nat * n
| LexBad

val lex_dbr : nat -> cchar list -> lex_result

type lstate =
| LTop
| LBinder0
| LBinder of name
| LName of name

val lex_cla : lstate -> nat -> cchar list -> lex_result

val index_of : name -> name list -> nat option

val apps : term list -> term option

val rgroup :
  nat -> name list -> name list -> atok list -> ((term * atok list) * name
  list) option

val rparse : atok list -> term option

type ref_result =
| RefOk of term
| RefBadStart of nat * n
| RefErr

val ref_parse : bool -> cchar list -> ref_result

type str = n list

val b26_fuel : nat -> nat -> str

val b26 : nat -> str

val s_undef : str

type position =
| Top
| Operator
| Operand

val tdepth : term -> nat

val print_cla : n -> nat -> term -> position -> nat -> str

val ref_print_cla : n -> term -> str

val hexd : nat -> n

val print_dbr : n -> term -> position -> str

val ref_print_dbr : n -> term -> str

val indices_in : nat -> nat -> term -> bool

val nat_index_of : nat -> nat list -> nat option

val canon_at : nat -> nat list -> term -> term * nat list

val canon : term -> term

val classify : n -> cchar

type term_error =
| NotVar
| NotAbs
| NotApp

val update_free_variables : nat -> nat -> term -> term

val apply_rec : term -> nat -> term -> term

val apply_m : term -> term -> (term_error * term, term) sum

val eval_m : term -> term

val limit_hit : nat -> nat -> bool

val is_reducible : term -> nat -> nat -> bool

type r = (term * nat) option

val bind : r -> (term -> nat -> r) -> r

val ret : term -> nat -> r

val beta_cbn : nat -> nat -> nat -> term -> r

val beta_nor : nat -> nat -> nat -> term -> r

val beta_cbv : nat -> nat -> nat -> term -> r

val beta_app : nat -> nat -> nat -> term -> r

val beta_hap : nat -> nat -> nat -> term -> r

val beta_hsp : nat -> nat -> nat -> term -> r

val beta_hno : nat -> nat -> nat -> term -> r

val reduce_m : nat -> order -> nat -> term -> r

val beta_fn : nat -> term -> order -> nat -> term option

val run_history :
  nat -> (order * nat) list -> term -> (term * nat list) option

val unvar : term -> (term_error, nat) sum

val unabs : term -> (term_error, term) sum

val unapp : term -> (term_error, term * term) sum

val lhs : term -> (term_error, term) sum

val rhs : term -> (term_error, term) sum

val set_var : nat -> term -> term

val set_abs : term -> term -> term

val set_app_l : term -> term -> term

val set_app_r : term -> term -> term

val abs_c : term -> term

val app_c : term -> term -> term

val abs_macro : nat -> term -> term

val app_macro : term -> term list -> term

val has_free_variables_helper : nat -> term -> bool

val has_free_variables : term -> bool

val max_depth : term -> nat

val is_isomorphic_to : term -> term -> bool

val child_depth : nat -> term -> nat

val sc_loop : nat -> (nat * term) list -> bool option

val is_supercombinator : term -> bool option

type parse_error =
| InvalidCharacter of nat * n
| InvalidExpression
| EmptyExpression

type token =
| Lambda
| Lparen
| Rparen
| Number of nat

type ctoken =
| CLambda of name
| CLparen
| CRparen
| CName of name

val tokenize_dbr_from : nat -> cchar list -> (parse_error, token list) sum

val tokenize_dbr : cchar list -> (parse_error, token list) sum

val scan_binder :
  nat -> cchar list -> name -> bool -> (parse_error, (name * cchar
  list) * nat) sum

val scan_name : nat -> cchar list -> name -> (name * cchar list) * nat

val tokenize_cla_from :
  nat -> nat -> cchar list -> (parse_error, ctoken list) sum

val tokenize_cla : cchar list -> (parse_error, ctoken list) sum

val rposition : name -> name list -> nat option

val convert_from :
  nat -> ctoken list -> name list -> nat -> token list -> (token
  list * ctoken list) * name list

val convert_classic_tokens : ctoken list -> token list

type expression =
| EAbstraction
| ESequence of expression list
| EVariable of nat

val ast_from :
  nat -> token list -> bool -> expression list -> (parse_error,
  expression * token list) sum

val get_ast : token list -> (parse_error, expression) sum

val fold_terms : term list -> (parse_error, term) sum

val abs_times : nat -> term -> term

val expr_size : expression -> nat

val exprs_size : expression list -> nat

val fold_exprs_from :
  nat -> expression list -> nat -> term list -> (parse_error, term) sum

val fold_exprs : expression list -> (parse_error, term) sum

type notation =
| Classic
| DeBruijn

val parse : cchar list -> notation -> (parse_error, term) sum

type str0 = n list

val base26_loop : nat -> nat -> n list -> n list

val base26_encode : nat -> str0

val s_undefined : str0

val parenthesize_if : str0 -> bool -> str0

val show_precedence_cla : n -> term -> nat -> nat -> nat -> str0

val display : n -> term -> str0

val hex_digit : nat -> n

val hex_loop : nat -> nat -> str0 -> str0

val upper_hex : nat -> str0

val show_precedence_dbr : n -> term -> nat -> str0

val debug : n -> term -> str0
