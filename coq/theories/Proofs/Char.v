(** * The traversal is the iteration of the step function (all seven orders). *)
From LC Require Import Model.Reduction Proofs.Apply Proofs.Generic.

(** ** iteration *)
Lemma iter_add f n m t u v : iter f n t = Some u -> iter f m u = Some v -> iter f (n + m) t = Some v.
Proof.
  revert t; induction n; simpl; intros t H1 H2; [congruence|].
  destruct (f t); try discriminate. eauto.
Qed.

Lemma iter_split f n m t v : iter f (n + m) t = Some v -> exists u, iter f n t = Some u /\ iter f m u = Some v.
Proof.
  revert t; induction n; simpl; intros t H; [eauto|].
  destruct (f t); try discriminate. eauto.
Qed.

(** lifting an iteration through a context [C], under an invariant [P] *)
Lemma iter_ctx (f g : term -> option term) (C : term -> term) (P : term -> Prop) :
  (forall x y, P x -> f x = Some y -> P y /\ g (C x) = Some (C y)) ->
  forall n x y, P x -> iter f n x = Some y -> iter g n (C x) = Some (C y) /\ P y.
Proof.
  intros H n; induction n; simpl; intros x y Px E.
  - inversion E; subst; auto.
  - destruct (f x) as [x'|] eqn:F; try discriminate.
    destruct (H _ _ Px F) as [Px' G]. rewrite G. eauto.
Qed.

Lemma iter_det_stuck f n m t u v :
  iter f n t = Some u -> f u = None -> iter f m t = Some v -> m <= n.
Proof.
  revert m t; induction n; intros m t; simpl.
  - intros E S. inversion E; subst. destruct m; auto. simpl. rewrite S. discriminate.
  - destruct (f t) eqn:F; try discriminate. intros E S. destruct m; [lia|]. simpl. rewrite F.
    intros. apply le_n_S. eauto.
Qed.

(** ** arithmetic of the limit *)
Lemma limit_hit_true limit count : limit_hit limit count = true <-> limit <> 0 /\ count = limit.
Proof.
  unfold limit_hit. rewrite andb_true_iff, negb_true_iff, Nat.eqb_neq, Nat.eqb_eq. tauto.
Qed.
Lemma limit_hit_false limit count : limit_hit limit count = false <-> limit = 0 \/ count <> limit.
Proof.
  destruct (limit_hit limit count) eqn:E.
  - apply limit_hit_true in E. split; [discriminate|lia].
  - split; auto. intros _. destruct (Nat.eq_dec limit 0); auto. right. intros ->.
    assert (limit_hit limit limit = true) by (apply limit_hit_true; auto). congruence.
Qed.

Definition can (limit count : nat) : bool := (limit =? 0) || (count <? limit).
Lemma can_true limit count : can limit count = true <-> limit = 0 \/ count < limit.
Proof. unfold can. rewrite orb_true_iff, Nat.eqb_eq, Nat.ltb_lt. tauto. Qed.

Lemma is_reducible_true t limit count :
  is_reducible t limit count = true <-> exists b r, t = App (Abs b) r /\ can limit count = true.
Proof.
  split.
  - destruct t as [|?|[]]; simpl; try discriminate. eauto.
  - intros (b & r & -> & H). exact H.
Qed.
Lemma is_reducible_false l r limit count :
  is_reducible (App l r) limit count = false <-> is_abs l = false \/ can limit count = false.
Proof.
  destruct l; simpl; unfold can; split; auto; try tauto.
  intros [H|H]; [discriminate|exact H].
Qed.

(** ** the step function on an application, by cases on which phase fires *)
Section app_cases.
  Variable o : order.
  Let sp := spec_of o.
  Lemma sg_app l r :
    step_g o (App l r) =
      match os (preL sp) l with Some l' => Some (App l' r) | None =>
      match os (preR sp) r with Some r' => Some (App l r') | None =>
      match l with Abs b => Some (subst 1 r b) | _ =>
      match os (postL sp) l with Some l' => Some (App l' r) | None =>
      match os (postR sp) r with Some r' => Some (App l r') | None => None
      end end end end end.
  Proof. reflexivity. Qed.

  Lemma A1 l r l' : os (preL sp) l = Some l' -> step_g o (App l r) = Some (App l' r).
  Proof. intros H. rewrite sg_app, H. reflexivity. Qed.
  Lemma A2 l r r' : os (preL sp) l = None -> os (preR sp) r = Some r' ->
    step_g o (App l r) = Some (App l r').
  Proof. intros H1 H2. rewrite sg_app, H1, H2. reflexivity. Qed.
  Lemma A3 b r : os (preL sp) (Abs b) = None -> os (preR sp) r = None ->
    step_g o (App (Abs b) r) = Some (subst 1 r b).
  Proof. intros H1 H2. rewrite sg_app, H1, H2. reflexivity. Qed.
  Lemma A4 l r l' : os (preL sp) l = None -> os (preR sp) r = None -> is_abs l = false ->
    os (postL sp) l = Some l' -> step_g o (App l r) = Some (App l' r).
  Proof. intros H1 H2 H3 H4. rewrite sg_app, H1, H2, H4. destruct l; try discriminate; reflexivity. Qed.
  Lemma A5 l r r' : os (preL sp) l = None -> os (preR sp) r = None -> is_abs l = false ->
    os (postL sp) l = None -> os (postR sp) r = Some r' -> step_g o (App l r) = Some (App l r').
  Proof. intros H1 H2 H3 H4 H5. rewrite sg_app, H1, H2, H4, H5. destruct l; try discriminate; reflexivity. Qed.
  Lemma A6 l r : os (preL sp) l = None -> os (preR sp) r = None -> is_abs l = false ->
    os (postL sp) l = None -> os (postR sp) r = None -> step_g o (App l r) = None.
  Proof. intros H1 H2 H3 H4 H5. rewrite sg_app, H1, H2, H4, H5. destruct l; try discriminate; reflexivity. Qed.
End app_cases.

(** ** compatibility of the post-phase with the pre-phase on the operator:
    a step of the post strategy keeps the operator stuck for the pre strategy
    and keeps it a non-abstraction *)
Ltac sgapp := rewrite ?sg_app in *; cbn [os spec_of preL preR postL postR] in *.

Lemma app_stuck o l r : step_g o (App l r) = None ->
  os (preL (spec_of o)) l = None /\ os (preR (spec_of o)) r = None /\ is_abs l = false /\
  os (postL (spec_of o)) l = None /\ os (postR (spec_of o)) r = None.
Proof.
  rewrite sg_app.
  destruct (os (preL (spec_of o)) l); try discriminate.
  destruct (os (preR (spec_of o)) r); try discriminate.
  destruct l; try discriminate;
  destruct (os (postL (spec_of o)) _); try discriminate;
  destruct (os (postR (spec_of o)) r); try discriminate; auto.
Qed.

Lemma compat_cbn_nor : forall x y, step_g CBN x = None -> step_g NOR x = Some y ->
  step_g CBN y = None /\ is_abs y = is_abs x.
Proof.
  induction x as [i|b IH|l IHl r IHr]; intros y Hs Hn.
  - discriminate.
  - simpl in Hn. destruct (step_g NOR b); inversion Hn; subst. auto.
  - apply app_stuck in Hs. cbn [os spec_of preL preR postL postR] in Hs.
    destruct Hs as (Hl & _ & Hab & _).
    sgapp. rewrite Hl in Hn.
    destruct l as [j|lb|l1 l2]; try discriminate.
    + simpl in Hn. destruct (step_g NOR r); inversion Hn; subst; auto.
    + destruct (step_g NOR (App l1 l2)) as [l'|] eqn:En.
      * inversion Hn; subst. destruct (IHl _ Hl eq_refl) as [E1 E2]. split; auto.
        apply (A6 CBN); cbn [os spec_of preL preR postL postR]; auto. 
      * destruct (step_g NOR r); inversion Hn; subst. split; auto.
        apply (A6 CBN); cbn [os spec_of preL preR postL postR]; auto.
Qed.

Lemma compat_hsp_hno : forall x y, step_g HSP x = None -> step_g HNO x = Some y ->
  step_g HSP y = None /\ is_abs y = is_abs x.
Proof.
  induction x as [i|b IH|l IHl r IHr]; intros y Hs Hn.
  - discriminate.
  - simpl in Hn, Hs. destruct (step_g HNO b) eqn:E; inversion Hn; subst.
    destruct (step_g HSP b) eqn:E2; try discriminate.
    destruct (IH _ eq_refl eq_refl) as [E3 _]. simpl. rewrite E3. auto.
  - apply app_stuck in Hs. cbn [os spec_of preL preR postL postR] in Hs.
    destruct Hs as (Hl & _ & Hab & _).
    sgapp. rewrite Hl in Hn.
    destruct l as [j|lb|l1 l2]; try discriminate.
    + simpl in Hn. destruct (step_g HNO r); inversion Hn; subst; auto.
    + destruct (step_g HNO (App l1 l2)) as [l'|] eqn:En.
      * inversion Hn; subst. destruct (IHl _ Hl eq_refl) as [E1 E2]. split; auto.
        apply (A6 HSP); cbn [os spec_of preL preR postL postR]; auto.
      * destruct (step_g HNO r); inversion Hn; subst. split; auto.
        apply (A6 HSP); cbn [os spec_of preL preR postL postR]; auto.
Qed.

Lemma compat_cbv_hap : forall x y, step_g CBV x = None -> step_g HAP x = Some y ->
  step_g CBV y = None /\ is_abs y = is_abs x.
Proof.
  induction x as [i|b IH|l IHl r IHr]; intros y Hs Hn.
  - discriminate.
  - simpl in Hn. destruct (step_g HAP b); inversion Hn; subst. auto.
  - apply app_stuck in Hs. cbn [os spec_of preL preR postL postR] in Hs.
    destruct Hs as (Hl & Hr & Hab & _).
    sgapp. rewrite Hl in Hn.
    destruct (step_g HAP r) as [r'|] eqn:Eh.
    + inversion Hn; subst. destruct (IHr _ Hr eq_refl) as [E1 _]. split; auto.
      apply (A6 CBV); cbn [os spec_of preL preR postL postR]; auto.
    + destruct l as [j|lb|l1 l2]; try discriminate.
      destruct (step_g HAP (App l1 l2)) as [l'|] eqn:En; inversion Hn; subst.
      destruct (IHl _ Hl eq_refl) as [E1 E2]. split; auto.
      apply (A6 CBV); cbn [os spec_of preL preR postL postR]; auto.
Qed.

Lemma compat o o2 x y : postL (spec_of o) = Some o2 ->
  os (preL (spec_of o)) x = None -> step_g o2 x = Some y ->
  os (preL (spec_of o)) y = None /\ is_abs y = is_abs x.
Proof.
  destruct o; simpl; try discriminate; intros E; inversion E; subst.
  - apply compat_cbn_nor.
  - apply compat_hsp_hno.
  - apply compat_cbv_hap.
Qed.

Lemma postR_preR o o2 : postR (spec_of o) = Some o2 -> preR (spec_of o) = None.
Proof. destruct o; simpl; auto; discriminate. Qed.

(** ** The characterisation *)

Definition ORun (p : option order) (limit count : nat) (t t' : term) (c : nat) : Prop :=
  count <= c /\ iter (os p) (c - count) t = Some t' /\ (limit <> 0 -> c <= limit) /\
  (os p t' = None \/ (limit <> 0 /\ c = limit)).

Definition Run (o : order) := ORun (Some o).

Lemma ORun_at_limit p limit t t' c : limit <> 0 -> ORun p limit limit t t' c -> t' = t /\ c = limit.
Proof.
  intros L (H1 & H2 & H3 & _). specialize (H3 L). assert (c = limit) by lia. subst.
  rewrite Nat.sub_diag in H2. simpl in H2. inversion H2; auto.
Qed.

Section lifts.
  Variable o : order.
  Let sp := spec_of o.

  Lemma lift_preL l r l1 n : iter (os (preL sp)) n l = Some l1 ->
    iter (step_g o) n (App l r) = Some (App l1 r).
  Proof.
    intros H. eapply (iter_ctx _ (step_g o) (fun x => App x r) (fun _ => True)); eauto.
    intros x y _ E. split; auto. apply A1; auto.
  Qed.

  Lemma lift_preR l r r1 n : os (preL sp) l = None -> iter (os (preR sp)) n r = Some r1 ->
    iter (step_g o) n (App l r) = Some (App l r1).
  Proof.
    intros S H. eapply (iter_ctx _ (step_g o) (fun x => App l x) (fun _ => True)); eauto.
    intros x y _ E. split; auto. apply A2; auto.
  Qed.

  Lemma lift_postL l r l2 n : os (preL sp) l = None -> os (preR sp) r = None -> is_abs l = false ->
    iter (os (postL sp)) n l = Some l2 ->
    iter (step_g o) n (App l r) = Some (App l2 r) /\ (os (preL sp) l2 = None /\ is_abs l2 = false).
  Proof.
    intros S1 S2 NA H.
    eapply (iter_ctx _ (step_g o) (fun x => App x r)
              (fun x => os (preL sp) x = None /\ is_abs x = false)); eauto.
    intros x y [Px Ax] E.
    destruct (postL sp) as [o2|] eqn:EP; [|discriminate].
    destruct (compat o o2 x y EP Px E) as [Py Ay]. split.
    - split; [exact Py|rewrite Ay; exact Ax].
    - apply A4; auto. fold sp. rewrite EP. exact E.
  Qed.

  Lemma lift_postR l r r2 n : os (preL sp) l = None -> os (preR sp) r = None -> is_abs l = false ->
    os (postL sp) l = None -> iter (os (postR sp)) n r = Some r2 ->
    iter (step_g o) n (App l r) = Some (App l r2) /\ os (preR sp) r2 = None.
  Proof.
    intros S1 S2 NA S3 H.
    eapply (iter_ctx _ (step_g o) (fun x => App l x) (fun x => os (preR sp) x = None)); eauto.
    intros x y Px E.
    destruct (postR sp) as [o2|] eqn:EP; [|discriminate].
    assert (PR : preR sp = None) by (eapply postR_preR; eauto).
    split.
    - rewrite PR. reflexivity.
    - apply A5; auto. fold sp. rewrite EP. exact E.
  Qed.
End lifts.

Lemma opt_run_char fuel limit :
  (forall o count t t' c, (limit <> 0 -> count <= limit) ->
     beta_g fuel limit o count t = Some (t', c) -> Run o limit count t t' c) ->
  forall p count t t' c, (limit <> 0 -> count <= limit) ->
    opt_run (beta_g fuel limit) p count t = Some (t', c) -> ORun p limit count t t' c.
Proof.
  intros IH [o'|] count t t' c Hinv H; simpl in H.
  - apply IH; auto.
  - inversion H; subst. unfold ORun. rewrite Nat.sub_diag. simpl. auto.
Qed.

Theorem char_g : forall fuel limit o count t t' c,
  (limit <> 0 -> count <= limit) ->
  beta_g fuel limit o count t = Some (t', c) -> Run o limit count t t' c.
Proof.
  induction fuel as [|fuel IH]; intros limit o count t t' c Hinv H; [discriminate|].
  cbn [beta_g] in H.
  destruct (limit_hit limit count) eqn:LH.
  { apply limit_hit_true in LH. destruct LH as [L ->]. inversion H; subst.
    unfold Run, ORun. rewrite Nat.sub_diag. cbn [iter]. repeat split; auto. }
  destruct t as [i|b|l r].
  - inversion H; subst. unfold Run, ORun. rewrite Nat.sub_diag. simpl. auto.
  - destruct (under (spec_of o)) eqn:U.
    + destruct (beta_g fuel limit o count b) as [[b1 c1]|] eqn:E; [|discriminate].
      cbn [bind ret] in H. inversion H; subst.
      apply IH in E; auto. destruct E as (Ha & Hb & Hc & Hd).
      unfold Run, ORun. split; auto. split; [|split; auto].
      * eapply (iter_ctx _ (step_g o) Abs (fun _ => True)); eauto.
        intros x y _ Ex. split; auto. simpl. rewrite U. cbn [os] in Ex. rewrite Ex. reflexivity.
      * destruct Hd as [Hd|Hd]; auto. left. cbn [os] in *. simpl. rewrite U, Hd. reflexivity.
    + inversion H; subst. unfold Run, ORun. rewrite Nat.sub_diag. simpl. rewrite U. auto.
  - pose proof (opt_run_char fuel limit (IH limit)) as OC.
    destruct (opt_run (beta_g fuel limit) (preL (spec_of o)) count l) as [[l1 c1]|] eqn:E1; [|discriminate].
    cbn [bind] in H.
    destruct (opt_run (beta_g fuel limit) (preR (spec_of o)) c1 r) as [[r1 c2]|] eqn:E2; [|discriminate].
    cbn [bind] in H.
    apply OC in E1; auto. destruct E1 as (L1a & L1b & L1c & L1d).
    apply OC in E2; auto. destruct E2 as (L2a & L2b & L2c & L2d).
    pose proof (lift_preL o l r l1 _ L1b) as P1.
    destruct (is_reducible (App l1 r1) limit c2) eqn:IR.
    + apply is_reducible_true in IR. destruct IR as (b & r' & Heq & Hcan).
      inversion Heq; subst l1 r'. rewrite eval_m_redex in H. apply can_true in Hcan.
      apply IH in H; [|intros; lia]. destruct H as (L3a & L3b & L3c & L3d).
      assert (S1 : os (preL (spec_of o)) (Abs b) = None) by (destruct L1d as [|[? ?]]; auto; lia).
      assert (S2 : os (preR (spec_of o)) r1 = None) by (destruct L2d as [|[? ?]]; auto; lia).
      unfold Run, ORun. split; [lia|]. split; [|split; auto].
      replace (c - count) with ((c1 - count) + ((c2 - c1) + (1 + (c - S c2)))) by lia.
      eapply iter_add; [exact P1|]. eapply iter_add; [apply lift_preR; eauto|].
      cbn [iter plus]. cbn [os]. rewrite (A3 o) by auto. exact L3b.
    + apply is_reducible_false in IR.
      destruct (opt_run (beta_g fuel limit) (postL (spec_of o)) c2 l1) as [[l2 c3]|] eqn:E3; [|discriminate].
      cbn [bind] in H.
      destruct (opt_run (beta_g fuel limit) (postR (spec_of o)) c3 r1) as [[r2 c4]|] eqn:E4; [|discriminate].
      cbn [bind ret] in H. inversion H; subst t' c. clear H.
      apply OC in E3; auto.
      assert (Hinv3 : limit <> 0 -> c3 <= limit) by (destruct E3 as (_ & _ & ? & _); auto).
      apply OC in E4; auto.
      (* phase 1 ended at the limit? *)
      destruct L1d as [S1|[L E]].
      2:{ subst c1.
          destruct (ORun_at_limit _ _ _ _ _ L (conj L2a (conj L2b (conj L2c L2d)))) as [-> ->].
          destruct (ORun_at_limit _ _ _ _ _ L E3) as [-> ->].
          destruct (ORun_at_limit _ _ _ _ _ L E4) as [-> ->].
          unfold Run, ORun. split; auto. }
      pose proof (lift_preR o l1 r r1 _ S1 L2b) as P2.
      assert (P12 : iter (step_g o) (c2 - count) (App l r) = Some (App l1 r1)).
      { replace (c2 - count) with ((c1 - count) + (c2 - c1)) by lia. eapply iter_add; eauto. }
      (* limit reached after phase 2 (either phase 2 ended there, or [can] fails) *)
      assert (D : (limit <> 0 /\ c2 = limit) \/ (os (preR (spec_of o)) r1 = None /\ is_abs l1 = false)).
      { destruct L2d as [S2|?]; auto. destruct IR as [?|C]; auto.
        left. assert (~ (limit = 0 \/ c2 < limit)) by (rewrite <- can_true; congruence).
        split; [lia|]. assert (limit <> 0) by lia. specialize (L2c H0). lia. }
      destruct D as [[L E]|[S2 NA]].
      { subst c2.
        destruct (ORun_at_limit _ _ _ _ _ L E3) as [-> ->].
        destruct (ORun_at_limit _ _ _ _ _ L E4) as [-> ->].
        unfold Run, ORun. split; auto. }
      destruct E3 as (L3a & L3b & L3c & L3d).
      destruct (lift_postL o l1 r1 l2 _ S1 S2 NA L3b) as (P3 & S1' & NA').
      assert (P123 : iter (step_g o) (c3 - count) (App l r) = Some (App l2 r1)).
      { replace (c3 - count) with ((c2 - count) + (c3 - c2)) by lia. eapply iter_add; eauto. }
      destruct L3d as [S3|[L E]].
      2:{ subst c3. destruct (ORun_at_limit _ _ _ _ _ L E4) as [-> ->].
          unfold Run, ORun. split; [lia|]. auto. }
      destruct E4 as (L4a & L4b & L4c & L4d).
      destruct (lift_postR o l2 r1 r2 _ S1' S2 NA' S3 L4b) as (P4 & S2').
      unfold Run, ORun. split; [lia|]. split; [|split; auto].
      * replace (c4 - count) with ((c3 - count) + (c4 - c3)) by lia. eapply iter_add; eauto.
      * destruct L4d as [S4|?]; auto. left. cbn [os]. apply A6; auto.
Qed.
