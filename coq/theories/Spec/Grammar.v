(** * Reference syntax of lambda expressions (C09): an independent lexer and a
      recursive-descent parser for the documented grammar

        G ::= A+  |  A* λ G          (a λ-body extends to the end of its group)
        A ::= index | name | ( G )

      application is left-nested; in Classic notation a name resolves to its
      innermost binder, otherwise it is free and numbered, in order of first
      appearance, above the binders in scope. *)
From LC Require Export Spec.Chars.

Inductive atok := TLam (binder : name) | TLp | TRp | TIdx (n : nat) | TName (s : name).

(** ** lexers (small automata over the documented lexical elements) *)
Inductive lex_result :=
| LexOk (ts : list atok)
| LexBadStart (i : nat) (c : N)      (* a character that cannot start any token *)
| LexBad.                             (* any other lexical error (inside a binder) *)

Fixpoint lex_dbr (i : nat) (s : list cchar) : lex_result :=
  match s with
  | [] => LexOk []
  | c :: r =>
      let k (t : list atok) := match lex_dbr (S i) r with LexOk ts => LexOk (t ++ ts) | e => e end in
      if is_lambda_glyph c then k [TLam []]
      else if is_char c_lparen c then k [TLp]
      else if is_char c_rparen c then k [TRp]
      else match to_digit16 c with
           | Some n => k [TIdx n]
           | None => if is_whitespace c then k [] else LexBadStart i (code c)
           end
  end.

(** states of the Classic lexer *)
Inductive lstate :=
| LTop                         (* between tokens *)
| LBinder0                     (* just after a lambda glyph: a letter is required *)
| LBinder (nm : name)          (* inside a binder name: letters/digits, then '.' *)
| LName (nm : name).           (* inside a variable name *)

Fixpoint lex_cla (st : lstate) (i : nat) (s : list cchar) : lex_result :=
  match s with
  | [] => match st with
          | LTop => LexOk []
          | LName nm => LexOk [TName nm]
          | _ => LexBad                       (* a binder without its dot *)
          end
  | c :: r =>
      let push (t : atok) (res : lex_result) := match res with LexOk ts => LexOk (t :: ts) | e => e end in
      let top (_ : unit) :=
        if is_lambda_glyph c then lex_cla LBinder0 (S i) r
        else if is_char c_lparen c then push TLp (lex_cla LTop (S i) r)
        else if is_char c_rparen c then push TRp (lex_cla LTop (S i) r)
        else if is_whitespace c then lex_cla LTop (S i) r
        else if is_alphabetic c then lex_cla (LName [code c]) (S i) r
        else LexBadStart i (code c) in
      match st with
      | LTop => top tt
      | LBinder0 => if is_alphabetic c && negb (is_char c_dot c) then lex_cla (LBinder [code c]) (S i) r else LexBad
      | LBinder nm =>
          if is_char c_dot c then push (TLam nm) (lex_cla LTop (S i) r)
          else if is_alphanumeric c then lex_cla (LBinder (nm ++ [code c])) (S i) r
          else LexBad
      | LName nm =>
          if is_alphanumeric c then lex_cla (LName (nm ++ [code c])) (S i) r
          else push (TName nm) (top tt)
      end
  end.

(** ** parser *)
Fixpoint index_of (nm : name) (l : list name) : option nat :=
  match l with
  | [] => None
  | x :: r => if name_eqb x nm then Some 0 else option_map S (index_of nm r)
  end.

Definition apps (ts : list term) : option term :=
  match ts with [] => None | t :: r => Some (fold_left App r t) end.

(** [env]: binders in scope, innermost first; [frees]: free names in order of first appearance *)
Fixpoint rgroup (fuel : nat) (env frees : list name) (toks : list atok) {struct fuel}
  : option (term * list atok * list name) :=
  match fuel with 0 => None | S f =>
    let fix ratoms (fuel2 : nat) (frees : list name) (toks : list atok) {struct fuel2}
      : option (list term * list atok * list name) :=
      match fuel2 with 0 => None | S f2 =>
        match toks with
        | TIdx n :: r =>
            match ratoms f2 frees r with Some (ts, r', fr) => Some (Var n :: ts, r', fr) | None => None end
        | TName s :: r =>
            match index_of s env with
            | Some i => match ratoms f2 frees r with Some (ts, r', fr) => Some (Var (S i) :: ts, r', fr) | None => None end
            | None =>
                let frees' := match index_of s frees with Some _ => frees | None => frees ++ [s] end in
                match index_of s frees' with
                | Some j => match ratoms f2 frees' r with
                            | Some (ts, r', fr) => Some (Var (length env + j + 1) :: ts, r', fr)
                            | None => None end
                | None => None
                end
            end
        | TLp :: r =>
            match rgroup f env frees r with
            | Some (t, TRp :: r', frees') =>
                match ratoms f2 frees' r' with Some (ts, r'', fr) => Some (t :: ts, r'', fr) | None => None end
            | _ => None
            end
        | _ => Some ([], toks, frees)
        end
      end in
    match ratoms fuel frees toks with
    | None => None
    | Some (atoms, rest, frees1) =>
        match rest with
        | TLam b :: rest' =>
            match rgroup f (b :: env) frees1 rest' with
            | Some (body, rest'', frees2) =>
                match apps (atoms ++ [Abs body]) with
                | Some t => Some (t, rest'', frees2)
                | None => None
                end
            | None => None
            end
        | _ => match apps atoms with Some t => Some (t, rest, frees1) | None => None end
        end
    end
  end.

Definition rparse (toks : list atok) : option term :=
  match rgroup (S (length toks)) [] [] toks with
  | Some (t, [], _) => Some t
  | _ => None
  end.

Inductive ref_result :=
| RefOk (t : term)
| RefBadStart (i : nat) (c : N)     (* must be reported as InvalidCharacter((i, c)) *)
| RefErr.                            (* must be some Err *)

Definition ref_parse (classic : bool) (s : list cchar) : ref_result :=
  match (if classic then lex_cla LTop 0 s else lex_dbr 0 s) with
  | LexOk ts => match rparse ts with Some t => RefOk t | None => RefErr end
  | LexBadStart i c => RefBadStart i c
  | LexBad => RefErr
  end.
