(** C06 — all evaluation orders and call histories agree on the result (confluence) *)
From LC Require Import Model.Reduction Spec.Confluence Proofs.Sound Proofs.ReduceProps Proofs.Normalise.

(** the calculus (1-based de Bruijn terms with the UD constant) is Church–Rosser *)
Theorem C06_confluence : forall t u v, red t u -> red t v -> exists w, red u w /\ red v w.
Proof. exact confluence. Qed.

(** every trajectory of reduce calls, with arbitrary orders and limits, stays inside the reduction graph *)
Theorem C06_history : forall h fuel t t' cs, run_history fuel h t = Some (t', cs) -> red t t'.
Proof. exact history_red. Qed.

(** all normal forms reachable by any two histories coincide (syntactic equality of de Bruijn terms) *)
Theorem C06_agree : forall h1 h2 f1 f2 t u1 u2 cs1 cs2,
  run_history f1 h1 t = Some (u1, cs1) -> run_history f2 h2 t = Some (u2, cs2) ->
  nfb u1 = true -> nfb u2 = true -> u1 = u2.
Proof. exact history_agree. Qed.

(** whenever two of the normalising orders both terminate they leave the identical term *)
Theorem C06_orders : forall o1 o2 f1 f2 t u1 u2 c1 c2,
  (o1 = NOR \/ o1 = HNO \/ o1 = APP \/ o1 = HAP) -> (o2 = NOR \/ o2 = HNO \/ o2 = APP \/ o2 = HAP) ->
  reduce_m f1 o1 0 t = Some (u1, c1) -> reduce_m f2 o2 0 t = Some (u2, c2) -> u1 = u2.
Proof. exact orders_agree. Qed.

(** the result of any (weaker, or limited) call normalises to the same term *)
Theorem C06_weaker : forall f1 f2 o n t w cw v cv,
  reduce_m f1 o n t = Some (w, cw) -> reduce_m f2 NOR 0 t = Some (v, cv) ->
  exists fuel c, reduce_m fuel NOR 0 w = Some (v, c).
Proof. exact weaker_then_nor. Qed.

Theorem C06_history_keeps_nf : forall h f t t' cs v,
  run_history f h t = Some (t', cs) -> red t v -> nfb v = true ->
  red t' v /\ exists fuel c, reduce_m fuel NOR 0 t' = Some (v, c).
Proof. exact history_keeps_nf. Qed.

Example C06_example :
  run_history 60 [(CBV, 1); (HSP, 2); (APP, 0)] (App (Abs (App (Var 1) (Var 1))) (App (Abs (Var 1)) (Abs (Var 1))))
  = Some (Abs (Var 1), [1; 2; 0]).
Proof. reflexivity. Qed.

Print Assumptions C06_confluence.
Print Assumptions C06_history.
Print Assumptions C06_agree.
Print Assumptions C06_orders.
Print Assumptions C06_weaker.
Print Assumptions C06_history_keeps_nf.
