(** Extraction of the executable model and of the Spec oracles to OCaml.
    Only the directives of ExtrOcamlBasic are used (bool, option, list, prod,
    unit, sumbool, sumor as OCaml's own types); nat, N, positive stay the
    extracted inductive types. *)
From Coq Require Import extraction.Extraction extraction.ExtrOcamlBasic.
From LC Require Import Spec.Term Spec.Subst Spec.Beta Spec.Strategies Spec.Positions Spec.Predicates
  Spec.Chars Spec.Grammar Spec.Printing Spec.Encodings Model.Reduction Model.TermOps Model.Parser Model.Display
  Model.Convert Gen.Terms.
Set Extraction Optimize.
Extraction "lc_model.ml"
  term_eqb size subst shift inst beta_sub step_of iter nf_of nfb whnfb wnfb hnfb
  fv has_ud closed has_fv_spec supercombb max_depth_spec pos_step reducts spine_reducts
  apply_m reduce_m beta_fn run_history
  unvar unabs unapp lhs rhs set_var set_abs set_app_l set_app_r abs_macro app_macro abs_c app_c
  has_free_variables max_depth is_isomorphic_to is_supercombinator
  parse tokenize_dbr tokenize_cla convert_classic_tokens get_ast fold_exprs display debug
  ref_parse ref_print_cla ref_print_dbr canon indices_in classify
  church scott parigot stumpfu binary bool_t pair_t none_t some_t ok_t err_t tuple_t pair_list church_list scott_list parigot_list
  dec_church dec_scott dec_parigot dec_stumpfu dec_binary binary_N dec_binary_N N_of_bits_msb
  into_church into_scott into_parigot into_stumpfu into_binary into_signed into_pair into_option into_result
  into_pair_list into_church_list into_scott_list into_parigot_list tuple_macro pi_macro
  all_terms.
