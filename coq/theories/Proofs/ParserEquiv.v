(** * The model of the parser computes the reference parse, for every input (C09).

    Three passes are related one by one: lexers, name resolution, and the index-level parser
    (get_ast + fold_exprs of the model against the recursive-descent parser of the Spec). *)
From LC Require Import Spec.Grammar Model.Parser.

(** ** 1. De Bruijn lexer *)
Definition atok_of_token (t : token) : atok :=
  match t with Lambda => TLam [] | Lparen => TLp | Rparen => TRp | Number n => TIdx n end.

Lemma lex_dbr_tokenize : forall s i,
  lex_dbr i s = match tokenize_dbr_from i s with
                | inr ts => LexOk (map atok_of_token ts)
                | inl (InvalidCharacter j c) => LexBadStart j c
                | inl _ => LexBad
                end.
Proof.
  induction s as [|c r IH]; intros i; [reflexivity|].
  cbn [lex_dbr tokenize_dbr_from]. rewrite (IH (S i)).
  destruct (is_lambda_glyph c); [destruct (tokenize_dbr_from (S i) r) as [[]|]; reflexivity|].
  destruct (is_char c_lparen c); [destruct (tokenize_dbr_from (S i) r) as [[]|]; reflexivity|].
  destruct (is_char c_rparen c); [destruct (tokenize_dbr_from (S i) r) as [[]|]; reflexivity|].
  destruct (to_digit16 c); [destruct (tokenize_dbr_from (S i) r) as [[]|]; reflexivity|].
  destruct (is_whitespace c); [destruct (tokenize_dbr_from (S i) r) as [[]|]; reflexivity|].
  reflexivity.
Qed.

Lemma idx_tokens_of_tokens ts : idx_tokens (map atok_of_token ts) = ts.
Proof. unfold idx_tokens. rewrite map_map. induction ts as [|t r IH]; simpl; [reflexivity|]. rewrite IH. destruct t; reflexivity. Qed.

(** ** 2. name resolution: convert_classic_tokens is [resolve] *)
Definition atok_of_ctoken (t : ctoken) : atok :=
  match t with CLambda nm => TLam nm | CLparen => TLp | CRparen => TRp | CName nm => TName nm end.

Lemma name_eqb_refl nm : name_eqb nm nm = true.
Proof. induction nm; simpl; auto. rewrite N.eqb_refl. auto. Qed.

Lemma rposition_index_of nm l : rposition nm l = index_of nm l.
Proof. induction l; simpl; auto. Qed.

Lemma index_of_app nm l1 l2 :
  index_of nm (l1 ++ l2) =
  match index_of nm l1 with Some i => Some i | None => option_map (fun j => length l1 + j) (index_of nm l2) end.
Proof.
  induction l1; simpl.
  - destruct (index_of nm l2); reflexivity.
  - destruct (name_eqb a nm); auto. rewrite IHl1.
    destruct (index_of nm l1); simpl; auto. destruct (index_of nm l2); reflexivity.
Qed.

Lemma index_of_snoc_new nm l : index_of nm l = None -> index_of nm (l ++ [nm]) = Some (length l).
Proof.
  intros H. rewrite index_of_app, H. simpl. rewrite name_eqb_refl. simpl. f_equal. lia.
Qed.

Lemma firstn_rev_skipn {A} (l : list A) k : k <= length l -> firstn (length l - k) (rev l) = rev (skipn k l).
Proof. intros Hk. rewrite firstn_rev. f_equal. f_equal. lia. Qed.

Lemma map_tl {A B} (f : A -> B) l : tl (map f l) = map f (tl l).
Proof. destruct l; reflexivity. Qed.

Lemma convert_res : forall f cts env frees inner out,
  length cts < f -> inner <= length env ->
  exists cr stack',
    convert_from f cts (rev frees ++ rev env) inner out =
      (out ++ fst (fst (res_group f env frees (map atok_of_ctoken cts))), cr, stack') /\
    snd (fst (res_group f env frees (map atok_of_ctoken cts))) = map atok_of_ctoken cr /\
    length cr <= length cts /\
    (cr <> [] -> stack' = rev (snd (res_group f env frees (map atok_of_ctoken cts))) ++ rev (skipn inner env)).
Proof.
  induction f as [|f IH]; intros cts env frees inner out Hf Hin; [lia|].
  destruct cts as [|c r].
  - exists [], (rev frees ++ rev env). simpl. rewrite app_nil_r. repeat split; auto; try congruence.
  - simpl in Hf. destruct c as [nm| | |nm]; cbn [map atok_of_ctoken res_group convert_from].
    + (* binder *)
      destruct (IH r (nm :: env) frees (S inner) (out ++ [Lambda]) ltac:(lia) ltac:(simpl; lia)) as (cr & st & E & R1 & L & S1).
      destruct (res_group f (nm :: env) frees (map atok_of_ctoken r)) as [[o rest] fr] eqn:ER. simpl in *.
      exists cr, st. replace ((rev frees ++ rev env) ++ [nm]) with (rev frees ++ rev env ++ [nm]) by (rewrite app_assoc; reflexivity).
      rewrite E. rewrite <- app_assoc. simpl. repeat split; auto; try lia.
    + (* opening parenthesis *)
      destruct (IH r env frees 0 [] ltac:(lia) ltac:(lia)) as (cr1 & st1 & E1 & R1 & L1 & S1).
      destruct (res_group f env frees (map atok_of_ctoken r)) as [[o1 rest1] fr1] eqn:ER1. simpl in E1, R1, S1.
      rewrite E1. subst rest1. rewrite map_tl.
      destruct cr1 as [|x cr1'].
      * (* the input ended inside the group *)
        simpl tl. destruct f as [|f'].
        -- simpl. exists [], st1. rewrite !app_nil_r. repeat split; auto; try congruence.
        -- simpl. exists [], st1. rewrite !app_nil_r. repeat split; auto; try congruence.
      * simpl tl. rewrite (S1 ltac:(discriminate)).
        simpl in L1.
        destruct (IH cr1' env fr1 inner (out ++ Lparen :: o1) ltac:(lia) Hin) as (cr2 & st2 & E2 & R2 & L2 & S2).
        destruct (res_group f env fr1 (map atok_of_ctoken cr1')) as [[o2 rest2] fr2] eqn:ER2. simpl in *.
        exists cr2, st2. replace (out ++ [Lparen] ++ o1) with (out ++ Lparen :: o1) by reflexivity.
        rewrite E2. rewrite <- app_assoc. simpl. repeat split; auto; try lia.
    + (* closing parenthesis *)
      exists (CRparen :: r). eexists. split; [reflexivity|]. simpl. repeat split; auto.
      intros _. rewrite app_length, !rev_length.
      replace (length frees + length env - inner) with (length frees + (length env - inner)) by lia.
      rewrite firstn_app. rewrite rev_length.
      replace (length frees + (length env - inner) - length frees) with (length env - inner) by lia.
      rewrite firstn_all2 by (rewrite rev_length; lia).
      rewrite firstn_rev_skipn by auto. reflexivity.
    + (* name *)
      rewrite rposition_index_of. rewrite rev_app_distr, !rev_involutive. rewrite index_of_app.
      destruct (index_of nm env) as [i|] eqn:Ei.
      * destruct (IH r env frees inner (out ++ [Number (S i)]) ltac:(lia) Hin) as (cr & st & E & R1 & L & S1).
        destruct (res_group f env frees (map atok_of_ctoken r)) as [[o rest] fr] eqn:ER. simpl in *.
        exists cr, st. rewrite E. rewrite <- app_assoc. simpl. repeat split; auto; try lia.
      * destruct (index_of nm frees) as [j|] eqn:Ej; cbn [option_map].
        -- rewrite Ej.
           destruct (IH r env frees inner (out ++ [Number (S (length env + j))]) ltac:(lia) Hin) as (cr & st & E & R1 & L & S1).
           destruct (res_group f env frees (map atok_of_ctoken r)) as [[o rest] fr] eqn:ER. simpl in *.
           exists cr, st. rewrite E. rewrite <- app_assoc. simpl.
           replace (length env + j + 1) with (S (length env + j)) by lia. repeat split; auto; try lia.
        -- rewrite (index_of_snoc_new _ _ Ej).
           destruct (IH r env (frees ++ [nm]) inner (out ++ [Number (S (length (rev frees ++ rev env)))]) ltac:(lia) Hin)
             as (cr & st & E & R1 & L & S1).
           destruct (res_group f env (frees ++ [nm]) (map atok_of_ctoken r)) as [[o rest] fr] eqn:ER. simpl in *.
           exists cr, st. rewrite rev_app_distr in E. simpl in E. rewrite E. rewrite <- app_assoc. simpl.
           rewrite app_length, !rev_length.
           replace (length env + length frees + 1) with (S (length frees + length env)) by lia. repeat split; auto; try lia.
Qed.

Theorem convert_is_resolve cts : convert_classic_tokens cts = resolve (map atok_of_ctoken cts).
Proof.
  unfold convert_classic_tokens, resolve. rewrite map_length.
  destruct (convert_res (S (length cts)) cts [] [] 0 [] ltac:(lia) ltac:(simpl; lia)) as (cr & st & E & _).
  change (rev (@nil name) ++ rev (@nil name)) with (@nil name) in E. rewrite E.
  destruct (res_group (S (length cts)) [] [] (map atok_of_ctoken cts)) as [[o rest] fr]. reflexivity.
Qed.

(** ** 3. Classic lexer *)
Definition push_tok (t : atok) (res : lex_result) : lex_result :=
  match res with LexOk ts => LexOk (t :: ts) | e => e end.

Lemma lex_name : forall s i nm,
  lex_cla (LName nm) i s =
    push_tok (TName (fst (fst (scan_name i s nm)))) (lex_cla LTop (snd (scan_name i s nm)) (snd (fst (scan_name i s nm)))) /\
  length (snd (fst (scan_name i s nm))) <= length s.
Proof.
  induction s as [|c r IH]; intros i nm.
  - simpl. auto.
  - cbn [lex_cla scan_name]. destruct (is_alphanumeric c).
    + destruct (IH (S i) (nm ++ [code c])) as [E L]. rewrite E. split; [reflexivity|]. simpl. lia.
    + simpl. split; [reflexivity|lia].
Qed.

Lemma lex_binder : forall s i nm,
  match scan_binder i s nm false with
  | inl _ => lex_cla (LBinder nm) i s = LexBad
  | inr (nm', rest, i') => lex_cla (LBinder nm) i s = push_tok (TLam nm') (lex_cla LTop i' rest) /\ length rest <= length s
  end.
Proof.
  induction s as [|c r IH]; intros i nm.
  - simpl. auto.
  - cbn [lex_cla scan_binder]. destruct (is_char c_dot c); cbn [negb andb].
    + split; [reflexivity|]. simpl. lia.
    + destruct (is_alphanumeric c).
      * specialize (IH (S i) (nm ++ [code c])).
        destruct (scan_binder (S i) r (nm ++ [code c]) false) as [e|[[nm' rest] i']]; auto.
        destruct IH as [E L]. split; auto. simpl. lia.
      * reflexivity.
Qed.

Lemma lex_binder0 : forall s i,
  match scan_binder i s [] true with
  | inl _ => lex_cla LBinder0 i s = LexBad
  | inr (nm', rest, i') => lex_cla LBinder0 i s = push_tok (TLam nm') (lex_cla LTop i' rest) /\ length rest <= length s
  end.
Proof.
  intros s i. destruct s as [|c r].
  - simpl. auto.
  - cbn [lex_cla scan_binder]. rewrite andb_false_r. cbn [andb negb].
    destruct (is_alphabetic c).
    + pose proof (lex_binder r (S i) ([] ++ [code c])) as H.
      destruct (scan_binder (S i) r ([] ++ [code c]) false) as [e|[[nm' rest] i']]; auto.
      destruct H as [E L]. split; auto. simpl. lia.
    + reflexivity.
Qed.

Lemma tokenize_cla_lex : forall fuel s i, length s < fuel ->
  match lex_cla LTop i s with
  | LexOk ats => exists cts, tokenize_cla_from fuel i s = inr cts /\ map atok_of_ctoken cts = ats
  | LexBadStart j c => tokenize_cla_from fuel i s = inl (InvalidCharacter j c)
  | LexBad => exists e, tokenize_cla_from fuel i s = inl e
  end.
Proof.
  induction fuel as [|f IH]; intros s i Hf; [lia|].
  destruct s as [|c r].
  - simpl. exists []. auto.
  - simpl in Hf. cbn [lex_cla tokenize_cla_from].
    destruct (is_lambda_glyph c).
    { (* binder *)
      pose proof (lex_binder0 r (S i)) as HB.
      destruct (scan_binder (S i) r [] true) as [e|[[nm' rest] i']].
      - rewrite HB. eauto.
      - destruct HB as [E L]. rewrite E.
        specialize (IH rest i' ltac:(lia)).
        destruct (lex_cla LTop i' rest) as [ats|j c0|]; cbn [push_tok].
        + destruct IH as (cts & E2 & M). rewrite E2. exists (CLambda nm' :: cts). simpl. rewrite M. auto.
        + rewrite IH. reflexivity.
        + destruct IH as [e E2]. rewrite E2. eauto. }
    destruct (is_char c_lparen c).
    { specialize (IH r (S i) ltac:(lia)).
      destruct (lex_cla LTop (S i) r) as [ats|j c0|].
      - destruct IH as (cts & E2 & M). rewrite E2. exists (CLparen :: cts). simpl. rewrite M. auto.
      - rewrite IH. reflexivity.
      - destruct IH as [e E2]. rewrite E2. eauto. }
    destruct (is_char c_rparen c).
    { specialize (IH r (S i) ltac:(lia)).
      destruct (lex_cla LTop (S i) r) as [ats|j c0|].
      - destruct IH as (cts & E2 & M). rewrite E2. exists (CRparen :: cts). simpl. rewrite M. auto.
      - rewrite IH. reflexivity.
      - destruct IH as [e E2]. rewrite E2. eauto. }
    destruct (is_whitespace c).
    { apply IH. lia. }
    destruct (is_alphabetic c).
    { destruct (lex_name r (S i) [code c]) as [E L]. rewrite E.
      destruct (scan_name (S i) r [code c]) as [[nm' rest] i'] eqn:ES. cbn [fst snd] in *.
      specialize (IH rest i' ltac:(lia)).
      destruct (lex_cla LTop i' rest) as [ats|j c0|]; cbn [push_tok].
      - destruct IH as (cts & E2 & M). rewrite E2. exists (CName nm' :: cts). simpl. rewrite M. auto.
      - rewrite IH. reflexivity.
      - destruct IH as [e E2]. rewrite E2. eauto. }
    reflexivity.
Qed.

(** ** 4. assembly: parse is the reference parse *)
From LC Require Import Proofs.ParserCore.

Lemma parse_pipeline s n :
  parse s n =
  match (match n with
         | DeBruijn => tokenize_dbr s
         | Classic => match tokenize_cla s with inl e => inl e | inr ts => inr (convert_classic_tokens ts) end
         end) with
  | inl e => inl e
  | inr toks => pipeline toks
  end.
Proof. unfold parse, pipeline. destruct n; [destruct (tokenize_cla s)|destruct (tokenize_dbr s)]; reflexivity. Qed.

Theorem parse_is_reference : forall s classic,
  match ref_parse classic s with
  | RefOk t => parse s (if classic then Classic else DeBruijn) = inr t
  | RefBadStart i c => parse s (if classic then Classic else DeBruijn) = inl (InvalidCharacter i c)
  | RefErr => exists e, parse s (if classic then Classic else DeBruijn) = inl e
  end.
Proof.
  intros s classic. unfold ref_parse. rewrite parse_pipeline. destruct classic.
  - (* Classic *)
    pose proof (tokenize_cla_lex (S (length s)) s 0 ltac:(lia)) as L. fold (tokenize_cla s) in L.
    destruct (lex_cla LTop 0 s) as [ats|j c|].
    + destruct L as (cts & -> & <-). rewrite <- convert_is_resolve.
      pose proof (pipeline_rparse (convert_classic_tokens cts)) as P.
      destruct (rparse (convert_classic_tokens cts)); auto.
    + rewrite L. reflexivity.
    + destruct L as [e ->]. eauto.
  - (* De Bruijn *)
    unfold tokenize_dbr. rewrite lex_dbr_tokenize.
    destruct (tokenize_dbr_from 0 s) as [[j c| |]|toks]; try reflexivity; eauto.
    rewrite idx_tokens_of_tokens.
    pose proof (pipeline_rparse toks) as P. destruct (rparse toks); auto.
Qed.
