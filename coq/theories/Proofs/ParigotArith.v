(** * Parigot numerals for ALL numbers (C14), on the generated constants *)
From LC Require Import Spec.NorEval Spec.Encodings Gen.Terms Proofs.Laws Proofs.Convert Proofs.ChurchArith Proofs.ScottArith.

Lemma shift_parigot d c n : shift d c (parigot n) = parigot n.
Proof. apply shift_closed, parigot_closed. Qed.
Lemma subst_parigot k a n : 1 <= k -> subst k a (parigot n) = parigot n.
Proof. intros. apply subst_closed; auto. apply parigot_closed. Qed.

Lemma parigot_eta n : parigot n = Abs (Abs (body2 (parigot n))).
Proof. destruct n; reflexivity. Qed.

(** the recursor: what ⌜n⌝ f z computes *)
Fixpoint prec (f z : term) (n : nat) : term :=
  match n with 0 => z | S k => f @ parigot k @ prec f z k end.

Lemma parigot_body_subst n f z : subst 1 z (subst 2 f (body2 (parigot n))) = prec f z n.
Proof.
  induction n as [|n IH].
  - simpl. apply shift_0.
  - change (body2 (parigot (S n))) with (v2 @ parigot n @ body2 (parigot n)).
    cbn [subst Nat.compare Nat.sub prec]. rewrite !subst_parigot by lia.
    rewrite subst_shift_cancel by lia. rewrite shift_0. rewrite IH. reflexivity.
Qed.

Theorem parigot_rec n f z : red (parigot n @ f @ z) (prec f z n).
Proof.
  rewrite (parigot_eta n) at 1.
  eapply star_step; [apply s_appl, s_beta|]. cbn [subst].
  eapply star_step; [apply s_beta|]. rewrite parigot_body_subst. apply star_refl.
Qed.

Lemma body2_prec n : body2 (parigot n) = prec v2 v1 n.
Proof. induction n; simpl; auto. rewrite IHn. reflexivity. Qed.

Ltac inst_par H ps :=
  let X := fresh "X" in
  pose proof (instantiate ps _ _ H) as X;
  cbn [inst payloads nth up] in X;
  repeat rewrite inst_closed in X by reflexivity;
  repeat rewrite shift_parigot in X; repeat rewrite shift_church in X.

(** succ *)
Lemma psucc_open : red (lc_num_parigot_succ @ v1) (Abs (Abs (v2 @ v3 @ (v3 @ v2 @ v1)))). Proof. open_law. Qed.
Theorem parigot_succ n : red (lc_num_parigot_succ @ parigot n) (parigot (S n)).
Proof.
  inst_par psucc_open [parigot n]. eapply star_trans; [exact X|].
  change (parigot (S n)) with (Abs (Abs (v2 @ parigot n @ body2 (parigot n)))).
  apply red_abs, red_abs, red_appr. rewrite body2_prec. apply parigot_rec.
Qed.

(** pred, is_zero *)
Lemma ppred_open : red (lc_num_parigot_pred @ v1) (v1 @ Abs (Abs v2) @ parigot 0). Proof. open_law. Qed.
Theorem parigot_pred n : red (lc_num_parigot_pred @ parigot n) (parigot (pred n)).
Proof.
  inst_par ppred_open [parigot n]. eapply star_trans; [exact X|].
  eapply star_trans; [apply parigot_rec|]. destruct n; simpl; [apply star_refl|].
  do 2 hbeta. done_red.
Qed.

Lemma pis_zero_open : red (lc_num_parigot_is_zero @ v1) (v1 @ Abs (Abs lc_boolean_fls) @ lc_boolean_tru). Proof. open_law. Qed.
Theorem parigot_is_zero n : red (lc_num_parigot_is_zero @ parigot n) (bool_t (n =? 0)).
Proof.
  inst_par pis_zero_open [parigot n]. eapply star_trans; [exact X|].
  eapply star_trans; [apply parigot_rec|]. destruct n; simpl; [apply star_refl|].
  do 2 hbeta. done_red.
Qed.

(** add: m (λa r. succ r) n *)
Definition paddF : term := Abs lc_num_parigot_succ.
Lemma padd_open : red (lc_num_parigot_add @ v1 @ v2) (v1 @ paddF @ v2). Proof. open_law. Qed.
Lemma paddF_law a j : red (paddF @ a @ parigot j) (parigot (S j)).
Proof.
  unfold paddF. eapply star_step; [apply s_appl, s_beta|].
  rewrite subst_closed by (reflexivity || lia). apply parigot_succ.
Qed.
Lemma padd_prec n : forall m, red (prec paddF (parigot n) m) (parigot (m + n)).
Proof.
  induction m; simpl; [apply star_refl|].
  eapply star_trans; [apply red_appr; exact IHm|]. apply paddF_law.
Qed.
Theorem parigot_add m n : red (lc_num_parigot_add @ parigot m @ parigot n) (parigot (m + n)).
Proof.
  inst_par padd_open [parigot m; parigot n]. eapply star_trans; [exact X|].
  eapply star_trans; [apply parigot_rec|]. apply padd_prec.
Qed.

(** sub: n (λa r. pred r) m *)
Definition psubF : term := Abs lc_num_parigot_pred.
Lemma psub_open : red (lc_num_parigot_sub @ v1 @ v2) (v2 @ psubF @ v1). Proof. open_law. Qed.
Lemma psubF_law a j : red (psubF @ a @ parigot j) (parigot (pred j)).
Proof.
  unfold psubF. eapply star_step; [apply s_appl, s_beta|].
  rewrite subst_closed by (reflexivity || lia). apply parigot_pred.
Qed.
Lemma psub_prec m : forall n, red (prec psubF (parigot m) n) (parigot (m - n)).
Proof.
  induction n; simpl.
  - rewrite Nat.sub_0_r. apply star_refl.
  - eapply star_trans; [apply red_appr; exact IHn|].
    replace (m - S n) with (pred (m - n)) by lia. apply psubF_law.
Qed.
Theorem parigot_sub m n : red (lc_num_parigot_sub @ parigot m @ parigot n) (parigot (m - n)).
Proof.
  inst_par psub_open [parigot m; parigot n]. eapply star_trans; [exact X|].
  eapply star_trans; [apply parigot_rec|]. apply psub_prec.
Qed.

(** mul: m (λa r. add n r) zero *)
Lemma pmul_open : red (lc_num_parigot_mul @ v1 @ v2) (v1 @ Abs (Abs (v4 @ paddF @ v1)) @ parigot 0). Proof. open_law. Qed.
Definition pmulF (n : nat) : term := Abs (Abs (parigot n @ paddF @ v1)).
Lemma pmulF_law n a j : red (pmulF n @ a @ parigot j) (parigot (n + j)).
Proof.
  unfold pmulF. eapply star_step; [apply s_appl, s_beta|]. cbn [subst Nat.compare Nat.sub].
  rewrite subst_parigot by lia. rewrite (subst_closed 2 _ paddF) by (reflexivity || lia).
  eapply star_step; [apply s_beta|]. cbn [subst Nat.compare Nat.sub].
  rewrite subst_parigot by lia. rewrite (subst_closed 1 _ paddF) by (reflexivity || lia). rewrite shift_0.
  eapply star_trans; [apply parigot_rec|]. apply padd_prec.
Qed.
Lemma pmul_prec n : forall m, red (prec (pmulF n) (parigot 0) m) (parigot (m * n)).
Proof.
  induction m; simpl; [apply star_refl|].
  eapply star_trans; [apply red_appr; exact IHm|]. apply pmulF_law.
Qed.
Theorem parigot_mul m n : red (lc_num_parigot_mul @ parigot m @ parigot n) (parigot (m * n)).
Proof.
  inst_par pmul_open [parigot m; parigot n]. eapply star_trans; [exact X|].
  fold (pmulF n). eapply star_trans; [apply parigot_rec|]. apply pmul_prec.
Qed.

(** church -> parigot *)
Lemma c2p_open : red (lc_num_church_to_parigot @ v1) (v1 @ lc_num_parigot_succ @ parigot 0). Proof. open_law. Qed.
Lemma iter_psucc n : red (iter_app n lc_num_parigot_succ (parigot 0)) (parigot n).
Proof.
  induction n; simpl; [apply star_refl|].
  eapply star_trans; [apply red_appr; exact IHn|]. apply parigot_succ.
Qed.
Theorem church_to_parigot n : red (lc_num_church_to_parigot @ church n) (parigot n).
Proof.
  inst_par c2p_open [church n]. eapply star_trans; [exact X|].
  eapply star_trans; [apply church_iter|]. apply iter_psucc.
Qed.
