(** * Simply typed terms are strongly normalising (Tait / Girard reducibility), for the de Bruijn calculus
      with the UD constant (an inert constant that may be given any type).

    Used for the eager orders: a strongly normalising term is normalised by EVERY strategy. *)
From LC Require Export Spec.ParSubst Spec.Confluence.

Inductive ty := Base | Arr (a b : ty).

(** [Var i] (1-based) has the i-th type of the context *)
Inductive has_type : list ty -> term -> ty -> Prop :=
| T_var G i A : 1 <= i -> nth_error G (i - 1) = Some A -> has_type G (Var i) A
| T_ud G A : has_type G (Var 0) A   (* the inert UD constant may stand for a value of any type *)
| T_abs G b A B : has_type (A :: G) b B -> has_type G (Abs b) (Arr A B)
| T_app G l r A B : has_type G l (Arr A B) -> has_type G r A -> has_type G (App l r) B.

Inductive sn (t : term) : Prop := sn_intro : (forall u, step t u -> sn u) -> sn t.

Lemma sn_step t u : sn t -> step t u -> sn u.
Proof. intros [H] S. auto. Qed.
Lemma sn_red t u : sn t -> red t u -> sn u.
Proof. intros H R. induction R; eauto using sn_step. Qed.

(** sub-terms and pre-images under substitution of SN terms are SN *)
Lemma sn_appl l r : sn (App l r) -> sn l.
Proof.
  intros H. remember (App l r) as t eqn:E. revert l r E. induction H as [t _ IH]; intros l r ->.
  constructor. intros l' S. eapply IH; [apply s_appl; exact S|reflexivity].
Qed.
Lemma sn_inst_inv s t : sn (inst s t) -> sn t.
Proof.
  intros H. remember (inst s t) as x eqn:E. revert t E. induction H as [x _ IH]; intros t ->.
  constructor. intros u S. eapply IH; [apply step_inst; exact S|reflexivity].
Qed.

Definition neutral (t : term) : Prop := match t with Abs _ => False | _ => True end.

Fixpoint RED (A : ty) (t : term) : Prop :=
  match A with
  | Base => sn t
  | Arr A B => forall u, RED A u -> RED B (App t u)
  end.

Lemma CR : forall A,
  (forall t, RED A t -> sn t) /\
  (forall t u, RED A t -> step t u -> RED A u) /\
  (forall t, neutral t -> (forall u, step t u -> RED A u) -> RED A t).
Proof.
  induction A as [|A [IA1 [IA2 IA3]] B [IB1 [IB2 IB3]]]; cbn [RED].
  - split; [|split].
    + auto.
    + intros t u H S. eapply sn_step; eauto.
    + intros t _ H. constructor. exact H.
  - assert (V : RED A (Var 1)).
    { apply IA3; [exact I|]. intros u S. inversion S. }
    split; [|split].
    + intros t H. apply (sn_appl t (Var 1)). apply IB1. apply H. exact V.
    + intros t u H S v Hv. eapply IB2; [apply H; exact Hv|]. apply s_appl. exact S.
    + intros t N H v Hv. pose proof (IA1 _ Hv) as SNv.
      induction SNv as [v _ IHv]. apply IB3; [exact I|].
      intros w S. inversion S; subst.
      * destruct N.
      * apply H; auto.
      * apply IHv; auto. eapply IA2; eauto.
Qed.
Lemma RED_sn A t : RED A t -> sn t. Proof. apply CR. Qed.
Lemma RED_step A t u : RED A t -> step t u -> RED A u. Proof. apply CR. Qed.
Lemma RED_neutral A t : neutral t -> (forall u, step t u -> RED A u) -> RED A t. Proof. apply CR. Qed.
Lemma RED_var A i : RED A (Var i).
Proof. apply RED_neutral; [exact I|]. intros u S. inversion S. Qed.

Lemma RED_abs A B b : (forall u, RED A u -> RED B (subst 1 u b)) -> RED (Arr A B) (Abs b).
Proof.
  intros H. cbn [RED].
  assert (SNb : sn b).
  { apply (sn_inst_inv (beta_sub (Var 1))). rewrite inst_beta_sub. eapply RED_sn. apply H. apply RED_var. }
  revert H. induction SNb as [b _ IHb]. intros H u Hu.
  pose proof (RED_sn _ _ Hu) as SNu. induction SNu as [u _ IHu].
  apply RED_neutral; [exact I|]. intros w S. inversion S; subst.
  - apply H. exact Hu.
  - match goal with S' : step (Abs b) _ |- _ => inversion S'; subst end.
    apply IHb; auto. intros v Hv. eapply RED_step; [apply H; exact Hv|]. apply step_subst; auto.
  - apply IHu; auto. eapply RED_step; eauto.
Qed.

(** extending a substitution at index 1 *)
Definition scons (u : term) (s : nat -> term) : nat -> term :=
  fun i => match i with 0 => Var 0 | 1 => u | S j => s j end.
Lemma subst_inst_up u s b : subst 1 u (inst (up s) b) = inst (scons u s) b.
Proof.
  rewrite <- inst_beta_sub, inst_inst. apply inst_ext. intros i Hi.
  destruct i as [|[|j]]; [lia|reflexivity|]. cbn [up scons].
  rewrite inst_beta_sub. rewrite subst_shift_cancel by lia. apply shift_0.
Qed.

Theorem fundamental G t A : has_type G t A ->
  forall s, (forall i B, 1 <= i -> nth_error G (i - 1) = Some B -> RED B (s i)) -> RED A (inst s t).
Proof.
  induction 1 as [G i A Hi Hn|G A|G b A B _ IH|G l r A B _ IHl _ IHr]; intros s Hs.
  - destruct i; [lia|]. cbn [inst]. apply Hs; auto.
  - cbn [inst]. apply RED_var.
  - cbn [inst]. apply RED_abs. intros u Hu. rewrite subst_inst_up. apply IH.
    intros i C Hi Hn. destruct i as [|[|j]]; [lia| |].
    + cbn in Hn. inversion Hn; subst. exact Hu.
    + cbn [scons]. apply Hs; [lia|]. cbn [Nat.sub] in *. rewrite Nat.sub_0_r in *. exact Hn.
  - cbn [inst]. apply (IHl s Hs). apply IHr. exact Hs.
Qed.

Theorem typed_sn G t A : has_type G t A -> sn t.
Proof.
  intros H. rewrite <- (inst_ids t). eapply RED_sn. eapply fundamental; eauto. intros. apply RED_var.
Qed.
