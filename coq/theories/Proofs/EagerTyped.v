(** * Termination of the EAGER orders (APP, HAP) for all arguments, for the Church operations that are simply typable.

    A simply typed term is strongly normalising (Spec/Typed.v), so every strategy - in particular the iteration of
    the step function of any order - reaches a normal form; for the orders whose normal forms are the beta-normal
    forms this is THE normal form (confluence), and by completeness of the traversal it is what [reduce] returns. *)
From LC Require Import Spec.Typed Spec.Encodings Spec.NorEval Model.Reduction Gen.Terms
  Proofs.Sound Proofs.ReduceProps Proofs.Normalise Proofs.Convert Proofs.ChurchArith Proofs.Returns.

Lemma sn_terminates o t : sn t -> exists n v, iter (step_of o) n t = Some v /\ step_of o v = None.
Proof.
  induction 1 as [t _ IH]. destruct (step_of o t) as [u|] eqn:E.
  - destruct (IH u (step_of_sound _ _ _ E)) as (n & v & I & St). exists (S n), v. split; auto. cbn [iter]. rewrite E. exact I.
  - exists 0, t. split; auto.
Qed.

Definition full (o : order) : Prop := o = NOR \/ o = HNO \/ o = APP \/ o = HAP.

Theorem sn_returns o t v : full o -> sn t -> red t v -> nfb v = true -> returns o t v.
Proof.
  intros F SN R N. destruct (sn_terminates o t SN) as (n & w & I & St).
  assert (Nw : nfb w = true).
  { apply stuck_nf in St. rewrite (nf_of_normalising o F) in St. exact St. }
  assert (Rw : red t w).
  { eapply steps_star. eapply (iter_steps (step_of o) step); [apply step_of_sound|exact I]. }
  assert (E : w = v) by (eapply nf_unique; eauto; apply nfb_nf; auto). subst w.
  destruct (reduce_complete_unlimited o n t v I St) as [f Ef]. exists f, n. exact Ef.
Qed.

(** ** typing the numerals and the generated constants *)
Definition N (A : ty) : ty := Arr (Arr A A) (Arr A A).
Lemma iter_typed G A n : has_type (A :: Arr A A :: G) (iter_app n (Var 2) (Var 1)) A.
Proof.
  induction n; cbn [iter_app]; [apply T_var; [lia|reflexivity]|].
  eapply T_app; [apply T_var; [lia|reflexivity]|exact IHn].
Qed.
Lemma church_typed G A n : has_type G (church n) (N A).
Proof. unfold church, N. apply T_abs, T_abs. apply iter_typed. Qed.
Ltac typecheck := repeat first [ apply church_typed | eapply T_abs | eapply T_app | eapply T_var; [lia | reflexivity] ].

Lemma typed_succ n : exists T, has_type [] (App lc_num_church_succ (church n)) T.
Proof. eexists; unfold lc_num_church_succ; typecheck. Unshelve. all: exact Base. Qed.
Lemma typed_pred n : exists T, has_type [] (App lc_num_church_pred (church n)) T.
Proof. eexists; unfold lc_num_church_pred; typecheck. Unshelve. all: exact Base. Qed.
Lemma typed_is_zero n : exists T, has_type [] (App lc_num_church_is_zero (church n)) T.
Proof. eexists; unfold lc_num_church_is_zero; typecheck. Unshelve. all: exact Base. Qed.
Lemma typed_fac n : exists T, has_type [] (App lc_num_church_fac (church n)) T.
Proof. eexists; unfold lc_num_church_fac; typecheck. Unshelve. all: exact Base. Qed.
Lemma typed_add m n : exists T, has_type [] (App (App lc_num_church_add (church m)) (church n)) T.
Proof. eexists; unfold lc_num_church_add; typecheck. Unshelve. all: exact Base. Qed.
Lemma typed_mul m n : exists T, has_type [] (App (App lc_num_church_mul (church m)) (church n)) T.
Proof. eexists; unfold lc_num_church_mul; typecheck. Unshelve. all: exact Base. Qed.

(** ** what reduce returns under ALL FOUR normalising-to-normal-form orders, eager ones included, for all m, n *)
Theorem church_typed_returns o m n : full o ->
  returns o (App lc_num_church_succ (church n)) (church (S n)) /\
  returns o (App lc_num_church_pred (church n)) (church (pred n)) /\
  returns o (App lc_num_church_is_zero (church n)) (bool_t (n =? 0)) /\
  returns o (App lc_num_church_fac (church n)) (church (fact n)) /\
  returns o (App (App lc_num_church_add (church m)) (church n)) (church (m + n)) /\
  returns o (App (App lc_num_church_mul (church m)) (church n)) (church (m * n)).
Proof.
  intros F. repeat split; apply (sn_returns o); auto.
  - destruct (typed_succ n) as [T H]. eapply typed_sn; eauto. - apply church_succ. - apply church_nf.
  - destruct (typed_pred n) as [T H]. eapply typed_sn; eauto. - apply church_pred. - apply church_nf.
  - destruct (typed_is_zero n) as [T H]. eapply typed_sn; eauto. - apply church_is_zero. - apply bool_nf.
  - destruct (typed_fac n) as [T H]. eapply typed_sn; eauto. - apply church_fac. - apply church_nf.
  - destruct (typed_add m n) as [T H]. eapply typed_sn; eauto. - apply church_add. - apply church_nf.
  - destruct (typed_mul m n) as [T H]. eapply typed_sn; eauto. - apply church_mul. - apply church_nf.
Qed.

(** ** Church (fold) lists and pair lists of numerals: constructors and observers under all four orders *)
From LC Require Import Proofs.RedSetoid Proofs.PairList Proofs.OtherLists.
From Coq Require Import List. Import ListNotations.

Lemma clb_typed G R A xs : (forall x, In x xs -> forall G', has_type G' x A) ->
  has_type (Arr A (Arr R R) :: R :: G) (church_list_body xs) R.
Proof.
  induction xs as [|x r IH]; intros H; cbn [church_list_body].
  - apply T_var; [lia|reflexivity].
  - eapply T_app; [eapply T_app; [apply T_var; [lia|reflexivity]|apply H; left; auto]|apply IH; intros; apply H; right; auto].
Qed.
Definition nl (l : list nat) : term := church_list (map church l).
Lemma nl_typed G R A l : has_type G (nl l) (Arr R (Arr (Arr (N A) (Arr R R)) R)).
Proof.
  unfold nl, church_list. apply T_abs, T_abs. apply clb_typed.
  intros x Hx G'. apply in_map_iff in Hx. destruct Hx as (k & <- & _). apply church_typed.
Qed.

(** pair lists: the type depends on the length; the outermost answer type is free *)
Fixpoint PT (A : ty) (l : list nat) : ty :=
  match l with
  | [] => Arr Base (Arr Base Base)
  | _ :: r => Arr (Arr (N A) (Arr (PT A r) Base)) Base
  end.
Lemma pl_typed_any G A l : has_type G (pair_list (map church l)) (PT A l).
Proof.
  revert G. induction l as [|k r IH]; intros G; cbn [map pair_list PT].
  - apply T_abs, T_abs. apply T_var; [lia|reflexivity].
  - apply T_abs. eapply T_app; [eapply T_app; [apply T_var; [lia|reflexivity]|apply church_typed]|apply IH].
Qed.
Lemma pl_typed_cons G A R k r : has_type G (pair_list (map church (k :: r))) (Arr (Arr (N A) (Arr (PT A r) R)) R).
Proof.
  cbn [map pair_list]. apply T_abs.
  eapply T_app; [eapply T_app; [apply T_var; [lia|reflexivity]|apply church_typed]|apply pl_typed_any].
Qed.

Ltac typecheck2 := repeat first [ apply church_typed | apply nl_typed | apply pl_typed_cons | apply pl_typed_any
                                | eapply T_abs | eapply T_app | eapply T_var; [lia | reflexivity] | apply T_ud ].
Ltac typed_by c := eexists; unfold c; typecheck2.

Lemma allc_nums l : allc (map church l).
Proof. induction l; [reflexivity|]. cbn [map]. apply allc_cons_i; auto. apply church_closed. Qed.
Lemma nl_nf l : nfb (nl l) = true.
Proof.
  unfold nl, church_list. cbn [nfb]. induction l as [|k r IH]; [reflexivity|].
  cbn [map church_list_body nfb is_abs negb andb]. rewrite church_nf, IH. reflexivity.
Qed.
Lemma pl_nf l : nfb (pair_list (map church l)) = true.
Proof. induction l as [|k r IH]; [reflexivity|]. cbn [map pair_list nfb is_abs negb andb]. rewrite church_nf, IH. reflexivity. Qed.

Theorem church_list_returns o k l : full o ->
  returns o (App (App lc_list_church_cons (church k)) (nl l)) (nl (k :: l)) /\
  returns o (App lc_list_church_head (nl (k :: l))) (church k) /\
  returns o (App lc_list_church_tail (nl (k :: l))) (nl l) /\
  returns o (App lc_list_church_is_nil (nl (k :: l))) fls_t /\
  returns o (App lc_list_church_is_nil (nl [])) tru_t.
Proof.
  intros F. pose proof (allc_nums l) as Hl. pose proof (church_closed k) as Ck.
  repeat split; apply (sn_returns o); auto; try apply nl_nf; try apply church_nf; try reflexivity.
  - assert (T : exists T, has_type [] (App (App lc_list_church_cons (church k)) (nl l)) T) by typed_by lc_list_church_cons.
    destruct T as [T H]. eapply typed_sn; eauto.
  - apply (church_cons_law (church k) (map church l)); auto.
  - assert (T : exists T, has_type [] (App lc_list_church_head (nl (k :: l))) T) by typed_by lc_list_church_head.
    destruct T as [T H]. eapply typed_sn; eauto.
  - apply (church_head_law (church k) (map church l)); auto.
  - assert (T : exists T, has_type [] (App lc_list_church_tail (nl (k :: l))) T) by typed_by lc_list_church_tail.
    destruct T as [T H]. eapply typed_sn; eauto.
  - apply (church_tail_law (church k) (map church l)); auto.
  - assert (T : exists T, has_type [] (App lc_list_church_is_nil (nl (k :: l))) T) by typed_by lc_list_church_is_nil.
    destruct T as [T H]. eapply typed_sn; eauto.
  - apply (church_is_nil_law (map church (k :: l))). apply allc_nums.
  - assert (T : exists T, has_type [] (App lc_list_church_is_nil (nl [])) T) by typed_by lc_list_church_is_nil.
    destruct T as [T H]. eapply typed_sn; eauto.
  - apply (church_is_nil_law []). reflexivity.
  Unshelve. all: exact Base.
Qed.

Theorem pair_list_returns o k l : full o ->
  returns o (App (App lc_list_pair_cons (church k)) (pair_list (map church l))) (pair_list (map church (k :: l))) /\
  returns o (App lc_list_pair_head (pair_list (map church (k :: l)))) (church k) /\
  returns o (App lc_list_pair_tail (pair_list (map church (k :: l)))) (pair_list (map church l)) /\
  returns o (App lc_list_pair_is_nil (pair_list (map church (k :: l)))) fls_t /\
  returns o (App lc_list_pair_is_nil (pair_list (map church []))) tru_t.
Proof.
  intros F. pose proof (allc_nums l) as Hl. pose proof (church_closed k) as Ck.
  repeat split; apply (sn_returns o); auto; try apply pl_nf; try apply church_nf; try reflexivity.
  - assert (T : exists T, has_type [] (App (App lc_list_pair_cons (church k)) (pair_list (map church l))) T) by typed_by lc_list_pair_cons.
    destruct T as [T H]. eapply typed_sn; eauto.
  - apply (cons_law (church k) (map church l)); auto.
  - assert (T : exists T, has_type [] (App lc_list_pair_head (pair_list (map church (k :: l)))) T) by typed_by lc_list_pair_head.
    destruct T as [T H]. eapply typed_sn; eauto.
  - apply (head_law (church k) (map church l)); auto.
  - assert (T : exists T, has_type [] (App lc_list_pair_tail (pair_list (map church (k :: l)))) T) by typed_by lc_list_pair_tail.
    destruct T as [T H]. eapply typed_sn; eauto.
  - apply (tail_law (church k) (map church l)); auto.
  - assert (T : exists T, has_type [] (App lc_list_pair_is_nil (pair_list (map church (k :: l)))) T) by typed_by lc_list_pair_is_nil.
    destruct T as [T H]. eapply typed_sn; eauto.
  - apply (is_nil_cons (church k) (map church l)); auto.
  - assert (T : exists T, has_type [] (App lc_list_pair_is_nil (pair_list (map church []))) T) by typed_by lc_list_pair_is_nil.
    destruct T as [T H]. eapply typed_sn; eauto.
  - apply is_nil_nil.
  Unshelve. all: exact Base.
Qed.

(** ** binary, Scott and Stump-Fu numerals: the typable operations *)
From LC Require Import Proofs.ScottArith Proofs.StumpFuArith Proofs.BinaryArith.

Lemma bits_typed G R bs : has_type (Arr R R :: Arr R R :: R :: G) (bits_term bs) R.
Proof.
  induction bs as [|b r IH]; cbn [bits_term]; [apply T_var; [lia|reflexivity]|].
  eapply T_app; [destruct b; apply T_var; [lia|reflexivity|lia|reflexivity]|exact IH].
Qed.
Lemma binary_typed G R n : has_type G (binary n) (Arr R (Arr (Arr R R) (Arr (Arr R R) R))).
Proof. unfold binary. apply T_abs, T_abs, T_abs. apply bits_typed. Qed.

(** Scott and Stump-Fu numerals have length-indexed types; the outermost answer type is free *)
Fixpoint SCT (n : nat) : ty :=
  match n with 0 => Arr Base (Arr Base Base) | S k => Arr Base (Arr (Arr (SCT k) Base) Base) end.
Lemma scott_typed_any G n : has_type G (scott n) (SCT n).
Proof.
  revert G; induction n as [|k IH]; intros G; cbn [scott SCT]; apply T_abs, T_abs; [apply T_var; [lia|reflexivity]|].
  eapply T_app; [apply T_var; [lia|reflexivity]|apply IH].
Qed.
Lemma scott_typed_S G Z R k : has_type G (scott (S k)) (Arr Z (Arr (Arr (SCT k) R) R)).
Proof. cbn [scott]. apply T_abs, T_abs. eapply T_app; [apply T_var; [lia|reflexivity]|apply scott_typed_any]. Qed.
Lemma scott_typed_0 G Z Sx : has_type G (scott 0) (Arr Z (Arr Sx Z)).
Proof. cbn [scott]. apply T_abs, T_abs. apply T_var; [lia|reflexivity]. Qed.
Fixpoint SFT (A : ty) (n : nat) : ty :=
  match n with 0 => Arr Base (Arr Base Base) | S k => Arr (Arr (N A) (Arr (SFT A k) Base)) (Arr Base Base) end.
Lemma stumpfu_typed_any G A n : has_type G (stumpfu n) (SFT A n).
Proof.
  revert G; induction n as [|k IH]; intros G; cbn [stumpfu SFT]; apply T_abs, T_abs; [apply T_var; [lia|reflexivity]|].
  eapply T_app; [eapply T_app; [apply T_var; [lia|reflexivity]|apply church_typed]|apply IH].
Qed.
Lemma stumpfu_typed_S G A Z R k : has_type G (stumpfu (S k)) (Arr (Arr (N A) (Arr (SFT A k) R)) (Arr Z R)).
Proof.
  cbn [stumpfu]. apply T_abs, T_abs.
  eapply T_app; [eapply T_app; [apply T_var; [lia|reflexivity]|apply church_typed]|apply stumpfu_typed_any].
Qed.
Lemma stumpfu_typed_0 G F Z : has_type G (stumpfu 0) (Arr F (Arr Z Z)).
Proof. cbn [stumpfu]. apply T_abs, T_abs. apply T_var; [lia|reflexivity]. Qed.

Ltac tc3 := repeat first [ apply church_typed | apply binary_typed | apply scott_typed_S | apply scott_typed_0
                         | apply stumpfu_typed_S | apply stumpfu_typed_0 | apply scott_typed_any | apply stumpfu_typed_any
                         | eapply T_abs | eapply T_app | eapply T_var; [lia | reflexivity] | apply T_ud ].
Ltac sn_by c := match goal with |- sn ?t =>
  let T := fresh "T" in assert (T : exists A, has_type [] t A) by (eexists; unfold c; tc3);
  destruct T as [? T]; eapply typed_sn; exact T end.

Theorem othernum_typed_returns o n : full o ->
  returns o (App lc_num_binary_shl1 (binary n)) (binary (2 * n + 1)) /\
  (0 < n -> returns o (App lc_num_binary_shl0 (binary n)) (binary (2 * n))) /\
  returns o (App lc_num_binary_lsb (binary n)) (bool_t (Nat.even n)) /\
  returns o (App lc_num_binary_is_zero (binary n)) (bool_t (n =? 0)) /\
  returns o (App lc_num_scott_succ (scott n)) (scott (S n)) /\
  returns o (App lc_num_scott_pred (scott n)) (scott (pred n)) /\
  returns o (App lc_num_scott_is_zero (scott n)) (bool_t (n =? 0)) /\
  returns o (App lc_num_stumpfu_pred (stumpfu n)) (stumpfu (pred n)) /\
  returns o (App lc_num_stumpfu_is_zero (stumpfu n)) (bool_t (n =? 0)).
Proof.
  intros F. repeat split; try intros Hn; apply (sn_returns o); auto;
    try first [apply binary_nf | apply scott_nf | apply stumpfu_nf | apply bool_nf].
  - sn_by lc_num_binary_shl1. - apply binary_shl1_num.
  - sn_by lc_num_binary_shl0. - apply binary_shl0_pos; auto.
  - sn_by lc_num_binary_lsb. - apply binary_lsb_num.
  - sn_by lc_num_binary_is_zero. - apply binary_is_zero_num.
  - destruct n; sn_by lc_num_scott_succ. - apply scott_succ.
  - destruct n; sn_by lc_num_scott_pred. - apply scott_pred.
  - destruct n; sn_by lc_num_scott_is_zero. - apply scott_is_zero.
  - destruct n; sn_by lc_num_stumpfu_pred. - apply stumpfu_pred.
  - destruct n; sn_by lc_num_stumpfu_is_zero. - apply stumpfu_is_zero.
  Unshelve. all: exact Base.
Qed.
