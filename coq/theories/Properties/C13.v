(** C13 — Church arithmetic and comparisons compute the arithmetic of the naturals.

    What is proved here, on the GENERATED constants of src/data/num/church.rs:
    (1) soundness for every order and all arguments: whatever a normalising order returns is the
        normal form, so if the expected numeral is reachable it is what NOR/HNO/APP/HAP return;
    (2) NOR finds every reachable numeral (C07);
    (3) BOUNDED (the bound is in each statement): on the grid m, n <= 3 (unary: <= 5, fac <= 3) the
        model of reduce returns the encoding of the expected result under NOR, HNO, HAP and (for the
        operations defined without a fixed-point combinator) APP.
    The unbounded convertibility op ⌜m⌝ ⌜n⌝ ->* ⌜f m n⌝ is proved in Proofs/ChurchArith.v for the
    operations listed in C13_forall; for the others it is the stated gap, covered by (3) and by the
    correspondence/oracle runs on a larger grid. *)
From LC Require Import Spec.Encodings Spec.Confluence Model.Reduction Gen.Terms
  Proofs.Sound Proofs.ReduceProps Proofs.Normalise Proofs.Grids.

Theorem C13_sound : forall o fuel t v u c, (o = NOR \/ o = HNO \/ o = APP \/ o = HAP) ->
  red t v -> nfb v = true -> reduce_m fuel o 0 t = Some (u, c) -> u = v.
Proof.
  intros o fuel t v u c Ho R N H.
  pose proof (reduce_stops_normal _ _ _ _ _ _ H (or_introl eq_refl)) as Nu.
  rewrite (nf_of_normalising _ Ho) in Nu.
  apply reduce_steps, steps_star in H.
  eapply nf_unique; eauto; apply nfb_nf; auto.
Qed.

Theorem C13_nor_finds : forall t v, red t v -> nfb v = true -> exists fuel c, reduce_m fuel NOR 0 t = Some (v, c).
Proof. exact nor_normalises. Qed.

Theorem C13_bounded_grid : forallb (fun b => b) church_grid = true /\ forallb (fun b => b) church_div_grid = true.
Proof. split; [exact church_grid_ok|exact church_div_grid_ok]. Qed.

(** what one entry of the grid means, e.g. addition *)
Theorem C13_bounded_add : forall o m n, In o [NOR; HNO; HAP; APP] -> m <= 3 -> n <= 3 ->
  exists c, reduce_m FUEL o 0 (App (App lc_num_church_add (church m)) (church n)) = Some (church (m + n), c).
Proof.
  apply (grid2_sound orders_all 3 lc_num_church_add church (fun m n => church (m + n))).
  vm_compute. reflexivity.
Qed.

Print Assumptions C13_sound.
Print Assumptions C13_nor_finds.
Print Assumptions C13_bounded_grid.
Print Assumptions C13_bounded_add.
