(** * A certified evaluator: leftmost-outermost iteration, sound for beta reduction.
      Used to establish reductions between concrete (possibly open) terms by computation. *)
From LC Require Export Spec.Strategies Spec.ParSubst.

Lemma step_cbn_sound : forall t u, step_cbn t = Some u -> step t u.
Proof.
  induction t as [i|b IH|l IHl r IHr]; intros u H; simpl in H; try discriminate.
  destruct (step_cbn l) eqn:E.
  - inversion H; subst. constructor; auto.
  - destruct l; try discriminate. inversion H; subst. constructor.
Qed.

Lemma step_nor_sound : forall t u, step_nor t = Some u -> step t u.
Proof.
  induction t as [i|b IH|l IHl r IHr]; intros u H; simpl in H; try discriminate.
  - destruct (step_nor b) eqn:E; inversion H; subst. constructor; auto.
  - destruct (step_cbn l) eqn:E.
    + inversion H; subst. constructor. apply step_cbn_sound; auto.
    + destruct l as [j|lb|l1 l2].
      * simpl in H. destruct (step_nor r) eqn:Er; inversion H; subst. constructor; auto.
      * inversion H; subst. constructor.
      * destruct (step_nor (App l1 l2)) eqn:El.
        -- inversion H; subst. constructor; auto.
        -- destruct (step_nor r) eqn:Er; inversion H; subst. constructor; auto.
Qed.

(** iterate until stuck or out of fuel *)
Fixpoint nor_eval (fuel : nat) (t : term) : term :=
  match fuel with
  | 0 => t
  | S f => match step_nor t with Some u => nor_eval f u | None => t end
  end.

Lemma nor_eval_red fuel t : red t (nor_eval fuel t).
Proof.
  revert t; induction fuel; intros t; simpl; [constructor|].
  destruct (step_nor t) eqn:E; [|constructor].
  econstructor; [apply step_nor_sound; eauto|auto].
Qed.

Lemma by_eval fuel t u : nor_eval fuel t = u -> red t u.
Proof. intros <-. apply nor_eval_red. Qed.

(** two terms with a common evaluation result are convertible *)
Lemma by_eval2 f1 f2 t u : nor_eval f1 t = nor_eval f2 u -> exists w, red t w /\ red u w.
Proof. intros E. exists (nor_eval f1 t). split; [apply nor_eval_red|rewrite E; apply nor_eval_red]. Qed.

(** instantiation of an open law *)
Lemma instantiate ps t u : red t u -> red (inst (payloads ps) t) (inst (payloads ps) u).
Proof. apply red_inst. Qed.
