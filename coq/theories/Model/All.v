(** Everything the extraction needs (build target of the check driver). *)
From LC Require Export Spec.Positions Spec.Predicates Spec.Grammar Spec.Printing Spec.Confluence Spec.Standard
  Spec.Encodings Model.Reduction Model.TermOps Model.Parser Model.Display Model.Convert Gen.Terms.
