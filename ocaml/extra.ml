(* parser / printer / data-encoding suites *)
open Lc_model
open Common

let rec pos_of_int (n : int) : positive =
  if n = 1 then XH else if n land 1 = 0 then XO (pos_of_int (n lsr 1)) else XI (pos_of_int (n lsr 1))
let n_of_int (n : int) : n = if n = 0 then N0 else Npos (pos_of_int n)
let rec int_of_pos = function XH -> 1 | XO p -> 2 * int_of_pos p | XI p -> 2 * int_of_pos p + 1
let int_of_n = function N0 -> 0 | Npos p -> int_of_pos p

(* "code:flags:digit" *)
let parse_chars (s : string) : cchar list =
  List.filter_map (fun x ->
      if x = "" then None else
        match String.split_on_char ':' x with
        | [c; f; d] ->
            let f = int_of_string f and d = int_of_string d in
            Some { code = n_of_int (int_of_string c); is_alphabetic = f land 1 <> 0; is_alphanumeric = f land 2 <> 0;
                   is_whitespace = f land 4 <> 0; to_digit16 = (if d < 0 then None else Some (nat_of_int d)) }
        | _ -> failwith "char field") (String.split_on_char ' ' s)

let codes_of_field (s : string) : int list =
  List.filter_map (fun x -> if x = "" then None else
                      match String.split_on_char ':' x with c :: _ -> Some (int_of_string c) | _ -> None)
    (String.split_on_char ' ' s)

let show_parse = function
  | Inr t -> "ok " ^ ser t
  | Inl (InvalidCharacter (i, c)) -> Printf.sprintf "err IC %d %d" (int_of_nat i) (int_of_n c)
  | Inl InvalidExpression -> "err IE"
  | Inl EmptyExpression -> "err EE"

let is_prefix p s = String.length s >= String.length p && String.sub s 0 (String.length p) = p

(* the std classification of the characters the printers emit must be what Spec.Printing.classify says *)
let check_classify (chars : cchar list) line =
  List.iter (fun (c : cchar) ->
      let k = classify c.code in
      if k.is_alphabetic <> c.is_alphabetic || k.is_alphanumeric <> c.is_alphanumeric
         || k.is_whitespace <> c.is_whitespace || k.to_digit16 <> c.to_digit16 then
        fail "corr:classify" (Printf.sprintf "std and Spec.Printing.classify differ on code %d" (int_of_n c.code)) line) chars

let do_parse f line =
  match f with
  | [nota; chars; res] ->
      let classic = (nota = "C") in
      let cs = parse_chars chars in
      if is_prefix "panic" res then fail "oracle:C09:panic" "parse panicked" line
      else begin
        let m = show_parse (parse cs (if classic then Classic else DeBruijn)) in
        if m <> res then fail "corr:parse" ("model=" ^ m) line;
        (match ref_parse classic cs with
         | RefOk t ->
             let e = "ok " ^ ser t in
             if res <> e then fail "oracle:C09:reference-parse" ("the reference grammar accepts this input as " ^ ser t) line;
             note_nontrivial ("parse " ^ nota ^ chars)
         | RefBadStart (i, c) ->
             let e = Printf.sprintf "err IC %d %d" (int_of_nat i) (int_of_n c) in
             if res <> e then fail "oracle:C09:invalid-character" ("expected " ^ e) line;
             bump counts "parse-badchar"
         | RefErr ->
             if not (is_prefix "err" res) then fail "oracle:C09:accepts-ill-formed" "the reference grammar rejects this input" line;
             bump counts "parse-illformed");
        if is_prefix "ok" res then (bump counts "parse-ok"; sample line)
      end
  | _ -> fail "format" "parse" line

let do_same f line =
  match f with
  | [_; _; _; r0; r1] ->
      if r0 <> r1 && not (is_prefix "err" r0 && is_prefix "err" r1) then
        fail "oracle:C09:rendering-changes-result" "whitespace / glyph / redundant parentheses changed the result" line
  | _ -> fail "format" "same" line

let lam_of glyph = n_of_int (int_of_string glyph)

let do_display f line =
  match f with
  | [glyph; ts; chars; res] when chars <> "panic" ->
      let t = parse_term ts in
      let lam = lam_of glyph in
      let cs = parse_chars chars in
      check_classify cs line;
      let got = codes_of_field chars in
      let model = List.map int_of_n (display lam t) in
      if model <> got then fail "corr:display" "model Display differs" line;
      let refp = List.map int_of_n (ref_print_cla lam t) in
      if refp <> got then fail "oracle:C10:format" "Display differs from the reference rendering" line;
      if (if !backslash then 92 else 955) <> int_of_string glyph then fail "oracle:C10:glyph" "LAMBDA does not follow the backslash_lambda feature" line;
      if not (has_ud t) then begin
        let e = "ok " ^ ser (canon t) in
        if res <> e then fail "oracle:C10:roundtrip" ("expected " ^ e) line;
        (* model parser on the model's own output *)
        let m = show_parse (parse (List.map classify (display lam t)) Classic) in
        if m <> e then fail "corr:display-roundtrip-model" ("model parse of model display = " ^ m) line
      end;
      note_nontrivial ("display " ^ ts); sample line
  | _ -> fail "oracle:C10:panic" "Display panicked" line

let do_debug f line =
  match f with
  | [glyph; ts; chars; res] when chars <> "panic" ->
      let t = parse_term ts in
      let lam = lam_of glyph in
      let cs = parse_chars chars in
      check_classify cs line;
      let got = codes_of_field chars in
      let model = List.map int_of_n (debug lam t) in
      if model <> got then fail "corr:debug" "model Debug differs" line;
      if (if !backslash then 92 else 955) <> int_of_string glyph then fail "oracle:C11:glyph" "LAMBDA does not follow the backslash_lambda feature" line;
      if indices_in (nat_of_int 1) (nat_of_int 15) t then begin
        let refp = List.map int_of_n (ref_print_dbr lam t) in
        if refp <> got then fail "oracle:C11:format" "Debug differs from the reference rendering" line;
        let e = "ok " ^ ser t in
        if res <> e then fail "oracle:C11:roundtrip" ("expected " ^ e) line;
        note_nontrivial ("debug " ^ ts)
      end;
      sample line
  | _ -> fail "oracle:C11:panic" "Debug panicked" line

let do_display_shift f line =
  match f with
  | [_; ts; res] ->
      let t = parse_term ts in
      let e = "ok " ^ ser (canon t) in
      if res <> e then fail "oracle:C10:roundtrip-large-index" ("free indices shifted far away: expected " ^ e) line
  | _ -> fail "format" "display-shift" line

let dispatch (f : string list) (line : string) =
  match f with
  | "display-shift" :: r -> bump counts "display-shift"; do_display_shift r line
  | "parse" :: r -> bump counts "parse"; do_parse r line
  | "same" :: r -> bump counts "same"; do_same r line
  | "deep" :: [d; ok] -> bump counts ("deep-" ^ d ^ "-" ^ ok)
  | "display" :: r -> bump counts "display"; do_display r line
  | "debug" :: r -> bump counts "debug"; do_debug r line
  | _ -> fail "format" "unknown line kind" line
