(* suites added later (parser, printer, data encodings) plug in here *)
let dispatch fail _bump _counts _note _sample (_f : string list) (line : string) =
  fail "format" "unknown line kind" line
