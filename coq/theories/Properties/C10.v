(** C10 — Classic-notation Display is unambiguous: parsing it back yields the same term *)
From LC Require Import Spec.Printing Model.Parser Model.Display Proofs.Printing Proofs.RoundTripCla Proofs.Base26 Gen.PrintSrc Proofs.PrintSrcTie.

(** for every term without UD (any size, any binder depth — names of 1, 2, 3, … letters), under
    both glyphs: the model of the parser applied to the model's Display output returns the term
    with its free variables renumbered in order of first appearance ... *)
Theorem C10_roundtrip : forall lam t, (lam = 955%N \/ lam = 92%N) -> has_ud t = false ->
  parse (map classify (display lam t)) Classic = inr (canon t).
Proof. exact display_roundtrip. Qed.

(** ... which is the term itself when it is closed *)
Theorem C10_closed : forall t, closed t = true -> canon t = t.
Proof. exact canon_closed. Qed.

(** the documented format: binders named by nesting depth, free variables after all binder names,
    single spaces, minimal parentheses, the configured glyph *)
Theorem C10_format : forall lam t, display lam t = ref_print_cla lam t.
Proof. exact display_format. Qed.

(** names are the bijective base-26 numerals: non-empty lower-case words, distinct for distinct numbers *)
Theorem C10_names : forall n, base26_encode n = b26 n.
Proof. exact base26_encode_b26. Qed.
Theorem C10_names_injective : forall a b, b26 a = b26 b -> a = b.
Proof. exact b26_inj. Qed.

Example C10_example_names : b26 0 = [97%N] /\ b26 25 = [122%N] /\ b26 26 = [97; 97]%N /\ b26 701 = [122; 122]%N /\ b26 702 = [97; 97; 97]%N.
Proof. repeat split; vm_compute; reflexivity. Qed.

(** The same statements about the printer REGENERATED from src/term.rs on every run (Gen/PrintSrc.v,
    lib/trans_print.py: base26_encode, show_precedence_cla, parenthesize_if, the Display impl, max_depth). *)
Theorem C10_src_roundtrip : forall lam t, (lam = 955%N \/ lam = 92%N) -> has_ud t = false ->
  parse (map classify (PSrc.display lam t)) Classic = inr (canon t).
Proof. exact src_display_roundtrip. Qed.
Theorem C10_src_format : forall lam t, PSrc.display lam t = ref_print_cla lam t.
Proof. exact src_display_format. Qed.
Theorem C10_src_names : forall n, PSrc.base26_encode n = b26 n.
Proof. exact src_names. Qed.

Print Assumptions C10_roundtrip.
Print Assumptions C10_closed.
Print Assumptions C10_format.
Print Assumptions C10_names.
Print Assumptions C10_names_injective.
Print Assumptions C10_src_roundtrip.
Print Assumptions C10_src_format.
Print Assumptions C10_src_names.
