"""Regeneration of coq/theories/Gen/Terms.v (and the OCaml lookup table) from the crate in /repo.

The translator (harness/src/bin/dump_terms.rs) calls every exported term-valued function; this module
(1) runs it, (2) rewrites Terms.v only when its content changed (so unchanged sources cost nothing),
(3) checks that the translator's enumeration covers every `pub fn .. -> Term` of the data modules and
combinators.rs, so that a new or renamed function is reported as uncovered, never silently skipped."""
import os
import re
import subprocess

SRC = "/repo/src"
FILES = ["combinators.rs", "data/boolean.rs", "data/pair.rs", "data/option.rs", "data/result.rs",
         "data/num/church.rs", "data/num/scott.rs", "data/num/parigot.rs", "data/num/stumpfu.rs",
         "data/num/binary.rs", "data/num/signed.rs",
         "data/list/pair.rs", "data/list/church.rs", "data/list/scott.rs", "data/list/parigot.rs"]


def source_functions():
    out = set()
    for f in FILES:
        p = os.path.join(SRC, f)
        if not os.path.exists(p):
            continue
        txt = open(p, encoding="utf-8").read()
        txt = re.sub(r"/\*.*?\*/", "", txt, flags=re.S)
        txt = re.sub(r"//[^\n]*", "", txt)
        for m in re.finditer(r"pub\s+fn\s+(\w+)\s*\([^)]*\)\s*->\s*Term", txt):
            out.add((f, m.group(1)))
    return out


def write_if_changed(path, content):
    if os.path.exists(path) and open(path, encoding="utf-8").read() == content:
        return False
    os.makedirs(os.path.dirname(path), exist_ok=True)
    with open(path, "w", encoding="utf-8") as fh:
        fh.write(content)
    return True


def regenerate(bindir, coq_dir, cache_dir):
    exe = os.path.join(bindir, "dump_terms")
    if not os.path.exists(exe):
        return False, False, "translator binary missing: " + exe
    try:
        coq = subprocess.run([exe, "coq"], stdout=subprocess.PIPE, stderr=subprocess.PIPE, timeout=120)
        ocaml = subprocess.run([exe, "ocaml"], stdout=subprocess.PIPE, stderr=subprocess.PIPE, timeout=120)
        lst = subprocess.run([exe, "list"], stdout=subprocess.PIPE, stderr=subprocess.PIPE, timeout=120)
    except Exception as e:  # noqa
        return False, False, "translator failed to run: %s" % e
    if coq.returncode != 0 or ocaml.returncode != 0 or lst.returncode != 0:
        return False, False, "translator crashed: " + coq.stderr.decode("utf-8", "replace")[-400:]
    changed = write_if_changed(os.path.join(coq_dir, "theories", "Gen", "Terms.v"), coq.stdout.decode("utf-8"))
    write_if_changed(os.path.join(os.path.dirname(coq_dir), "ocaml", "gen_table.ml"), ocaml.stdout.decode("utf-8"))
    covered = set()
    for line in lst.stdout.decode("utf-8").split("\n"):
        if "\t" in line:
            f, n = line.split("\t")
            covered.add((f, n))
    missing = source_functions() - covered
    if missing:
        return False, changed, "exported term functions not covered by the translator: %s" % sorted(missing)
    return True, changed, "ok"


def regenerate_reducer(coq_dir):
    """Gen/ReductionSrc.v from /repo/src/reduction.rs (lib/trans_reduction.py).  When the source is outside the
    translated idiom the last good model (coq/baseline/ReductionSrc.v) is restored, so that the search for a
    failing input can still run the implementation against it; the failure is returned as a broken tie."""
    import trans_reduction
    dst = os.path.join(coq_dir, "theories", "Gen", "ReductionSrc.v")
    base = os.path.join(coq_dir, "baseline", "ReductionSrc.v")
    try:
        text = trans_reduction.translate(open(os.path.join(SRC, "reduction.rs"), encoding="utf-8").read())
    except trans_reduction.TransError as e:
        write_if_changed(dst, open(base, encoding="utf-8").read())
        return False, False, "src/reduction.rs is outside the translated idiom: %s" % e
    except Exception as e:  # noqa
        write_if_changed(dst, open(base, encoding="utf-8").read())
        return False, False, "translator crashed on src/reduction.rs: %r" % e
    changed = write_if_changed(dst, text)
    return True, changed, "ok"


def regenerate_termsrc(coq_dir):
    """Gen/TermSrc.v from /repo/src/term.rs (lib/trans_term.py): the accessors and predicates of `impl Term`.
    Same policy as for the reducer: outside the translated idiom the last good model is restored and the tie of
    C18/C19 rests on the correspondence run alone."""
    import trans_term
    dst = os.path.join(coq_dir, "theories", "Gen", "TermSrc.v")
    base = os.path.join(coq_dir, "baseline", "TermSrc.v")
    try:
        text = trans_term.translate(open(os.path.join(SRC, "term.rs"), encoding="utf-8").read())
    except trans_term.TransError as e:
        write_if_changed(dst, open(base, encoding="utf-8").read())
        return False, False, "src/term.rs is outside the translated idiom: %s" % e
    except Exception as e:  # noqa
        write_if_changed(dst, open(base, encoding="utf-8").read())
        return False, False, "translator crashed on src/term.rs: %r" % e
    changed = write_if_changed(dst, text)
    return True, changed, "ok"


def regenerate_printsrc(coq_dir):
    """Gen/PrintSrc.v from /repo/src/term.rs (lib/trans_print.py): base26_encode, show_precedence_cla/dbr,
    parenthesize_if, the Display and Debug impls.  Same fallback policy as the other two source translators."""
    import trans_print
    dst = os.path.join(coq_dir, "theories", "Gen", "PrintSrc.v")
    base = os.path.join(coq_dir, "baseline", "PrintSrc.v")
    try:
        text = trans_print.translate(open(os.path.join(SRC, "term.rs"), encoding="utf-8").read())
    except trans_print.TransError as e:
        write_if_changed(dst, open(base, encoding="utf-8").read())
        return False, False, "the printers of src/term.rs are outside the translated idiom: %s" % e
    except Exception as e:  # noqa
        write_if_changed(dst, open(base, encoding="utf-8").read())
        return False, False, "translator crashed on the printers of src/term.rs: %r" % e
    changed = write_if_changed(dst, text)
    return True, changed, "ok"


def regenerate_convertsrc(coq_dir):
    """Gen/ConvertSrc.v from /repo/src/data/num/convert.rs (lib/trans_convert.py): into_church/scott/parigot/stumpfu."""
    import trans_convert
    dst = os.path.join(coq_dir, "theories", "Gen", "ConvertSrc.v")
    base = os.path.join(coq_dir, "baseline", "ConvertSrc.v")
    try:
        text = trans_convert.translate(open(os.path.join(SRC, "data", "num", "convert.rs"), encoding="utf-8").read())
    except trans_convert.TransError as e:
        write_if_changed(dst, open(base, encoding="utf-8").read())
        return False, False, "src/data/num/convert.rs is outside the translated idiom: %s" % e
    except Exception as e:  # noqa
        write_if_changed(dst, open(base, encoding="utf-8").read())
        return False, False, "translator crashed on src/data/num/convert.rs: %r" % e
    changed = write_if_changed(dst, text)
    return True, changed, "ok"


if __name__ == "__main__":
    import sys
    root = os.path.dirname(os.path.dirname(os.path.abspath(__file__)))
    print(regenerate_reducer(os.path.join(root, "coq")))
    print(regenerate_termsrc(os.path.join(root, "coq")))
    print(regenerate_printsrc(os.path.join(root, "coq")))
    print(regenerate_convertsrc(os.path.join(root, "coq")))
    print(regenerate(sys.argv[1] if len(sys.argv) > 1 else os.path.join(root, ".cache/cargo-target/release"),
                     os.path.join(root, "coq"), os.path.join(root, ".cache")))
