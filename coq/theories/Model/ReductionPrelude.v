(** * Hand-written prelude of the reducer model: the result monad of the fuelled, counter-threading
      traversals and the error type.  The functions themselves are GENERATED from src/reduction.rs
      (Gen/ReductionSrc.v, by lib/trans_reduction.py) on every run. *)
From LC Require Export Spec.Strategies.

Inductive term_error := NotVar | NotAbs | NotApp.

Definition R := option (term * nat).
Definition bind (x : R) (k : term -> nat -> R) : R :=
  match x with Some (t, c) => k t c | None => None end.
Definition ret (t : term) (c : nat) : R := Some (t, c).

