//! Data-encoding suites (C12-C17): applies the crate's encoded operations to encoded arguments, reduces
//! them with the crate's reducer and prints inputs (as abstract values), the natively computed expected
//! value, and the term the implementation produced.  Value syntax (parsed by ocaml/extra.ml):
//!   n:<enc>:<k>  b:0|1  p(<v>,<v>)  none  some(<v>)  ok(<v>)  err(<v>)  l:<lenc>[<v>;...]  t:<raw term>
//!   s:<enc>:<p>,<n>   (a signed number as the pair of numerals (p, n))
use lambda_calculus::combinators as cb;
use lambda_calculus::data::boolean as bo;
use lambda_calculus::data::list::{church as lc, pair as lp, parigot as lpa, scott as ls};
use lambda_calculus::data::num::{binary as nb, church as nc, parigot as np, scott as ns, signed as sg, stumpfu as nf};
use lambda_calculus::data::{option as op, pair as pa, result as re};
use lambda_calculus::reduction::Order;
use lambda_calculus::*;
use lcverif_harness::*;
use std::io::Write;
use std::panic::{catch_unwind, AssertUnwindSafe};

#[derive(Clone, Debug)]
enum V {
    N(&'static str, usize),
    B(bool),
    P(Box<V>, Box<V>),
    O(Option<Box<V>>),
    R(Result<Box<V>, Box<V>>),
    L(&'static str, Vec<V>),
    S(&'static str, usize, usize),
    T(Term),
}
fn vs(v: &V) -> String {
    match v {
        V::N(e, k) => format!("n:{}:{}", e, k),
        V::B(b) => format!("b:{}", *b as u8),
        V::P(a, b) => format!("p({},{})", vs(a), vs(b)),
        V::O(None) => "none".into(),
        V::O(Some(x)) => format!("some({})", vs(x)),
        V::R(Ok(x)) => format!("ok({})", vs(x)),
        V::R(Err(x)) => format!("err({})", vs(x)),
        V::L(e, xs) => format!("l:{}[{}]", e, xs.iter().map(vs).collect::<Vec<_>>().join(";")),
        V::S(e, p, n) => format!("s:{}:{},{}", e, p, n),
        V::T(t) => format!("t:{}", ser(t)),
    }
}
/// encoding of a value by the crate's own conversion functions
fn enc(v: &V) -> Term {
    match v {
        V::N("church", k) => k.into_church(),
        V::N("scott", k) => k.into_scott(),
        V::N("parigot", k) => k.into_parigot(),
        V::N("stumpfu", k) => k.into_stumpfu(),
        V::N("binary", k) => k.into_binary(),
        V::N(_, _) => unreachable!(),
        V::B(b) => (*b).into(),
        V::P(a, b) => (enc(a), enc(b)).into(),
        V::O(None) => { let x: Option<Term> = None; x.into() }
        V::O(Some(x)) => Some(enc(x)).into(),
        V::R(Ok(x)) => { let r: Result<Term, Term> = Ok(enc(x)); r.into() }
        V::R(Err(x)) => { let r: Result<Term, Term> = Err(enc(x)); r.into() }
        V::L("pair", xs) => xs.iter().map(enc).collect::<Vec<Term>>().into_pair_list(),
        V::L("church", xs) => IntoChurchList::into_church(xs.iter().map(enc).collect::<Vec<Term>>()),
        V::L("scott", xs) => IntoScottList::into_scott(xs.iter().map(enc).collect::<Vec<Term>>()),
        V::L("parigot", xs) => IntoParigotList::into_parigot(xs.iter().map(enc).collect::<Vec<Term>>()),
        V::L(_, _) => unreachable!(),
        V::S(e, p, n) => (enc(&V::N(e, *p)), enc(&V::N(e, *n))).into(),
        V::T(t) => t.clone(),
    }
}

struct Out {
    w: Box<dyn Write + Send>,
}

/// seconds since start at which a reduction was last (re)started; a watchdog turns a call that never returns into a HANG report
static LAST_PROGRESS: std::sync::atomic::AtomicU64 = std::sync::atomic::AtomicU64::new(0);
static CURRENT: std::sync::Mutex<String> = std::sync::Mutex::new(String::new());
fn tick(desc: String) {
    let now = START.get_or_init(std::time::Instant::now).elapsed().as_secs();
    LAST_PROGRESS.store(now, std::sync::atomic::Ordering::SeqCst);
    if let Ok(mut c) = CURRENT.lock() {
        *c = desc;
    }
}
static START: std::sync::OnceLock<std::time::Instant> = std::sync::OnceLock::new();

/// run `jobs` concurrently (each on its own large-stack thread, writing to its own buffer) and emit their output in order
fn parallel<F>(out: &mut Out, jobs: Vec<F>)
where
    F: FnOnce(&mut Out) + Send,
{
    let bufs: Vec<Vec<u8>> = std::thread::scope(|s| {
        let hs: Vec<_> = jobs
            .into_iter()
            .map(|job| {
                std::thread::Builder::new()
                    .stack_size(4 << 30)
                    .spawn_scoped(s, move || {
                        let shared = std::sync::Arc::new(std::sync::Mutex::new(Vec::<u8>::new()));
                        struct W(std::sync::Arc<std::sync::Mutex<Vec<u8>>>);
                        impl Write for W {
                            fn write(&mut self, b: &[u8]) -> std::io::Result<usize> {
                                self.0.lock().unwrap().extend_from_slice(b);
                                Ok(b.len())
                            }
                            fn flush(&mut self) -> std::io::Result<()> {
                                Ok(())
                            }
                        }
                        let mut o = Out { w: Box::new(W(shared.clone())) };
                        job(&mut o);
                        drop(o);
                        let v = shared.lock().unwrap().clone();
                        v
                    })
                    .unwrap()
            })
            .collect();
        hs.into_iter().map(|h| h.join().unwrap()).collect()
    });
    for b in bufs {
        out.w.write_all(&b).unwrap();
    }
}
const LIMIT: usize = 300_000;

/// reduce `op args` under each order; one line per run
fn run(out: &mut Out, prop: &str, name: &str, cterm: &Term, args: &[V], expected: &V, orders: &[Order], cmp: &str) {
    let mut t = cterm.clone();
    for a in args {
        t = app(t, enc(a));
    }
    for o in orders {
        let mut u = t.clone();
        eprintln!("CUR op {} {} {}", name, order_name(*o), args.iter().map(vs).collect::<Vec<_>>().join(" "));
        tick(format!("op {} {} {}", name, order_name(*o), args.iter().map(vs).collect::<Vec<_>>().join(" ")));
        // reduce in chunks so that a diverging computation is cut off by its size, not by memory exhaustion
        const CHUNK: usize = 2000;
        let mut total = 0usize;
        let (res, c) = loop {
            match catch_unwind(AssertUnwindSafe(|| u.reduce(*o, CHUNK))) {
                Ok(c) => {
                    tick(format!("op {} {} {} (after {} steps)", name, order_name(*o), args.iter().map(vs).collect::<Vec<_>>().join(" "), total + c));
                    total += c;
                    if c < CHUNK {
                        break (ser(&u), total);
                    }
                    if total >= LIMIT || size(&u) > 6_000_000 {
                        break ("LIMIT".to_string(), total);
                    }
                }
                Err(_) => break ("PANIC".to_string(), 0),
            }
        };
        writeln!(
            out.w,
            "op\t{}\t{}\t{}\t{}\t{}\t{}\t{}\t{}",
            prop,
            name,
            order_name(*o),
            args.iter().map(vs).collect::<Vec<_>>().join(" "),
            vs(expected),
            cmp,
            res,
            c
        )
        .unwrap();
    }
}

fn n(e: &'static str, k: usize) -> V {
    V::N(e, k)
}

/// one UNLIMITED call (limit 0) on a computation of well over 10 000 contractions
fn run_unlimited(out: &mut Out, prop: &str, name: &str, cterm: &Term, args: &[V], expected: &V, orders: &[Order]) {
    let mut t = cterm.clone();
    for a in args {
        t = app(t, enc(a));
    }
    for o in orders {
        let mut u = t.clone();
        eprintln!("CUR op0 {} {} {}", name, order_name(*o), args.iter().map(vs).collect::<Vec<_>>().join(" "));
        tick(format!("UNLIMITED reduce({}, 0) of {} {}", order_name(*o), name, args.iter().map(vs).collect::<Vec<_>>().join(" ")));
        let (res, c) = match catch_unwind(AssertUnwindSafe(|| u.reduce(*o, 0))) {
            Ok(c) => (ser(&u), c),
            Err(_) => ("PANIC".to_string(), 0),
        };
        writeln!(out.w, "op\t{}\t{}\t{}\t{}\t{}\teq\t{}\t{}", prop, name, order_name(*o),
                 args.iter().map(vs).collect::<Vec<_>>().join(" "), vs(expected), res, c).unwrap();
    }
}

fn suite_church(out: &mut Out, thorough: bool) {
    {
        let c = |k| n("church", k);
        run_unlimited(out, "C13", "num_church_fac", &nc::fac(), &[c(7)], &c(5040), &[NOR, HNO]);
        run_unlimited(out, "C13", "num_church_pow", &nc::pow(), &[c(2), c(13)], &c(8192), &[NOR, HNO, HAP]);
        run_unlimited(out, "C13", "num_church_rem", &nc::rem(), &[c(24), c(1)], &c(0), &[NOR, HNO, HAP]);
    }
    let all = [NOR, HNO, HAP, APP];
    let noapp = [NOR, HNO, HAP];
    let m = if thorough { 7 } else { 5 };
    let c = |k| n("church", k);
    let un: Vec<(&str, Term, Box<dyn Fn(usize) -> V>, &[Order], usize)> = vec![
        ("num_church_succ", nc::succ(), Box::new(move |a| c(a + 1)), &all, m + 3),
        ("num_church_pred", nc::pred(), Box::new(move |a| c(a.saturating_sub(1))), &all, m + 3),
        ("num_church_fac", nc::fac(), Box::new(move |a| c((1..=a).product())), &all, if thorough { 5 } else { 4 }),
        ("num_church_is_zero", nc::is_zero(), Box::new(|a| V::B(a == 0)), &all, m + 3),
        ("num_church_is_even", nc::is_even(), Box::new(|a| V::B(a % 2 == 0)), &all, m + 3),
        ("num_church_is_odd", nc::is_odd(), Box::new(|a| V::B(a % 2 == 1)), &all, m + 3),
    ];
    for (name, t, f, orders, max) in un.iter() {
        for a in 0..=*max {
            run(out, "C13", name, t, &[c(a)], &f(a), orders, "eq");
        }
    }
    let bin: Vec<(&str, Term, Box<dyn Fn(usize, usize) -> Option<V>>, &[Order], usize)> = vec![
        ("num_church_add", nc::add(), Box::new(move |a, b| Some(c(a + b))), &all, m),
        ("num_church_sub", nc::sub(), Box::new(move |a, b| Some(c(a.saturating_sub(b)))), &all, m),
        ("num_church_mul", nc::mul(), Box::new(move |a, b| Some(c(a * b))), &all, m),
        ("num_church_pow", nc::pow(), Box::new(move |a, b| if a.pow(b as u32) <= 300 { Some(c(a.pow(b as u32))) } else { None }), &all, m.min(5)),
        ("num_church_min", nc::min(), Box::new(move |a, b| Some(c(a.min(b)))), &all, m),
        ("num_church_max", nc::max(), Box::new(move |a, b| Some(c(a.max(b)))), &all, m),
        ("num_church_shl", nc::shl(), Box::new(move |a, b| if b <= 4 { Some(c(a << b)) } else { None }), &all, m),
        ("num_church_shr", nc::shr(), Box::new(move |a, b| Some(c(a >> b))), &noapp, m),
        ("num_church_div", nc::div(), Box::new(move |a, b| if b > 0 { Some(V::P(Box::new(c(a / b)), Box::new(c(a % b)))) } else { None }), &noapp, m),
        ("num_church_quot", nc::quot(), Box::new(move |a, b| if b > 0 { Some(c(a / b)) } else { None }), &noapp, m),
        ("num_church_rem", nc::rem(), Box::new(move |a, b| if b > 0 { Some(c(a % b)) } else { None }), &noapp, m),
        ("num_church_lt", nc::lt(), Box::new(|a, b| Some(V::B(a < b))), &all, m),
        ("num_church_leq", nc::leq(), Box::new(|a, b| Some(V::B(a <= b))), &all, m),
        ("num_church_eq", nc::eq(), Box::new(|a, b| Some(V::B(a == b))), &all, m),
        ("num_church_neq", nc::neq(), Box::new(|a, b| Some(V::B(a != b))), &all, m),
        ("num_church_geq", nc::geq(), Box::new(|a, b| Some(V::B(a >= b))), &all, m),
        ("num_church_gt", nc::gt(), Box::new(|a, b| Some(V::B(a > b))), &all, m),
    ];
    for (name, t, f, orders, max) in bin.iter() {
        for a in 0..=*max {
            for b in 0..=*max {
                if let Some(e) = f(a, b) {
                    run(out, "C13", name, t, &[c(a), c(b)], &e, orders, "eq");
                }
            }
        }
    }
}

fn suite_othernum(out: &mut Out, thorough: bool) {
    let all = [NOR, HNO, HAP, APP];
    let lazy = [NOR, HNO];
    let m = if thorough { 6 } else { 4 };
    for (e, succ, pred, is_zero) in [
        ("scott", ns::succ(), ns::pred(), ns::is_zero()),
        ("parigot", np::succ(), np::pred(), np::is_zero()),
        ("stumpfu", nf::succ(), nf::pred(), nf::is_zero()),
    ] {
        for a in 0..=m + 3 {
            run(out, "C14", &format!("num_{}_succ", e), &succ, &[n(e, a)], &n(e, a + 1), &all, "eq");
            run(out, "C14", &format!("num_{}_pred", e), &pred, &[n(e, a)], &n(e, a.saturating_sub(1)), &all, "eq");
            run(out, "C14", &format!("num_{}_is_zero", e), &is_zero, &[n(e, a)], &V::B(a == 0), &all, "eq");
        }
    }
    let sm = if thorough { 4 } else { 3 };
    for a in 0..=m {
        for b in 0..=m {
            run(out, "C14", "num_scott_add", &ns::add(), &[n("scott", a), n("scott", b)], &n("scott", a + b), &lazy, "eq");
            run(out, "C14", "num_parigot_add", &np::add(), &[n("parigot", a), n("parigot", b)], &n("parigot", a + b), &all, "eq");
            run(out, "C14", "num_parigot_sub", &np::sub(), &[n("parigot", a), n("parigot", b)], &n("parigot", a.saturating_sub(b)), &all, "eq");
            run(out, "C14", "num_stumpfu_add", &nf::add(), &[n("stumpfu", a), n("stumpfu", b)], &n("stumpfu", a + b), &all, "eq");
            if a <= sm && b <= sm {
                run(out, "C14", "num_scott_mul", &ns::mul(), &[n("scott", a), n("scott", b)], &n("scott", a * b), &lazy, "eq");
                run(out, "C14", "num_parigot_mul", &np::mul(), &[n("parigot", a), n("parigot", b)], &n("parigot", a * b), &all, "eq");
                run(out, "C14", "num_stumpfu_mul", &nf::mul(), &[n("stumpfu", a), n("stumpfu", b)], &n("stumpfu", a * b), &all, "eq");
                if a.pow(b as u32) <= 30 {
                    run(out, "C14", "num_scott_pow", &ns::pow(), &[n("scott", a), n("scott", b)], &n("scott", a.pow(b as u32)), &lazy, "eq");
                }
            }
        }
    }
    // conversions
    for a in 0..=m + 2 {
        run(out, "C14", "num_church_to_scott", &nc::to_scott(), &[n("church", a)], &n("scott", a), &all, "eq");
        run(out, "C14", "num_church_to_parigot", &nc::to_parigot(), &[n("church", a)], &n("parigot", a), &all, "eq");
        run(out, "C14", "num_church_to_stumpfu", &nc::to_stumpfu(), &[n("church", a)], &n("stumpfu", a), &all, "eq");
        run(out, "C14", "num_scott_to_church", &ns::to_church(), &[n("scott", a)], &n("church", a), &lazy, "eq");
        run(out, "C14", "num_stumpfu_to_church", &nf::to_church(), &[n("stumpfu", a)], &n("church", a), &all, "eq");
        run(out, "C14", "num_stumpfu_to_scott", &nf::to_scott(), &[n("stumpfu", a)], &n("scott", a), &all, "eq");
        run(out, "C14", "num_stumpfu_to_parigot", &nf::to_parigot(), &[n("stumpfu", a)], &n("parigot", a), &all, "eq");
    }
    // binary: results of pred / shl0 / succ are compared after strip (leading zeroes are allowed by the docs)
    let bm = if thorough { 70 } else { 40 };
    // plus numerals around byte and word boundaries of the encoder (into_binary walks the bits of a usize; numerals beyond 2^17 are C12's N-indexed suite - the oracles here decode through unary naturals)
    let wide = [127usize, 128, 255, 256, 257, 511, 512, 1023, 4095, 4096, 65535, 65536, 65537, 131072];
    for a in (0..=bm).chain(wide.into_iter()) {
        let b = |k| n("binary", k);
        run(out, "C14", "num_binary_succ", &nb::succ(), &[b(a)], &b(a + 1), &all, "strip");
        run(out, "C14", "num_binary_pred", &nb::pred(), &[b(a)], &b(a.saturating_sub(1)), &all, "strip");
        run(out, "C14", "num_binary_shl0", &nb::shl0(), &[b(a)], &b(2 * a), &all, "strip");
        run(out, "C14", "num_binary_shl1", &nb::shl1(), &[b(a)], &b(2 * a + 1), &all, "strip");
        // the bit is returned as b0 = TRUE / b1 = FALSE
        run(out, "C14", "num_binary_lsb", &nb::lsb(), &[b(a)], &V::B(a % 2 == 0), &all, "eq");
        run(out, "C14", "num_binary_is_zero", &nb::is_zero(), &[b(a)], &V::B(a == 0), &all, "eq");
        run(out, "C14", "num_binary_strip", &nb::strip(), &[b(a)], &b(a), &all, "eq");
        // strip of a numeral with leading zeroes: shl0/pred results fed to strip must be canonical
        let padded = app(nb::pred(), app(nb::succ(), enc(&b(a))));
        run(out, "C14", "num_binary_strip", &nb::strip(), &[V::T(padded)], &b(a), &[NOR, HNO], "eq");
    }
}

fn suite_signed(out: &mut Out, thorough: bool) {
    let jobs: Vec<_> = [(Church, "church"), (Scott, "scott"), (Parigot, "parigot"), (StumpFu, "stumpfu")]
        .into_iter()
        .flat_map(|(e, en)| (0..=4usize).map(move |slice| move |o: &mut Out| signed_one(o, thorough, e, en, slice)))
        .collect();
    parallel(out, jobs);
}

/// slice 4 = the unary operations; slice p1 (0..=3) = the binary operations with that first component
fn signed_one(out: &mut Out, thorough: bool, e: Encoding, en: &'static str, slice: usize) {
    let lazy = [NOR, HNO];
    let m: usize = if thorough { 3 } else { 2 };
    let canon = |e: &'static str, z: i64| -> V { if z >= 0 { V::S(e, z as usize, 0) } else { V::S(e, 0, (-z) as usize) } };
    {
        let nm = |s: &str| format!("num_signed_{}_{}", s, en);
        for p in 0..=m + 1 {
            if slice != 4 {
                break;
            }
            run(out, "C15", &nm("to_signed"), &sg::to_signed(e), &[n(en, p)], &V::S(en, p, 0), &lazy, "eq");
            for q in 0..=m + 1 {
                let z = p as i64 - q as i64;
                run(out, "C15", &nm("simplify"), &sg::simplify(e), &[V::S(en, p, q)], &canon(en, z), &lazy, "eq");
                run(out, "C15", &nm("modulus"), &sg::modulus(e), &[V::S(en, p, q)], &n(en, z.unsigned_abs() as usize), &lazy, "eq");
                run(out, "C15", "num_signed_neg", &sg::neg(), &[V::S(en, p, q)], &V::S(en, q, p), &lazy, "eq");
            }
        }
        for p1 in 0..=m {
            if slice != p1 {
                continue;
            }
            for n1 in 0..=m {
                for p2 in 0..=m {
                    for n2 in 0..=m {
                        let (a, b) = (p1 as i64 - n1 as i64, p2 as i64 - n2 as i64);
                        let args = [V::S(en, p1, n1), V::S(en, p2, n2)];
                        run(out, "C15", &nm("add"), &sg::add(e), &args, &canon(en, a + b), &lazy, "eq");
                        run(out, "C15", &nm("sub"), &sg::sub(e), &args, &canon(en, a - b), &lazy, "eq");
                        // normal-order multiplication of large non-canonical pairs outgrows any sensible size cap
                        if p1 + n1 + p2 + n2 <= 8 {
                            run(out, "C15", &nm("mul"), &sg::mul(e), &args, &canon(en, a * b), &lazy, "eq");
                        }
                    }
                }
            }
        }
    }
}

fn lists_upto(len: usize, alphabet: usize) -> Vec<Vec<usize>> {
    let mut out = vec![vec![]];
    let mut frontier: Vec<Vec<usize>> = vec![vec![]];
    for _ in 0..len {
        let mut next = Vec::new();
        for l in &frontier {
            for a in 0..alphabet {
                let mut x = l.clone();
                x.push(a);
                next.push(x);
            }
        }
        out.extend(next.iter().cloned());
        frontier = next;
    }
    out
}

fn suite_lists(out: &mut Out, thorough: bool) {
    let ords = [NOR, HNO, HAP];
    let c = |k| n("church", k);
    let pl = |xs: &Vec<usize>| V::L("pair", xs.iter().map(|k| n("church", *k)).collect());
    // constructors / observers of the four encodings, with numerals and with free variables as payloads
    let encs: Vec<(&'static str, Term, Term, Term, Term, Term)> = vec![
        ("pair", lp::nil(), lp::cons(), lp::head(), lp::tail(), lp::is_nil()),
        ("church", lc::nil(), lc::cons(), lc::head(), lc::tail(), lc::is_nil()),
        ("scott", ls::nil(), ls::cons(), ls::head(), ls::tail(), ls::is_nil()),
        ("parigot", lpa::nil(), lpa::cons(), lpa::head(), lpa::tail(), lpa::is_nil()),
    ];
    let short = lists_upto(if thorough { 4 } else { 3 }, 3);
    for (e, nil, cons, head, tail, is_nil) in encs.iter() {
        let le = |xs: &Vec<usize>| V::L(e, xs.iter().map(|k| n("church", *k)).collect());
        let nm = |s: &str| format!("list_{}_{}", e, s);
        run(out, "C16", &nm("nil"), nil, &[], &le(&vec![]), &ords, "eq");
        for xs in &short {
            run(out, "C16", &nm("is_nil"), is_nil, &[le(xs)], &V::B(xs.is_empty()), &ords, "eq");
            if !xs.is_empty() {
                run(out, "C16", &nm("head"), head, &[le(xs)], &c(xs[0]), &ords, "eq");
                // the Church (fold) list's tail is compared with the documented normal form: the encoding of the tail
                run(out, "C16", &nm("tail"), tail, &[le(xs)], &le(&xs[1..].to_vec()), &ords, "eq");
            }
            for k in 0..2usize {
                let mut ys = vec![k];
                ys.extend(xs.iter().cloned());
                run(out, "C16", &nm("cons"), cons, &[c(k), le(xs)], &le(&ys), &ords, "eq");
            }
        }
        // symbolic laws: arbitrary (free variable) element and tail
        let x = V::T(Var(1));
        let l = V::T(Var(2));
        let consed = V::T(app!(cons.clone(), Var(1), Var(2)));
        run(out, "C16", &nm("head"), head, &[consed.clone()], &x, &[NOR, HNO], "eq");
        if *e != "church" {
            run(out, "C16", &nm("tail"), tail, &[consed.clone()], &l, &[NOR, HNO], "eq");
        }
        run(out, "C16", &nm("is_nil"), is_nil, &[consed], &V::B(false), &[NOR, HNO], "eq");
    }
    // the pair-list library
    let lists = lists_upto(if thorough { 4 } else { 3 }, if thorough { 3 } else { 2 });
    for xs in &lists {
        let len = xs.len();
        run(out, "C16", "list_pair_length", &lp::length(), &[pl(xs)], &c(len), &ords, "eq");
        run(out, "C16", "list_pair_reverse", &lp::reverse(), &[pl(xs)], &pl(&xs.iter().rev().cloned().collect()), &ords, "eq");
        if len > 0 {
            run(out, "C16", "list_pair_last", &lp::last(), &[pl(xs)], &c(xs[len - 1]), &ords, "eq");
            run(out, "C16", "list_pair_init", &lp::init(), &[pl(xs)], &pl(&xs[..len - 1].to_vec()), &ords, "eq");
        }
        for i in 0..len {
            run(out, "C16", "list_pair_index", &lp::index(), &[c(i), pl(xs)], &c(xs[i]), &ords, "eq");
        }
        for k in 0..=len + 1 {
            run(out, "C16", "list_pair_take", &lp::take(), &[c(k), pl(xs)], &pl(&xs.iter().take(k).cloned().collect()), &ords, "eq");
            run(out, "C16", "list_pair_drop", &lp::drop(), &[c(k), pl(xs)], &pl(&xs.iter().skip(k).cloned().collect()), &ords, "eq");
        }
        // higher-order functions with Church arithmetic as the function argument
        run(out, "C16", "list_pair_map", &lp::map(), &[V::T(nc::succ()), pl(xs)], &pl(&xs.iter().map(|k| k + 1).collect()), &ords, "eq");
        run(out, "C16", "list_pair_foldl", &lp::foldl(), &[V::T(nc::add()), c(1), pl(xs)], &c(1 + xs.iter().sum::<usize>()), &ords, "eq");
        run(out, "C16", "list_pair_foldl", &lp::foldl(), &[V::T(nc::sub()), c(4), pl(xs)], &c(xs.iter().fold(4usize, |acc, k| acc.saturating_sub(*k))), &ords, "eq");
        run(out, "C16", "list_pair_foldr", &lp::foldr(), &[V::T(nc::sub()), c(1), pl(xs)], &c(xs.iter().rev().fold(1usize, |acc, k| k.saturating_sub(acc))), &ords, "eq");
        run(out, "C16", "list_pair_filter", &lp::filter(), &[V::T(nc::is_zero()), pl(xs)], &pl(&xs.iter().filter(|k| **k == 0).cloned().collect()), &ords, "eq");
        run(out, "C16", "list_pair_take_while", &lp::take_while(), &[V::T(nc::is_zero()), pl(xs)], &pl(&xs.iter().take_while(|k| **k == 0).cloned().collect()), &ords, "eq");
        run(out, "C16", "list_pair_drop_while", &lp::drop_while(), &[V::T(nc::is_zero()), pl(xs)], &pl(&xs.iter().skip_while(|k| **k == 0).cloned().collect()), &ords, "eq");
        for ys in lists.iter().filter(|ys| ys.len() <= 2 || (thorough && xs.len() <= 3 && ys.len() <= 3)) {
            let mut app_ = xs.clone();
            app_.extend(ys.iter().cloned());
            run(out, "C16", "list_pair_append", &lp::append(), &[pl(xs), pl(ys)], &pl(&app_), &ords, "eq");
            let zipped = V::L("pair", xs.iter().zip(ys.iter()).map(|(a, b)| V::P(Box::new(c(*a)), Box::new(c(*b)))).collect());
            run(out, "C16", "list_pair_zip", &lp::zip(), &[pl(xs), pl(ys)], &zipped, &ords, "eq");
            run(out, "C16", "list_pair_zip_with", &lp::zip_with(), &[V::T(nc::add()), pl(xs), pl(ys)], &pl(&xs.iter().zip(ys.iter()).map(|(a, b)| a + b).collect()), &ords, "eq");
            // a non-commutative combining function: the argument order of f and the pairing of positions matter
            run(out, "C16", "list_pair_zip_with", &lp::zip_with(), &[V::T(nc::sub()), pl(xs), pl(ys)], &pl(&xs.iter().zip(ys.iter()).map(|(a, b)| a.saturating_sub(*b)).collect()), &ords, "eq");
        }
    }
    for k in 0..=4usize {
        for v in 0..=2usize {
            run(out, "C16", "list_pair_replicate", &lp::replicate(), &[c(k), c(v)], &pl(&vec![v; k]), &ords, "eq");
        }
    }
    // list: LIST n x1 .. xn
    for xs in lists.iter().filter(|l| l.len() <= 3) {
        let mut args = vec![c(xs.len())];
        args.extend(xs.iter().map(|k| c(*k)));
        run(out, "C16", "list_pair_list", &lp::list(), &args, &pl(xs), &ords, "eq");
    }
}

fn shift_free(t: &Term, b: usize, depth: usize) -> Term {
    match t {
        Var(i) => Var(if *i > depth { *i + b } else { *i }),
        Abs(x) => abs(shift_free(x, b, depth + 1)),
        App(p) => app(shift_free(&p.0, b, depth), shift_free(&p.1, b, depth)),
    }
}
fn unshift_free(t: &Term, b: usize, depth: usize) -> Option<Term> {
    Some(match t {
        Var(i) => {
            if *i > depth {
                if *i > depth + b {
                    Var(*i - b)
                } else {
                    return None;
                }
            } else {
                Var(*i)
            }
        }
        Abs(x) => abs(unshift_free(x, b, depth + 1)?),
        App(p) => app(unshift_free(&p.0, b, depth)?, unshift_free(&p.1, b, depth)?),
    })
}

fn suite_laws(out: &mut Out, thorough: bool, rng: &mut Rng) {
    let ords = [NOR, HNO, APP, HAP];
    let lazy = [NOR, HNO];
    // payloads: free variables and random closed normal terms
    let mut payload_sets: Vec<Vec<Term>> = vec![vec![Var(1), Var(2), Var(3), Var(4)], vec![Var(3), Var(1), Var(1), Var(2)],
        // the inert UD constant as a payload, bare and inside a compound payload
        vec![Var(0), Var(2), abs(app(Var(1), Var(0))), Var(0)], vec![app(Var(1), Var(0)), Var(0), Var(2), abs(Var(0))]];
    for _ in 0..(if thorough { 12 } else { 4 }) {
        let mut set = Vec::new();
        for _ in 0..4 {
            let b = 1 + rng.below(6) as usize;
            let mut t = random_term(rng, b, 1, 0, false);
            t = abs(t);
            let mut u = t.clone();
            if probe_nf(&mut u) { set.push(u) } else { set.push(abs(Var(1))) }
        }
        payload_sets.push(set);
    }
    let t = |x: &Term| V::T(x.clone());
    for ps in &payload_sets {
        let (x, y, z, w) = (&ps[0], &ps[1], &ps[2], &ps[3]);
        let first = std::ptr::eq(ps, &payload_sets[0]);
        let law = |out: &mut Out, name: &str, ct: Term, args: Vec<V>, expected: Term, orders: &[Order]| {
            run(out, "C17", name, &ct, &args, &V::T(expected), orders, "nf");
            if first {
                // the same instance with every free index of the payloads moved far away (2^32 +- 1): the result moves along
                let mut small = ct.clone();
                for a in &args {
                    small = app(small, enc(a));
                }
                for o in [NOR, HAP] {
                    if !orders.contains(&o) {
                        continue;
                    }
                    let mut base = small.clone();
                    if catch_unwind(AssertUnwindSafe(|| base.reduce(o, 5000))).map(|c| c >= 5000).unwrap_or(true) {
                        continue;
                    }
                    for bb in [(1usize << 32) - 1, 1 << 32, (1 << 32) + 1, (1 << 63) + 3] {
                        let mut big = shift_free(&small, bb, 0);
                        let ok = match catch_unwind(AssertUnwindSafe(|| big.reduce(o, 5000))) {
                            Ok(_) => unshift_free(&big, bb, 0).map(|u| u == base).unwrap_or(false),
                            Err(_) => false,
                        };
                        writeln!(out.w, "metalaw\t{}\t{}\t{}\t{}", name, order_name(o), bb, ok).unwrap();
                    }
                }
            }
        };
        law(out, "combinators_I", cb::I(), vec![t(x)], x.clone(), &ords);
        law(out, "combinators_K", cb::K(), vec![t(x), t(y)], x.clone(), &ords);
        law(out, "combinators_S", cb::S(), vec![t(x), t(y), t(z)], app(app(x.clone(), z.clone()), app(y.clone(), z.clone())), &ords);
        law(out, "combinators_B", cb::B(), vec![t(x), t(y), t(z)], app(x.clone(), app(y.clone(), z.clone())), &ords);
        law(out, "combinators_C", cb::C(), vec![t(x), t(y), t(z)], app(app(x.clone(), z.clone()), y.clone()), &ords);
        law(out, "combinators_W", cb::W(), vec![t(x), t(y)], app(app(x.clone(), y.clone()), y.clone()), &ords);
        law(out, "combinators_R", cb::R(), vec![t(x), t(y)], app(y.clone(), x.clone()), &ords);
        law(out, "combinators_o", cb::o(), vec![t(x)], app(x.clone(), x.clone()), &lazy);
        law(out, "combinators_i", cb::i(), vec![t(x)], app(app(x.clone(), cb::S()), cb::K()), &lazy);
        // pair
        let pr = app!(pa::pair(), x.clone(), y.clone());
        law(out, "pair_fst", pa::fst(), vec![t(&pr)], x.clone(), &ords);
        law(out, "pair_snd", pa::snd(), vec![t(&pr)], y.clone(), &ords);
        law(out, "pair_swap", pa::swap(), vec![t(&pr)], app!(pa::pair(), y.clone(), x.clone()), &ords);
        law(out, "pair_uncurry", pa::uncurry(), vec![t(z), t(&pr)], app!(z.clone(), x.clone(), y.clone()), &ords);
        law(out, "pair_curry", pa::curry(), vec![t(z), t(x), t(y)], app(z.clone(), pr.clone()), &ords);
        // tuples and projections
        let (xl, yl, zl, wl) = (lift1(x), lift1(y), lift1(z), lift1(w));
        let t3 = tuple!(xl.clone(), yl.clone(), zl.clone());
        law(out, "tuple_pi_1_3", pi!(1, 3), vec![t(&t3)], x.clone(), &ords);
        law(out, "tuple_pi_2_3", pi!(2, 3), vec![t(&t3)], y.clone(), &ords);
        law(out, "tuple_pi_3_3", pi!(3, 3), vec![t(&t3)], z.clone(), &ords);
        let t4 = tuple!(xl.clone(), yl.clone(), zl.clone(), wl.clone());
        law(out, "tuple_pi_2_4", pi!(2, 4), vec![t(&t4)], y.clone(), &ords);
        law(out, "tuple_pi_4_4", pi!(4, 4), vec![t(&t4)], w.clone(), &ords);
        let t2 = tuple!(xl.clone(), yl.clone());
        law(out, "tuple_pi_1_2", pi!(1, 2), vec![t(&t2)], x.clone(), &ords);
        // option
        let sm = app(op::some(), x.clone());
        law(out, "option_is_some", op::is_some(), vec![t(&sm)], bo::tru(), &ords);
        law(out, "option_is_none", op::is_none(), vec![t(&sm)], bo::fls(), &ords);
        law(out, "option_is_some", op::is_some(), vec![t(&op::none())], bo::fls(), &ords);
        law(out, "option_is_none", op::is_none(), vec![t(&op::none())], bo::tru(), &ords);
        law(out, "option_map", op::map(), vec![t(z), t(&sm)], app(op::some(), app(z.clone(), x.clone())), &ords);
        law(out, "option_map", op::map(), vec![t(z), t(&op::none())], op::none(), &ords);
        law(out, "option_map_or", op::map_or(), vec![t(y), t(z), t(&sm)], app(z.clone(), x.clone()), &ords);
        law(out, "option_map_or", op::map_or(), vec![t(y), t(z), t(&op::none())], y.clone(), &ords);
        law(out, "option_unwrap_or", op::unwrap_or(), vec![t(y), t(&sm)], x.clone(), &ords);
        law(out, "option_unwrap_or", op::unwrap_or(), vec![t(y), t(&op::none())], y.clone(), &ords);
        law(out, "option_and_then", op::and_then(), vec![t(&sm), t(z)], app(z.clone(), x.clone()), &ords);
        law(out, "option_and_then", op::and_then(), vec![t(&op::none()), t(z)], op::none(), &ords);
        // result
        let okx = app(re::ok(), x.clone());
        let erx = app(re::err(), x.clone());
        law(out, "result_is_ok", re::is_ok(), vec![t(&okx)], bo::tru(), &ords);
        law(out, "result_is_ok", re::is_ok(), vec![t(&erx)], bo::fls(), &ords);
        law(out, "result_is_err", re::is_err(), vec![t(&okx)], bo::fls(), &ords);
        law(out, "result_is_err", re::is_err(), vec![t(&erx)], bo::tru(), &ords);
        law(out, "result_option_ok", re::option_ok(), vec![t(&okx)], app(op::some(), x.clone()), &ords);
        law(out, "result_option_ok", re::option_ok(), vec![t(&erx)], op::none(), &ords);
        law(out, "result_option_err", re::option_err(), vec![t(&okx)], op::none(), &ords);
        law(out, "result_option_err", re::option_err(), vec![t(&erx)], app(op::some(), x.clone()), &ords);
        law(out, "result_unwrap_or", re::unwrap_or(), vec![t(y), t(&okx)], x.clone(), &ords);
        law(out, "result_unwrap_or", re::unwrap_or(), vec![t(y), t(&erx)], y.clone(), &ords);
        law(out, "result_map", re::map(), vec![t(z), t(&okx)], app(re::ok(), app(z.clone(), x.clone())), &ords);
        law(out, "result_map", re::map(), vec![t(z), t(&erx)], erx.clone(), &ords);
        law(out, "result_map_err", re::map_err(), vec![t(z), t(&okx)], okx.clone(), &ords);
        law(out, "result_map_err", re::map_err(), vec![t(z), t(&erx)], app(re::err(), app(z.clone(), x.clone())), &ords);
        law(out, "result_and_then", re::and_then(), vec![t(&okx), t(z)], app(z.clone(), x.clone()), &ords);
        law(out, "result_and_then", re::and_then(), vec![t(&erx), t(z)], erx.clone(), &ords);
        // boolean if_else
        law(out, "boolean_if_else", bo::if_else(), vec![t(&bo::tru()), t(x), t(y)], x.clone(), &ords);
        law(out, "boolean_if_else", bo::if_else(), vec![t(&bo::fls()), t(x), t(y)], y.clone(), &ords);
    }
    // truth tables
    let bb = |b: bool| V::B(b);
    for a in [false, true] {
        run(out, "C17", "boolean_not", &bo::not(), &[bb(a)], &bb(!a), &ords, "eq");
        for b in [false, true] {
            run(out, "C17", "boolean_and", &bo::and(), &[bb(a), bb(b)], &bb(a && b), &ords, "eq");
            run(out, "C17", "boolean_or", &bo::or(), &[bb(a), bb(b)], &bb(a || b), &ords, "eq");
            run(out, "C17", "boolean_xor", &bo::xor(), &[bb(a), bb(b)], &bb(a ^ b), &ords, "eq");
            run(out, "C17", "boolean_nor", &bo::nor(), &[bb(a), bb(b)], &bb(!(a || b)), &ords, "eq");
            run(out, "C17", "boolean_xnor", &bo::xnor(), &[bb(a), bb(b)], &bb(!(a ^ b)), &ords, "eq");
            run(out, "C17", "boolean_nand", &bo::nand(), &[bb(a), bb(b)], &bb(!(a && b)), &ords, "eq");
            run(out, "C17", "boolean_imply", &bo::imply(), &[bb(a), bb(b)], &bb(!a || b), &ords, "eq");
        }
    }
    // fixed-point combinators: convertibility with bounded leftmost reduction of both sides
    for f in [Var(1), abs(Var(2)), abs(abs(Var(1)))] {
        let line = |out: &mut Out, name: &str, lhs: Term, rhs: Term| {
            writeln!(out.w, "conv\tC17\t{}\t{}\t{}", name, ser(&lhs), ser(&rhs)).unwrap();
        };
        line(out, "combinators_Y", app(cb::Y(), f.clone()), app(f.clone(), app(cb::Y(), f.clone())));
        line(out, "combinators_T", app(cb::T(), f.clone()), app(f.clone(), app(cb::T(), f.clone())));
        // Z f = f (λv. Z f v): v is the new binder, f is lifted under it
        let fl = lift1(&f);
        line(out, "combinators_Z", app(cb::Z(), f.clone()), app(f.clone(), abs(app(app(cb::Z(), fl), Var(1)))));
        line(out, "combinators_O", cb::O(), cb::O());
    }
}
fn lift1(t: &Term) -> Term {
    fn go(t: &Term, c: usize) -> Term {
        match t {
            Var(i) => Var(if *i > c { i + 1 } else { *i }),
            Abs(b) => abs(go(b, c + 1)),
            App(p) => app(go(&p.0, c), go(&p.1, c)),
        }
    }
    go(t, 0)
}
fn probe_nf(t: &mut Term) -> bool {
    t.reduce(NOR, 200) < 200 && size(t) < 60
}

fn suite_bigctor(out: &mut Out) {
    // the numeral and list constructors are loops: large arguments do not need a large stack
    {
        let h = std::thread::Builder::new().stack_size(512 << 10).spawn(|| {
            let mut res = Vec::new();
            let n = 200_000usize;
            let t = n.into_church();
            res.push(format!("bigctor\tchurch\t{}\t{}", n, matches!(t, Abs(_))));
            std::mem::forget(t);
            let t = n.into_scott();
            res.push(format!("bigctor\tscott\t{}\t{}", n, matches!(t, Abs(_))));
            std::mem::forget(t);
            let v: Vec<usize> = (0..n).map(|k| k % 3).collect();
            let t = IntoChurchList::into_church(v.clone());
            res.push(format!("bigctor\tlist-church\t{}\t{}", n, matches!(t, Abs(_))));
            std::mem::forget(t);
            let t = IntoScottList::into_scott(v.clone());
            res.push(format!("bigctor\tlist-scott\t{}\t{}", n, matches!(t, Abs(_))));
            std::mem::forget(t);
            let t = v.iter().map(|k| k.into_church()).collect::<Vec<Term>>().into_pair_list();
            res.push(format!("bigctor\tlist-pair\t{}\t{}", n, matches!(t, Abs(_))));
            std::mem::forget(t);
            res
        });
        match h.unwrap().join() {
            Ok(lines) => {
                for l in lines {
                    writeln!(out.w, "{}", l).unwrap();
                }
            }
            Err(_) => writeln!(out.w, "bigctor\tpanic\t0\tfalse").unwrap(),
        }
    }
}

fn suite_convert(out: &mut Out, thorough: bool) {
    // C12: constructors
    let maxn = if thorough { 300 } else { 120 };
    for k in 0..=maxn {
        for e in ["church", "scott", "parigot", "stumpfu", "binary"] {
            if e != "binary" && k > (if thorough { 60 } else { 25 }) && k % 7 != 0 {
                continue;
            }
            // Parigot numerals double in size with every successor
            if e == "parigot" && k > (if thorough { 16 } else { 12 }) {
                continue;
            }
            if e == "stumpfu" && k > 80 {
                continue;
            }
            let t = enc(&V::N(e, k));
            writeln!(out.w, "num\t{}\t{}\t{}", e, k, ser(&t)).unwrap();
        }
    }
    for k in [255usize, 256, 1000, 4095, 4096, 65535, 65536, 1 << 20, (1 << 20) + 12345] {
        writeln!(out.w, "num\tbinary\t{}\t{}", k, ser(&k.into_binary())).unwrap();
    }
    for (e, en) in [(Church, "church"), (Scott, "scott"), (Parigot, "parigot"), (StumpFu, "stumpfu")] {
        for z in -(if thorough { 40 } else { 12 })..=(if thorough { 40 } else { 12 }) {
            let z: i32 = z;
            // Parigot numerals double in size with every successor
            if en == "parigot" && z.abs() > (if thorough { 16 } else { 12 }) {
                continue;
            }
            writeln!(out.w, "signed\t{}\t{}\t{}", en, z, ser(&z.into_signed(e))).unwrap();
        }
    }
    // zero() / one() constants
    writeln!(out.w, "const\tchurch\t0\t{}\t1\t{}", ser(&nc::zero()), ser(&nc::one())).unwrap();
    writeln!(out.w, "const\tscott\t0\t{}\t1\t{}", ser(&ns::zero()), ser(&ns::one())).unwrap();
    writeln!(out.w, "const\tparigot\t0\t{}\t1\t{}", ser(&np::zero()), ser(&np::one())).unwrap();
    writeln!(out.w, "const\tstumpfu\t0\t{}\t1\t{}", ser(&nf::zero()), ser(&nf::one())).unwrap();
    writeln!(out.w, "const\tbinary\t0\t{}\t1\t{}", ser(&nb::zero()), ser(&nb::one())).unwrap();
    // containers of numbers
    for a in 0..4usize {
        for b in 0..3usize {
            writeln!(out.w, "cont\tpair\tchurch\t{} {}\t{}", a, b, ser(&IntoChurchNum::into_church((a, b)))).unwrap();
            writeln!(out.w, "cont\tpair\tscott\t{} {}\t{}", a, b, ser(&IntoScottNum::into_scott((a, b)))).unwrap();
            writeln!(out.w, "cont\tpair\tparigot\t{} {}\t{}", a, b, ser(&IntoParigotNum::into_parigot((a, b)))).unwrap();
            writeln!(out.w, "cont\tpair\tstumpfu\t{} {}\t{}", a, b, ser(&IntoStumpFuNum::into_stumpfu((a, b)))).unwrap();
            writeln!(out.w, "cont\tpair\tbinary\t{} {}\t{}", a, b, ser(&IntoBinaryNum::into_binary((a, b)))).unwrap();
        }
        writeln!(out.w, "cont\tsome\tchurch\t{}\t{}", a, ser(&IntoChurchNum::into_church(Some(a)))).unwrap();
        writeln!(out.w, "cont\tsome\tscott\t{}\t{}", a, ser(&IntoScottNum::into_scott(Some(a)))).unwrap();
        writeln!(out.w, "cont\tsome\tbinary\t{}\t{}", a, ser(&IntoBinaryNum::into_binary(Some(a)))).unwrap();
        let ok: Result<usize, usize> = Ok(a);
        let er: Result<usize, usize> = Err(a);
        writeln!(out.w, "cont\tok\tchurch\t{}\t{}", a, ser(&IntoChurchNum::into_church(ok))).unwrap();
        writeln!(out.w, "cont\terr\tchurch\t{}\t{}", a, ser(&IntoChurchNum::into_church(er))).unwrap();
        writeln!(out.w, "cont\tok\tparigot\t{}\t{}", a, ser(&IntoParigotNum::into_parigot(ok))).unwrap();
        writeln!(out.w, "cont\terr\tstumpfu\t{}\t{}", a, ser(&IntoStumpFuNum::into_stumpfu(er))).unwrap();
    }
    let none: Option<usize> = None;
    writeln!(out.w, "cont\tnone\tchurch\t\t{}", ser(&IntoChurchNum::into_church(none))).unwrap();
    writeln!(out.w, "cont\tnone\tscott\t\t{}", ser(&IntoScottNum::into_scott(none))).unwrap();
    writeln!(out.w, "cont\tnone\tparigot\t\t{}", ser(&IntoParigotNum::into_parigot(none))).unwrap();
    writeln!(out.w, "cont\tnone\tstumpfu\t\t{}", ser(&IntoStumpFuNum::into_stumpfu(none))).unwrap();
    writeln!(out.w, "cont\tnone\tbinary\t\t{}", ser(&IntoBinaryNum::into_binary(none))).unwrap();
    // the full matrix of container impls (they are macro instances, one per numeral trait)
    for a in [0usize, 2, 5] {
        let (ok, er): (Result<usize, usize>, Result<usize, usize>) = (Ok(a), Err(a));
        writeln!(out.w, "cont\tsome\tparigot\t{}\t{}", a, ser(&IntoParigotNum::into_parigot(Some(a)))).unwrap();
        writeln!(out.w, "cont\tsome\tstumpfu\t{}\t{}", a, ser(&IntoStumpFuNum::into_stumpfu(Some(a)))).unwrap();
        writeln!(out.w, "cont\tok\tscott\t{}\t{}", a, ser(&IntoScottNum::into_scott(ok))).unwrap();
        writeln!(out.w, "cont\tok\tstumpfu\t{}\t{}", a, ser(&IntoStumpFuNum::into_stumpfu(ok))).unwrap();
        writeln!(out.w, "cont\tok\tbinary\t{}\t{}", a, ser(&IntoBinaryNum::into_binary(ok))).unwrap();
        writeln!(out.w, "cont\terr\tscott\t{}\t{}", a, ser(&IntoScottNum::into_scott(er))).unwrap();
        writeln!(out.w, "cont\terr\tparigot\t{}\t{}", a, ser(&IntoParigotNum::into_parigot(er))).unwrap();
        writeln!(out.w, "cont\terr\tbinary\t{}\t{}", a, ser(&IntoBinaryNum::into_binary(er))).unwrap();
    }
    // vectors
    for xs in lists_upto(if thorough { 4 } else { 3 }, 3) {
        let s = xs.iter().map(|k| k.to_string()).collect::<Vec<_>>().join(" ");
        writeln!(out.w, "cont\tlist-pair\tchurch\t{}\t{}", s, ser(&xs.iter().map(|k| k.into_church()).collect::<Vec<Term>>().into_pair_list())).unwrap();
        writeln!(out.w, "cont\tlist-church\tchurch\t{}\t{}", s, ser(&IntoChurchList::into_church(xs.clone()))).unwrap();
        writeln!(out.w, "cont\tlist-scott\tscott\t{}\t{}", s, ser(&IntoScottList::into_scott(xs.clone()))).unwrap();
        writeln!(out.w, "cont\tlist-parigot\tparigot\t{}\t{}", s, ser(&IntoParigotList::into_parigot(xs.clone()))).unwrap();
    }
    // binary numerals beyond 32 bits (the number is given by its bits, most significant first)
    for k in [(1usize << 31) - 1, 1 << 31, (1 << 32) - 1, 1 << 32, (1 << 32) + 1, (1 << 33) + 5, (1 << 40) + 12345,
              (1 << 48) - 1, 1 << 62, (1 << 63) + 1, usize::MAX - 1, usize::MAX] {
        writeln!(out.w, "bignum\tbinary\t{:b}\t{}\t{}", k, k, ser(&k.into_binary())).unwrap();
    }
    // the Vec conversions do not inspect their elements: UD and open terms are elements like any other
    for v in [vec![Var(0), 1.into_church(), Var(0)], vec![Var(3), abs(Var(2)), Var(0)], vec![app(Var(1), Var(0))]] {
        let s = v.iter().map(ser).collect::<Vec<_>>().join(";");
        let r = |f: &dyn Fn() -> Term| catch_unwind(AssertUnwindSafe(f)).map(|t| ser(&t)).unwrap_or("PANIC".to_string());
        writeln!(out.w, "vecany\tfrom\t{}\t{}", s, r(&|| Term::from(v.clone()))).unwrap();
        writeln!(out.w, "vecany\tpair\t{}\t{}", s, r(&|| v.clone().into_pair_list())).unwrap();
        writeln!(out.w, "vecany\tchurch\t{}\t{}", s, r(&|| IntoChurchList::into_church(v.clone()))).unwrap();
        writeln!(out.w, "vecany\tscott\t{}\t{}", s, r(&|| IntoScottList::into_scott(v.clone()))).unwrap();
        writeln!(out.w, "vecany\tparigot\t{}\t{}", s, r(&|| IntoParigotList::into_parigot(v.clone()))).unwrap();
    }
    // app! applies its operands left to right even when they come out of an iterator
    {
        let stream = vec![lp::cons(), 1.into_church(), lp::nil()];
        let mut it = stream.clone().into_iter();
        let got = app!(it.next().unwrap(), it.next().unwrap(), it.next().unwrap());
        writeln!(out.w, "apporder16\t{}\t{}", ser(&app(app(lp::cons(), 1.into_church()), lp::nil())), ser(&got)).unwrap();
    }
    suite_bigctor(out);
    // From conversions (closed payloads)
    for b in [false, true] {
        let t: Term = b.into();
        writeln!(out.w, "from\tbool\t{}\t{}", b as u8, ser(&t)).unwrap();
    }
    let payloads: Vec<Term> = vec![
        cb::I(), cb::K(), cb::S(),
        0.into_church(), 3.into_church(), 2.into_scott(), 2.into_parigot(), 5.into_binary(), nc::succ(),
        Term::from((1.into_church(), 2.into_scott())), Term::from(Some(0.into_church())), Term::from(None::<Term>),
    ];
    writeln!(out.w, "from\tnone\t\t{}", ser(&Term::from(None::<Term>))).unwrap();
    for a in &payloads {
        writeln!(out.w, "from\tsome\t{}\t{}", ser(a), ser(&Term::from(Some(a.clone())))).unwrap();
        writeln!(out.w, "from\tok\t{}\t{}", ser(a), ser(&Term::from(Ok::<Term, Term>(a.clone())))).unwrap();
        writeln!(out.w, "from\terr\t{}\t{}", ser(a), ser(&Term::from(Err::<Term, Term>(a.clone())))).unwrap();
        for b in payloads.iter().take(5) {
            writeln!(out.w, "from\tpair\t{};{}\t{}", ser(a), ser(b), ser(&Term::from((a.clone(), b.clone())))).unwrap();
        }
    }
    for n in 0..5usize {
        let v: Vec<Term> = payloads.iter().skip(n).take(n).cloned().collect();
        let s = v.iter().map(ser).collect::<Vec<_>>().join(";");
        writeln!(out.w, "from\tvec\t{}\t{}", s, ser(&Term::from(v.clone()))).unwrap();
    }
}

fn main() {
    let args: Vec<String> = std::env::args().collect();
    let suite = args.get(1).cloned().unwrap_or_default();
    let tier = args.get(2).cloned().unwrap_or("quick".into());
    let seed: u64 = args.get(3).and_then(|s| s.parse().ok()).unwrap_or(1);
    std::panic::set_hook(Box::new(|_| {}));
    tick("start".to_string());
    std::thread::spawn(|| loop {
        std::thread::sleep(std::time::Duration::from_secs(2));
        let now = START.get_or_init(std::time::Instant::now).elapsed().as_secs();
        let last = LAST_PROGRESS.load(std::sync::atomic::Ordering::SeqCst);
        if now > last + 90 {
            let d = CURRENT.lock().map(|s| s.clone()).unwrap_or_default();
            println!("\nHANG\t{}", d);
            std::io::stdout().flush().ok();
            std::process::exit(3);
        }
    });
    let child = std::thread::Builder::new()
        .stack_size(6 << 30)
        .spawn(move || {
            let mut out = Out { w: Box::new(std::io::BufWriter::new(std::io::stdout())) };
            let thorough = tier == "thorough";
            let mut rng = Rng::new(seed);
            match suite.as_str() {
                "church" => suite_church(&mut out, thorough),
                "othernum" => suite_othernum(&mut out, thorough),
                "signed" => suite_signed(&mut out, thorough),
                "lists" => suite_lists(&mut out, thorough),
                "laws" => suite_laws(&mut out, thorough, &mut rng),
                "convert" => suite_convert(&mut out, thorough),
                "deep" => suite_bigctor(&mut out),
                _ => {
                    eprintln!("unknown suite {}", suite);
                    std::process::exit(2);
                }
            }
            out.w.flush().unwrap();
        })
        .unwrap();
    child.join().unwrap();
}
