(** C14 — Scott, Parigot, Stump-Fu and binary numerals compute and inter-convert correctly.

    On the GENERATED constants of src/data/num/{scott,parigot,stumpfu,binary,church}.rs:
    (1) for ALL m, n: every exported operation and every conversion, applied to the encodings of its
        arguments, reduces to the encoding of the expected result (binary: to the stripped encoding
        where the crate's documentation allows leading zeroes - pred and shl0; the bit-string level
        theorems cover inputs WITH leading zeroes too);
    (2) hence (C07) reduce with NOR or HNO and limit 0 returns exactly that encoding, for all m, n,
        and (C06) whatever APP or HAP return, if they return, is that encoding;
    (3) termination of HAP / APP where documented as suitable is proved only on a grid whose bound is
        in the statement, by in-kernel evaluation of the model of reduce. *)
From LC Require Import Spec.Encodings Spec.Confluence Spec.NorEval Model.Reduction Gen.Terms
  Proofs.Sound Proofs.ReduceProps Proofs.Normalise Proofs.Convert
  Proofs.ScottArith Proofs.ParigotArith Proofs.StumpFuArith Proofs.BinaryArith Proofs.Returns Proofs.EagerTyped.

Theorem C14_scott : forall m n,
  red (App lc_num_scott_succ (scott n)) (scott (S n)) /\
  red (App lc_num_scott_pred (scott n)) (scott (pred n)) /\
  red (App lc_num_scott_is_zero (scott n)) (bool_t (n =? 0)) /\
  red (App (App lc_num_scott_add (scott m)) (scott n)) (scott (m + n)) /\
  red (App (App lc_num_scott_mul (scott m)) (scott n)) (scott (m * n)) /\
  red (App (App lc_num_scott_pow (scott m)) (scott n)) (scott (m ^ n)).
Proof.
  intros m n. repeat split.
  - apply scott_succ. - apply scott_pred. - apply scott_is_zero.
  - apply scott_add. - apply scott_mul. - apply scott_pow.
Qed.

Theorem C14_parigot : forall m n,
  red (App lc_num_parigot_succ (parigot n)) (parigot (S n)) /\
  red (App lc_num_parigot_pred (parigot n)) (parigot (pred n)) /\
  red (App lc_num_parigot_is_zero (parigot n)) (bool_t (n =? 0)) /\
  red (App (App lc_num_parigot_add (parigot m)) (parigot n)) (parigot (m + n)) /\
  red (App (App lc_num_parigot_sub (parigot m)) (parigot n)) (parigot (m - n)) /\
  red (App (App lc_num_parigot_mul (parigot m)) (parigot n)) (parigot (m * n)).
Proof.
  intros m n. repeat split.
  - apply parigot_succ. - apply parigot_pred. - apply parigot_is_zero.
  - apply parigot_add. - apply parigot_sub. - apply parigot_mul.
Qed.

Theorem C14_stumpfu : forall m n,
  red (App lc_num_stumpfu_succ (stumpfu n)) (stumpfu (S n)) /\
  red (App lc_num_stumpfu_pred (stumpfu n)) (stumpfu (pred n)) /\
  red (App lc_num_stumpfu_is_zero (stumpfu n)) (bool_t (n =? 0)) /\
  red (App (App lc_num_stumpfu_add (stumpfu m)) (stumpfu n)) (stumpfu (m + n)) /\
  red (App (App lc_num_stumpfu_mul (stumpfu m)) (stumpfu n)) (stumpfu (m * n)).
Proof.
  intros m n. repeat split.
  - apply stumpfu_succ. - apply stumpfu_pred. - apply stumpfu_is_zero.
  - apply stumpfu_add. - apply stumpfu_mul.
Qed.

(** binary, on numbers *)
Theorem C14_binary : forall n,
  red (App lc_num_binary_succ (binary n)) (binary (S n)) /\
  red (App lc_num_binary_strip (App lc_num_binary_pred (binary n))) (binary (pred n)) /\
  red (App lc_num_binary_strip (App lc_num_binary_shl0 (binary n))) (binary (2 * n)) /\
  (0 < n -> red (App lc_num_binary_shl0 (binary n)) (binary (2 * n))) /\
  red (App lc_num_binary_shl1 (binary n)) (binary (2 * n + 1)) /\
  red (App lc_num_binary_lsb (binary n)) (bool_t (Nat.even n)) /\
  red (App lc_num_binary_is_zero (binary n)) (bool_t (n =? 0)) /\
  red (App lc_num_binary_strip (binary n)) (binary n).
Proof.
  intros n. repeat split.
  - apply binary_succ. - apply binary_pred. - apply binary_shl0_num. - apply binary_shl0_pos.
  - apply binary_shl1_num. - apply binary_lsb_num. - apply binary_is_zero_num.
  - destruct (bits_canon n) as [C V]. pose proof (binary_strip (bits_of n n)) as H. rewrite V in H. exact H.
Qed.

(** binary, on arbitrary bit strings (least significant first, leading zeroes allowed) *)
Theorem C14_binary_bits : forall bs,
  red (App lc_num_binary_strip (bnum bs)) (binary (bval bs)) /\
  red (App lc_num_binary_is_zero (bnum bs)) (bool_t (bval bs =? 0)) /\
  red (App lc_num_binary_shl0 (bnum bs)) (bnum (false :: bs)) /\
  red (App lc_num_binary_shl1 (bnum bs)) (bnum (true :: bs)) /\
  red (App lc_num_binary_succ (bnum bs)) (bnum (inc bs)) /\ bval (inc bs) = S (bval bs) /\
  red (App lc_num_binary_pred (bnum bs)) (bnum (dec bs)) /\ (canonb bs = true -> bval (dec bs) = pred (bval bs)).
Proof.
  intros bs. repeat split.
  - apply binary_strip. - apply binary_is_zero. - apply binary_shl0. - apply binary_shl1.
  - apply binary_succ_bits. - apply inc_val. - apply binary_pred_bits. - apply dec_val.
Qed.

Theorem C14_conversions : forall n,
  red (App lc_num_church_to_scott (church n)) (scott n) /\
  red (App lc_num_church_to_parigot (church n)) (parigot n) /\
  red (App lc_num_church_to_stumpfu (church n)) (stumpfu n) /\
  red (App lc_num_scott_to_church (scott n)) (church n) /\
  red (App lc_num_stumpfu_to_church (stumpfu n)) (church n) /\
  red (App lc_num_stumpfu_to_scott (stumpfu n)) (scott n) /\
  red (App lc_num_stumpfu_to_parigot (stumpfu n)) (parigot n).
Proof.
  intros n. repeat split.
  - apply church_to_scott. - apply church_to_parigot. - apply church_to_stumpfu. - apply scott_to_church.
  - apply stumpfu_to_church. - apply stumpfu_to_scott. - apply stumpfu_to_parigot.
Qed.

(** the encodings are normal forms, so "reduces to" determines what the reducer returns *)
Theorem C14_encodings_normal : forall n,
  nfb (scott n) = true /\ nfb (parigot n) = true /\ nfb (stumpfu n) = true /\ nfb (binary n) = true /\ nfb (church n) = true.
Proof. intros n. repeat split; [apply scott_nf|apply parigot_nf|apply stumpfu_nf|apply binary_nf|apply church_nf]. Qed.

Theorem C14_nor_returns : forall t v, red t v -> nfb v = true -> exists fuel c, reduce_m fuel NOR 0 t = Some (v, c).
Proof. exact nor_normalises. Qed.
Theorem C14_hno_returns : forall t v, red t v -> nfb v = true -> exists fuel c, reduce_m fuel HNO 0 t = Some (v, c).
Proof. exact hno_reduce_normalises. Qed.
Theorem C14_any_order_sound : forall o fuel t v u c, (o = NOR \/ o = HNO \/ o = APP \/ o = HAP) ->
  red t v -> nfb v = true -> reduce_m fuel o 0 t = Some (u, c) -> u = v.
Proof.
  intros o fuel t v u c Ho R N H.
  pose proof (reduce_stops_normal _ _ _ _ _ _ H (or_introl eq_refl)) as Nu.
  rewrite (nf_of_normalising _ Ho) in Nu.
  apply reduce_steps, steps_star in H.
  eapply nf_unique; eauto; apply nfb_nf; auto.
Qed.

(** e.g. HNO on Scott pow and NOR on binary succ, for all arguments *)
Theorem C14_hno_scott_pow : forall m n, exists fuel c,
  reduce_m fuel HNO 0 (App (App lc_num_scott_pow (scott m)) (scott n)) = Some (scott (m ^ n), c).
Proof. intros. apply hno_reduce_normalises; [apply scott_pow|apply scott_nf]. Qed.
Theorem C14_nor_binary_succ : forall n, exists fuel c,
  reduce_m fuel NOR 0 (App lc_num_binary_succ (binary n)) = Some (binary (S n), c).
Proof. intros. apply nor_normalises; [apply binary_succ|apply binary_nf]. Qed.

(** the property as stated: what [reduce] returns under the two normalising orders, for ALL m, n *)
Theorem C14_reduce_returns : forall o m n, lazy o ->
  returns o (App lc_num_scott_succ (scott n)) (scott (S n)) /\
  returns o (App lc_num_scott_pred (scott n)) (scott (pred n)) /\
  returns o (App lc_num_scott_is_zero (scott n)) (bool_t (n =? 0)) /\
  returns o (App (App lc_num_scott_add (scott m)) (scott n)) (scott (m + n)) /\
  returns o (App (App lc_num_scott_mul (scott m)) (scott n)) (scott (m * n)) /\
  returns o (App (App lc_num_scott_pow (scott m)) (scott n)) (scott (m ^ n)) /\
  returns o (App lc_num_parigot_succ (parigot n)) (parigot (S n)) /\
  returns o (App lc_num_parigot_pred (parigot n)) (parigot (pred n)) /\
  returns o (App lc_num_parigot_is_zero (parigot n)) (bool_t (n =? 0)) /\
  returns o (App (App lc_num_parigot_add (parigot m)) (parigot n)) (parigot (m + n)) /\
  returns o (App (App lc_num_parigot_sub (parigot m)) (parigot n)) (parigot (m - n)) /\
  returns o (App (App lc_num_parigot_mul (parigot m)) (parigot n)) (parigot (m * n)) /\
  returns o (App lc_num_stumpfu_succ (stumpfu n)) (stumpfu (S n)) /\
  returns o (App lc_num_stumpfu_pred (stumpfu n)) (stumpfu (pred n)) /\
  returns o (App lc_num_stumpfu_is_zero (stumpfu n)) (bool_t (n =? 0)) /\
  returns o (App (App lc_num_stumpfu_add (stumpfu m)) (stumpfu n)) (stumpfu (m + n)) /\
  returns o (App (App lc_num_stumpfu_mul (stumpfu m)) (stumpfu n)) (stumpfu (m * n)) /\
  returns o (App lc_num_binary_succ (binary n)) (binary (S n)) /\
  returns o (App lc_num_binary_strip (App lc_num_binary_pred (binary n))) (binary (pred n)) /\
  returns o (App lc_num_binary_strip (App lc_num_binary_shl0 (binary n))) (binary (2 * n)) /\
  returns o (App lc_num_binary_shl1 (binary n)) (binary (2 * n + 1)) /\
  returns o (App lc_num_binary_lsb (binary n)) (bool_t (Nat.even n)) /\
  returns o (App lc_num_binary_is_zero (binary n)) (bool_t (n =? 0)) /\
  returns o (App lc_num_binary_strip (binary n)) (binary n) /\
  returns o (App lc_num_church_to_scott (church n)) (scott n) /\
  returns o (App lc_num_church_to_parigot (church n)) (parigot n) /\
  returns o (App lc_num_church_to_stumpfu (church n)) (stumpfu n) /\
  returns o (App lc_num_scott_to_church (scott n)) (church n) /\
  returns o (App lc_num_stumpfu_to_church (stumpfu n)) (church n) /\
  returns o (App lc_num_stumpfu_to_scott (stumpfu n)) (scott n) /\
  returns o (App lc_num_stumpfu_to_parigot (stumpfu n)) (parigot n).
Proof.
  intros o m n L.
  destruct (C14_scott m n) as (S1 & S2 & S3 & S4 & S5 & S6).
  destruct (C14_parigot m n) as (P1 & P2 & P3 & P4 & P5 & P6).
  destruct (C14_stumpfu m n) as (F1 & F2 & F3 & F4 & F5).
  destruct (C14_binary n) as (B1 & B2 & B3 & _ & B5 & B6 & B7 & B8).
  destruct (C14_conversions n) as (V1 & V2 & V3 & V4 & V5 & V6 & V7).
  repeat split; apply (lazy_returns o); auto;
    first [apply scott_nf | apply parigot_nf | apply stumpfu_nf | apply binary_nf | apply church_nf | apply bool_nf].
Qed.

(** the EAGER orders too, for ALL n, for the operations whose application to a numeral is simply typable (binary
    numerals have one type; Scott and Stump-Fu numerals have length-indexed types): strongly normalising, hence
    normalised by every strategy.  [full o] is o = NOR \/ o = HNO \/ o = APP \/ o = HAP.  (The Z-based Scott operations
    are documented as unsuitable for APP/HAP; for the remaining operations see the grids of C14G.v.) *)
Theorem C14_eager_returns : forall o n, full o ->
  returns o (App lc_num_binary_shl1 (binary n)) (binary (2 * n + 1)) /\
  (0 < n -> returns o (App lc_num_binary_shl0 (binary n)) (binary (2 * n))) /\
  returns o (App lc_num_binary_lsb (binary n)) (bool_t (Nat.even n)) /\
  returns o (App lc_num_binary_is_zero (binary n)) (bool_t (n =? 0)) /\
  returns o (App lc_num_scott_succ (scott n)) (scott (S n)) /\
  returns o (App lc_num_scott_pred (scott n)) (scott (pred n)) /\
  returns o (App lc_num_scott_is_zero (scott n)) (bool_t (n =? 0)) /\
  returns o (App lc_num_stumpfu_pred (stumpfu n)) (stumpfu (pred n)) /\
  returns o (App lc_num_stumpfu_is_zero (stumpfu n)) (bool_t (n =? 0)).
Proof. intros o n F. apply othernum_typed_returns; auto. Qed.

Print Assumptions C14_scott.
Print Assumptions C14_parigot.
Print Assumptions C14_stumpfu.
Print Assumptions C14_binary.
Print Assumptions C14_binary_bits.
Print Assumptions C14_conversions.
Print Assumptions C14_encodings_normal.
Print Assumptions C14_nor_returns.
Print Assumptions C14_hno_returns.
Print Assumptions C14_any_order_sound.
Print Assumptions C14_hno_scott_pow.
Print Assumptions C14_nor_binary_succ.
Print Assumptions C14_reduce_returns.
Print Assumptions C14_eager_returns.
