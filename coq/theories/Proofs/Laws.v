(** * Equations of the combinators and of the sum/product data types, for ALL payload terms (C17).

    Every law is first established on the open term whose payloads are distinct free variables,
    by running the certified leftmost evaluator of Spec/NorEval.v on the GENERATED constant
    ([vm_compute]), and then instantiated to arbitrary payload terms by substitutivity of beta
    reduction ([red_inst], Spec/ParSubst.v).  Constructors place their payloads under a binder,
    hence the [up1] on results that are containers. *)
From LC Require Import Spec.NorEval Spec.Encodings Gen.Terms.

Definition up1 (t : term) : term := shift 1 0 t.
Definition up2 (t : term) : term := shift 1 0 (shift 1 0 t).

Ltac open_law := apply (by_eval 300); vm_compute; reflexivity.
Ltac inst_law H ps :=
  let X := fresh "X" in
  pose proof (instantiate ps _ _ H) as X;
  cbn [inst payloads nth up] in X;
  repeat rewrite inst_closed in X by reflexivity;
  exact X.

Notation v1 := (Var 1). Notation v2 := (Var 2). Notation v3 := (Var 3).
Notation "f @ x" := (App f x) (at level 40, left associativity).

(** ** combinators *)
Lemma I_open : red (lc_combinators_I @ v1) v1. Proof. open_law. Qed.
Lemma K_open : red (lc_combinators_K @ v1 @ v2) v1. Proof. open_law. Qed.
Lemma S_open : red (lc_combinators_S @ v1 @ v2 @ v3) (v1 @ v3 @ (v2 @ v3)). Proof. open_law. Qed.
Lemma B_open : red (lc_combinators_B @ v1 @ v2 @ v3) (v1 @ (v2 @ v3)). Proof. open_law. Qed.
Lemma C_open : red (lc_combinators_C @ v1 @ v2 @ v3) (v1 @ v3 @ v2). Proof. open_law. Qed.
Lemma W_open : red (lc_combinators_W @ v1 @ v2) (v1 @ v2 @ v2). Proof. open_law. Qed.
Lemma R_open : red (lc_combinators_R @ v1 @ v2) (v2 @ v1). Proof. open_law. Qed.
Lemma o_open : red (lc_combinators_o @ v1) (v1 @ v1). Proof. open_law. Qed.
Lemma i_open : red (lc_combinators_i @ v1) (v1 @ lc_combinators_S @ lc_combinators_K). Proof. open_law. Qed.

Section laws.
  Variables x y z f d : term.
  Theorem I_law : red (lc_combinators_I @ x) x. Proof. inst_law I_open [x]. Qed.
  Theorem K_law : red (lc_combinators_K @ x @ y) x. Proof. inst_law K_open [x; y]. Qed.
  Theorem S_law : red (lc_combinators_S @ x @ y @ z) (x @ z @ (y @ z)). Proof. inst_law S_open [x; y; z]. Qed.
  Theorem B_law : red (lc_combinators_B @ x @ y @ z) (x @ (y @ z)). Proof. inst_law B_open [x; y; z]. Qed.
  Theorem C_law : red (lc_combinators_C @ x @ y @ z) (x @ z @ y). Proof. inst_law C_open [x; y; z]. Qed.
  Theorem W_law : red (lc_combinators_W @ x @ y) (x @ y @ y). Proof. inst_law W_open [x; y]. Qed.
  Theorem R_law : red (lc_combinators_R @ x @ y) (y @ x). Proof. inst_law R_open [x; y]. Qed.
  Theorem o_law : red (lc_combinators_o @ x) (x @ x). Proof. inst_law o_open [x]. Qed.
  Theorem i_law : red (lc_combinators_i @ x) (x @ lc_combinators_S @ lc_combinators_K). Proof. inst_law i_open [x]. Qed.
  (** Ω reduces only to itself *)
  Theorem O_law : forall u, step lc_combinators_O u -> u = lc_combinators_O.
  Proof.
    unfold lc_combinators_O, lc_combinators_o. intros u H.
    inversion H; subst; auto;
      repeat match goal with H : step (Abs _) _ |- _ => inversion H; clear H; subst
                        | H : step (App (Var _) _) _ |- _ => inversion H; clear H; subst
                        | H : step (Var _) _ |- _ => inversion H end.
  Qed.
End laws.

(** fixed points *)
Lemma Y_open : exists w, red (lc_combinators_Y @ v1) w /\ red (v1 @ (lc_combinators_Y @ v1)) w.
Proof. apply (by_eval2 2 1). vm_compute. reflexivity. Qed.
Lemma T_open : red (lc_combinators_T @ v1) (v1 @ (lc_combinators_T @ v1)).
Proof. apply (by_eval 2). vm_compute. reflexivity. Qed.
Lemma Z_open : exists w, red (lc_combinators_Z @ v1) w /\ red (v1 @ Abs (lc_combinators_Z @ v2 @ v1)) w.
Proof. apply (by_eval2 2 1). vm_compute. reflexivity. Qed.

Theorem Y_law f : exists w, red (lc_combinators_Y @ f) w /\ red (f @ (lc_combinators_Y @ f)) w.
Proof.
  destruct Y_open as (w & H1 & H2). exists (inst (payloads [f]) w). split.
  - inst_law H1 [f].
  - inst_law H2 [f].
Qed.
Theorem T_law f : red (lc_combinators_T @ f) (f @ (lc_combinators_T @ f)).
Proof. inst_law T_open [f]. Qed.
(** Z f is convertible with f (λv. Z f v)  (f lifted under the new binder) *)
Theorem Z_law f : exists w, red (lc_combinators_Z @ f) w /\ red (f @ Abs (lc_combinators_Z @ up1 f @ v1)) w.
Proof.
  destruct Z_open as (w & H1 & H2). exists (inst (payloads [f]) w). split.
  - inst_law H1 [f].
  - inst_law H2 [f].
Qed.

(** ** pairs *)
Lemma pair_open : red (lc_pair_pair @ v1 @ v2) (Abs (v1 @ v2 @ v3)). Proof. open_law. Qed.
Lemma fst_open : red (lc_pair_fst @ (lc_pair_pair @ v1 @ v2)) v1. Proof. open_law. Qed.
Lemma snd_open : red (lc_pair_snd @ (lc_pair_pair @ v1 @ v2)) v2. Proof. open_law. Qed.
Lemma swap_open : red (lc_pair_swap @ (lc_pair_pair @ v1 @ v2)) (Abs (v1 @ v3 @ v2)). Proof. open_law. Qed.
Lemma uncurry_open : red (lc_pair_uncurry @ v3 @ (lc_pair_pair @ v1 @ v2)) (v3 @ v1 @ v2). Proof. open_law. Qed.
Lemma curry_open : red (lc_pair_curry @ v3 @ v1 @ v2) (v3 @ Abs (v1 @ v2 @ v3)). Proof. open_law. Qed.

Section pair_laws.
  Variables x y f : term.
  Theorem pair_law : red (lc_pair_pair @ x @ y) (pair_t (up1 x) (up1 y)). Proof. inst_law pair_open [x; y]. Qed.
  Theorem fst_law : red (lc_pair_fst @ (lc_pair_pair @ x @ y)) x. Proof. inst_law fst_open [x; y]. Qed.
  Theorem snd_law : red (lc_pair_snd @ (lc_pair_pair @ x @ y)) y. Proof. inst_law snd_open [x; y]. Qed.
  Theorem swap_law : red (lc_pair_swap @ (lc_pair_pair @ x @ y)) (pair_t (up1 y) (up1 x)). Proof. inst_law swap_open [x; y]. Qed.
  Theorem uncurry_law : red (lc_pair_uncurry @ f @ (lc_pair_pair @ x @ y)) (f @ x @ y). Proof. inst_law uncurry_open [x; y; f]. Qed.
  Theorem curry_law : red (lc_pair_curry @ f @ x @ y) (f @ pair_t (up1 x) (up1 y)). Proof. inst_law curry_open [x; y; f]. Qed.
End pair_laws.

(** ** options *)
Lemma some_open : red (lc_option_some @ v1) (Abs (Abs (v1 @ v3))). Proof. open_law. Qed.
Lemma is_some_some_open : red (lc_option_is_some @ (lc_option_some @ v1)) lc_boolean_tru. Proof. open_law. Qed.
Lemma is_some_none_open : red (lc_option_is_some @ lc_option_none) lc_boolean_fls. Proof. open_law. Qed.
Lemma is_none_some_open : red (lc_option_is_none @ (lc_option_some @ v1)) lc_boolean_fls. Proof. open_law. Qed.
Lemma is_none_none_open : red (lc_option_is_none @ lc_option_none) lc_boolean_tru. Proof. open_law. Qed.
Lemma omap_some_open : red (lc_option_map @ v2 @ (lc_option_some @ v1)) (Abs (Abs (v1 @ (Var 4 @ v3)))). Proof. open_law. Qed.
Lemma omap_none_open : red (lc_option_map @ v2 @ lc_option_none) lc_option_none. Proof. open_law. Qed.
Lemma map_or_some_open : red (lc_option_map_or @ v3 @ v2 @ (lc_option_some @ v1)) (v2 @ v1). Proof. open_law. Qed.
Lemma map_or_none_open : red (lc_option_map_or @ v3 @ v2 @ lc_option_none) v3. Proof. open_law. Qed.
Lemma unwrap_or_some_open : red (lc_option_unwrap_or @ v2 @ (lc_option_some @ v1)) v1. Proof. open_law. Qed.
Lemma unwrap_or_none_open : red (lc_option_unwrap_or @ v2 @ lc_option_none) v2. Proof. open_law. Qed.
Lemma and_then_some_open : red (lc_option_and_then @ (lc_option_some @ v1) @ v2) (v2 @ v1). Proof. open_law. Qed.
Lemma and_then_none_open : red (lc_option_and_then @ lc_option_none @ v2) lc_option_none. Proof. open_law. Qed.

Section option_laws.
  Variables x f d : term.
  Theorem some_law : red (lc_option_some @ x) (some_t (up2 x)).
  Proof. unfold up2, some_t. inst_law some_open [x]. Qed.
  Theorem is_some_some : red (lc_option_is_some @ (lc_option_some @ x)) lc_boolean_tru. Proof. inst_law is_some_some_open [x]. Qed.
  Theorem is_some_none : red (lc_option_is_some @ lc_option_none) lc_boolean_fls. Proof. exact is_some_none_open. Qed.
  Theorem is_none_some : red (lc_option_is_none @ (lc_option_some @ x)) lc_boolean_fls. Proof. inst_law is_none_some_open [x]. Qed.
  Theorem is_none_none : red (lc_option_is_none @ lc_option_none) lc_boolean_tru. Proof. exact is_none_none_open. Qed.
  Theorem omap_some : red (lc_option_map @ f @ (lc_option_some @ x)) (some_t (up2 f @ up2 x)).
  Proof. unfold up2, some_t. inst_law omap_some_open [x; f]. Qed.
  Theorem omap_none : red (lc_option_map @ f @ lc_option_none) lc_option_none. Proof. inst_law omap_none_open [x; f]. Qed.
  Theorem map_or_some : red (lc_option_map_or @ d @ f @ (lc_option_some @ x)) (f @ x). Proof. inst_law map_or_some_open [x; f; d]. Qed.
  Theorem map_or_none : red (lc_option_map_or @ d @ f @ lc_option_none) d. Proof. inst_law map_or_none_open [x; f; d]. Qed.
  Theorem unwrap_or_some : red (lc_option_unwrap_or @ d @ (lc_option_some @ x)) x. Proof. inst_law unwrap_or_some_open [x; d]. Qed.
  Theorem unwrap_or_none : red (lc_option_unwrap_or @ d @ lc_option_none) d. Proof. inst_law unwrap_or_none_open [x; d]. Qed.
  Theorem and_then_some : red (lc_option_and_then @ (lc_option_some @ x) @ f) (f @ x). Proof. inst_law and_then_some_open [x; f]. Qed.
  Theorem and_then_none : red (lc_option_and_then @ lc_option_none @ f) lc_option_none. Proof. inst_law and_then_none_open [x; f]. Qed.
End option_laws.

(** ** results *)
Lemma ok_open : red (lc_result_ok @ v1) (Abs (Abs (v2 @ v3))). Proof. open_law. Qed.
Lemma err_open : red (lc_result_err @ v1) (Abs (Abs (v1 @ v3))). Proof. open_law. Qed.
Lemma is_ok_ok_open : red (lc_result_is_ok @ (lc_result_ok @ v1)) lc_boolean_tru. Proof. open_law. Qed.
Lemma is_ok_err_open : red (lc_result_is_ok @ (lc_result_err @ v1)) lc_boolean_fls. Proof. open_law. Qed.
Lemma is_err_ok_open : red (lc_result_is_err @ (lc_result_ok @ v1)) lc_boolean_fls. Proof. open_law. Qed.
Lemma is_err_err_open : red (lc_result_is_err @ (lc_result_err @ v1)) lc_boolean_tru. Proof. open_law. Qed.
Lemma option_ok_ok_open : red (lc_result_option_ok @ (lc_result_ok @ v1)) (Abs (Abs (v1 @ v3))). Proof. open_law. Qed.
Lemma option_ok_err_open : red (lc_result_option_ok @ (lc_result_err @ v1)) lc_option_none. Proof. open_law. Qed.
Lemma option_err_ok_open : red (lc_result_option_err @ (lc_result_ok @ v1)) lc_option_none. Proof. open_law. Qed.
Lemma option_err_err_open : red (lc_result_option_err @ (lc_result_err @ v1)) (Abs (Abs (v1 @ v3))). Proof. open_law. Qed.
Lemma runwrap_ok_open : red (lc_result_unwrap_or @ v2 @ (lc_result_ok @ v1)) v1. Proof. open_law. Qed.
Lemma runwrap_err_open : red (lc_result_unwrap_or @ v2 @ (lc_result_err @ v1)) v2. Proof. open_law. Qed.
Lemma rmap_ok_open : red (lc_result_map @ v2 @ (lc_result_ok @ v1)) (Abs (Abs (v2 @ (Var 4 @ v3)))). Proof. open_law. Qed.
Lemma rmap_err_open : red (lc_result_map @ v2 @ (lc_result_err @ v1)) (Abs (Abs (v1 @ v3))). Proof. open_law. Qed.
Lemma rmap_err_ok_open : red (lc_result_map_err @ v2 @ (lc_result_ok @ v1)) (Abs (Abs (v2 @ v3))). Proof. open_law. Qed.
Lemma rmap_err_err_open : red (lc_result_map_err @ v2 @ (lc_result_err @ v1)) (Abs (Abs (v1 @ (Var 4 @ v3)))). Proof. open_law. Qed.
Lemma rand_then_ok_open : red (lc_result_and_then @ (lc_result_ok @ v1) @ v2) (v2 @ v1). Proof. open_law. Qed.
Lemma rand_then_err_open : red (lc_result_and_then @ (lc_result_err @ v1) @ v2) (Abs (Abs (v1 @ v3))). Proof. open_law. Qed.

Section result_laws.
  Variables x f d : term.
  Theorem ok_law : red (lc_result_ok @ x) (ok_t (up2 x)). Proof. unfold up2, ok_t. inst_law ok_open [x]. Qed.
  Theorem err_law : red (lc_result_err @ x) (err_t (up2 x)). Proof. unfold up2, err_t. inst_law err_open [x]. Qed.
  Theorem is_ok_ok : red (lc_result_is_ok @ (lc_result_ok @ x)) lc_boolean_tru. Proof. inst_law is_ok_ok_open [x]. Qed.
  Theorem is_ok_err : red (lc_result_is_ok @ (lc_result_err @ x)) lc_boolean_fls. Proof. inst_law is_ok_err_open [x]. Qed.
  Theorem is_err_ok : red (lc_result_is_err @ (lc_result_ok @ x)) lc_boolean_fls. Proof. inst_law is_err_ok_open [x]. Qed.
  Theorem is_err_err : red (lc_result_is_err @ (lc_result_err @ x)) lc_boolean_tru. Proof. inst_law is_err_err_open [x]. Qed.
  Theorem option_ok_ok : red (lc_result_option_ok @ (lc_result_ok @ x)) (some_t (up2 x)). Proof. unfold up2, some_t. inst_law option_ok_ok_open [x]. Qed.
  Theorem option_ok_err : red (lc_result_option_ok @ (lc_result_err @ x)) lc_option_none. Proof. inst_law option_ok_err_open [x]. Qed.
  Theorem option_err_ok : red (lc_result_option_err @ (lc_result_ok @ x)) lc_option_none. Proof. inst_law option_err_ok_open [x]. Qed.
  Theorem option_err_err : red (lc_result_option_err @ (lc_result_err @ x)) (some_t (up2 x)). Proof. unfold up2, some_t. inst_law option_err_err_open [x]. Qed.
  Theorem runwrap_ok : red (lc_result_unwrap_or @ d @ (lc_result_ok @ x)) x. Proof. inst_law runwrap_ok_open [x; d]. Qed.
  Theorem runwrap_err : red (lc_result_unwrap_or @ d @ (lc_result_err @ x)) d. Proof. inst_law runwrap_err_open [x; d]. Qed.
  Theorem rmap_ok : red (lc_result_map @ f @ (lc_result_ok @ x)) (ok_t (up2 f @ up2 x)). Proof. unfold up2, ok_t. inst_law rmap_ok_open [x; f]. Qed.
  Theorem rmap_err : red (lc_result_map @ f @ (lc_result_err @ x)) (err_t (up2 x)). Proof. unfold up2, err_t. inst_law rmap_err_open [x; f]. Qed.
  Theorem rmap_err_ok : red (lc_result_map_err @ f @ (lc_result_ok @ x)) (ok_t (up2 x)). Proof. unfold up2, ok_t. inst_law rmap_err_ok_open [x; f]. Qed.
  Theorem rmap_err_err : red (lc_result_map_err @ f @ (lc_result_err @ x)) (err_t (up2 f @ up2 x)). Proof. unfold up2, err_t. inst_law rmap_err_err_open [x; f]. Qed.
  Theorem rand_then_ok : red (lc_result_and_then @ (lc_result_ok @ x) @ f) (f @ x). Proof. inst_law rand_then_ok_open [x; f]. Qed.
  Theorem rand_then_err : red (lc_result_and_then @ (lc_result_err @ x) @ f) (err_t (up2 x)). Proof. unfold up2, err_t. inst_law rand_then_err_open [x; f]. Qed.
End result_laws.

(** ** booleans: truth tables (closed instances, by evaluation) and if_else for all branches *)
Definition bt (b : bool) : term := if b then lc_boolean_tru else lc_boolean_fls.
Definition table2 (op : term) (f : bool -> bool -> bool) : Prop :=
  forall a b, red (op @ bt a @ bt b) (bt (f a b)).
Ltac truth := intros [|] [|]; apply (by_eval 50); vm_compute; reflexivity.
Theorem and_table : table2 lc_boolean_and andb. Proof. truth. Qed.
Theorem or_table : table2 lc_boolean_or orb. Proof. truth. Qed.
Theorem xor_table : table2 lc_boolean_xor xorb. Proof. truth. Qed.
Theorem nor_table : table2 lc_boolean_nor (fun a b => negb (orb a b)). Proof. truth. Qed.
Theorem xnor_table : table2 lc_boolean_xnor (fun a b => negb (xorb a b)). Proof. truth. Qed.
Theorem nand_table : table2 lc_boolean_nand (fun a b => negb (andb a b)). Proof. truth. Qed.
Theorem imply_table : table2 lc_boolean_imply implb. Proof. truth. Qed.
Theorem not_table : forall a, red (lc_boolean_not @ bt a) (bt (negb a)).
Proof. intros [|]; apply (by_eval 50); vm_compute; reflexivity. Qed.

Lemma if_true_open : red (lc_boolean_if_else @ lc_boolean_tru @ v1 @ v2) v1. Proof. open_law. Qed.
Lemma if_false_open : red (lc_boolean_if_else @ lc_boolean_fls @ v1 @ v2) v2. Proof. open_law. Qed.
Theorem if_else_law : forall b x y, red (lc_boolean_if_else @ bt b @ x @ y) (if b then x else y).
Proof. intros [|] x y; simpl bt. - inst_law if_true_open [x; y]. - inst_law if_false_open [x; y]. Qed.
(** the Spec's booleans are the generated ones *)
Lemma bt_bool_t b : bt b = bool_t b. Proof. destruct b; reflexivity. Qed.
