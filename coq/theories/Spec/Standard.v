(** * Standardisation (Kashima's proof) and its corollaries: weak-head and leftmost normalisation *)
From LC Require Export Spec.Strategies.

(** weak head reduction (as a relation; it is [step_cbn]) *)
Inductive wh : term -> term -> Prop :=
| wh_beta b a : wh (App (Abs b) a) (subst 1 a b)
| wh_app l l' r : wh l l' -> wh (App l r) (App l' r).
Notation whs := (star wh).

Lemma wh_cbn t u : wh t u <-> step_cbn t = Some u.
Proof.
  split.
  - induction 1; simpl.
    + reflexivity.
    + rewrite IHwh. reflexivity.
  - revert u; induction t as [i|b IH|l IHl r IHr]; intros u H; simpl in H; try discriminate.
    destruct (step_cbn l) eqn:E.
    + inversion H; subst. constructor. auto.
    + destruct l; try discriminate. inversion H; subst. constructor.
Qed.

Lemma whs_app l l' r : whs l l' -> whs (App l r) (App l' r).
Proof. induction 1; [constructor|]. econstructor; [apply wh_app; eauto|auto]. Qed.

Lemma wh_shift d c t u : wh t u -> wh (shift d c t) (shift d c u).
Proof.
  intros H; revert c; induction H; intros c; simpl; try (constructor; auto).
  rewrite (shift_subst d c 1) by lia. replace (c + 1 - 1) with c by lia. constructor.
Qed.
Lemma wh_subst k a t u : 1 <= k -> wh t u -> wh (subst k a t) (subst k a u).
Proof.
  intros Hk H; revert k Hk; induction H; intros k Hk; simpl; try (constructor; auto).
  rewrite (subst_subst k 1) by lia. replace (k - 1 + 1) with k by lia. constructor.
Qed.
Lemma whs_shift d c t u : whs t u -> whs (shift d c t) (shift d c u).
Proof. induction 1; [constructor|econstructor; eauto using wh_shift]. Qed.
Lemma whs_subst k a t u : 1 <= k -> whs t u -> whs (subst k a t) (subst k a u).
Proof. induction 2; [constructor|econstructor; eauto using wh_subst]. Qed.

Lemma wh_step t u : wh t u -> step t u.
Proof. induction 1; constructor; auto. Qed.

(** standard reduction *)
Inductive st : term -> term -> Prop :=
| st_var t i : whs t (Var i) -> st t (Var i)
| st_abs t b b' : whs t (Abs b) -> st b b' -> st t (Abs b')
| st_app t l r l' r' : whs t (App l r) -> st l l' -> st r r' -> st t (App l' r').

Lemma st_refl t : st t t.
Proof. induction t; [apply st_var|eapply st_abs|eapply st_app]; eauto; constructor. Qed.
Lemma whs_st t t' u : whs t t' -> st t' u -> st t u.
Proof. intros H Hs; inversion Hs; subst; [apply st_var|eapply st_abs|eapply st_app]; eauto using star_trans. Qed.
Lemma st_shift d c t u : st t u -> st (shift d c t) (shift d c u).
Proof.
  intros H; revert c; induction H; intros c.
  - eapply whs_st. apply whs_shift; eauto. apply st_refl.
  - simpl. eapply st_abs. apply (whs_shift d c) in H. simpl in H. eauto. auto.
  - simpl. eapply st_app. apply (whs_shift d c) in H. simpl in H. eauto. auto. auto.
Qed.
Lemma st_subst t t' a a' : st t t' -> st a a' -> forall k, 1 <= k -> st (subst k a t) (subst k a' t').
Proof.
  intros H Ha; induction H; intros k Hk.
  - eapply whs_st. apply whs_subst; eauto. simpl.
    destruct (Nat.compare_spec i k); try apply st_refl. apply st_shift; auto.
  - simpl. eapply st_abs. apply (whs_subst k a) in H; auto. simpl in H; eauto. apply IHst; lia.
  - simpl. eapply st_app. apply (whs_subst k a) in H; auto. simpl in H; eauto. auto. auto.
Qed.

Lemma st_step t u u' : st t u -> step u u' -> st t u'.
Proof.
  intros H Hs; revert t H; induction Hs; intros t H.
  - inversion H as [| |? l0 r0 ? ? Hw Hl Hr]; subst.
    inversion Hl as [|? b0 ? Hw2 Hb|]; subst.
    eapply whs_st.
    + eapply star_trans; [exact Hw|]. eapply star_snoc; [apply whs_app; exact Hw2|apply wh_beta].
    + apply st_subst; auto.
  - inversion H; subst. eapply st_abs; eauto.
  - inversion H; subst. eapply st_app; eauto.
  - inversion H; subst. eapply st_app; eauto.
Qed.

Theorem standardization t u : red t u -> st t u.
Proof. intros H. pattern t, u. eapply star_ind_r; eauto using st_refl, st_step. Qed.

(** ** weak head normalisation *)
Lemma st_neutral t u : st t u -> neutralb u = true -> exists u0, whs t u0 /\ neutralb u0 = true.
Proof.
  intros H; induction H; intros N; simpl in N; try discriminate.
  - eexists; split; [eauto|reflexivity].
  - destruct (IHst1 N) as (l0 & Hl & Nl). exists (App l0 r); split; [|exact Nl].
    eapply star_trans; eauto. apply whs_app; auto.
Qed.

Theorem wh_normalization t w : red t w -> whnfb w = true -> exists w0, whs t w0 /\ whnfb w0 = true.
Proof.
  intros H W. apply standardization in H. unfold whnfb in W. apply orb_true_iff in W. destruct W as [A|N].
  - destruct w; try discriminate. inversion H; subst. eexists; split; eauto.
  - destruct (st_neutral _ _ H N) as (u0 & ? & Nu). exists u0; split; auto. unfold whnfb. rewrite Nu. apply orb_true_r.
Qed.

(** ** leftmost (normal-order) normalisation *)
Lemma whs_iter_cbn t u : whs t u -> exists n, iter step_cbn n t = Some u.
Proof.
  induction 1 as [|x y z H _ [n IH]].
  - exists 0; reflexivity.
  - exists (S n). simpl. apply wh_cbn in H. rewrite H. exact IH.
Qed.

Lemma cbn_sub_nor' : forall t u, step_cbn t = Some u -> step_nor t = Some u.
Proof.
  induction t as [i|b IH|l IHl r IHr]; intros u H; simpl in *; try discriminate.
  destruct (step_cbn l) eqn:E; auto.
  destruct l; try discriminate. auto.
Qed.

Lemma iter_sub f g n t u : (forall x y, f x = Some y -> g x = Some y) -> iter f n t = Some u -> iter g n t = Some u.
Proof.
  intros S. revert t; induction n; simpl; intros t H; auto.
  destruct (f t) eqn:E; try discriminate. rewrite (S _ _ E). auto.
Qed.

Lemma iter_plus f n m t u v : iter f n t = Some u -> iter f m u = Some v -> iter f (n + m) t = Some v.
Proof.
  revert t; induction n; simpl; intros t H1 H2; [congruence|].
  destruct (f t); try discriminate. eauto.
Qed.

Lemma nor_abs_iter n b y : iter step_nor n (Abs b) = Some y -> is_abs y = true.
Proof.
  revert b; induction n; simpl; intros b H.
  - inversion H; reflexivity.
  - destruct (step_nor b); simpl in H; try discriminate. eauto.
Qed.

Lemma nor_lift_abs n b b' : iter step_nor n b = Some b' -> iter step_nor n (Abs b) = Some (Abs b').
Proof.
  revert b; induction n; simpl; intros b H.
  - congruence.
  - destruct (step_nor b); try discriminate. simpl. auto.
Qed.

Lemma nor_lift_appl n l l' r : iter step_nor n l = Some l' -> is_abs l' = false ->
  iter step_nor n (App l r) = Some (App l' r).
Proof.
  revert l; induction n; intros l H A.
  - simpl in *. congruence.
  - cbn [iter] in H. destruct (step_nor l) as [x|] eqn:E; try discriminate.
    assert (NA : is_abs l = false).
    { destruct l; auto. exfalso.
      assert (is_abs l' = true); [|congruence].
      eapply (nor_abs_iter (S n)). cbn [iter]. rewrite E. exact H. }
    cbn [iter].
    assert (S : step_nor (App l r) = Some (App x r)).
    { destruct l as [j|lb|l1 l2]; try discriminate.
      change (step_nor (App (App l1 l2) r)) with
          (match step_cbn (App l1 l2) with Some l' => Some (App l' r) | None =>
             match step_nor (App l1 l2) with Some l' => Some (App l' r) | None => option_map (App (App l1 l2)) (step_nor r) end end).
      destruct (step_cbn (App l1 l2)) eqn:C.
      - apply cbn_sub_nor' in C. congruence.
      - rewrite E. reflexivity. }
    rewrite S. apply IHn; auto.
Qed.

Lemma nfb_step_nor t : nfb t = true -> step_nor t = None.
Proof.
  induction t as [i|b IH|l IHl r IHr]; simpl; intros H; auto.
  - rewrite IH; auto.
  - apply andb_true_iff in H. destruct H as [H Nr]. apply andb_true_iff in H. destruct H as [A Nl].
    apply negb_true_iff in A.
    assert (C : step_cbn l = None).
    { destruct (step_cbn l) eqn:E; auto. apply cbn_sub_nor' in E. rewrite IHl in E by auto. discriminate. }
    rewrite C, IHl, IHr by auto. destruct l; try discriminate; reflexivity.
Qed.

Lemma nor_lift_appr n l r r' : nfb l = true -> is_abs l = false -> iter step_nor n r = Some r' ->
  iter step_nor n (App l r) = Some (App l r').
Proof.
  intros Nl A. revert r; induction n; intros r H.
  - simpl in *. congruence.
  - cbn [iter] in *. destruct (step_nor r) as [x|] eqn:E; try discriminate.
    assert (S : step_nor (App l r) = Some (App l x)).
    { pose proof (nfb_step_nor _ Nl) as Sl.
      assert (C : step_cbn l = None).
      { destruct (step_cbn l) eqn:E2; auto. apply cbn_sub_nor' in E2. congruence. }
      simpl. rewrite C, Sl, E. destruct l; try discriminate; reflexivity. }
    rewrite S. auto.
Qed.

Theorem st_leftmost t v : st t v -> nfb v = true -> exists n, iter step_nor n t = Some v.
Proof.
  induction 1 as [t i W|t b b' W Sb IH|t l r l' r' W Sl IHl Sr IHr]; intros N.
  - destruct (whs_iter_cbn _ _ W) as [n Hn]. exists n. eapply iter_sub; [apply cbn_sub_nor'|eauto].
  - simpl in N. destruct (IH N) as [m Hm]. destruct (whs_iter_cbn _ _ W) as [n Hn].
    exists (n + m). eapply iter_plus; [eapply iter_sub; [apply cbn_sub_nor'|eauto]|].
    apply nor_lift_abs; auto.
  - simpl in N. apply andb_true_iff in N. destruct N as [N Nr]. apply andb_true_iff in N. destruct N as [A Nl].
    apply negb_true_iff in A.
    destruct (IHl Nl) as [m1 H1]. destruct (IHr Nr) as [m2 H2]. destruct (whs_iter_cbn _ _ W) as [n Hn].
    exists (n + (m1 + m2)). eapply iter_plus; [eapply iter_sub; [apply cbn_sub_nor'|eauto]|].
    eapply iter_plus; [apply nor_lift_appl; eauto|]. apply nor_lift_appr; auto.
Qed.

Theorem leftmost_normalization t v : red t v -> nfb v = true -> exists n, iter step_nor n t = Some v.
Proof. intros H N. apply st_leftmost; auto. apply standardization; auto. Qed.
