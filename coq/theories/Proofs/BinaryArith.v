(** * Mogensen binary numerals for ALL bit strings and ALL numbers (C14), on the generated constants *)
From LC Require Import Spec.NorEval Spec.Encodings Gen.Terms Proofs.Laws Proofs.Convert Proofs.ChurchArith Proofs.ScottArith.

(** ** bit strings (least significant bit first, leading zeroes allowed) *)
Definition bnum (bs : list bool) : term := Abs (Abs (Abs (bits_term bs))).
Fixpoint bval (bs : list bool) : nat :=
  match bs with [] => 0 | b :: r => (if b then 1 else 0) + 2 * bval r end.
(** canonical = no leading zero (the most significant, i.e. last, bit is 1) *)
Fixpoint canonb (bs : list bool) : bool :=
  match bs with [] => true | b :: r => match r with [] => b | _ => canonb r end end.

Lemma binary_bnum n : binary n = bnum (bits_of n n).
Proof. reflexivity. Qed.

Lemma odd_div2 n : n = (if Nat.odd n then 1 else 0) + 2 * (n / 2).
Proof.
  destruct (Nat.odd n) eqn:O.
  - apply Nat.odd_spec in O. destruct O as [k Hk]. subst.
    replace (2 * k + 1) with (1 + k * 2) by lia. rewrite Nat.div_add by lia. simpl. lia.
  - assert (E : Nat.even n = true) by (rewrite <- Nat.negb_odd, O; reflexivity).
    apply Nat.even_spec in E. destruct E as [k Hk]. subst.
    replace (2 * k) with (k * 2) by lia. rewrite Nat.div_mul by lia. lia.
Qed.
Lemma div2_lt n : n <> 0 -> n / 2 < n.
Proof. intros. apply Nat.div_lt; lia. Qed.

Lemma bits_of_spec : forall f n, n <= f -> bval (bits_of f n) = n /\ canonb (bits_of f n) = true.
Proof.
  induction f; intros n Hn.
  - assert (n = 0) by lia. subst. auto.
  - cbn [bits_of]. destruct (Nat.eqb_spec n 0) as [->|Hz]; [auto|].
    pose proof (div2_lt n Hz) as Hd. destruct (IHf (n / 2)) as [V C]; [lia|].
    cbn [bval canonb]. rewrite V. split; [symmetry; apply odd_div2|].
    destruct (bits_of f (n / 2)) eqn:E; [|exact C].
    cbn [bval] in V. pose proof (odd_div2 n) as H. rewrite <- V in H. destruct (Nat.odd n); auto; lia.
Qed.

Lemma canon_unique : forall a b, canonb a = true -> canonb b = true -> bval a = bval b -> a = b.
Proof.
  assert (Z : forall a, canonb a = true -> bval a = 0 -> a = []).
  { induction a as [|x r IH]; auto. cbn [canonb bval]. intros C V. destruct r as [|x0 r0].
    - subst x. simpl in V. lia.
    - assert (x0 :: r0 = []) by (apply IH; auto; destruct x; lia). discriminate. }
  induction a as [|x r IH]; intros b Ca Cb V.
  - symmetry. apply Z; auto.
  - destruct b as [|y s]; [apply Z; auto|].
    cbn [bval] in V.
    assert (x = y /\ bval r = bval s) as [-> V'] by (destruct x, y; split; auto; lia).
    f_equal. apply IH; auto.
    + cbn [canonb] in Ca. destruct r; auto.
    + cbn [canonb] in Cb. destruct s; auto.
Qed.

Theorem canon_bits bs : canonb bs = true -> bs = bits_of (bval bs) (bval bs).
Proof.
  intros C. destruct (bits_of_spec (bval bs) (bval bs)) as [V C']; [lia|].
  apply canon_unique; auto.
Qed.
Corollary bnum_canon bs : canonb bs = true -> bnum bs = binary (bval bs).
Proof. intros C. rewrite binary_bnum. f_equal. apply canon_bits; auto. Qed.

(** ** the eliminator *)
Lemma bnum_closed bs : closed (bnum bs) = true.
Proof. unfold closed, bnum. simpl. apply bits_closed_nf. Qed.
Lemma shift_bnum d c bs : shift d c (bnum bs) = bnum bs.
Proof. apply shift_closed, bnum_closed. Qed.
Lemma subst_bnum k a bs : 1 <= k -> subst k a (bnum bs) = bnum bs.
Proof. intros. apply subst_closed; auto. apply bnum_closed. Qed.

Fixpoint bfold (z o i : term) (bs : list bool) : term :=
  match bs with [] => z | b :: r => (if b then i else o) @ bfold z o i r end.

Lemma bits_subst z o i bs : subst 1 i (subst 2 o (subst 3 z (bits_term bs))) = bfold z o i bs.
Proof.
  induction bs as [|b r IH]; cbn [bits_term bfold subst Nat.compare].
  - rewrite !subst_shift_cancel by lia. cbn [Nat.sub]. apply shift_0.
  - rewrite IH. destruct b; cbn [subst Nat.compare Nat.sub]; rewrite ?subst_shift_cancel by lia; cbn [Nat.sub];
      rewrite ?shift_0; reflexivity.
Qed.

Theorem bnum_fold bs z o i : red (bnum bs @ z @ o @ i) (bfold z o i bs).
Proof.
  unfold bnum.
  eapply star_step; [apply s_appl, s_appl, s_beta|]. cbn [subst].
  eapply star_step; [apply s_appl, s_beta|]. cbn [subst].
  eapply star_step; [apply s_beta|]. rewrite bits_subst. apply star_refl.
Qed.
Lemma bfold_id bs : bfold v3 v2 v1 bs = bits_term bs.
Proof. induction bs as [|b r IH]; simpl; auto. rewrite IH. destruct b; reflexivity. Qed.

Ltac inst_bin H ps :=
  let X := fresh "X" in
  pose proof (instantiate ps _ _ H) as X;
  cbn [inst payloads nth up] in X;
  repeat rewrite inst_closed in X by reflexivity;
  repeat rewrite shift_bnum in X.

(** ** shl0, shl1 *)
Definition shlN (b : bool) (x : term) : term := Abs (Abs (Abs (Var (if b then 1 else 2) @ (x @ v3 @ v2 @ v1)))).
Lemma shlN_red b bs : red (shlN b (bnum bs)) (bnum (b :: bs)).
Proof.
  unfold shlN, bnum at 2. cbn [bits_term]. apply red_abs, red_abs, red_abs, red_appr.
  rewrite <- bfold_id. apply bnum_fold.
Qed.
Lemma shl0_open : red (lc_num_binary_shl0 @ v1) (Abs (Abs (Abs (v2 @ (v4 @ v3 @ v2 @ v1))))). Proof. open_law. Qed.
Lemma shl1_open : red (lc_num_binary_shl1 @ v1) (Abs (Abs (Abs (v1 @ (v4 @ v3 @ v2 @ v1))))). Proof. open_law. Qed.
Theorem binary_shl0 bs : red (lc_num_binary_shl0 @ bnum bs) (bnum (false :: bs)).
Proof. inst_bin shl0_open [bnum bs]. eapply star_trans; [exact X|]. apply (shlN_red false). Qed.
Theorem binary_shl1 bs : red (lc_num_binary_shl1 @ bnum bs) (bnum (true :: bs)).
Proof. inst_bin shl1_open [bnum bs]. eapply star_trans; [exact X|]. apply (shlN_red true). Qed.

(** ** lsb, is_zero *)
Definition lsbb (bs : list bool) : bool := match bs with true :: _ => false | _ => true end.
Lemma lsb_open : red (lc_num_binary_lsb @ v1) (v1 @ tru_t @ Abs tru_t @ Abs fls_t). Proof. open_law. Qed.
Theorem binary_lsb bs : red (lc_num_binary_lsb @ bnum bs) (bool_t (lsbb bs)).
Proof.
  inst_bin lsb_open [bnum bs]. eapply star_trans; [exact X|].
  eapply star_trans; [apply bnum_fold|]. destruct bs as [|[|] r]; cbn [bfold lsbb].
  - apply star_refl.
  - hbeta. done_red.
  - hbeta. done_red.
Qed.
Lemma is_zero_open : red (lc_num_binary_is_zero @ v1) (v1 @ tru_t @ Abs v1 @ Abs fls_t). Proof. open_law. Qed.
Lemma is_zero_fold bs : red (bfold tru_t (Abs v1) (Abs fls_t) bs) (bool_t (bval bs =? 0)).
Proof.
  induction bs as [|[|] r IH]; cbn [bfold].
  - apply star_refl.
  - hbeta. replace (bval (true :: r) =? 0) with false; [done_red|].
    symmetry. apply Nat.eqb_neq. cbn [bval]. lia.
  - hbeta. eapply star_trans; [exact IH|].
    replace (bval (false :: r) =? 0) with (bval r =? 0); [done_red|].
    cbn [bval]. destruct (Nat.eqb_spec (bval r) 0); symmetry; [apply Nat.eqb_eq|apply Nat.eqb_neq]; lia.
Qed.
Theorem binary_is_zero bs : red (lc_num_binary_is_zero @ bnum bs) (bool_t (bval bs =? 0)).
Proof.
  inst_bin is_zero_open [bnum bs]. eapply star_trans; [exact X|].
  eapply star_trans; [apply bnum_fold|]. apply is_zero_fold.
Qed.

(** ** pair-state folds: succ, pred, strip *)
Notation v5 := (Var 5). Notation v6 := (Var 6).
Notation S0 x := (Abs (Abs (Abs (v2 @ (x @ v3 @ v2 @ v1))))).
Notation S1 x := (Abs (Abs (Abs (v1 @ (x @ v3 @ v2 @ v1))))).
Lemma S0_red bs : red (S0 (bnum bs)) (bnum (false :: bs)). Proof. apply (shlN_red false). Qed.
Lemma S1_red bs : red (S1 (bnum bs)) (bnum (true :: bs)). Proof. apply (shlN_red true). Qed.

Ltac inst_st H ps :=
  let X := fresh "X" in
  pose proof (instantiate ps _ _ H) as X;
  cbn [inst payloads nth up] in X;
  repeat rewrite inst_closed in X by reflexivity;
  repeat rewrite shift_bnum in X;
  repeat rewrite shift_closed in X by reflexivity.

Lemma pair_sel x y s : closed x = true -> closed y = true -> red (pair_t x y @ s) (s @ x @ y).
Proof.
  intros Cx Cy. unfold pair_t. eapply star_step; [apply s_beta|]. cbn [subst Nat.compare Nat.sub].
  rewrite !subst_closed by (auto || lia). rewrite shift_0. apply star_refl.
Qed.

(** succ *)
Definition sZ : term := Abs (v1 @ bnum [] @ bnum [true]).
Definition sA : term := Abs (v1 @ Abs (Abs (Abs (v1 @ S0 v6 @ S1 v6)))).
Definition sB : term := Abs (v1 @ Abs (Abs (Abs (v1 @ S1 v6 @ S0 v5)))).
Lemma bsucc_open : red (lc_num_binary_succ @ v1) (v1 @ sZ @ sA @ sB @ fls_t). Proof. open_law. Qed.
Lemma sA_open : red (sA @ Abs (v1 @ v2 @ v3)) (Abs (v1 @ S0 v5 @ S1 v5)). Proof. open_law. Qed.
Lemma sB_open : red (sB @ Abs (v1 @ v2 @ v3)) (Abs (v1 @ S1 v5 @ S0 (Var 6))). Proof. open_law. Qed.

Fixpoint inc (bs : list bool) : list bool :=
  match bs with [] => [true] | false :: r => true :: r | true :: r => false :: inc r end.
Lemma succ_fold bs : red (bfold sZ sA sB bs) (pair_t (bnum bs) (bnum (inc bs))).
Proof.
  induction bs as [|[|] r IH]; cbn [bfold inc].
  - apply star_refl.
  - eapply star_trans; [apply red_appr; exact IH|].
    inst_st sB_open [bnum r; bnum (inc r)]. eapply star_trans; [exact X|].
    apply red_abs, red_app; [apply red_appr, S1_red|apply S0_red].
  - eapply star_trans; [apply red_appr; exact IH|].
    inst_st sA_open [bnum r; bnum (inc r)]. eapply star_trans; [exact X|].
    apply red_abs, red_app; [apply red_appr, S0_red|apply S1_red].
Qed.
Theorem binary_succ_bits bs : red (lc_num_binary_succ @ bnum bs) (bnum (inc bs)).
Proof.
  inst_st bsucc_open [bnum bs]. eapply star_trans; [exact X|].
  eapply star_trans; [apply red_appl, bnum_fold|].
  eapply star_trans; [apply red_appl, succ_fold|].
  eapply star_trans; [apply pair_sel; apply bnum_closed|].
  unfold fls_t. do 2 hbeta. done_red.
Qed.
Lemma inc_val bs : bval (inc bs) = S (bval bs).
Proof. induction bs as [|[|] r IH]; cbn [inc bval]; try rewrite IH; lia. Qed.
Lemma inc_nonempty bs : inc bs <> [].
Proof. destruct bs as [|[|] r]; discriminate. Qed.
Lemma inc_canon bs : canonb bs = true -> canonb (inc bs) = true.
Proof.
  induction bs as [|[|] r IH]; cbn [inc]; auto.
  - intros C. assert (Cr : canonb r = true) by (destruct r; auto). specialize (IH Cr).
    pose proof (inc_nonempty r) as NE. cbn [canonb]. destruct (inc r) as [|b l]; [congruence|exact IH].
  - intros C. cbn [canonb] in *. destruct r; [reflexivity|exact C].
Qed.
Lemma bits_canon n : canonb (bits_of n n) = true /\ bval (bits_of n n) = n.
Proof. destruct (bits_of_spec n n); auto. Qed.
Theorem binary_succ n : red (lc_num_binary_succ @ binary n) (binary (S n)).
Proof.
  rewrite binary_bnum. eapply star_trans; [apply binary_succ_bits|].
  destruct (bits_canon n) as [C V]. rewrite bnum_canon by (apply inc_canon; auto).
  rewrite inc_val, V. apply star_refl.
Qed.

(** pred *)
Definition pZ : term := Abs (v1 @ bnum [] @ bnum []).
Definition pA : term := Abs (v1 @ Abs (Abs (Abs (v1 @ S0 v6 @ S1 v5)))).
Definition pB : term := Abs (v1 @ Abs (Abs (Abs (v1 @ S1 v6 @ S0 v6)))).
Lemma bpred_open : red (lc_num_binary_pred @ v1) (v1 @ pZ @ pA @ pB @ fls_t). Proof. open_law. Qed.
Lemma pA_open : red (pA @ Abs (v1 @ v2 @ v3)) (Abs (v1 @ S0 v5 @ S1 (Var 6))). Proof. open_law. Qed.
Lemma pB_open : red (pB @ Abs (v1 @ v2 @ v3)) (Abs (v1 @ S1 v5 @ S0 v5)). Proof. open_law. Qed.
Fixpoint dec (bs : list bool) : list bool :=
  match bs with [] => [] | false :: r => true :: dec r | true :: r => false :: r end.
Lemma pred_fold bs : red (bfold pZ pA pB bs) (pair_t (bnum bs) (bnum (dec bs))).
Proof.
  induction bs as [|[|] r IH]; cbn [bfold dec].
  - apply star_refl.
  - eapply star_trans; [apply red_appr; exact IH|].
    inst_st pB_open [bnum r; bnum (dec r)]. eapply star_trans; [exact X|].
    apply red_abs, red_app; [apply red_appr, S1_red|apply S0_red].
  - eapply star_trans; [apply red_appr; exact IH|].
    inst_st pA_open [bnum r; bnum (dec r)]. eapply star_trans; [exact X|].
    apply red_abs, red_app; [apply red_appr, S0_red|apply S1_red].
Qed.
Theorem binary_pred_bits bs : red (lc_num_binary_pred @ bnum bs) (bnum (dec bs)).
Proof.
  inst_st bpred_open [bnum bs]. eapply star_trans; [exact X|].
  eapply star_trans; [apply red_appl, bnum_fold|].
  eapply star_trans; [apply red_appl, pred_fold|].
  eapply star_trans; [apply pair_sel; apply bnum_closed|].
  unfold fls_t. do 2 hbeta. done_red.
Qed.
Lemma canon_pos bs : canonb bs = true -> bs <> [] -> 0 < bval bs.
Proof.
  induction bs as [|b r IH]; [congruence|]. cbn [canonb bval]. intros C _. destruct r.
  - subst b. simpl. lia.
  - assert (0 < bval (b0 :: r)) by (apply IH; auto; discriminate). lia.
Qed.
(** the predecessor is value-correct exactly on inputs without leading zeroes (as the crate documents) *)
Lemma dec_val bs : canonb bs = true -> bval (dec bs) = pred (bval bs).
Proof.
  induction bs as [|[|] r IH]; cbn [dec bval canonb]; auto.
  intros C. destruct r as [|b r']; [discriminate|].
  pose proof (canon_pos (b :: r') C ltac:(discriminate)). rewrite IH by auto. lia.
Qed.

(** strip *)
Definition tZ : term := Abs (v1 @ bnum [] @ tru_t).
Definition tA : term := Abs (v1 @ Abs (Abs (Abs (v1 @ (v2 @ bnum [] @ S0 v6) @ v2)))).
Definition tB : term := Abs (v1 @ Abs (Abs (Abs (v1 @ S1 v6 @ fls_t)))).
Lemma bstrip_open : red (lc_num_binary_strip @ v1) (v1 @ tZ @ tA @ tB @ tru_t). Proof. open_law. Qed.
Lemma tA_open : red (tA @ Abs (v1 @ v2 @ v3)) (Abs (v1 @ (v3 @ bnum [] @ S0 v5) @ v3)). Proof. open_law. Qed.
Lemma tB_open : red (tB @ Abs (v1 @ v2 @ v3)) (Abs (v1 @ S1 v5 @ fls_t)). Proof. open_law. Qed.
Fixpoint strip_bits (bs : list bool) : list bool :=
  match bs with
  | [] => []
  | false :: r => match strip_bits r with [] => [] | x => false :: x end
  | true :: r => true :: strip_bits r
  end.
Definition is_nilb (l : list bool) : bool := match l with [] => true | _ => false end.
Lemma strip_fold bs : red (bfold tZ tA tB bs) (pair_t (bnum (strip_bits bs)) (bool_t (is_nilb (strip_bits bs)))).
Proof.
  induction bs as [|[|] r IH]; cbn [bfold strip_bits].
  - apply star_refl.
  - eapply star_trans; [apply red_appr; exact IH|].
    destruct (is_nilb (strip_bits r)); cbn [bool_t];
    [inst_st tB_open [bnum (strip_bits r); tru_t]|inst_st tB_open [bnum (strip_bits r); fls_t]];
    (eapply star_trans; [exact X|]); apply red_abs, red_appl, red_appr, S1_red.
  - eapply star_trans; [apply red_appr; exact IH|].
    destruct (strip_bits r) as [|b r'] eqn:E; cbn [is_nilb bool_t].
    + inst_st tA_open [bnum []; tru_t]. eapply star_trans; [exact X|].
      apply red_abs, red_appl, red_appr. unfold tru_t. do 2 hbeta. rewrite ?shift_bnum. done_red.
    + inst_st tA_open [bnum (b :: r'); fls_t]. eapply star_trans; [exact X|].
      apply red_abs, red_appl, red_appr. unfold fls_t.
      eapply star_step; [apply s_appl, s_beta|]. cbn [subst Nat.compare Nat.sub].
      eapply star_step; [apply s_beta|]. cbn [subst Nat.compare Nat.sub]. rewrite shift_0. apply S0_red.
Qed.
Lemma strip_bits_spec bs : canonb (strip_bits bs) = true /\ bval (strip_bits bs) = bval bs.
Proof.
  induction bs as [|[|] r [C V]]; cbn [strip_bits]; auto.
  - cbn [canonb bval]. rewrite V. split; auto. destruct (strip_bits r); auto.
  - destruct (strip_bits r) as [|b r'] eqn:E.
    + cbn [bval] in *. split; auto. lia.
    + cbn [canonb]. split; auto. cbn [bval] in *. lia.
Qed.
Theorem binary_strip bs : red (lc_num_binary_strip @ bnum bs) (binary (bval bs)).
Proof.
  inst_st bstrip_open [bnum bs]. eapply star_trans; [exact X|].
  eapply star_trans; [apply red_appl, bnum_fold|].
  eapply star_trans; [apply red_appl, strip_fold|].
  eapply star_trans; [apply pair_sel; [apply bnum_closed|destruct (is_nilb _); reflexivity]|].
  unfold tru_t. do 2 hbeta. rewrite ?shift_bnum.
  destruct (strip_bits_spec bs) as [C V]. rewrite bnum_canon by auto. rewrite V. apply star_refl.
Qed.

(** ** the statements on numbers *)
Theorem binary_pred n : red (lc_num_binary_strip @ (lc_num_binary_pred @ binary n)) (binary (pred n)).
Proof.
  rewrite binary_bnum. eapply star_trans; [apply red_appr, binary_pred_bits|].
  eapply star_trans; [apply binary_strip|]. destruct (bits_canon n) as [C V].
  rewrite dec_val by auto. rewrite V. apply star_refl.
Qed.
Theorem binary_shl0_num n : red (lc_num_binary_strip @ (lc_num_binary_shl0 @ binary n)) (binary (2 * n)).
Proof.
  rewrite binary_bnum. eapply star_trans; [apply red_appr, binary_shl0|].
  eapply star_trans; [apply binary_strip|]. destruct (bits_canon n) as [C V].
  cbn [bval]. rewrite V. apply star_refl.
Qed.
Theorem binary_shl0_pos n : 0 < n -> red (lc_num_binary_shl0 @ binary n) (binary (2 * n)).
Proof.
  intros Hn. rewrite binary_bnum. eapply star_trans; [apply binary_shl0|]. destruct (bits_canon n) as [C V].
  rewrite bnum_canon.
  - cbn [bval]. rewrite V. apply star_refl.
  - cbn [canonb]. destruct (bits_of n n) eqn:E; auto. simpl in V. lia.
Qed.
Theorem binary_shl1_num n : red (lc_num_binary_shl1 @ binary n) (binary (2 * n + 1)).
Proof.
  rewrite binary_bnum. eapply star_trans; [apply binary_shl1|]. destruct (bits_canon n) as [C V].
  rewrite bnum_canon.
  - cbn [bval]. rewrite V. replace (1 + 2 * n) with (2 * n + 1) by lia. apply star_refl.
  - cbn [canonb]. destruct (bits_of n n) eqn:E; auto.
Qed.
Theorem binary_is_zero_num n : red (lc_num_binary_is_zero @ binary n) (bool_t (n =? 0)).
Proof.
  rewrite binary_bnum. eapply star_trans; [apply binary_is_zero|]. destruct (bits_canon n) as [C V].
  rewrite V. apply star_refl.
Qed.
Lemma lsbb_bits n : lsbb (bits_of n n) = Nat.even n.
Proof.
  destruct n; [reflexivity|]. cbn [bits_of Nat.eqb]. unfold lsbb. rewrite <- Nat.negb_odd.
  destruct (Nat.odd (S n)); reflexivity.
Qed.
(** lsb returns the bit itself: b0 = TRUE for even numbers, b1 = FALSE for odd ones *)
Theorem binary_lsb_num n : red (lc_num_binary_lsb @ binary n) (bool_t (Nat.even n)).
Proof. rewrite binary_bnum. eapply star_trans; [apply binary_lsb|]. rewrite lsbb_bits. apply star_refl. Qed.

From Coq Require Import PArith Pnat.
(** ** the [N]-indexed encoder used for large numbers is the same encoding *)
Lemma bits_of_pos_spec p : canonb (bits_of_pos p) = true /\ bval (bits_of_pos p) = Pos.to_nat p /\ bits_of_pos p <> [].
Proof.
  induction p as [q [C [V NE]]|q [C [V NE]]|]; cbn [bits_of_pos canonb bval].
  - repeat split; [destruct (bits_of_pos q); auto|rewrite V, Pos2Nat.inj_xI; lia|discriminate].
  - repeat split; [destruct (bits_of_pos q); [congruence|auto]|rewrite V, Pos2Nat.inj_xO; lia|discriminate].
  - repeat split; try reflexivity; discriminate.
Qed.
Theorem binary_N_spec n : binary_N n = binary (N.to_nat n).
Proof.
  unfold binary_N. fold (bnum (bits_of_N n)). destruct n as [|p]; [reflexivity|].
  destruct (bits_of_pos_spec p) as (C & V & _). cbn [bits_of_N N.to_nat]. rewrite bnum_canon by auto. rewrite V. reflexivity.
Qed.
Theorem dec_binary_N_ok n : dec_binary_N (binary_N n) = Some n.
Proof.
  unfold binary_N, dec_binary_N. destruct n as [|p]; [reflexivity|]. cbn [bits_of_N].
  induction p as [q IH|q IH|]; cbn [bits_of_pos bits_term dec_bits_N]; try rewrite IH; reflexivity.
Qed.
