(** C13, bounded part: in-kernel evaluation ([vm_compute]) of the model of [reduce] on grids whose bounds are in the
    statements - this is where termination of the eager orders (APP / HAP) is established, for the listed bounds only.
    Kept in a file of its own: [coqc] checks it with the kernel's VM on every run; the independent re-check with
    [coqchk] in the thorough tier covers Properties/C13.v (the unbounded theorems) but not this file, because
    [coqchk] re-evaluates the grids by plain conversion, which takes hours. *)
From Coq Require Import List. Import ListNotations.
From LC Require Import Spec.Encodings Model.Reduction Model.Convert Gen.Terms Proofs.Grids.

(** termination under the other orders: bounded grid (m, n <= 3; unary <= 5; fac <= 3) *)
Theorem C13_bounded_grid : forallb (fun b => b) church_grid = true /\ forallb (fun b => b) church_div_grid = true.
Proof. split; [exact church_grid_ok|exact church_div_grid_ok]. Qed.

Theorem C13_bounded_add : forall o m n, In o [NOR; HNO; HAP; APP] -> m <= 3 -> n <= 3 ->
  exists c, reduce_m FUEL o 0 (App (App lc_num_church_add (church m)) (church n)) = Some (church (m + n), c).
Proof.
  apply (grid2_sound orders_all 3 lc_num_church_add church (fun m n => church (m + n))).
  vm_compute. reflexivity.
Qed.

Print Assumptions C13_bounded_grid.
Print Assumptions C13_bounded_add.
