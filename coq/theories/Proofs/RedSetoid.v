(** * Rewriting with beta-reduction: [red] is a preorder and the term constructors are monotone,
      so proved reductions can be used with [rewrite] inside any context. *)
From Coq Require Export Setoid Morphisms.
From LC Require Import Spec.NorEval Spec.Encodings Gen.Terms Proofs.Laws Proofs.Convert Proofs.ChurchArith.

#[export] Instance red_pre : PreOrder red.
Proof. split; [intro; apply star_refl|intros x y z; apply star_trans]. Qed.
#[export] Instance App_proper : Proper (red ==> red ==> red) App.
Proof. intros a a' Ha b b' Hb. apply red_app; auto. Qed.
#[export] Instance Abs_proper : Proper (red ==> red) Abs.
Proof. intros a a' Ha. apply red_abs; auto. Qed.
#[export] Instance red_proper : Proper (red ==> red --> Basics.flip Basics.impl) red.
Proof.
  intros t t' Ht v v' Hv H. unfold Basics.flip in *.
  eapply star_trans; [exact Ht|]. eapply star_trans; [exact H|exact Hv].
Qed.

(** closedness bookkeeping *)
Create HintDb clos.
#[export] Hint Resolve church_closed Rz_closed : clos.
Ltac clo := solve [ reflexivity | auto with clos ].
Ltac simp_closed :=
  repeat match goal with
  | |- context [subst ?k ?a ?t] => rewrite (subst_closed k a t) by (clo || lia)
  | |- context [shift ?d ?c ?t] => rewrite (shift_closed d c t) by clo
  end.
(** one head beta step, then clean up substitutions into closed terms *)
Ltac hbc := eapply star_step; [repeat first [apply s_beta | apply s_appl]|];
  cbn [subst Nat.compare Nat.sub]; simp_closed; rewrite ?shift_0.

Lemma closed_app a b : closed a = true -> closed b = true -> closed (a @ b) = true.
Proof. unfold closed. cbn [closed_at]. intros -> ->. reflexivity. Qed.
Lemma closed_abs_app1 a : closed a = true -> closed (Abs (a @ v1)) = true.
Proof. unfold closed. cbn [closed_at Nat.leb]. intros H. rewrite (closed_at_mono 0 1 a) by (auto || lia). reflexivity. Qed.
#[export] Hint Resolve closed_app closed_abs_app1 : clos.

(** pairs in normal form *)
Lemma pair_sel x y s : closed x = true -> closed y = true -> red (pair_t x y @ s) (s @ x @ y).
Proof.
  intros Cx Cy. unfold pair_t. eapply star_step; [apply s_beta|]. cbn [subst Nat.compare Nat.sub].
  rewrite !subst_closed by (auto || lia). rewrite shift_0. apply star_refl.
Qed.
Lemma fst_pair x y : closed x = true -> closed y = true -> red (lc_pair_fst @ pair_t x y) x.
Proof.
  intros Cx Cy. unfold lc_pair_fst. eapply star_step; [apply s_beta|]. cbn [subst Nat.compare Nat.sub]. rewrite shift_0.
  eapply star_trans; [apply pair_sel; auto|]. apply (bool_app true).
Qed.
Lemma snd_pair x y : closed x = true -> closed y = true -> red (lc_pair_snd @ pair_t x y) y.
Proof.
  intros Cx Cy. unfold lc_pair_snd. eapply star_step; [apply s_beta|]. cbn [subst Nat.compare Nat.sub]. rewrite shift_0.
  eapply star_trans; [apply pair_sel; auto|]. apply (bool_app false).
Qed.
Lemma mk_pair x y : closed x = true -> closed y = true -> red (lc_pair_pair @ x @ y) (pair_t x y).
Proof.
  intros Cx Cy. pose proof (pair_law x y) as H. unfold up1 in H. rewrite !shift_closed in H by auto. exact H.
Qed.
Lemma pair_closed x y : closed x = true -> closed y = true -> closed (pair_t x y) = true.
Proof.
  unfold closed, pair_t. intros Cx Cy. cbn [closed_at Nat.leb].
  rewrite (closed_at_mono 0 1 x), (closed_at_mono 0 1 y) by (auto || lia). reflexivity.
Qed.
#[export] Hint Resolve pair_closed : clos.
