(** * First facts about the model of the parser (C09): lexical errors *)
From LC Require Import Model.Parser.

Definition dbr_char_ok (c : cchar) : bool :=
  is_lambda_glyph c || is_char c_lparen c || is_char c_rparen c ||
  (match to_digit16 c with Some _ => true | None => false end) || is_whitespace c.

Lemma tokenize_dbr_bad : forall pre i c post,
  forallb dbr_char_ok pre = true -> dbr_char_ok c = false ->
  tokenize_dbr_from i (pre ++ c :: post) = inl (InvalidCharacter (i + length pre) (code c)).
Proof.
  induction pre as [|x pre IH]; intros i c post Hpre Hc.
  - simpl. unfold dbr_char_ok in Hc.
    destruct (is_lambda_glyph c); [discriminate|]. destruct (is_char c_lparen c); [discriminate|].
    destruct (is_char c_rparen c); [discriminate|]. destruct (to_digit16 c); [discriminate|].
    destruct (is_whitespace c); [discriminate|]. rewrite Nat.add_0_r. reflexivity.
  - simpl in Hpre. apply andb_true_iff in Hpre. destruct Hpre as [Hx Hpre].
    cbn [app tokenize_dbr_from]. rewrite (IH (S i) c post Hpre Hc).
    replace (S i + length pre) with (i + length (x :: pre)) by (simpl; lia).
    unfold dbr_char_ok in Hx.
    destruct (is_lambda_glyph x); [reflexivity|]. destruct (is_char c_lparen x); [reflexivity|].
    destruct (is_char c_rparen x); [reflexivity|]. destruct (to_digit16 x); [reflexivity|].
    destruct (is_whitespace x); [reflexivity|discriminate].
Qed.

Theorem parse_dbr_invalid_character pre c post :
  forallb dbr_char_ok pre = true -> dbr_char_ok c = false ->
  parse (pre ++ c :: post) DeBruijn = inl (InvalidCharacter (length pre) (code c)).
Proof.
  intros H1 H2. unfold parse, tokenize_dbr. rewrite (tokenize_dbr_bad pre 0 c post H1 H2). reflexivity.
Qed.
