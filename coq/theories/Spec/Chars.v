(** * Characters as the parser sees them *)
From Coq Require Export NArith.
From LC Require Export Spec.Term.

(** A character together with what Rust's [std] says about it.  [code] is the
    Unicode scalar value; the class bits are supplied by the harness from
    [char::is_alphabetic], [is_alphanumeric], [is_whitespace], [to_digit(16)]
    (see DESIGN.md, trusted base: character-class oracle). *)
Record cchar := { code : N; is_alphabetic : bool; is_alphanumeric : bool;
                  is_whitespace : bool; to_digit16 : option nat }.

Definition c_backslash : N := 92.
Definition c_lambda : N := 955.
Definition c_lparen : N := 40.
Definition c_rparen : N := 41.
Definition c_dot : N := 46.

Definition is_char (n : N) (c : cchar) : bool := N.eqb (code c) n.
Definition is_lambda_glyph (c : cchar) : bool := is_char c_backslash c || is_char c_lambda c.

Definition name := list N.
Fixpoint name_eqb (a b : name) : bool :=
  match a, b with
  | [], [] => true
  | x :: a', y :: b' => N.eqb x y && name_eqb a' b'
  | _, _ => false
  end.


(** index-level tokens (shared vocabulary of the reference grammar and of the model of the parser) *)
Inductive token := Lambda | Lparen | Rparen | Number (n : nat).
