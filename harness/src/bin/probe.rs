use lambda_calculus::*;
use lambda_calculus::data::list::parigot;
fn main() {
    println!("D1 {:?} {:?}", parse("1λ2", DeBruijn), parse("a λb.b", Classic));
    println!("D2 {:?} {:?} {:?}", parse("1)2", DeBruijn), parse("(1", DeBruijn), parse("λa.a) a", Classic));
    println!("D3 {:?} {:?} {:?} {:?}", parse("a+b", Classic), parse("a.b", Classic), parse("a\\b.b", Classic), parse("λ.a", Classic));
    println!("D4 {:?} {:?}", 0.into_signed(Scott), 2.into_signed(Scott));
    println!("D5 {}", app(Var((1usize<<32)+1), Var(1)));
    println!("D6 {}", abs(app(abs(Var(2)), Var(1))).is_supercombinator());
    println!("D7 {:?}", beta(app(parigot::is_nil(), vec![abs(Var(1))].into_parigot()), NOR, 0));
}
