(** C02 — Term::apply is capture-avoiding substitution (and refuses non-abstractions) *)
From LC Require Import Model.Reduction Proofs.Apply.

(** the model of apply computes the textbook single-variable substitution ... *)
Theorem C02_apply_is_subst : forall b a, apply_m (Abs b) a = inr (subst 1 a b).
Proof. exact apply_m_abs. Qed.

(** ... and, independently, the parallel substitution [1 := a, i+1 := i] *)
Theorem C02_apply_is_parallel_subst : forall b a, apply_m (Abs b) a = inr (inst (beta_sub a) b).
Proof. exact apply_m_abs_inst. Qed.

(** on anything that is not an abstraction: Err(NotAbs), receiver untouched *)
Theorem C02_not_abs : forall t a, is_abs t = false -> apply_m t a = inl (NotAbs, t).
Proof. exact apply_m_not_abs. Qed.

(** every outer reference of the result is one of the abstraction or of the argument *)
Theorem C02_free_variables : forall a b, incl (fv (subst 1 a b)) (fv (Abs b) ++ fv a).
Proof. exact fv_subst1. Qed.

(** UD is never substituted for, shifted or captured *)
Theorem C02_ud_inert : forall k a d c, 1 <= k -> subst k a (Var 0) = Var 0 /\ shift d c (Var 0) = Var 0.
Proof. intros; split; [apply subst_ud; auto|apply shift_ud]. Qed.

(** non-vacuity: a body whose variables cross two binders, an open argument *)
Example C02_example :
  apply_m (Abs (Abs (App (App (Var 4) (Var 2)) (Abs (App (Var 1) (Var 3)))))) (Abs (App (Var 5) (Var 1)))
  = inr (Abs (App (App (Var 3) (Abs (App (Var 6) (Var 1)))) (Abs (App (Var 1) (Abs (App (Var 7) (Var 1))))))).
Proof. reflexivity. Qed.

Print Assumptions C02_apply_is_subst.
Print Assumptions C02_apply_is_parallel_subst.
Print Assumptions C02_not_abs.
Print Assumptions C02_free_variables.
Print Assumptions C02_ud_inert.
