(** C03 — each order stops exactly at the normal form it documents *)
From LC Require Import Model.Reduction Proofs.Sound Proofs.ReduceProps.

(** [nf_of o] is: beta-normal form for NOR, HNO, APP, HAP; weak head normal form for CBN;
    weak normal form for CBV; head normal form for HSP (Spec/Strategies.v, Spec/Beta.v) *)
Theorem C03_stop : forall fuel o n t t' c,
  reduce_m fuel o n t = Some (t', c) -> (n = 0 \/ c < n) -> nf_of o t' = true.
Proof. exact reduce_stops_normal. Qed.

Theorem C03_idle : forall fuel o n t t' c,
  nf_of o t = true -> reduce_m fuel o n t = Some (t', c) -> t' = t /\ c = 0.
Proof. exact reduce_idle. Qed.

Theorem C03_idle_total : forall o n t, nf_of o t = true -> exists fuel, reduce_m fuel o n t = Some (t, 0).
Proof. exact reduce_idle_total. Qed.

(** beta-normal form really means: no beta step at all *)
Theorem C03_nfb_is_normal : forall t, nfb t = true <-> (forall u, ~ step t u).
Proof. exact nfb_nf. Qed.

(** CBN and CBV never reduce inside abstractions; CBN and HSP never reduce arguments of a head variable *)
Theorem C03_weak : forall b, nf_of CBN (Abs b) = true /\ nf_of CBV (Abs b) = true.
Proof. intros; split; reflexivity. Qed.
Theorem C03_head_variable : forall i a, nf_of CBN (App (Var i) a) = true /\ nf_of HSP (App (Var i) a) = true.
Proof. intros; split; reflexivity. Qed.

Example C03_example : reduce_m 50 HSP 0 (App (Abs (Abs (App (Var 2) (Var 1)))) (Abs (Var 1))) = Some (Abs (Var 1), 2).
Proof. reflexivity. Qed.

Print Assumptions C03_stop.
Print Assumptions C03_idle.
Print Assumptions C03_idle_total.
Print Assumptions C03_nfb_is_normal.
Print Assumptions C03_weak.
Print Assumptions C03_head_variable.
