(** * Signed numbers for ALL pairs of numerals, in the four supported encodings (C15).
      The proof is generic in the encoding: it uses only that the encoding's numerals are closed and that its
      is_zero / pred / add / mul constants satisfy their specifications (proved in the *Arith files). *)
From LC Require Import Spec.NorEval Spec.Encodings Gen.Terms Proofs.Laws Proofs.Convert Proofs.ChurchArith
  Proofs.ScottArith Proofs.ParigotArith Proofs.StumpFuArith Proofs.RedSetoid.

(** ** the shapes of the generated constants *)
Definition simpG (iz pr : term) : term :=
  Abs (Abs (iz @ (lc_pair_fst @ v1) @ Abs v2 @
            Abs (iz @ (lc_pair_snd @ v2) @ v2 @
                 (v3 @ (lc_pair_pair @ (pr @ (lc_pair_fst @ v2)) @ (pr @ (lc_pair_snd @ v2))))) @
            lc_combinators_I)).
Definition simplify_t (iz pr : term) : term := lc_combinators_Z @ simpG iz pr.
Definition modulus_t (iz pr : term) : term :=
  Abs (Abs (iz @ (lc_pair_fst @ v1) @ (lc_pair_snd @ v1) @ (lc_pair_fst @ v1)) @ (simplify_t iz pr @ v1)).
Definition to_signed_t (zero : term) : term := Abs (lc_pair_pair @ v1 @ zero).
Definition add_t (iz pr ad : term) : term :=
  Abs (Abs (simplify_t iz pr @ (lc_pair_pair @ (ad @ (lc_pair_fst @ v2) @ (lc_pair_fst @ v1))
                                             @ (ad @ (lc_pair_snd @ v2) @ (lc_pair_snd @ v1))))).
Definition sub_t (iz pr ad : term) : term :=
  Abs (Abs (simplify_t iz pr @ (lc_pair_pair @ (ad @ (lc_pair_fst @ v2) @ (lc_pair_snd @ v1))
                                             @ (ad @ (lc_pair_snd @ v2) @ (lc_pair_fst @ v1))))).
Definition mul_t (iz pr ad ml : term) : term :=
  Abs (Abs (simplify_t iz pr @
    (lc_pair_pair @ (ad @ (ml @ (lc_pair_fst @ v2) @ (lc_pair_fst @ v1)) @ (ml @ (lc_pair_snd @ v2) @ (lc_pair_snd @ v1)))
                  @ (ad @ (ml @ (lc_pair_fst @ v2) @ (lc_pair_snd @ v1)) @ (ml @ (lc_pair_snd @ v2) @ (lc_pair_fst @ v1)))))).

Lemma swap_open : red (lc_pair_swap @ Abs (v1 @ v2 @ v3)) (Abs (v1 @ v3 @ v2)). Proof. open_law. Qed.
Lemma neg_is_swap : lc_num_signed_neg = lc_pair_swap. Proof. reflexivity. Qed.

Section Signed.
  Variables (enc : nat -> term) (iz pr ad ml : term).
  Hypothesis Cenc : forall n, closed (enc n) = true.
  Hypothesis Ciz : closed iz = true.
  Hypothesis Cpr : closed pr = true.
  Hypothesis Cad : closed ad = true.
  Hypothesis Cml : closed ml = true.
  Hypothesis Hiz : forall n, red (iz @ enc n) (bool_t (n =? 0)).
  Hypothesis Hpr : forall n, red (pr @ enc n) (enc (pred n)).
  Hypothesis Had : forall m n, red (ad @ enc m @ enc n) (enc (m + n)).
  Hypothesis Hml : forall m n, red (ml @ enc m @ enc n) (enc (m * n)).

  (** the signed number p - n *)
  Definition sp (p n : nat) : term := pair_t (enc p) (enc n).
  Lemma sp_closed p n : closed (sp p n) = true.
  Proof. apply pair_closed; apply Cenc. Qed.

  Let G := simpG iz pr.
  Lemma G_closed : closed G = true.
  Proof.
    unfold G, simpG, closed. cbn [closed_at Nat.leb].
    rewrite !(closed_at_mono 0 2 iz), !(closed_at_mono 0 3 iz), !(closed_at_mono 0 3 pr) by (auto || lia).
    reflexivity.
  Qed.

  Lemma Zf_closed : closed (Abs (Rz G @ v1)) = true.
  Proof. unfold closed. cbn [closed_at Nat.leb]. rewrite (closed_at_mono 0 1 (Rz G)) by (apply Rz_closed, G_closed || lia). reflexivity. Qed.

  Ltac clo := first [ reflexivity | assumption | apply Cenc | apply sp_closed | apply G_closed
                    | apply Rz_closed; apply G_closed | apply Zf_closed
                    | apply pair_closed; apply Cenc ].
  Ltac simp_closed :=
    repeat match goal with
    | |- context [subst ?k ?a ?t] => rewrite (subst_closed k a t) by (clo || lia)
    | |- context [shift ?d ?c ?t] => rewrite (shift_closed d c t) by clo
    end.
  Ltac hbc := eapply star_step; [repeat first [apply s_beta | apply s_appl]|];
    cbn [subst Nat.compare Nat.sub]; simp_closed; rewrite ?shift_0.

  Lemma fst_sp p n : red (lc_pair_fst @ sp p n) (enc p). Proof. apply fst_pair; apply Cenc. Qed.
  Lemma snd_sp p n : red (lc_pair_snd @ sp p n) (enc n). Proof. apply snd_pair; apply Cenc. Qed.

  Lemma simp_rec : forall p n, red (Rz G @ sp p n) (sp (p - n) (n - p)).
  Proof.
    induction p as [|p IH]; intros n.
    - eapply star_trans; [apply red_appl, (Z_unfold G G_closed)|].
      unfold G at 1, simpG. hbc. hbc. fold G.
      eapply star_trans; [apply red_appl, red_appl, red_appl, red_appr, fst_sp|].
      eapply star_trans; [apply red_appl, red_appl, red_appl, Hiz|].
      eapply star_trans; [apply red_appl, (bool_app true)|]. hbc.
      rewrite Nat.sub_0_r. apply star_refl.
    - eapply star_trans; [apply red_appl, (Z_unfold G G_closed)|].
      unfold G at 1, simpG. hbc. hbc. fold G.
      eapply star_trans; [apply red_appl, red_appl, red_appl, red_appr, fst_sp|].
      eapply star_trans; [apply red_appl, red_appl, red_appl, Hiz|].
      eapply star_trans; [apply red_appl, (bool_app false)|]. hbc.
      eapply star_trans; [apply red_appl, red_appl, red_appr, snd_sp|].
      eapply star_trans; [apply red_appl, red_appl, Hiz|].
      destruct n as [|n].
      + eapply star_trans; [apply (bool_app true)|]. apply star_refl.
      + eapply star_trans; [apply (bool_app false)|].
        eapply star_trans; [apply (Z_call G _ G_closed)|].
        eapply star_trans; [apply red_appr, red_app; [apply red_appr, red_appr, fst_sp|apply red_appr, snd_sp]|].
        eapply star_trans; [apply red_appr, red_app; [apply red_appr, Hpr|apply Hpr]|].
        eapply star_trans; [apply red_appr, mk_pair; apply Cenc|].
        cbn [pred]. apply IH.
  Qed.

  Theorem simplify_law p n : red (simplify_t iz pr @ sp p n) (sp (p - n) (n - p)).
  Proof.
    unfold simplify_t. fold G. eapply star_trans; [apply red_appl, Z_start, G_closed|]. apply simp_rec.
  Qed.

  Lemma simplify_closed : closed (simplify_t iz pr) = true.
  Proof. unfold simplify_t, closed. cbn [closed_at]. fold G. pose proof G_closed as H. unfold closed in H. rewrite H. reflexivity. Qed.

  Theorem modulus_law p n : red (modulus_t iz pr @ sp p n) (enc ((p - n) + (n - p))).
  Proof.
    pose proof simplify_closed as Cs.
    unfold modulus_t. hbc.
    eapply star_trans; [apply red_appr, simplify_law|]. hbc.
    eapply star_trans; [apply red_appl, red_appl, red_appr, fst_sp|].
    eapply star_trans; [apply red_appl, red_appl, Hiz|].
    eapply star_trans; [apply bool_app|].
    destruct (Nat.eqb_spec (p - n) 0) as [E|E].
    - rewrite E. apply snd_sp.
    - replace (n - p) with 0 by lia. rewrite Nat.add_0_r. apply fst_sp.
  Qed.

  Theorem neg_law p n : red (lc_num_signed_neg @ sp p n) (sp n p).
  Proof.
    rewrite neg_is_swap. pose proof (instantiate [enc p; enc n] _ _ swap_open) as X.
    cbn [inst payloads nth up] in X. repeat rewrite inst_closed in X by reflexivity.
    repeat rewrite shift_closed in X by apply Cenc. exact X.
  Qed.

  Theorem to_signed_law x : red (to_signed_t (enc 0) @ enc x) (sp x 0).
  Proof. unfold to_signed_t. hbc. apply mk_pair; apply Cenc. Qed.

  Theorem add_law p1 n1 p2 n2 :
    red (add_t iz pr ad @ sp p1 n1 @ sp p2 n2) (sp ((p1 + p2) - (n1 + n2)) ((n1 + n2) - (p1 + p2))).
  Proof.
    pose proof simplify_closed as Cs.
    unfold add_t. hbc. hbc.
    eapply star_trans; [apply red_appr, red_app;
      [apply red_appr, red_app; [apply red_appr, fst_sp|apply fst_sp]
      |apply red_app; [apply red_appr, snd_sp|apply snd_sp]]|].
    eapply star_trans; [apply red_appr, red_app; [apply red_appr, Had|apply Had]|].
    eapply star_trans; [apply red_appr, mk_pair; apply Cenc|]. apply simplify_law.
  Qed.

  Theorem sub_law p1 n1 p2 n2 :
    red (sub_t iz pr ad @ sp p1 n1 @ sp p2 n2) (sp ((p1 + n2) - (n1 + p2)) ((n1 + p2) - (p1 + n2))).
  Proof.
    pose proof simplify_closed as Cs.
    unfold sub_t. hbc. hbc.
    eapply star_trans; [apply red_appr, red_app;
      [apply red_appr, red_app; [apply red_appr, fst_sp|apply snd_sp]
      |apply red_app; [apply red_appr, snd_sp|apply fst_sp]]|].
    eapply star_trans; [apply red_appr, red_app; [apply red_appr, Had|apply Had]|].
    eapply star_trans; [apply red_appr, mk_pair; apply Cenc|]. apply simplify_law.
  Qed.

  Theorem mul_law p1 n1 p2 n2 :
    red (mul_t iz pr ad ml @ sp p1 n1 @ sp p2 n2)
        (sp ((p1 * p2 + n1 * n2) - (p1 * n2 + n1 * p2)) ((p1 * n2 + n1 * p2) - (p1 * p2 + n1 * n2))).
  Proof.
    pose proof simplify_closed as Cs.
    unfold mul_t. hbc. hbc.
    assert (M : forall a b c d (fa : red a (enc c)) (fb : red b (enc d)), red (ml @ a @ b) (enc (c * d))).
    { intros. eapply star_trans; [apply red_app; [apply red_appr; eassumption|eassumption]|]. apply Hml. }
    assert (A : forall a b c d, red a (enc c) -> red b (enc d) -> red (ad @ a @ b) (enc (c + d))).
    { intros. eapply star_trans; [apply red_app; [apply red_appr; eassumption|eassumption]|]. apply Had. }
    eapply star_trans; [apply red_appr, red_app; [apply red_appr|]|].
    - apply A; apply M; first [apply fst_sp | apply snd_sp].
    - apply A; apply M; first [apply fst_sp | apply snd_sp].
    - eapply star_trans; [apply red_appr, mk_pair; apply Cenc|]. apply simplify_law.
  Qed.
End Signed.

(** ** the four instances: the generated constants ARE the templates over each encoding's primitives *)
Lemma church_shapes :
  lc_num_signed_simplify_church = simplify_t lc_num_church_is_zero lc_num_church_pred /\
  lc_num_signed_modulus_church = modulus_t lc_num_church_is_zero lc_num_church_pred /\
  lc_num_signed_to_signed_church = to_signed_t (church 0) /\
  lc_num_signed_add_church = add_t lc_num_church_is_zero lc_num_church_pred lc_num_church_add /\
  lc_num_signed_sub_church = sub_t lc_num_church_is_zero lc_num_church_pred lc_num_church_add /\
  lc_num_signed_mul_church = mul_t lc_num_church_is_zero lc_num_church_pred lc_num_church_add lc_num_church_mul.
Proof. repeat split; reflexivity. Qed.
Lemma scott_shapes :
  lc_num_signed_simplify_scott = simplify_t lc_num_scott_is_zero lc_num_scott_pred /\
  lc_num_signed_modulus_scott = modulus_t lc_num_scott_is_zero lc_num_scott_pred /\
  lc_num_signed_to_signed_scott = to_signed_t (scott 0) /\
  lc_num_signed_add_scott = add_t lc_num_scott_is_zero lc_num_scott_pred lc_num_scott_add /\
  lc_num_signed_sub_scott = sub_t lc_num_scott_is_zero lc_num_scott_pred lc_num_scott_add /\
  lc_num_signed_mul_scott = mul_t lc_num_scott_is_zero lc_num_scott_pred lc_num_scott_add lc_num_scott_mul.
Proof. repeat split; reflexivity. Qed.
Lemma parigot_shapes :
  lc_num_signed_simplify_parigot = simplify_t lc_num_parigot_is_zero lc_num_parigot_pred /\
  lc_num_signed_modulus_parigot = modulus_t lc_num_parigot_is_zero lc_num_parigot_pred /\
  lc_num_signed_to_signed_parigot = to_signed_t (parigot 0) /\
  lc_num_signed_add_parigot = add_t lc_num_parigot_is_zero lc_num_parigot_pred lc_num_parigot_add /\
  lc_num_signed_sub_parigot = sub_t lc_num_parigot_is_zero lc_num_parigot_pred lc_num_parigot_add /\
  lc_num_signed_mul_parigot = mul_t lc_num_parigot_is_zero lc_num_parigot_pred lc_num_parigot_add lc_num_parigot_mul.
Proof. repeat split; reflexivity. Qed.
Lemma stumpfu_shapes :
  lc_num_signed_simplify_stumpfu = simplify_t lc_num_stumpfu_is_zero lc_num_stumpfu_pred /\
  lc_num_signed_modulus_stumpfu = modulus_t lc_num_stumpfu_is_zero lc_num_stumpfu_pred /\
  lc_num_signed_to_signed_stumpfu = to_signed_t (stumpfu 0) /\
  lc_num_signed_add_stumpfu = add_t lc_num_stumpfu_is_zero lc_num_stumpfu_pred lc_num_stumpfu_add /\
  lc_num_signed_sub_stumpfu = sub_t lc_num_stumpfu_is_zero lc_num_stumpfu_pred lc_num_stumpfu_add /\
  lc_num_signed_mul_stumpfu = mul_t lc_num_stumpfu_is_zero lc_num_stumpfu_pred lc_num_stumpfu_add lc_num_stumpfu_mul.
Proof. repeat split; reflexivity. Qed.

From Coq Require Import ZArith Lia.
(** the integer a signed pair denotes, and the canonical pair of an integer *)
Definition sval (p n : nat) : Z := (Z.of_nat p - Z.of_nat n)%Z.
Definition zpos (z : Z) : nat := Z.to_nat z.
Definition zneg (z : Z) : nat := Z.to_nat (- z).

(** one statement for all four encodings *)
Record signed_spec (enc : nat -> term) (simplify modulus to_signed add sub mul : term) : Prop := {
  ss_simplify : forall p n, red (simplify @ sp enc p n) (sp enc (zpos (sval p n)) (zneg (sval p n)));
  ss_modulus  : forall p n, red (modulus @ sp enc p n) (enc (Z.abs_nat (sval p n)));
  ss_neg      : forall p n, red (lc_num_signed_neg @ sp enc p n) (sp enc n p);
  ss_to_signed : forall x, red (to_signed @ enc x) (sp enc x 0);
  ss_add : forall p1 n1 p2 n2, let z := (sval p1 n1 + sval p2 n2)%Z in
             red (add @ sp enc p1 n1 @ sp enc p2 n2) (sp enc (zpos z) (zneg z));
  ss_sub : forall p1 n1 p2 n2, let z := (sval p1 n1 - sval p2 n2)%Z in
             red (sub @ sp enc p1 n1 @ sp enc p2 n2) (sp enc (zpos z) (zneg z));
  ss_mul : forall p1 n1 p2 n2, let z := (sval p1 n1 * sval p2 n2)%Z in
             red (mul @ sp enc p1 n1 @ sp enc p2 n2) (sp enc (zpos z) (zneg z));
}.

Lemma signed_generic enc iz pr ad ml :
  (forall n, closed (enc n) = true) -> closed iz = true -> closed pr = true -> closed ad = true -> closed ml = true ->
  (forall n, red (iz @ enc n) (bool_t (n =? 0))) -> (forall n, red (pr @ enc n) (enc (pred n))) ->
  (forall m n, red (ad @ enc m @ enc n) (enc (m + n))) -> (forall m n, red (ml @ enc m @ enc n) (enc (m * n))) ->
  signed_spec enc (simplify_t iz pr) (modulus_t iz pr) (to_signed_t (enc 0)) (add_t iz pr ad) (sub_t iz pr ad) (mul_t iz pr ad ml).
Proof.
  intros Cenc Ciz Cpr Cad Cml Hiz Hpr Had Hml. split; intros; try subst z; unfold sval, zpos, zneg.
  - replace (Z.to_nat _) with (p - n) by lia. replace (Z.to_nat _) with (n - p) by lia. apply (simplify_law enc iz pr ad ml); auto.
  - replace (Z.abs_nat _) with ((p - n) + (n - p)) by lia. apply (modulus_law enc iz pr ad ml); auto.
  - apply neg_law; auto.
  - apply to_signed_law; auto.
  - replace (Z.to_nat _) with ((p1 + p2) - (n1 + n2)) by lia.
    replace (Z.to_nat _) with ((n1 + n2) - (p1 + p2)) by lia. apply (add_law enc iz pr ad ml); auto.
  - replace (Z.to_nat _) with ((p1 + n2) - (n1 + p2)) by lia.
    replace (Z.to_nat _) with ((n1 + p2) - (p1 + n2)) by lia. apply (sub_law enc iz pr ad ml); auto.
  - replace (Z.to_nat _) with ((p1 * p2 + n1 * n2) - (p1 * n2 + n1 * p2)) by nia.
    replace (Z.to_nat _) with ((p1 * n2 + n1 * p2) - (p1 * p2 + n1 * n2)) by nia. apply (mul_law enc iz pr ad ml); auto.
Qed.

Theorem signed_church : signed_spec church lc_num_signed_simplify_church lc_num_signed_modulus_church
  lc_num_signed_to_signed_church lc_num_signed_add_church lc_num_signed_sub_church lc_num_signed_mul_church.
Proof.
  destruct church_shapes as (-> & -> & -> & -> & -> & ->).
  apply signed_generic; try reflexivity.
  - apply church_closed. - apply church_is_zero. - apply church_pred. - apply church_add. - apply church_mul.
Qed.
Theorem signed_scott : signed_spec scott lc_num_signed_simplify_scott lc_num_signed_modulus_scott
  lc_num_signed_to_signed_scott lc_num_signed_add_scott lc_num_signed_sub_scott lc_num_signed_mul_scott.
Proof.
  destruct scott_shapes as (-> & -> & -> & -> & -> & ->).
  apply signed_generic; try reflexivity.
  - apply scott_closed. - apply scott_is_zero. - apply scott_pred. - apply scott_add. - apply scott_mul.
Qed.
Theorem signed_parigot : signed_spec parigot lc_num_signed_simplify_parigot lc_num_signed_modulus_parigot
  lc_num_signed_to_signed_parigot lc_num_signed_add_parigot lc_num_signed_sub_parigot lc_num_signed_mul_parigot.
Proof.
  destruct parigot_shapes as (-> & -> & -> & -> & -> & ->).
  apply signed_generic; try reflexivity.
  - apply parigot_closed. - apply parigot_is_zero. - apply parigot_pred. - apply parigot_add. - apply parigot_mul.
Qed.
Theorem signed_stumpfu : signed_spec stumpfu lc_num_signed_simplify_stumpfu lc_num_signed_modulus_stumpfu
  lc_num_signed_to_signed_stumpfu lc_num_signed_add_stumpfu lc_num_signed_sub_stumpfu lc_num_signed_mul_stumpfu.
Proof.
  destruct stumpfu_shapes as (-> & -> & -> & -> & -> & ->).
  apply signed_generic; try reflexivity.
  - apply stumpfu_closed. - apply stumpfu_is_zero. - apply stumpfu_pred. - apply stumpfu_add. - apply stumpfu_mul.
Qed.
