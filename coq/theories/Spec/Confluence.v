(** * Church–Rosser for the de Bruijn calculus with the UD constant
      (Tait / Martin-Löf parallel reduction, Takahashi's complete development). *)
From LC Require Export Spec.Beta.

Inductive par : term -> term -> Prop :=
| p_var i : par (Var i) (Var i)
| p_abs b b' : par b b' -> par (Abs b) (Abs b')
| p_app l l' r r' : par l l' -> par r r' -> par (App l r) (App l' r')
| p_beta b b' a a' : par b b' -> par a a' -> par (App (Abs b) a) (subst 1 a' b').

Lemma par_refl t : par t t.
Proof. induction t; constructor; auto. Qed.

Lemma step_par t u : step t u -> par t u.
Proof. induction 1; try (constructor; auto using par_refl). Qed.

Lemma par_red t u : par t u -> red t u.
Proof.
  induction 1.
  - constructor.
  - apply red_abs; auto.
  - apply red_app; auto.
  - eapply star_trans; [apply red_app; [apply red_abs; eauto|eauto]|].
    apply star_one. constructor.
Qed.

Lemma par_shift d c t u : par t u -> par (shift d c t) (shift d c u).
Proof.
  intros H; revert c; induction H; intros c; simpl; try (constructor; auto).
  - destruct (c <? i); constructor.
  - rewrite (shift_subst d c 1) by lia. replace (c + 1 - 1) with c by lia. constructor; auto.
Qed.

Lemma par_subst t t' a a' : par t t' -> par a a' -> forall k, 1 <= k -> par (subst k a t) (subst k a' t').
Proof.
  intros H Ha; induction H; intros k Hk; simpl.
  - destruct (i ?= k); try constructor. apply par_shift; auto.
  - constructor. apply IHpar; lia.
  - constructor; auto.
  - rewrite (subst_subst k 1) by lia. replace (k - 1 + 1) with k by lia.
    constructor; auto.
Qed.

(** complete development *)
Fixpoint cd (t : term) : term :=
  match t with
  | Var i => Var i
  | Abs b => Abs (cd b)
  | App (Abs b) a => subst 1 (cd a) (cd b)
  | App l r => App (cd l) (cd r)
  end.

Lemma par_triangle t u : par t u -> par u (cd t).
Proof.
  induction 1.
  - constructor.
  - simpl. constructor; auto.
  - destruct l as [i|b|l1 l2].
    + simpl. constructor; auto.
    + inversion H; subst. simpl. inversion IHpar1; subst. constructor; auto.
    + change (cd (App (App l1 l2) r)) with (App (cd (App l1 l2)) (cd r)). constructor; auto.
  - simpl. apply par_subst; auto.
Qed.

Lemma par_diamond t u v : par t u -> par t v -> exists w, par u w /\ par v w.
Proof. intros H1 H2. exists (cd t). split; apply par_triangle; auto. Qed.

Lemma par_strip t u v : par t u -> star par t v -> exists w, star par u w /\ par v w.
Proof.
  intros H S; revert u H; induction S as [|x y z Hxy S IH]; intros u H.
  - exists u. split; [constructor|auto].
  - destruct (par_diamond _ _ _ H Hxy) as (w & Huw & Hyw).
    destruct (IH _ Hyw) as (w' & Hww' & Hzw'). exists w'. split; auto. econstructor; eauto.
Qed.

Lemma par_confluence t u v : star par t u -> star par t v -> exists w, star par u w /\ star par v w.
Proof.
  intros S; revert v; induction S as [|x y z Hxy S IH]; intros v Sv.
  - exists v. split; [auto|constructor].
  - destruct (par_strip _ _ _ Hxy Sv) as (w & Hyw & Hvw).
    destruct (IH _ Hyw) as (w' & Hzw' & Hww'). exists w'. split; auto.
    eapply star_trans; [apply star_one; eauto|auto].
Qed.

Lemma red_star_par t u : red t u -> star par t u.
Proof. apply star_sub. apply step_par. Qed.
Lemma star_par_red t u : star par t u -> red t u.
Proof. induction 1; [constructor|eapply star_trans; [apply par_red; eauto|auto]]. Qed.

Theorem confluence t u v : red t u -> red t v -> exists w, red u w /\ red v w.
Proof.
  intros H1 H2. destruct (par_confluence t u v) as (w & ? & ?); auto using red_star_par.
  exists w. split; apply star_par_red; auto.
Qed.

Lemma nf_red t u : nf t -> red t u -> u = t.
Proof. intros N H. inversion H; subst; auto. exfalso. eapply N; eauto. Qed.

Theorem nf_unique t u v : red t u -> red t v -> nf u -> nf v -> u = v.
Proof.
  intros H1 H2 N1 N2. destruct (confluence _ _ _ H1 H2) as (w & W1 & W2).
  apply nf_red in W1; auto. apply nf_red in W2; auto. congruence.
Qed.

(** a term that reduces to a normal form keeps it along any reduction *)
Theorem nf_stable t u v : red t u -> red t v -> nf v -> red u v.
Proof.
  intros H1 H2 N. destruct (confluence _ _ _ H1 H2) as (w & W1 & W2).
  apply nf_red in W2; auto. subst. auto.
Qed.
