(** * Machine arithmetic: when the unbounded [nat] of the model is the crate's [usize].

    The translator emits, next to [update_free_variables], [_apply] and [apply], predicates [*_safe W ..] that are
    true iff none of the usize additions performed on the given inputs reaches [W] and no subtraction goes below
    zero (Gen/ReductionSrc.v; generated from the same source text, same recursion).  When they hold, wrapping,
    checked and unbounded arithmetic all compute the same numbers, so the model's [nat] results are the crate's
    results in debug and in release builds alike.  Here: they hold whenever the indices of the argument plus the
    binder depth of the receiver stay below the word size - for ANY word size [W]. *)
From LC Require Import Model.Reduction.

Fixpoint max_idx (t : term) : nat :=
  match t with Var i => i | Abs b => max_idx b | App l r => Nat.max (max_idx l) (max_idx r) end.
Fixpoint bdepth (t : term) : nat :=
  match t with Var _ => 0 | Abs b => S (bdepth b) | App l r => Nat.max (bdepth l) (bdepth r) end.

Lemma ufv_safe_ok W added : forall t own,
  max_idx t + added < W -> own + bdepth t < W -> update_free_variables_safe W added own t = true.
Proof.
  induction t as [i|b IH|l IHl r IHr]; intros own Hi Hd; cbn [update_free_variables_safe max_idx bdepth] in *.
  - destruct (own <? i); auto. apply Nat.ltb_lt. lia.
  - apply andb_true_iff. split; [apply Nat.ltb_lt; lia|]. apply IH; lia.
  - apply andb_true_iff. split; [apply IHl|apply IHr]; lia.
Qed.

Lemma apply_rec_safe_ok W rhs : forall t depth, 1 <= depth ->
  max_idx rhs + depth + bdepth t < W -> bdepth rhs < W -> apply_rec_safe W rhs depth t = true.
Proof.
  induction t as [i|b IH|l IHl r IHr]; intros depth Hd Hi Hr; cbn [apply_rec_safe max_idx bdepth] in *.
  - destruct (Nat.compare_spec i depth) as [E|E|E]; auto.
    + apply andb_true_iff. split; [apply Nat.leb_le; lia|]. apply ufv_safe_ok; lia.
    + apply Nat.leb_le. lia.
  - apply andb_true_iff. split; [apply Nat.ltb_lt; lia|]. apply IH; lia.
  - apply andb_true_iff. split; [apply IHl|apply IHr]; lia.
Qed.

Theorem apply_safe_ok W b rhs :
  max_idx rhs + S (bdepth b) < W -> bdepth rhs < W -> apply_safe W (Abs b) rhs = true.
Proof.
  intros Hi Hr. unfold apply_safe. cbn [apply_rec_safe]. apply andb_true_iff. split; [apply Nat.ltb_lt; lia|].
  apply apply_rec_safe_ok; lia.
Qed.

(** a term "fits" a word size when its largest index plus its binder depth does; sub-terms of a fitting term fit,
    and every contraction the reducer performs inside a fitting term is overflow-free *)
Definition fits (W : nat) (t : term) : Prop := max_idx t + bdepth t + 1 < W.
Lemma fits_app W l r : fits W (App l r) -> fits W l /\ fits W r.
Proof. unfold fits. cbn [max_idx bdepth]. lia. Qed.
Lemma fits_abs W b : fits W (Abs b) -> fits W b.
Proof. unfold fits. cbn [max_idx bdepth]. lia. Qed.
Theorem redex_safe W b a : fits W (App (Abs b) a) -> apply_safe W (Abs b) a = true.
Proof. unfold fits. cbn [max_idx bdepth]. intros H. apply apply_safe_ok; lia. Qed.
