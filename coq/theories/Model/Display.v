(** * Gallina mirror of the Display / Debug implementations of src/term.rs.
      Output strings are lists of code points. *)
From Coq Require Import NArith.
From LC Require Export Spec.Term Model.TermOps.

Definition str := list N.

(** base26_encode: [n += 1; while n > 0 { m = n % 26; m = if m == 0 {26} else {m}; push(m + 'a' - 1); n = (n - 1) / 26 }; reverse] *)
Fixpoint base26_loop (fuel : nat) (n : nat) (buf : list N) : list N :=
  match fuel with 0 => buf | S f =>
    if Nat.eqb n 0 then buf
    else
      let m := n mod 26 in
      let m := if Nat.eqb m 0 then 26 else m in
      base26_loop f ((n - 1) / 26) (buf ++ [N.of_nat (m + 97 - 1)])
  end.
Definition base26_encode (n : nat) : str := rev (base26_loop (S (S n)) (S n) []).

Definition s_undefined : str := [117; 110; 100; 101; 102; 105; 110; 101; 100]%N.
Definition parenthesize_if (s : str) (c : bool) : str := if c then [40%N] ++ s ++ [41%N] else s.

(** LAMBDA is 'λ' (955) or, with the backslash_lambda feature, '\' (92) *)
Fixpoint show_precedence_cla (lambda : N) (t : term) (ctx : nat) (max_depth depth : nat) : str :=
  match t with
  | Var 0 => s_undefined
  | Var i =>
      let ix := if i <=? depth then depth - i else max_depth + i - depth - 1 in
      base26_encode ix
  | Abs b =>
      let ret := [lambda] ++ base26_encode depth ++ [46%N] ++ show_precedence_cla lambda b 0 max_depth (S depth) in
      parenthesize_if ret (1 <? ctx)
  | App t1 t2 =>
      let ret := show_precedence_cla lambda t1 2 max_depth depth ++ [32%N] ++ show_precedence_cla lambda t2 3 max_depth depth in
      parenthesize_if ret (ctx =? 3)
  end.
Definition display (lambda : N) (t : term) : str := show_precedence_cla lambda t 0 (max_depth t) 0.

(** {:X}: upper-case hexadecimal, no padding *)
Definition hex_digit (d : nat) : N := if d <? 10 then N.of_nat (48 + d) else N.of_nat (55 + d).
Fixpoint hex_loop (fuel n : nat) (acc : str) : str :=
  match fuel with 0 => acc | S f =>
    if n <? 16 then hex_digit n :: acc else hex_loop f (n / 16) (hex_digit (n mod 16) :: acc)
  end.
Definition upper_hex (n : nat) : str := hex_loop (S n) n [].

Fixpoint show_precedence_dbr (lambda : N) (t : term) (ctx : nat) : str :=
  match t with
  | Var 0 => s_undefined
  | Var i => upper_hex i
  | Abs b => parenthesize_if ([lambda] ++ show_precedence_dbr lambda b 0) (1 <? ctx)
  | App t1 t2 => parenthesize_if (show_precedence_dbr lambda t1 2 ++ show_precedence_dbr lambda t2 3) (ctx =? 3)
  end.
Definition debug (lambda : N) (t : term) : str := show_precedence_dbr lambda t 0.
