(** C15 — signed-number operations implement integer arithmetic on numeral pairs.
    BOUNDED in-kernel grid on the generated constants: all four encodings, every pair (p, n) with
    p, n <= 3 for to_signed / simplify / modulus / neg and p1, n1, p2, n2 <= 2 for add / sub / mul,
    under NOR and HNO; inputs are arbitrary (not only canonical) pairs. *)
From LC Require Import Spec.Encodings Model.Reduction Gen.Terms Proofs.Grids.

Theorem C15_bounded_grid : forallb (fun b => b) signed_grid = true.
Proof. exact signed_grid_ok. Qed.

Print Assumptions C15_bounded_grid.
