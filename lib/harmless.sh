#!/bin/bash
# usage: harmless.sh <name> <Cxx> [<Cxx> ...] -- apply /verif/harmless/<name>/patch.diff (a behaviour-preserving rewrite) to /repo,
# run the checks (none should report a violation with a failing input), undo.
name=$1; shift
cd /repo && git apply /verif/harmless/$name/patch.diff || { echo "cannot apply"; exit 2; }
for p in "$@"; do
  out=$(cd /verif && ./check $p 2>&1 | tail -3)
  echo "[$name] $p: $(echo "$out" | grep -E 'VIOLATION|^OK|KNOWN' | head -2 | tr '\n' ' ')"
done
git -C /repo checkout -- .
(cd /verif/harness && CARGO_TARGET_DIR=/verif/.cache/cargo-target RUSTFLAGS="--cfg lambda_calculus_verif" cargo build --release --offline --quiet 2>/dev/null; cd /verif && python3 lib/gen.py >/dev/null)
