(** * The printers of the model produce the reference renderings (C10, C11: format) *)
From Coq Require Import ZArith ZifyNat ZifyBool Lia.
From LC Require Import Model.Display Spec.Printing.
Ltac Zify.zify_post_hook ::= Z.div_mod_to_equations.

Lemma max_depth_tdepth t : max_depth t = tdepth t.
Proof. induction t; simpl; auto; lia. Qed.

Lemma base26_loop_b26 : forall n fuel buf, n < fuel ->
  base26_loop fuel (S n) buf = buf ++ rev (b26 n).
Proof.
  induction n as [n IH] using lt_wf_ind. intros fuel buf Hf.
  destruct fuel as [|f]; [lia|]. cbn [base26_loop]. cbn [Nat.eqb].
  replace (S n - 1) with n by lia.
  unfold b26. cbn [b26_fuel].
  destruct (Nat.ltb_spec n 26) as [Hlt|Hge].
  - (* last digit *)
    assert (E : n / 26 = 0) by (apply Nat.div_small; auto). rewrite E.
    destruct f as [|f']; cbn [base26_loop Nat.eqb]; cbn [rev app].
    + f_equal. f_equal. destruct (Nat.eqb_spec (S n mod 26) 0); f_equal; lia.
    + f_equal. f_equal. destruct (Nat.eqb_spec (S n mod 26) 0); f_equal; lia.
  - assert (Hq : 1 <= n / 26) by (apply Nat.div_le_lower_bound; lia).
    replace (n / 26) with (S (n / 26 - 1)) at 1 by lia.
    rewrite IH; [| lia | lia].
    rewrite rev_app_distr. cbn [rev app]. rewrite <- app_assoc. f_equal. cbn [app]. f_equal.
    + f_equal. destruct (Nat.eqb_spec (S n mod 26) 0); lia.
    + (* fuel of b26 is immaterial once it exceeds its argument *)
      assert (FI : forall k a b, k < a -> k < b -> b26_fuel a k = b26_fuel b k).
      { induction k as [k IHk] using lt_wf_ind. intros a b Ha Hb.
        destruct a as [|a]; [lia|]. destruct b as [|b]; [lia|]. cbn [b26_fuel].
        destruct (Nat.ltb_spec k 26); auto. f_equal. apply IHk; lia. }
      f_equal. apply FI; lia.
Qed.

Lemma base26_encode_b26 n : base26_encode n = b26 n.
Proof. unfold base26_encode. rewrite base26_loop_b26 by lia. cbn [app]. apply rev_involutive. Qed.

Definition ctx_of (p : position) : nat := match p with Top => 0 | Operator => 2 | Operand => 3 end.

Lemma show_cla_print lam maxd : forall t p depth,
  show_precedence_cla lam t (ctx_of p) maxd depth = print_cla lam maxd t p depth.
Proof.
  induction t as [i|b IH|l IHl r IHr]; intros p depth.
  - destruct i; [reflexivity|]. cbn [show_precedence_cla print_cla]. rewrite !base26_encode_b26.
    destruct (Nat.leb_spec (S i) depth); f_equal; lia.
  - cbn [show_precedence_cla print_cla]. rewrite base26_encode_b26, (IH Top). destruct p; reflexivity.
  - cbn [show_precedence_cla print_cla]. rewrite (IHl Operator), (IHr Operand). destruct p; reflexivity.
Qed.

Theorem display_format lam t : display lam t = ref_print_cla lam t.
Proof. unfold display, ref_print_cla. rewrite max_depth_tdepth. apply (show_cla_print lam (tdepth t) t Top 0). Qed.

Lemma upper_hex_small i : i < 16 -> upper_hex i = [hexd i].
Proof. intros H. unfold upper_hex. cbn [hex_loop]. destruct (Nat.ltb_spec i 16); [reflexivity|lia]. Qed.

Lemma show_dbr_print lam : forall t p c, c = ctx_of p -> indices_in 1 15 t = true ->
  show_precedence_dbr lam t c = print_dbr lam t p.
Proof.
  induction t as [i|b IH|l IHl r IHr]; intros p c -> H; simpl in H.
  - destruct i; [discriminate|]. cbn [show_precedence_dbr print_dbr].
    apply upper_hex_small. apply andb_true_iff in H. destruct H as [_ H]. apply Nat.leb_le in H. lia.
  - cbn [show_precedence_dbr print_dbr]. rewrite (IH Top 0 eq_refl H). destruct p; reflexivity.
  - apply andb_true_iff in H. destruct H as [Hl Hr].
    cbn [show_precedence_dbr print_dbr]. rewrite (IHl Operator 2 eq_refl Hl), (IHr Operand 3 eq_refl Hr). destruct p; reflexivity.
Qed.

Theorem debug_format lam t : indices_in 1 15 t = true -> debug lam t = ref_print_dbr lam t.
Proof. intros H. apply (show_dbr_print lam t Top 0 eq_refl H). Qed.
