//! Translator for term constants: calls every exported term-valued function of the crate and
//! writes the resulting `Term`s as Coq definitions (Gen/Terms.v) and as an OCaml lookup table.
//! The serialiser matches on the public enum only (not Debug/Display).
use lambda_calculus::combinators as cb;
use lambda_calculus::data::boolean as bo;
use lambda_calculus::data::list::{church as lc, pair as lp, parigot as lpa, scott as ls};
use lambda_calculus::data::num::{binary as nb, church as nc, parigot as np, scott as ns, signed as sg, stumpfu as nf};
use lambda_calculus::data::{option as op, pair as pa, result as re};
use lambda_calculus::*;

fn coq(t: &Term) -> String {
    match t {
        Var(n) => format!("(Var {})", n),
        Abs(b) => format!("(Abs {})", coq(b)),
        App(p) => format!("(App {} {})", coq(&p.0), coq(&p.1)),
    }
}

macro_rules! table {
    ($($file:literal : $name:literal => $e:expr),* $(,)?) => { vec![$(($file, $name, $e)),*] };
}

fn main() {
    let mut t: Vec<(&str, &str, Term)> = table![
        "combinators.rs":"I" => cb::I(), "combinators.rs":"K" => cb::K(), "combinators.rs":"S" => cb::S(),
        "combinators.rs":"i" => cb::i(), "combinators.rs":"B" => cb::B(), "combinators.rs":"C" => cb::C(),
        "combinators.rs":"W" => cb::W(), "combinators.rs":"o" => cb::o(), "combinators.rs":"O" => cb::O(),
        "combinators.rs":"Y" => cb::Y(), "combinators.rs":"Z" => cb::Z(), "combinators.rs":"R" => cb::R(),
        "combinators.rs":"T" => cb::T(),
        "data/boolean.rs":"tru" => bo::tru(), "data/boolean.rs":"fls" => bo::fls(), "data/boolean.rs":"and" => bo::and(),
        "data/boolean.rs":"or" => bo::or(), "data/boolean.rs":"not" => bo::not(), "data/boolean.rs":"xor" => bo::xor(),
        "data/boolean.rs":"nor" => bo::nor(), "data/boolean.rs":"xnor" => bo::xnor(), "data/boolean.rs":"nand" => bo::nand(),
        "data/boolean.rs":"if_else" => bo::if_else(), "data/boolean.rs":"imply" => bo::imply(),
        "data/pair.rs":"pair" => pa::pair(), "data/pair.rs":"fst" => pa::fst(), "data/pair.rs":"snd" => pa::snd(),
        "data/pair.rs":"uncurry" => pa::uncurry(), "data/pair.rs":"curry" => pa::curry(), "data/pair.rs":"swap" => pa::swap(),
        "data/option.rs":"none" => op::none(), "data/option.rs":"some" => op::some(), "data/option.rs":"is_none" => op::is_none(),
        "data/option.rs":"is_some" => op::is_some(), "data/option.rs":"map" => op::map(), "data/option.rs":"map_or" => op::map_or(),
        "data/option.rs":"unwrap_or" => op::unwrap_or(), "data/option.rs":"and_then" => op::and_then(),
        "data/result.rs":"ok" => re::ok(), "data/result.rs":"err" => re::err(), "data/result.rs":"is_ok" => re::is_ok(),
        "data/result.rs":"is_err" => re::is_err(), "data/result.rs":"option_ok" => re::option_ok(),
        "data/result.rs":"option_err" => re::option_err(), "data/result.rs":"unwrap_or" => re::unwrap_or(),
        "data/result.rs":"map" => re::map(), "data/result.rs":"map_err" => re::map_err(), "data/result.rs":"and_then" => re::and_then(),
        "data/num/church.rs":"zero" => nc::zero(), "data/num/church.rs":"is_zero" => nc::is_zero(), "data/num/church.rs":"one" => nc::one(),
        "data/num/church.rs":"succ" => nc::succ(), "data/num/church.rs":"pred" => nc::pred(), "data/num/church.rs":"add" => nc::add(),
        "data/num/church.rs":"sub" => nc::sub(), "data/num/church.rs":"mul" => nc::mul(), "data/num/church.rs":"pow" => nc::pow(),
        "data/num/church.rs":"lt" => nc::lt(), "data/num/church.rs":"leq" => nc::leq(), "data/num/church.rs":"eq" => nc::eq(),
        "data/num/church.rs":"neq" => nc::neq(), "data/num/church.rs":"geq" => nc::geq(), "data/num/church.rs":"gt" => nc::gt(),
        "data/num/church.rs":"div" => nc::div(), "data/num/church.rs":"quot" => nc::quot(), "data/num/church.rs":"rem" => nc::rem(),
        "data/num/church.rs":"fac" => nc::fac(), "data/num/church.rs":"min" => nc::min(), "data/num/church.rs":"max" => nc::max(),
        "data/num/church.rs":"shl" => nc::shl(), "data/num/church.rs":"shr" => nc::shr(), "data/num/church.rs":"is_even" => nc::is_even(),
        "data/num/church.rs":"is_odd" => nc::is_odd(), "data/num/church.rs":"to_scott" => nc::to_scott(),
        "data/num/church.rs":"to_parigot" => nc::to_parigot(), "data/num/church.rs":"to_stumpfu" => nc::to_stumpfu(),
        "data/num/scott.rs":"zero" => ns::zero(), "data/num/scott.rs":"is_zero" => ns::is_zero(), "data/num/scott.rs":"one" => ns::one(),
        "data/num/scott.rs":"succ" => ns::succ(), "data/num/scott.rs":"pred" => ns::pred(), "data/num/scott.rs":"add" => ns::add(),
        "data/num/scott.rs":"mul" => ns::mul(), "data/num/scott.rs":"pow" => ns::pow(),
        "data/num/scott.rs":"to_church" => ns::to_church(),
        "data/num/parigot.rs":"zero" => np::zero(), "data/num/parigot.rs":"is_zero" => np::is_zero(), "data/num/parigot.rs":"one" => np::one(),
        "data/num/parigot.rs":"succ" => np::succ(), "data/num/parigot.rs":"pred" => np::pred(), "data/num/parigot.rs":"add" => np::add(),
        "data/num/parigot.rs":"sub" => np::sub(), "data/num/parigot.rs":"mul" => np::mul(),
        "data/num/stumpfu.rs":"zero" => nf::zero(), "data/num/stumpfu.rs":"is_zero" => nf::is_zero(), "data/num/stumpfu.rs":"one" => nf::one(),
        "data/num/stumpfu.rs":"succ" => nf::succ(), "data/num/stumpfu.rs":"pred" => nf::pred(), "data/num/stumpfu.rs":"add" => nf::add(),
        "data/num/stumpfu.rs":"mul" => nf::mul(), "data/num/stumpfu.rs":"to_church" => nf::to_church(),
        "data/num/stumpfu.rs":"to_scott" => nf::to_scott(), "data/num/stumpfu.rs":"to_parigot" => nf::to_parigot(),
        "data/num/binary.rs":"b0" => nb::b0(), "data/num/binary.rs":"b1" => nb::b1(), "data/num/binary.rs":"zero" => nb::zero(),
        "data/num/binary.rs":"is_zero" => nb::is_zero(), "data/num/binary.rs":"one" => nb::one(), "data/num/binary.rs":"succ" => nb::succ(),
        "data/num/binary.rs":"pred" => nb::pred(), "data/num/binary.rs":"lsb" => nb::lsb(), "data/num/binary.rs":"shl0" => nb::shl0(),
        "data/num/binary.rs":"shl1" => nb::shl1(), "data/num/binary.rs":"strip" => nb::strip(),
        "data/num/signed.rs":"neg" => sg::neg(),
        "data/list/pair.rs":"nil" => lp::nil(), "data/list/pair.rs":"is_nil" => lp::is_nil(), "data/list/pair.rs":"cons" => lp::cons(),
        "data/list/pair.rs":"head" => lp::head(), "data/list/pair.rs":"tail" => lp::tail(), "data/list/pair.rs":"length" => lp::length(),
        "data/list/pair.rs":"index" => lp::index(), "data/list/pair.rs":"reverse" => lp::reverse(), "data/list/pair.rs":"list" => lp::list(),
        "data/list/pair.rs":"append" => lp::append(), "data/list/pair.rs":"map" => lp::map(), "data/list/pair.rs":"foldl" => lp::foldl(),
        "data/list/pair.rs":"foldr" => lp::foldr(), "data/list/pair.rs":"filter" => lp::filter(), "data/list/pair.rs":"last" => lp::last(),
        "data/list/pair.rs":"init" => lp::init(), "data/list/pair.rs":"zip" => lp::zip(), "data/list/pair.rs":"zip_with" => lp::zip_with(),
        "data/list/pair.rs":"take" => lp::take(), "data/list/pair.rs":"take_while" => lp::take_while(), "data/list/pair.rs":"drop" => lp::drop(),
        "data/list/pair.rs":"drop_while" => lp::drop_while(), "data/list/pair.rs":"replicate" => lp::replicate(),
        "data/list/church.rs":"nil" => lc::nil(), "data/list/church.rs":"is_nil" => lc::is_nil(), "data/list/church.rs":"cons" => lc::cons(),
        "data/list/church.rs":"head" => lc::head(), "data/list/church.rs":"tail" => lc::tail(),
        "data/list/scott.rs":"nil" => ls::nil(), "data/list/scott.rs":"is_nil" => ls::is_nil(), "data/list/scott.rs":"cons" => ls::cons(),
        "data/list/scott.rs":"head" => ls::head(), "data/list/scott.rs":"tail" => ls::tail(),
        "data/list/parigot.rs":"nil" => lpa::nil(), "data/list/parigot.rs":"is_nil" => lpa::is_nil(), "data/list/parigot.rs":"cons" => lpa::cons(),
        "data/list/parigot.rs":"head" => lpa::head(), "data/list/parigot.rs":"tail" => lpa::tail(),
    ];
    // signed operations are parameterised by the encoding
    let encs = [(Church, "church"), (Scott, "scott"), (Parigot, "parigot"), (StumpFu, "stumpfu")];
    let mut owned: Vec<(String, String, Term)> = t.drain(..).map(|(f, n, x)| (f.to_string(), n.to_string(), x)).collect();
    for (e, en) in encs.iter() {
        owned.push(("data/num/signed.rs".into(), format!("to_signed@{}", en), sg::to_signed(*e)));
        owned.push(("data/num/signed.rs".into(), format!("simplify@{}", en), sg::simplify(*e)));
        owned.push(("data/num/signed.rs".into(), format!("modulus@{}", en), sg::modulus(*e)));
        owned.push(("data/num/signed.rs".into(), format!("add@{}", en), sg::add(*e)));
        owned.push(("data/num/signed.rs".into(), format!("sub@{}", en), sg::sub(*e)));
        owned.push(("data/num/signed.rs".into(), format!("mul@{}", en), sg::mul(*e)));
    }
    let mode = std::env::args().nth(1).unwrap_or("coq".into());
    let ident = |f: &str, n: &str| -> String {
        let m = f.trim_end_matches(".rs").replace("data/", "").replace("num/", "num_").replace("list/", "list_").replace('/', "_");
        format!("{}_{}", m, n.replace('@', "_"))
    };
    if mode == "list" {
        for (f, n, _) in &owned {
            println!("{}\t{}", f, n.split('@').next().unwrap());
        }
    } else if mode == "coq" {
        println!("(** GENERATED by harness/src/bin/dump_terms.rs from the crate in /repo — do not edit. *)");
        println!("From LC Require Import Spec.Term.\n");
        for (f, n, x) in &owned {
            println!("Definition lc_{} : term := {}.", ident(f, n), coq(x));
        }
        println!("\nDefinition all_terms : list term := [{}].", owned.iter().map(|(f, n, _)| format!("lc_{}", ident(f, n))).collect::<Vec<_>>().join("; "));
    } else if mode == "ocaml" {
        println!("(* GENERATED *)\nlet table : (string * Lc_model.term) list = [");
        for (f, n, _) in &owned {
            println!("  (\"{}\", Lc_model.lc_{});", ident(f, n), ident(f, n));
        }
        println!("]");
    }
}
