(** C05 — NOR, CBN, APP and CBV contract the redex their documentation names; HSP stays on the spine *)
From LC Require Import Model.Reduction Spec.Positions Proofs.Sound Proofs.Positional Proofs.ReduceProps.

(** [pos_step o] (Spec/Positions.v) selects a redex by position only:
    NOR the first redex in pre-order (leftmost-outermost), CBN that redex provided its path consists
    of operator moves only, APP the first redex in post-order (leftmost of the innermost), CBV the
    first redex in post-order among those whose path does not enter an abstraction. *)
Theorem C05_single_step : forall fuel o t t' c, (o = NOR \/ o = CBN \/ o = APP \/ o = CBV) ->
  reduce_m fuel o 1 t = Some (t', c) ->
  (c = 1 /\ pos_step o t = Some t') \/ (c = 0 /\ t' = t /\ pos_step o t = None).
Proof.
  intros fuel o t t' c Ho H. rewrite <- (step_positional o t Ho). apply (reduce_single fuel); auto.
Qed.

(** every step of a longer run is such a step *)
Theorem C05_every_step : forall fuel o n t t' c, (o = NOR \/ o = CBN \/ o = APP \/ o = CBV) ->
  reduce_m fuel o n t = Some (t', c) -> iter (pos_step o) c t = Some t'.
Proof.
  intros fuel o n t t' c Ho H. apply reduce_char in H. destruct H as [H _].
  rewrite <- H. apply iter_ext. intros; symmetry; apply step_positional; auto.
Qed.

Theorem C05_cbn_is_nor_step : forall t u, step_cbn t = Some u -> step_nor t = Some u.
Proof. exact cbn_sub_nor. Qed.

(** HSP only ever contracts redexes whose position is on the head spine *)
Theorem C05_hsp : forall fuel n t t' c, reduce_m fuel HSP n t = Some (t', c) -> steps spine_step c t t'.
Proof. exact reduce_hsp_spine. Qed.

Example C05_example : pos_select APP (App (Abs (App (Abs (Var 1)) (Var 1))) (Var 2)) = Some [DL; DB].
Proof. reflexivity. Qed.

Print Assumptions C05_single_step.
Print Assumptions C05_every_step.
Print Assumptions C05_cbn_is_nor_step.
Print Assumptions C05_hsp.
