#!/bin/bash
# MANIFEST.setup_cmd: build the whole framework from files on disk only (offline).
set -e
cd "$(dirname "$0")"
export CARGO_NET_OFFLINE=true
mkdir -p .cache evidence
# 1. harness against /repo (both feature settings)
cp /repo/Cargo.lock harness/Cargo.lock 2>/dev/null || true
(cd harness && CARGO_TARGET_DIR=/verif/.cache/cargo-target RUSTFLAGS="--cfg lambda_calculus_verif" cargo build --release --offline --quiet)
(cd harness && CARGO_TARGET_DIR=/verif/.cache/cargo-target-bs RUSTFLAGS="--cfg lambda_calculus_verif" cargo build --release --offline --quiet --features backslash)
(cd harness && CARGO_TARGET_DIR=/verif/.cache/cargo-target-dev RUSTFLAGS="--cfg lambda_calculus_verif" cargo build --offline --quiet)   # dev profile: deep-input suites
# 2. generated Coq sources (term constants of the data modules)
python3 lib/gen.py /verif/.cache/cargo-target/release   # Gen/Terms.v, Gen/ReductionSrc.v, Gen/TermSrc.v
# 3. the Coq development, full .vo build
(cd coq && coq_makefile -f _CoqProject -o Makefile >/dev/null && timeout 7000 make -j16 >/dev/null)
# 4. extraction + OCaml driver
(cd ocaml && coqc -noglob -Q ../coq/theories LC ../coq/theories/Extract/Extract.v >/dev/null && \
  ocamlfind ocamlopt -O3 -w -a -package str lc_model.mli lc_model.ml common.ml gen_table.ml extra.ml driver.ml -o driver)
rm -f .cache/driver.stamp
echo setup-ok
