
val negb : bool -> bool

type nat =
| O
| S of nat

val option_map : ('a1 -> 'a2) -> 'a1 option -> 'a2 option

type ('a, 'b) sum =
| Inl of 'a
| Inr of 'b

val fst : ('a1 * 'a2) -> 'a1

val app : 'a1 list -> 'a1 list -> 'a1 list

type comparison =
| Eq
| Lt
| Gt

val add : nat -> nat -> nat

val sub : nat -> nat -> nat

val max : nat -> nat -> nat

module Nat :
 sig
  val eqb : nat -> nat -> bool

  val leb : nat -> nat -> bool

  val ltb : nat -> nat -> bool

  val compare : nat -> nat -> comparison

  val max : nat -> nat -> nat
 end

val map : ('a1 -> 'a2) -> 'a1 list -> 'a2 list

val flat_map : ('a1 -> 'a2 list) -> 'a1 list -> 'a2 list

val fold_left : ('a1 -> 'a2 -> 'a1) -> 'a2 list -> 'a1 -> 'a1

val fold_right : ('a2 -> 'a1 -> 'a1) -> 'a1 -> 'a2 list -> 'a1

val existsb : ('a1 -> bool) -> 'a1 list -> bool

val forallb : ('a1 -> bool) -> 'a1 list -> bool

val filter : ('a1 -> bool) -> 'a1 list -> 'a1 list

val list_max : nat list -> nat

type term =
| Var of nat
| Abs of term
| App of term * term

val size : term -> nat

val is_abs : term -> bool

val term_eqb : term -> term -> bool

val shift : nat -> nat -> term -> term

val subst : nat -> term -> term -> term

val up : (nat -> term) -> nat -> term

val inst : (nat -> term) -> term -> term

val beta_sub : term -> nat -> term

val neutralb : term -> bool

val nfb : term -> bool

val whnfb : term -> bool

val wnfb : term -> bool

val hnfb : term -> bool

val fv_at : nat -> term -> nat list

val fv : term -> nat list

val has_ud : term -> bool

val closed_at : nat -> term -> bool

val closed : term -> bool

type order =
| NOR
| CBN
| HSP
| HNO
| APP
| CBV
| HAP

val step_cbn : term -> term option

val step_nor : term -> term option

val step_cbv : term -> term option

val step_app : term -> term option

val step_hsp : term -> term option

val step_hno : term -> term option

val step_hap : term -> term option

val step_of : order -> term -> term option

val nf_of : order -> term -> bool

val iter : (term -> term option) -> nat -> term -> term option

type dir =
| DL
| DR
| DB

type path = dir list

val is_redex : term -> bool

val redexes_pre : term -> path list

val redexes_post : term -> path list

val contract_at : path -> term -> term option

val under_abs : path -> bool

val head_path : path -> bool

val spine_path : path -> bool

val first_path : path list -> path option

val pos_select : order -> term -> path option

val pos_step : order -> term -> term option

val reducts : term -> term list

val spine_reducts : term -> term list

val has_fv_spec : term -> bool

val strip : term -> term

val leaf_depths : nat -> term -> nat list

val max_depth_spec : term -> nat

val supercombb : nat -> term -> bool

type term_error =
| NotVar
| NotAbs
| NotApp

val update_free_variables : nat -> nat -> term -> term

val apply_rec : term -> nat -> term -> term

val apply_m : term -> term -> (term_error * term, term) sum

val eval_m : term -> term

val limit_hit : nat -> nat -> bool

val is_reducible : term -> nat -> nat -> bool

type r = (term * nat) option

val bind : r -> (term -> nat -> r) -> r

val ret : term -> nat -> r

val beta_cbn : nat -> nat -> nat -> term -> r

val beta_nor : nat -> nat -> nat -> term -> r

val beta_cbv : nat -> nat -> nat -> term -> r

val beta_app : nat -> nat -> nat -> term -> r

val beta_hap : nat -> nat -> nat -> term -> r

val beta_hsp : nat -> nat -> nat -> term -> r

val beta_hno : nat -> nat -> nat -> term -> r

val reduce_m : nat -> order -> nat -> term -> r

val beta_fn : nat -> term -> order -> nat -> term option

val run_history :
  nat -> (order * nat) list -> term -> (term * nat list) option

val unvar : term -> (term_error, nat) sum

val unabs : term -> (term_error, term) sum

val unapp : term -> (term_error, term * term) sum

val lhs : term -> (term_error, term) sum

val rhs : term -> (term_error, term) sum

val set_var : nat -> term -> term

val set_abs : term -> term -> term

val set_app_l : term -> term -> term

val set_app_r : term -> term -> term

val abs_c : term -> term

val app_c : term -> term -> term

val abs_macro : nat -> term -> term

val app_macro : term -> term list -> term

val has_free_variables_helper : nat -> term -> bool

val has_free_variables : term -> bool

val max_depth : term -> nat

val is_isomorphic_to : term -> term -> bool

val child_depth : nat -> term -> nat

val sc_loop : nat -> (nat * term) list -> bool option

val is_supercombinator : term -> bool option
