(** C13 — Church arithmetic and comparisons compute the arithmetic of the naturals.

    On the GENERATED constants of src/data/num/church.rs:
    (1) for ALL m, n: each of the 23 operations applied to the encodings of its arguments is
        beta-convertible (reduces) to the encoding of the mathematically expected result;
    (2) hence (C07) reduce with NOR or HNO and limit 0 returns exactly that encoding, for all m, n,
        and (C06) whatever APP or HAP return, if they return, is that encoding;
    (3) termination of HAP / APP is proved only on a grid whose bound is in the statement
        (m, n <= 3), by in-kernel evaluation of the model of reduce. *)
From LC Require Import Spec.Encodings Spec.Confluence Spec.NorEval Model.Reduction Gen.Terms
  Proofs.Sound Proofs.ReduceProps Proofs.Normalise Proofs.Convert Proofs.ChurchArith Proofs.Returns Spec.Typed Proofs.EagerTyped.

Theorem C13_unary : forall n,
  red (App lc_num_church_succ (church n)) (church (S n)) /\
  red (App lc_num_church_pred (church n)) (church (pred n)) /\
  red (App lc_num_church_fac (church n)) (church (fact n)) /\
  red (App lc_num_church_is_zero (church n)) (bool_t (n =? 0)) /\
  red (App lc_num_church_is_even (church n)) (bool_t (Nat.even n)) /\
  red (App lc_num_church_is_odd (church n)) (bool_t (Nat.odd n)).
Proof.
  intros n. repeat split.
  - apply church_succ. - apply church_pred. - apply church_fac.
  - apply church_is_zero. - apply church_is_even. - apply church_is_odd.
Qed.

Theorem C13_arithmetic : forall m n,
  red (App (App lc_num_church_add (church m)) (church n)) (church (m + n)) /\
  red (App (App lc_num_church_sub (church m)) (church n)) (church (m - n)) /\
  red (App (App lc_num_church_mul (church m)) (church n)) (church (m * n)) /\
  red (App (App lc_num_church_pow (church m)) (church n)) (church (m ^ n)) /\
  red (App (App lc_num_church_min (church m)) (church n)) (church (Nat.min m n)) /\
  red (App (App lc_num_church_max (church m)) (church n)) (church (Nat.max m n)) /\
  red (App (App lc_num_church_shl (church m)) (church n)) (church (m * 2 ^ n)) /\
  red (App (App lc_num_church_shr (church m)) (church n)) (church (m / 2 ^ n)).
Proof.
  intros m n. repeat split.
  - apply church_add. - apply church_sub. - apply church_mul. - apply church_pow.
  - apply church_min. - apply church_max. - apply church_shl. - apply church_shr.
Qed.

Theorem C13_division : forall m n, 1 <= n ->
  red (App (App lc_num_church_div (church m)) (church n)) (pair_t (church (m / n)) (church (m mod n))) /\
  red (App (App lc_num_church_quot (church m)) (church n)) (church (m / n)) /\
  red (App (App lc_num_church_rem (church m)) (church n)) (church (m mod n)).
Proof. intros m n H. repeat split. - apply church_div; auto. - apply church_quot; auto. - apply church_rem; auto. Qed.

Theorem C13_comparisons : forall m n,
  red (App (App lc_num_church_lt (church m)) (church n)) (bool_t (m <? n)) /\
  red (App (App lc_num_church_leq (church m)) (church n)) (bool_t (m <=? n)) /\
  red (App (App lc_num_church_eq (church m)) (church n)) (bool_t (m =? n)) /\
  red (App (App lc_num_church_neq (church m)) (church n)) (bool_t (negb (m =? n))) /\
  red (App (App lc_num_church_geq (church m)) (church n)) (bool_t (n <=? m)) /\
  red (App (App lc_num_church_gt (church m)) (church n)) (bool_t (n <? m)).
Proof.
  intros m n. repeat split.
  - apply church_lt. - apply church_leq. - apply church_eq. - apply church_neq. - apply church_geq. - apply church_gt.
Qed.

(** from convertibility to what the crate's reducer returns *)
Theorem C13_nor_returns : forall t v, red t v -> nfb v = true -> exists fuel c, reduce_m fuel NOR 0 t = Some (v, c).
Proof. exact nor_normalises. Qed.
Theorem C13_hno_returns : forall t v, red t v -> nfb v = true -> exists fuel c, reduce_m fuel HNO 0 t = Some (v, c).
Proof. exact hno_reduce_normalises. Qed.

Theorem C13_any_order_sound : forall o fuel t v u c, (o = NOR \/ o = HNO \/ o = APP \/ o = HAP) ->
  red t v -> nfb v = true -> reduce_m fuel o 0 t = Some (u, c) -> u = v.
Proof.
  intros o fuel t v u c Ho R N H.
  pose proof (reduce_stops_normal _ _ _ _ _ _ H (or_introl eq_refl)) as Nu.
  rewrite (nf_of_normalising _ Ho) in Nu.
  apply reduce_steps, steps_star in H.
  eapply nf_unique; eauto; apply nfb_nf; auto.
Qed.

(** e.g. NOR on add, for all m, n *)
Theorem C13_nor_add : forall m n, exists fuel c,
  reduce_m fuel NOR 0 (App (App lc_num_church_add (church m)) (church n)) = Some (church (m + n), c).
Proof. intros. apply nor_normalises; [apply church_add|apply church_nf]. Qed.

(** the property as stated: what [reduce] returns under the two normalising orders, for ALL m, n *)
Theorem C13_reduce_returns : forall o m n, lazy o ->
  returns o (App lc_num_church_succ (church n)) (church (S n)) /\
  returns o (App lc_num_church_pred (church n)) (church (pred n)) /\
  returns o (App lc_num_church_fac (church n)) (church (fact n)) /\
  returns o (App lc_num_church_is_zero (church n)) (bool_t (n =? 0)) /\
  returns o (App lc_num_church_is_even (church n)) (bool_t (Nat.even n)) /\
  returns o (App lc_num_church_is_odd (church n)) (bool_t (Nat.odd n)) /\
  returns o (App (App lc_num_church_add (church m)) (church n)) (church (m + n)) /\
  returns o (App (App lc_num_church_sub (church m)) (church n)) (church (m - n)) /\
  returns o (App (App lc_num_church_mul (church m)) (church n)) (church (m * n)) /\
  returns o (App (App lc_num_church_pow (church m)) (church n)) (church (m ^ n)) /\
  returns o (App (App lc_num_church_min (church m)) (church n)) (church (Nat.min m n)) /\
  returns o (App (App lc_num_church_max (church m)) (church n)) (church (Nat.max m n)) /\
  returns o (App (App lc_num_church_shl (church m)) (church n)) (church (m * 2 ^ n)) /\
  returns o (App (App lc_num_church_shr (church m)) (church n)) (church (m / 2 ^ n)) /\
  returns o (App (App lc_num_church_lt (church m)) (church n)) (bool_t (m <? n)) /\
  returns o (App (App lc_num_church_leq (church m)) (church n)) (bool_t (m <=? n)) /\
  returns o (App (App lc_num_church_eq (church m)) (church n)) (bool_t (m =? n)) /\
  returns o (App (App lc_num_church_neq (church m)) (church n)) (bool_t (negb (m =? n))) /\
  returns o (App (App lc_num_church_geq (church m)) (church n)) (bool_t (n <=? m)) /\
  returns o (App (App lc_num_church_gt (church m)) (church n)) (bool_t (n <? m)) /\
  (1 <= n ->
     returns o (App (App lc_num_church_div (church m)) (church n)) (pair_t (church (m / n)) (church (m mod n))) /\
     returns o (App (App lc_num_church_quot (church m)) (church n)) (church (m / n)) /\
     returns o (App (App lc_num_church_rem (church m)) (church n)) (church (m mod n))).
Proof.
  intros o m n L.
  destruct (C13_unary n) as (U1 & U2 & U3 & U4 & U5 & U6).
  destruct (C13_arithmetic m n) as (A1 & A2 & A3 & A4 & A5 & A6 & A7 & A8).
  destruct (C13_comparisons m n) as (K1 & K2 & K3 & K4 & K5 & K6).
  repeat split; try (apply (lazy_returns o); auto; first [apply church_nf | apply bool_nf]).
  all: intros; destruct (C13_division m n ltac:(assumption)) as (D1 & D2 & D3);
    apply (lazy_returns o); auto; first [apply church_nf | apply pair_nf; apply church_nf].
Qed.

(** the EAGER orders too, for ALL m, n, for the operations that are simply typable: a simply typed term is strongly
    normalising (Spec/Typed.v: Tait-Girard reducibility), so APP and HAP - like every strategy - terminate on it, and
    what they return is the normal form.  [full o] is o = NOR \/ o = HNO \/ o = APP \/ o = HAP.
    (For the other operations termination of APP / HAP is established on the bounded grids of C13G.v only.) *)
Theorem C13_eager_returns : forall o m n, full o ->
  returns o (App lc_num_church_succ (church n)) (church (S n)) /\
  returns o (App lc_num_church_pred (church n)) (church (pred n)) /\
  returns o (App lc_num_church_is_zero (church n)) (bool_t (n =? 0)) /\
  returns o (App lc_num_church_fac (church n)) (church (fact n)) /\
  returns o (App (App lc_num_church_add (church m)) (church n)) (church (m + n)) /\
  returns o (App (App lc_num_church_mul (church m)) (church n)) (church (m * n)).
Proof. intros o m n F. apply church_typed_returns; auto. Qed.
Theorem C13_typed_terms_strongly_normalising : forall G t A, has_type G t A -> sn t.
Proof. exact typed_sn. Qed.

Print Assumptions C13_unary.
Print Assumptions C13_arithmetic.
Print Assumptions C13_division.
Print Assumptions C13_comparisons.
Print Assumptions C13_nor_returns.
Print Assumptions C13_hno_returns.
Print Assumptions C13_any_order_sound.
Print Assumptions C13_nor_add.
Print Assumptions C13_reduce_returns.
Print Assumptions C13_eager_returns.
Print Assumptions C13_typed_terms_strongly_normalising.
