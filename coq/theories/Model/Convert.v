(** * Gallina mirror of src/data/num/convert.rs and src/data/list/convert.rs and of the
      tuple!/pi! macros: the loops as they are written in the crate. *)
From LC Require Export Spec.Term Model.TermOps.

(** for _ in 0..n { ret = f(ret) } *)
Fixpoint repeat_fn (n : nat) (f : term -> term) (x : term) : term :=
  match n with 0 => x | S k => repeat_fn k f (f x) end.

Definition into_church (n : nat) : term :=
  abs_macro 2 (repeat_fn n (fun ret => app_c (Var 2) ret) (Var 1)).

Definition into_scott (n : nat) : term :=
  repeat_fn n (fun ret => abs_macro 2 (app_c (Var 1) ret)) (abs_macro 2 (Var 2)).

(** ret.unabs().and_then(|r| r.unabs()).unwrap() *)
Definition unabs2 (t : term) : term :=
  match unabs t with
  | inr r => match unabs r with inr b => b | inl _ => t end
  | inl _ => t
  end.

Definition into_parigot (n : nat) : term :=
  repeat_fn n (fun ret => abs_macro 2 (app_macro (Var 2) [ret; unabs2 ret])) (abs_macro 2 (Var 1)).

(** for n in 1..self+1 { ret = abs!(2, app!(Var(2), n.into_church(), ret)) } *)
Fixpoint into_stumpfu_from (k : nat) (count : nat) (ret : term) : term :=
  match count with
  | 0 => ret
  | S c => into_stumpfu_from (S k) c (abs_macro 2 (app_macro (Var 2) [into_church k; ret]))
  end.
Definition into_stumpfu (n : nat) : term := into_stumpfu_from 1 n (abs_macro 2 (Var 1)).

(** format!("{:b}", self): most significant bit first *)
Fixpoint binstr_fuel (fuel n : nat) (acc : list bool) : list bool :=
  match fuel with 0 => acc | S f =>
    if n =? 0 then acc else binstr_fuel f (n / 2) (Nat.odd n :: acc)
  end.
Definition binstr (n : nat) : list bool := binstr_fuel n n [].

Definition into_binary (n : nat) : term :=
  let ret := if n =? 0 then Var 3
             else fold_left (fun ret (bit : bool) => if bit then app_c (Var 1) ret else app_c (Var 2) ret)
                            (binstr n) (Var 3) in
  abs_macro 3 ret.

Inductive encoding := Church | Scott | Parigot | StumpFu | Binary.

(** tuple!(first, next...) *)
Definition tuple_macro (first : term) (next : list term) : term :=
  abs_c (fold_left app_c next (app_c (Var 1) first)).

(** pi!(i, n) *)
Definition pi_macro (i n : nat) : term :=
  abs_c (app_c (Var 1) (repeat_fn n abs_c (Var (n + 1 - i)))).

(** into_signed: [None] is the panic for Binary *)
Definition into_signed (positive : bool) (modulus : nat) (e : encoding) : option term :=
  let numeral :=
    match e with
    | Church => Some (into_church modulus)
    | Scott => Some (into_scott modulus)
    | Parigot => Some (into_parigot modulus)
    | StumpFu => Some (into_stumpfu modulus)
    | Binary => None
    end in
  match numeral with
  | None => None
  | Some numeral =>
      let zero := match e with Scott => abs_macro 2 (Var 2) | _ => abs_macro 2 (Var 1) end in
      Some (if positive then tuple_macro numeral [zero] else tuple_macro zero [numeral])
  end.

(** impl_pair / impl_option / impl_result *)
Definition into_pair (a b : term) : term := abs_c (app_macro (Var 1) [a; b]).
Definition into_option (x : option term) : term :=
  match x with None => abs_macro 2 (Var 2) | Some v => abs_macro 2 (app_c (Var 1) v) end.
Definition into_result (x : term + term) : term :=   (* inl = Ok, inr = Err *)
  match x with inl ok => abs_macro 2 (app_c (Var 2) ok) | inr err => abs_macro 2 (app_c (Var 1) err) end.

(** list conversions: for t in self.into_iter().rev() { ... } *)
Definition into_pair_list (xs : list term) : term :=
  fold_left (fun ret t => abs_c (app_macro (Var 1) [t; ret])) (rev xs) (abs_macro 2 (Var 1)).
Definition into_church_list (xs : list term) : term :=
  abs_macro 2 (fold_left (fun ret t => app_macro (Var 1) [t; ret]) (rev xs) (Var 2)).
Definition into_scott_list (xs : list term) : term :=
  fold_left (fun ret t => abs_macro 2 (app_macro (Var 1) [t; ret])) (rev xs) (abs_macro 2 (Var 2)).
Definition into_parigot_list (xs : list term) : term :=
  fold_left (fun ret t => abs_macro 2 (app_macro (Var 1) [t; ret; unabs2 ret])) (rev xs) (abs_macro 2 (Var 2)).
