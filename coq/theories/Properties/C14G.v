(** C14, bounded part: in-kernel evaluation ([vm_compute]) of the model of [reduce] on grids whose bounds are in the
    statements - this is where termination of the eager orders (APP / HAP) is established, for the listed bounds only.
    Kept in a file of its own: [coqc] checks it with the kernel's VM on every run; the independent re-check with
    [coqchk] in the thorough tier covers Properties/C14.v (the unbounded theorems) but not this file, because
    [coqchk] re-evaluates the grids by plain conversion, which takes hours. *)
From Coq Require Import List. Import ListNotations.
From LC Require Import Spec.Encodings Model.Reduction Model.Convert Gen.Terms Proofs.Grids.

(** termination under APP / HAP where suitable: bounded grid (numbers <= 5, binary <= 20, multiplications <= 2) *)
Theorem C14_bounded_grid : forallb (fun b => b) othernum_grid = true.
Proof. exact othernum_grid_ok. Qed.

Theorem C14_bounded_church_to_scott : forall o n, In o [NOR; HNO; HAP; APP] -> n <= 5 ->
  exists c, reduce_m FUEL o 0 (App lc_num_church_to_scott (church n)) = Some (scott n, c).
Proof. apply (grid1_sound orders_all 5 lc_num_church_to_scott church scott). vm_compute. reflexivity. Qed.

Print Assumptions C14_bounded_grid.
Print Assumptions C14_bounded_church_to_scott.
