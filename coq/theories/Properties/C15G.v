(** C15, bounded part: in-kernel evaluation ([vm_compute]) of the model of [reduce] on grids whose bounds are in the
    statements - this is where termination of the eager orders (APP / HAP) is established, for the listed bounds only.
    Kept in a file of its own: [coqc] checks it with the kernel's VM on every run; the independent re-check with
    [coqchk] in the thorough tier covers Properties/C15.v (the unbounded theorems) but not this file, because
    [coqchk] re-evaluates the grids by plain conversion, which takes hours. *)
From Coq Require Import List. Import ListNotations.
From LC Require Import Spec.Encodings Model.Reduction Model.Convert Gen.Terms Proofs.Grids.

(** in-kernel evaluation of the model of reduce on a grid (p, n <= 3; p1, n1, p2, n2 <= 2), NOR and HNO *)
Theorem C15_bounded_grid : forallb (fun b => b) signed_grid = true.
Proof. exact signed_grid_ok. Qed.

Print Assumptions C15_bounded_grid.
