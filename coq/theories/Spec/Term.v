(** * Terms of the untyped lambda calculus, in the crate's conventions.

    De Bruijn indices are 1-based: [Var 1] refers to the innermost enclosing
    binder.  [Var 0] is the crate's [UD] constant ("undefined"): it is never
    bound, never shifted and never substituted for. *)
From Coq Require Export List Arith Lia Bool.
Export ListNotations.

Inductive term : Type :=
| Var (n : nat)
| Abs (t : term)
| App (l r : term).

Definition UD : term := Var 0.

Fixpoint size (t : term) : nat :=
  match t with
  | Var _ => 1
  | Abs b => S (size b)
  | App l r => S (size l + size r)
  end.

Definition is_abs (t : term) : bool :=
  match t with Abs _ => true | _ => false end.

Fixpoint term_eqb (t u : term) : bool :=
  match t, u with
  | Var i, Var j => Nat.eqb i j
  | Abs a, Abs b => term_eqb a b
  | App a b, App c d => term_eqb a c && term_eqb b d
  | _, _ => false
  end.

Lemma term_eqb_refl t : term_eqb t t = true.
Proof. induction t; simpl; auto using Nat.eqb_refl. rewrite IHt1, IHt2; auto. Qed.

Lemma term_eqb_eq t u : term_eqb t u = true <-> t = u.
Proof.
  split; [|intros ->; apply term_eqb_refl].
  revert u; induction t as [i|a IH|a IHa b IHb]; intros [j|c|c d]; simpl; try discriminate.
  - intros H; apply Nat.eqb_eq in H; congruence.
  - intros H; f_equal; auto.
  - intros H; apply andb_true_iff in H; destruct H; f_equal; auto.
Qed.

Lemma term_eq_dec (t u : term) : {t = u} + {t <> u}.
Proof. decide equality. apply Nat.eq_dec. Defined.

(** n-fold abstraction and left-nested application ([abs!] / [app!]). *)
Fixpoint abs_n (n : nat) (t : term) : term :=
  match n with 0 => t | S k => Abs (abs_n k t) end.

Definition app_l (h : term) (args : list term) : term := fold_left App args h.

Lemma abs_n_out n t : abs_n n (Abs t) = Abs (abs_n n t).
Proof. induction n; simpl; congruence. Qed.

(** Reflexive-transitive closure, used for every reduction relation. *)
Inductive star {A} (R : A -> A -> Prop) : A -> A -> Prop :=
| star_refl x : star R x x
| star_step x y z : R x y -> star R y z -> star R x z.

Lemma star_trans {A} (R : A -> A -> Prop) x y z : star R x y -> star R y z -> star R x z.
Proof. induction 1; auto. intros. econstructor; eauto. Qed.
Lemma star_one {A} (R : A -> A -> Prop) x y : R x y -> star R x y.
Proof. intros; econstructor; eauto; constructor. Qed.
Lemma star_snoc {A} (R : A -> A -> Prop) x y z : star R x y -> R y z -> star R x z.
Proof. intros; eapply star_trans; eauto using star_one. Qed.
Lemma star_ind_r {A} (R : A -> A -> Prop) (P : A -> A -> Prop) :
  (forall x, P x x) -> (forall x y z, star R x y -> P x y -> R y z -> P x z) ->
  forall x y, star R x y -> P x y.
Proof.
  intros H0 Hs x y H.
  assert (G : forall x y, star R x y -> forall w, star R w x -> P w x -> P w y).
  { induction 1; auto. intros. apply IHstar. eapply star_snoc; eauto. eapply Hs; eauto. }
  eapply G; eauto. constructor.
Qed.
Lemma star_map {A B} (R : A -> A -> Prop) (Q : B -> B -> Prop) (f : A -> B) :
  (forall x y, R x y -> Q (f x) (f y)) -> forall x y, star R x y -> star Q (f x) (f y).
Proof. intros H x y S; induction S; [constructor|econstructor; eauto]. Qed.
Lemma star_sub {A} (R Q : A -> A -> Prop) :
  (forall x y, R x y -> Q x y) -> forall x y, star R x y -> star Q x y.
Proof. intros H x y S; induction S; [constructor|econstructor; eauto]. Qed.

(** Exactly [n] steps. *)
Inductive steps {A} (R : A -> A -> Prop) : nat -> A -> A -> Prop :=
| steps_0 x : steps R 0 x x
| steps_S n x y z : R x y -> steps R n y z -> steps R (S n) x z.

Lemma steps_star {A} (R : A -> A -> Prop) n x y : steps R n x y -> star R x y.
Proof. induction 1; [constructor|econstructor; eauto]. Qed.
Lemma star_steps {A} (R : A -> A -> Prop) x y : star R x y -> exists n, steps R n x y.
Proof. induction 1 as [|x y z H _ [n IH]]; [exists 0; constructor|exists (S n); econstructor; eauto]. Qed.
Lemma steps_trans {A} (R : A -> A -> Prop) n m x y z :
  steps R n x y -> steps R m y z -> steps R (n + m) x z.
Proof. induction 1; simpl; auto. intros. econstructor; eauto. Qed.
