#!/usr/bin/env python3
"""Translator: the printers of /repo/src/term.rs  ->  coq/theories/Gen/PrintSrc.v   (module PSrc)

`show_precedence_cla`, `show_precedence_dbr`, `parenthesize_if`, `base26_encode` and the two `fmt` impls (Display,
Debug) are REGENERATED from the Rust source on every run of the C10/C11 checks; Proofs/PrintSrcTie.v re-proves that
they are the hand-written model functions of Model/Display.v, for which the round-trip and format theorems were
proved, and Properties/C10.v / C11.v state those theorems on the generated printers.

On top of the expression idiom of lib/trans_term.py this translator understands: string literals and
`format!("..", args)` with the placeholders `{}`, `{:X}` (upper-case hex of an index: the hand-written `upper_hex`,
i.e. Rust's formatting machinery is modelled, not translated) and `{:?}` of a sub-term (the Debug impl, which must be
`write!(f, "{}", show_precedence_dbr(self, CTX))`); `LAMBDA` (a parameter of every generated printer: 955 or 92);
widening casts `as usize`; truncated subtraction on usize (the model's naturals; an underflow would panic in Rust -
outside the model); `.into()`, `.to_owned()`; `let (a, b) = (e1, e2);`; calls of the other printers; and the byte loop
of `base26_encode` (`let mut buf = Vec::<u8>::new(); n += 1; while n > 0 { let..; buf.push(c); n = E } buf.reverse();
String::from_utf8(buf)..`), which becomes recursion on fuel S (S n) (proved sufficient in Proofs/Base26.v for the
hand-written twin).  Anything else is refused (TransError) and the check falls back to coq/baseline/PrintSrc.v.
"""
import re
import sys

from trans_reduction import TransError, tokenize, P, split_top
from trans_term import Tr, gname, IDENT

STR_TY = {"usize": "nat", "u32": "nat", "bool": "bool", "Term": "term", "str": "str", "String": "str", "Cow<str>": "str"}
PRINTERS = ["parenthesize_if", "show_precedence_dbr", "show_precedence_cla"]


def ty(toks, what):
    s = "".join(t for t in toks if t not in ("&", "mut", "'", "a"))
    if s not in STR_TY:
        raise TransError("%s: type `%s` is outside the translated idiom" % (what, " ".join(toks)))
    return STR_TY[s]


def codepoints(lit):
    out, i = [], 0
    while i < len(lit):
        c = lit[i]
        if c == "\\":
            i += 1
            c = {"n": "\n", "t": "\t", "\\": "\\", '"': '"', "'": "'"}.get(lit[i])
            if c is None:
                raise TransError("string escape `\\%s`" % lit[i])
        out.append(str(ord(c)))
        i += 1
    return out


def lit_expr(lit):
    cps = codepoints(lit)
    return "[%s]%%N" % "; ".join(cps) if cps else "[]"


class TrP(Tr):
    """printers: strings are lists of code points (N)"""

    def __init__(self, known, what, strings, debug_call, free_fns):
        Tr.__init__(self, known, what)
        self.strings, self.debug_call, self.free_fns = strings, debug_call, free_fns

    def mul(self, p, env):
        e = self.unary(p, env)
        while p.peek() in ("/", "%"):
            op = p.next()
            e = "(%s %s %s)" % (e, {"/": "/", "%": "mod"}[op], self.unary(p, env))
        return e

    def add(self, p, env):
        e = self.mul(p, env)
        while p.peek() in ("+", "-"):
            op = p.next()
            e = "(%s %s %s)" % (e, op, self.mul(p, env))
        return e

    def postfix(self, p, env):
        e = self.primary(p, env)
        while True:
            if p.peek() == "." and p.peek(1) in ("into", "to_owned", "to_string") and p.peek(2) == "(":
                p.next(), p.next()
                if p.parens():
                    self.err("arguments to .into()/.to_owned()")
                continue
            if p.peek() == "as":
                if p.peek(1) != "usize":
                    self.err("cast `as %s` is outside the translated idiom (only the widening `as usize` is)" % p.peek(1))
                p.next(), p.next()
                continue
            if p.peek() == ".":
                p.next()
                m = p.next()
                args = [self.expr(P(a, self.what), env) for a in split_top(p.parens(), ",") if a]
                if m == "max_depth" and not args:
                    e = "(TSrc.max_depth %s)" % self.val(e)
                    continue
                self.err("call of `.%s(..)` is outside the translated idiom" % m)
            break
        return e

    def fmt(self, args_toks, env):
        parts = split_top(args_toks, ",")
        parts = [a for a in parts if a]
        if not parts or len(parts[0]) != 1 or parts[0][0] not in self.strings:
            self.err("format! without a literal template")
        tmpl = self.strings[parts[0][0]]
        args = parts[1:]
        pieces, k = [], 0
        for m in re.split(r"(\{[^}]*\})", tmpl):
            if not m:
                continue
            if m.startswith("{"):
                if k >= len(args):
                    self.err("format!: more placeholders than arguments")
                a = args[k]
                k += 1
                if m == "{}":
                    pieces.append("[lambda]" if a == ["LAMBDA"] else self.val(self.expr(P(a, self.what), env)))
                elif m == "{:X}":
                    pieces.append("(upper_hex %s)" % self.val(self.expr(P(a, self.what), env)))
                elif m == "{:?}":
                    if self.debug_call is None:
                        self.err("`{:?}` but the Debug impl was not recognised")
                    fn, ctx = self.debug_call
                    pieces.append("(%s lambda %s %s)" % (fn, self.val(self.expr(P(a, self.what), env)), ctx))
                else:
                    self.err("format placeholder `%s`" % m)
            else:
                pieces.append(lit_expr(m))
        if k != len(args):
            self.err("format!: more arguments than placeholders")
        return "(%s)" % " ++ ".join(pieces) if pieces else "[]"

    def primary(self, p, env):
        x = p.peek()
        if x in self.strings:
            p.next()
            return lit_expr(self.strings[x])
        if x == "format" and p.peek(1) == "!":
            p.next(), p.next()
            return self.fmt(p.parens(), env)
        if x == "LAMBDA":
            p.next()
            return "lambda"
        if x in self.free_fns and p.peek(1) == "(":
            p.next()
            args = [self.val(self.expr(P(a, self.what), env)) for a in split_top(p.parens(), ",") if a]
            if x == "base26_encode":
                return "(base26_encode %s)" % " ".join("(%s)" % a for a in args)
            return "(%s lambda %s)" % (x, " ".join("(%s)" % a for a in args))
        return Tr.primary(self, p, env)

    def let(self, p, env):
        # let (a, b) = (e1, e2);
        if p.peek() == "(":
            save = p.i
            names = [[y for y in part if y not in ("ref", "mut", "&")] for part in split_top(p.parens(), ",")]
            if p.accept("=") and p.peek() == "(":
                rhs = split_top(p.parens(), ",")
                if p.accept(";") and len(rhs) == len(names) and all(len(n) == 1 and IDENT.match(n[0]) for n in names):
                    vals = [self.val(self.expr(P(r, self.what), env)) for r in rhs]
                    pre = ""
                    for n, v in zip(names, vals):
                        pre += "let %s' := %s in " % (gname(n[0]), v)
                    for n in names:
                        env[n[0]] = gname(n[0]) + "'"
                    return pre
            p.i = save
        return Tr.let(self, p, env)


def top_level_fns(toks):
    """{name: (params, ret, body)} for `fn` items outside impl blocks; plus the impl bodies of Display / Debug"""
    p = P(toks, "term.rs")
    fns, impls = {}, {}
    while not p.eof():
        x = p.next()
        if x == "impl":
            hdr = []
            while p.peek() != "{":
                hdr.append(p.next())
            body = p.block()
            h = "".join(hdr)
            if h in ("fmt::DisplayforTerm", "fmt::DebugforTerm"):
                impls["Display" if "Display" in h else "Debug"] = body
        elif x == "fn":
            name = p.ident()
            if p.peek() == "<":
                while p.peek() != "(":
                    p.next()
            params = p.parens()
            ret = []
            while p.peek() != "{":
                ret.append(p.next())
            fns[name] = (params, ret[1:] if ret and ret[0] == "->" else ret, p.block())
        elif x == "macro_rules":
            p.next()
            p.next()
            p.block()
    return fns, impls


def impl_call(body, what):
    """fn fmt(&self, f: ..) -> fmt::Result { write!(f, "{}", CALL) }  ->  tokens of CALL"""
    q = P(body, what)
    q.expect("fn", "fmt")
    q.parens()
    while q.peek() != "{":
        q.next()
    b = P(q.block(), what)
    b.expect("write", "!")
    args = split_top(b.parens(), ",")
    b.accept(";")
    if not b.eof() or len(args) != 3 or args[0] != ["f"]:
        raise TransError("%s: body is not `write!(f, \"{}\", ..)`" % what)
    return args[1], args[2]


def params_of(params, what):
    out = []
    for part in split_top(params, ","):
        if not part:
            continue
        part = [x for x in part if x != "mut" or part.index(x) > 0]
        k = part.index(":")
        out.append((part[k - 1], ty(part[k + 1:], what)))
    return out


def trans_base26(fns, strings):
    params, ret, body = fns["base26_encode"]
    what = "fn base26_encode"
    ps = params_of(params, what)
    if len(ps) != 1 or ps[0][1] != "nat":
        raise TransError(what + ": signature")
    n = ps[0][0]
    tr = TrP(set(), what, strings, None, set())
    p = P(list(body), what)
    p.expect("let", "mut")
    buf = p.ident()
    p.expect("=", "Vec", "::", "<", "u8", ">", "::", "new", "(", ")", ";")
    env = {n: gname(n)}
    # n += 1;
    p.expect(n, "+=")
    inc = tr.val(tr.expr(p, env))
    p.expect(";")
    p.expect("while")
    cond, _ = tr.scrutinee(p, env)
    loop = P(p.block(), what)
    pre, pushed, nxt = "", None, None
    lenv = dict(env)
    while not loop.eof():
        if loop.accept("let"):
            x = loop.ident()
            loop.expect("=")
            start, depth = loop.i, 0
            while not (loop.peek() == ";" and depth == 0):
                t = loop.next()
                depth += (t in "({[") - (t in ")}]")
            toks = loop.t[start:loop.i]
            loop.expect(";")
            # (E) as u8  /  byte literals b'a'
            toks = [t for t in toks]
            q = P(toks, what)
            e = trans_u8(tr, q, lenv)
            if not q.eof():
                raise TransError("%s: cannot translate `let %s = %s`" % (what, x, " ".join(toks)))
            lenv[x] = gname(x)
            pre += "let %s := %s in " % (gname(x), e)
        elif loop.accept(buf, ".", "push"):
            pushed = tr.val(tr.expr(P(loop.parens(), what), lenv))
            loop.accept(";")
        elif loop.accept(n, "="):
            nxt = tr.val(tr.expr(loop, lenv))
            loop.accept(";")
        else:
            raise TransError("%s: statement `%s ..` in the loop" % (what, " ".join(loop.rest()[:6])))
    p.expect(buf, ".", "reverse", "(", ")", ";")
    p.expect("String", "::", "from_utf8", "(", buf, ")")
    if pushed is None or nxt is None:
        raise TransError(what + ": the loop must push one byte and update the counter")
    return ("Fixpoint base26_loop (fuel : nat) (%s : nat) (buf : list N) : list N :=\n  match fuel with 0 => buf | S f =>\n"
            "    if %s then %sbase26_loop f (%s) (buf ++ [N.of_nat (%s)]) else buf\n  end.\n"
            "Definition base26_encode (%s : nat) : str := rev (base26_loop (S (S %s)) (%s + %s) []).\n"
            % (gname(n), cond, pre, nxt, pushed, gname(n), gname(n), gname(n), inc))


def trans_u8(tr, q, env):
    """byte arithmetic of base26_encode: `(n % 26) as u8`, `if m == 0 { 26 } else { m }`, `m + b'a' - 1`"""
    toks = q.t[q.i:]
    s = " ".join(toks)
    m = re.match(r"^\( (\w+) % (\d+) \) as u8$", s)
    if m:
        q.i = len(q.t)
        return "(%s mod %s)" % (env.get(m.group(1), m.group(1)), m.group(2))
    return tr.val(tr.expr(q, env))


def translate(src):
    src = re.sub(r"/\*.*?\*/", " ", src, flags=re.S)
    src = re.sub(r"//[^\n]*", " ", src)
    strings = {}

    def keep(m):
        k = "STR%d__" % len(strings)
        strings[k] = m.group(1)
        return " " + k + " "
    src = re.sub(r"b'(.)'", lambda m: " %d " % ord(m.group(1)), src)          # byte literals
    src = re.sub(r"'(?:\\.|[^'\\\n])'", " 0 ", src)                          # char literals (the two LAMBDA constants)
    src = re.sub(r'"((?:[^"\\]|\\.)*)"', keep, src)
    src = src.replace("%", " % ")
    toks = []
    for t in re.findall(r"\s+|\d+|[A-Za-z_][A-Za-z0-9_]*|::|=>|==|!=|<=|>=|&&|\|\||\+=|-=|->|[{}()\[\];,.&*=<>!+\-|?:#'%/@$^~]", src):
        if not t.isspace():
            toks.append(t)
    fns, impls = top_level_fns(toks)
    for f in PRINTERS + ["base26_encode"]:
        if f not in fns:
            raise TransError("src/term.rs no longer defines `fn %s`" % f)
    if "Debug" not in impls or "Display" not in impls:
        raise TransError("impl fmt::Display / fmt::Debug for Term not found")
    fmt_d, call_d = impl_call(impls["Debug"], "impl Debug")
    if fmt_d[0] not in strings or strings[fmt_d[0]] != "{}":
        raise TransError("impl Debug: template is not \"{}\"")
    q = P(call_d, "impl Debug")
    fn = q.ident()
    a = split_top(q.parens(), ",")
    if fn not in PRINTERS or len(a) != 2 or a[0] != ["self"] or not q.eof():
        raise TransError("impl Debug: not a call `f(self, CTX)` of a translated printer")
    debug_call = (fn, "".join(a[1]))
    out = ["(** GENERATED by lib/trans_print.py from /repo/src/term.rs on every run - do not edit. *)",
           "From Coq Require Import NArith List Arith. Import ListNotations.",
           "From LC Require Import Model.Display Gen.TermSrc.", "Open Scope bool_scope.", "", "Module PSrc.", ""]
    out.append(trans_base26(fns, strings))
    free = set(PRINTERS) | {"base26_encode"}
    for name in PRINTERS:
        params, ret, body = fns[name]
        what = "fn " + name
        tr = TrP(set(), what, strings, debug_call, free)
        ps = params_of(params, what)
        env = {x: gname(x) for x, _ in ps}
        e = tr.block(body, env)
        rec = ("(%s " % name) in e
        sig = "".join(" (%s : %s)" % (gname(x), t) for x, t in ps)
        struct = ""
        if rec:
            terms = [gname(x) for x, t in ps if t == "term"]
            if len(terms) != 1:
                raise TransError(what + ": cannot tell the structural argument")
            struct = " {struct %s}" % terms[0]
        out.append("%s %s (lambda : N)%s%s : %s :=\n  %s.\n" % ("Fixpoint" if rec else "Definition", name, sig, struct, ty(ret, what), e))
    for nm, key in (("display", "Display"), ("debug", "Debug")):
        fmt_t, call = impl_call(impls[key], "impl " + key)
        if fmt_t[0] not in strings or strings[fmt_t[0]] != "{}":
            raise TransError("impl %s: template is not \"{}\"" % key)
        tr = TrP(set(), "impl " + key, strings, debug_call, free)
        q = P(call, "impl " + key)
        e = tr.val(tr.expr(q, {"self": "self_"}))
        if not q.eof():
            raise TransError("impl %s: cannot translate the printed expression" % key)
        out.append("Definition %s (lambda : N) (self_ : term) : str :=\n  %s.\n" % (nm, e))
    out.append("End PSrc.")
    return "\n".join(out) + "\n"


if __name__ == "__main__":
    try:
        text = translate(open(sys.argv[1] if len(sys.argv) > 1 else "/repo/src/term.rs", encoding="utf-8").read())
    except TransError as e:
        print("TRANSLATION REFUSED: %s" % e)
        sys.exit(1)
    if len(sys.argv) > 2:
        open(sys.argv[2], "w", encoding="utf-8").write(text)
    else:
        print(text)
