(** * tuple! / pi! for ALL arities, and the From conversions (C17) *)
From LC Require Import Spec.NorEval Spec.Encodings Model.TermOps Model.Convert Gen.Terms Proofs.Laws Proofs.Convert
  Proofs.ChurchArith Proofs.RedSetoid.
From Coq Require Import List. Import ListNotations.

Lemma repeat_fn_S n f x : repeat_fn (S n) f x = f (repeat_fn n f x).
Proof. revert x. induction n as [|n IH]; intros x; [reflexivity|]. cbn [repeat_fn] in *. rewrite IH. reflexivity. Qed.
Definition absn (n : nat) (b : term) : term := repeat_fn n abs_c b.
Lemma absn_S n b : absn (S n) b = Abs (absn n b).
Proof. unfold absn. apply repeat_fn_S. Qed.
Lemma subst_absn k a n b : subst k a (absn n b) = absn n (subst (k + n) a b).
Proof.
  revert k. induction n as [|n IH]; intros k.
  - unfold absn. cbn [repeat_fn]. rewrite Nat.add_0_r. reflexivity.
  - rewrite !absn_S. cbn [subst]. rewrite IH. replace (S k + n) with (k + S n) by lia. reflexivity.
Qed.
Lemma red_fold_app xs a b : red a b -> red (fold_left App xs a) (fold_left App xs b).
Proof. revert a b. induction xs as [|x r IH]; intros a b H; cbn [fold_left]; [auto|]. apply IH. rewrite H. reflexivity. Qed.

(** a constant n-ary function *)
Lemma absn_const : forall args a, red (fold_left App args (absn (length args) (shift (length args) 0 a))) a.
Proof.
  induction args as [|b r IH]; intros a; cbn [length fold_left].
  - unfold absn. cbn [repeat_fn]. rewrite shift_0. reflexivity.
  - rewrite absn_S. rewrite red_fold_app with (b := absn (length r) (shift (length r) 0 a)); [apply IH|].
    eapply star_step; [apply s_beta|]. rewrite subst_absn. rewrite subst_shift_cancel by lia.
    replace (S (length r) - 1) with (length r) by lia. apply star_refl.
Qed.
(** the k-th projection of n arguments (k counted from the innermost binder, i.e. from the LAST argument) *)
Lemma absn_select : forall args k d, 1 <= k <= length args ->
  red (fold_left App args (absn (length args) (Var k))) (nth (length args - k) args d).
Proof.
  induction args as [|a r IH]; intros k d Hk; cbn [length] in *; [lia|].
  cbn [fold_left]. rewrite absn_S.
  destruct (Nat.eq_dec k (S (length r))) as [->|Hne].
  - rewrite Nat.sub_diag. cbn [nth].
    rewrite red_fold_app with (b := absn (length r) (shift (length r) 0 a)); [apply absn_const|].
    eapply star_step; [apply s_beta|]. rewrite subst_absn. cbn [subst].
    replace (S (length r) ?= 1 + length r) with Eq by (symmetry; apply Nat.compare_eq_iff; lia).
    replace (1 + length r - 1) with (length r) by lia. apply star_refl.
  - rewrite red_fold_app with (b := absn (length r) (Var k)).
    + replace (S (length r) - k) with (S (length r - k)) by lia. cbn [nth]. apply IH. lia.
    + eapply star_step; [apply s_beta|]. rewrite subst_absn. cbn [subst].
      replace (k ?= 1 + length r) with Lt by (symmetry; apply Nat.compare_lt_iff; lia). apply star_refl.
Qed.

(** tuple!(x1, .., xn) with payloads lifted over the tuple's binder (as the macro's callers must do) *)
Lemma tuple_select xs s : closed s = true ->
  red (tuple_t (map (shift 1 0) xs) @ s) (fold_left App xs s).
Proof.
  intros Cs. unfold tuple_t. eapply star_step; [apply s_beta|].
  assert (E : forall ys h, subst 1 s (fold_left App (map (shift 1 0) ys) h) = fold_left App ys (subst 1 s h)).
  { induction ys as [|y r IH]; intros h; cbn [map fold_left]; [reflexivity|].
    rewrite IH. cbn [subst]. rewrite subst_shift_cancel by lia. rewrite shift_0. reflexivity. }
  rewrite E. cbn [subst Nat.compare Nat.sub]. rewrite shift_0. apply star_refl.
Qed.

Lemma pi_macro_eq i n : pi_macro i n = Abs (v1 @ absn n (Var (n + 1 - i))).
Proof. reflexivity. Qed.
Lemma absn_closed n k : 1 <= k <= n -> closed (absn n (Var k)) = true.
Proof.
  intros H. unfold closed.
  assert (E : forall m d, closed_at d (absn m (Var k)) = (k <=? d + m)).
  { induction m as [|m IH]; intros d; [unfold absn; cbn [repeat_fn closed_at]; rewrite Nat.add_0_r; reflexivity|].
    rewrite absn_S. cbn [closed_at]. rewrite IH. f_equal. lia. }
  rewrite E. apply Nat.leb_le. lia.
Qed.

Theorem pi_tuple xs i d : 1 <= i <= length xs ->
  red (pi_macro i (length xs) @ tuple_t (map (shift 1 0) xs)) (nth (i - 1) xs d).
Proof.
  intros Hi. rewrite pi_macro_eq.
  assert (Cs : closed (absn (length xs) (Var (length xs + 1 - i))) = true) by (apply absn_closed; lia).
  eapply star_step; [apply s_beta|]. cbn [subst Nat.compare Nat.sub]. rewrite shift_0.
  rewrite (subst_closed 1 _ _ Cs) by lia.
  rewrite tuple_select by auto. rewrite (absn_select xs _ d) by lia.
  replace (length xs - (length xs + 1 - i)) with (i - 1) by lia. reflexivity.
Qed.
(** closed payloads need no lifting *)
Lemma map_shift_closed xs : forallb closed xs = true -> map (shift 1 0) xs = xs.
Proof.
  induction xs as [|x r IH]; intros Hc; [reflexivity|]. cbn [forallb] in Hc. apply andb_true_iff in Hc. destruct Hc as [Cx Cr].
  cbn [map]. rewrite shift_closed by auto. f_equal. apply IH; auto.
Qed.
Corollary pi_tuple_closed xs i d : forallb closed xs = true -> 1 <= i <= length xs ->
  red (pi_macro i (length xs) @ tuple_t xs) (nth (i - 1) xs d).
Proof. intros Hc Hi. pose proof (pi_tuple xs i d Hi) as H. rewrite map_shift_closed in H by auto. exact H. Qed.

(** ** From conversions: the converted value is the normal form of the constructor application *)
Theorem from_pair a b : closed a = true -> closed b = true ->
  red (lc_pair_pair @ a @ b) (into_pair a b) /\ (nfb a = true -> nfb b = true -> nfb (into_pair a b) = true).
Proof.
  intros Ca Cb. split; [apply mk_pair; auto|]. intros Na Nb. unfold into_pair, abs_c, app_macro, app_c. cbn [fold_left nfb is_abs negb andb].
  rewrite Na, Nb. reflexivity.
Qed.
Theorem from_option x : closed x = true ->
  red (lc_option_some @ x) (into_option (Some x)) /\ lc_option_none = into_option None /\
  (nfb x = true -> nfb (into_option (Some x)) = true).
Proof.
  intros Cx. repeat split.
  - pose proof (some_law x) as H. unfold up2 in H. rewrite !(shift_closed _ _ x) in H by auto. exact H.
  - intros N. cbn [into_option abs_macro repeat_fn abs_c app_c nfb is_abs negb andb]. rewrite N. reflexivity.
Qed.
Theorem from_result x : closed x = true ->
  red (lc_result_ok @ x) (into_result (inl x)) /\ red (lc_result_err @ x) (into_result (inr x)) /\
  (nfb x = true -> nfb (into_result (inl x)) = true /\ nfb (into_result (inr x)) = true).
Proof.
  intros Cx. repeat split.
  - pose proof (ok_law x) as H. unfold up2 in H. rewrite !(shift_closed _ _ x) in H by auto. exact H.
  - pose proof (err_law x) as H. unfold up2 in H. rewrite !(shift_closed _ _ x) in H by auto. exact H.
  - cbn [into_result abs_macro repeat_fn abs_c app_c nfb is_abs negb andb]. rewrite H. reflexivity.
  - cbn [into_result abs_macro repeat_fn abs_c app_c nfb is_abs negb andb]. rewrite H. reflexivity.
Qed.
Theorem from_bool b : bool_t b = (if b then lc_boolean_tru else lc_boolean_fls).
Proof. destruct b; reflexivity. Qed.
