(** * The model of [Term::apply] is capture-avoiding substitution. *)
From LC Require Import Model.Reduction.

Lemma update_fv_is_shift d c t : update_free_variables d c t = shift d c t.
Proof. revert c; induction t; intros; simpl; auto; f_equal; auto. Qed.

Lemma apply_rec_is_subst a k t : apply_rec a k t = subst k a t.
Proof.
  revert k; induction t as [i|b IH|l IHl r IHr]; intros k; simpl.
  - destruct (i ?= k); auto using update_fv_is_shift.
  - f_equal; auto.
  - f_equal; auto.
Qed.

Lemma apply_m_abs b a : apply_m (Abs b) a = inr (subst 1 a b).
Proof. unfold apply_m. simpl. rewrite apply_rec_is_subst. reflexivity. Qed.

Lemma apply_m_abs_inst b a : apply_m (Abs b) a = inr (inst (beta_sub a) b).
Proof. rewrite apply_m_abs, inst_beta_sub. reflexivity. Qed.

Lemma apply_m_not_abs t a : is_abs t = false -> apply_m t a = inl (NotAbs, t).
Proof. destruct t; simpl; auto; discriminate. Qed.

Lemma eval_m_redex b r : eval_m (App (Abs b) r) = subst 1 r b.
Proof. unfold eval_m. rewrite apply_m_abs. reflexivity. Qed.

(** ** What substitution does to variables: the informal clauses of C02. *)

(** every outer reference of the result comes from the abstraction or from the argument *)
Lemma fv_at_shift d c k t : c <= k -> fv_at (k + d) (shift d c t) = fv_at k t.
Proof.
  revert c k; induction t as [i|b IH|l IHl r IHr]; intros c k Hc; simpl.
  - destruct (Nat.ltb_spec c i); simpl.
    + destruct (Nat.ltb_spec (k + d) (i + d)), (Nat.ltb_spec k i); try lia; auto. f_equal; lia.
    + destruct (Nat.ltb_spec (k + d) i), (Nat.ltb_spec k i); try lia; auto.
  - rewrite <- (IH (S c) (S k)) by lia. reflexivity.
  - rewrite IHl, IHr by lia. reflexivity.
Qed.

Lemma fv_at_subst k d a t : 1 <= k -> k <= S d ->
  incl (fv_at d (subst k a t)) (fv_at (S d) t ++ fv_at (d + 1 - k) a).
Proof.
  revert k d; induction t as [i|b IH|l IHl r IHr]; intros k d Hk Hd; simpl.
  - destruct (Nat.compare_spec i k).
    + subst. apply incl_appr.
      replace d with ((d + 1 - k) + (k - 1)) at 1 by lia.
      rewrite fv_at_shift by lia. apply incl_refl.
    + simpl. destruct (Nat.ltb_spec d i); [lia|]. apply incl_nil_l.
    + simpl. destruct (Nat.ltb_spec d (i - 1)), (Nat.ltb_spec (S d) i); try lia.
      * replace (i - 1 - d) with (i - S d) by lia. apply incl_appl, incl_refl.
      * apply incl_nil_l.
  - specialize (IH (S k) (S d)). replace (S d + 1 - S k) with (d + 1 - k) in IH by lia.
    apply IH; lia.
  - apply incl_app.
    + eapply incl_tran; [apply IHl; auto|]. apply incl_app; [apply incl_appl, incl_appl, incl_refl|apply incl_appr, incl_refl].
    + eapply incl_tran; [apply IHr; auto|]. apply incl_app; [apply incl_appl, incl_appr, incl_refl|apply incl_appr, incl_refl].
Qed.

Lemma fv_subst1 a b : incl (fv (subst 1 a b)) (fv (Abs b) ++ fv a).
Proof. unfold fv. simpl. apply (fv_at_subst 1 0 a b); lia. Qed.

Lemma has_ud_shift d c t : has_ud (shift d c t) = has_ud t.
Proof.
  revert c; induction t as [i|b IH|l IHl r IHr]; intros c; simpl; auto.
  - destruct (Nat.ltb_spec c i); simpl; auto.
    destruct (Nat.eqb_spec (i + d) 0), (Nat.eqb_spec i 0); auto; lia.
  - rewrite IHl, IHr; auto.
Qed.

Lemma has_ud_subst k a t : 1 <= k -> has_ud (subst k a t) = true -> has_ud t = true \/ has_ud a = true.
Proof.
  revert k; induction t as [i|b IH|l IHl r IHr]; intros k Hk; simpl.
  - destruct (Nat.compare_spec i k); simpl.
    + rewrite has_ud_shift; auto.
    + auto.
    + destruct (Nat.eqb_spec (i - 1) 0); try discriminate. lia.
  - apply IH; lia.
  - rewrite !orb_true_iff. intros [H|H]; [apply IHl in H|apply IHr in H]; tauto.
Qed.

(** UD is never substituted for: it stays exactly where it was *)
Lemma subst_ud k a : 1 <= k -> subst k a (Var 0) = Var 0.
Proof. intros. simpl. destruct k; [lia|reflexivity]. Qed.
Lemma shift_ud d c : shift d c (Var 0) = Var 0.
Proof. reflexivity. Qed.
