(** * Gallina mirror of src/parser.rs (after the three fix: commits). *)
From Coq Require Import NArith.
From LC Require Export Spec.Term Spec.Chars.

Inductive parse_error :=
| InvalidCharacter (i : nat) (c : N)
| InvalidExpression
| EmptyExpression.

Inductive ctoken := CLambda (s : name) | CLparen | CRparen | CName (s : name).

(** tokenize_dbr *)
Fixpoint tokenize_dbr_from (i : nat) (s : list cchar) : parse_error + list token :=
  match s with
  | [] => inr []
  | c :: rest =>
      let continue (t : option token) :=
        match tokenize_dbr_from (S i) rest with
        | inl e => inl e
        | inr ts => inr (match t with Some t => t :: ts | None => ts end)
        end in
      if is_lambda_glyph c then continue (Some Lambda)
      else if is_char c_lparen c then continue (Some Lparen)
      else if is_char c_rparen c then continue (Some Rparen)
      else match to_digit16 c with
           | Some n => continue (Some (Number n))
           | None => if is_whitespace c then continue None
                     else inl (InvalidCharacter i (code c))
           end
  end.
Definition tokenize_dbr (s : list cchar) := tokenize_dbr_from 0 s.

(** the binder loop of tokenize_cla: [for (i, c) in &mut chars] after a lambda glyph *)
Fixpoint scan_binder (i : nat) (s : list cchar) (nm : name) (first_char : bool)
  : parse_error + (name * list cchar * nat) :=
  match s with
  | [] => inr (nm, [], i)
  | c :: rest =>
      if is_char c_dot c && negb first_char then inr (nm, rest, S i)
      else if first_char && is_alphabetic c then scan_binder (S i) rest (nm ++ [code c]) false
      else if negb first_char && is_alphanumeric c then scan_binder (S i) rest (nm ++ [code c]) false
      else inl (InvalidCharacter i (code c))
  end.

(** the name loop: [while let Some(&(_, c)) = chars.peek()] *)
Fixpoint scan_name (i : nat) (s : list cchar) (nm : name) : name * list cchar * nat :=
  match s with
  | [] => (nm, [], i)
  | c :: rest =>
      if is_alphanumeric c then scan_name (S i) rest (nm ++ [code c])
      else (nm, s, i)
  end.

Fixpoint tokenize_cla_from (fuel i : nat) (s : list cchar) : parse_error + list ctoken :=
  match fuel with 0 => inr [] | S f =>
    match s with
    | [] => inr []
    | c :: rest =>
        if is_lambda_glyph c then
          match scan_binder (S i) rest [] true with
          | inl e => inl e
          | inr (nm, rest', i') =>
              match tokenize_cla_from f i' rest' with
              | inl e => inl e
              | inr ts => inr (CLambda nm :: ts)
              end
          end
        else if is_char c_lparen c then
          match tokenize_cla_from f (S i) rest with inl e => inl e | inr ts => inr (CLparen :: ts) end
        else if is_char c_rparen c then
          match tokenize_cla_from f (S i) rest with inl e => inl e | inr ts => inr (CRparen :: ts) end
        else if is_whitespace c then tokenize_cla_from f (S i) rest
        else if is_alphabetic c then
          let '(nm, rest', i') := scan_name (S i) rest [code c] in
          match tokenize_cla_from f i' rest' with
          | inl e => inl e
          | inr ts => inr (CName nm :: ts)
          end
        else inl (InvalidCharacter i (code c))
    end
  end.
Definition tokenize_cla (s : list cchar) := tokenize_cla_from (S (length s)) 0 s.

(** convert_classic_tokens.  The VecDeque is a list, front at the head. *)
Fixpoint rposition (nm : name) (rev_stack : list name) : option nat :=
  match rev_stack with
  | [] => None
  | x :: r => if name_eqb x nm then Some 0 else option_map S (rposition nm r)
  end.

Fixpoint convert_from (fuel : nat) (toks : list ctoken) (stack : list name) (inner : nat) (out : list token)
  : list token * list ctoken * list name :=
  match fuel with 0 => (out, toks, stack) | S f =>
    match toks with
    | [] => (out, [], stack)
    | CLambda nm :: rest => convert_from f rest (stack ++ [nm]) (S inner) (out ++ [Lambda])
    | CLparen :: rest =>
        let '(sub, rest', stack') := convert_from f rest stack 0 [] in
        (* the callee stops at the closing parenthesis (or at the end); *pos += 1 skips it *)
        convert_from f (tl rest') stack' inner (out ++ [Lparen] ++ sub)
    | CRparen :: _ => (out ++ [Rparen], toks, firstn (length stack - inner) stack)
    | CName nm :: rest =>
        match rposition nm (rev stack) with
        | Some index => convert_from f rest stack inner (out ++ [Number (S index)])
        | None => convert_from f rest (nm :: stack) inner (out ++ [Number (S (length stack))])
        end
    end
  end.
Definition convert_classic_tokens (toks : list ctoken) : list token :=
  let '(out, _, _) := convert_from (S (length toks)) toks [] 0 [] in out.

(** get_ast *)
Inductive expression := EAbstraction | ESequence (l : list expression) | EVariable (n : nat).

Fixpoint ast_from (fuel : nat) (toks : list token) (nested : bool) (acc : list expression)
  : parse_error + (expression * list token) :=
  match fuel with 0 => inl InvalidExpression | S f =>
    match toks with
    | [] => if nested then inl InvalidExpression else inr (ESequence acc, [])
    | Lambda :: r => ast_from f r nested (acc ++ [EAbstraction])
    | Number i :: r => ast_from f r nested (acc ++ [EVariable i])
    | Lparen :: r =>
        match ast_from f r true [] with
        | inl e => inl e
        | inr (sub, r') => ast_from f (tl r') nested (acc ++ [sub])
        end
    | Rparen :: _ => if nested then inr (ESequence acc, toks) else inl InvalidExpression
    end
  end.
Definition get_ast (toks : list token) : parse_error + expression :=
  match toks with
  | [] => inl EmptyExpression
  | _ => match ast_from (S (length toks)) toks false [] with
         | inl e => inl e
         | inr (e, _) => inr e
         end
  end.

(** fold_terms / fold_exprs *)
Definition fold_terms (terms : list term) : parse_error + term :=
  match terms with
  | [] => inl EmptyExpression
  | fst :: rest => inr (fold_left App rest fst)
  end.

Fixpoint abs_times (n : nat) (t : term) : term := match n with 0 => t | S k => abs_times k (Abs t) end.

Fixpoint expr_size (e : expression) : nat :=
  match e with
  | ESequence l => S (fold_right (fun x acc => expr_size x + acc) 0 l)
  | _ => 1
  end.
Definition exprs_size (l : list expression) : nat := fold_right (fun x acc => expr_size x + acc) 0 l.

Fixpoint fold_exprs_from (fuel : nat) (exprs : list expression) (depth : nat) (output : list term)
  : parse_error + term :=
  match fuel with 0 => inl InvalidExpression | S f =>
    let finish (output : list term) :=
      match fold_terms output with inl e => inl e | inr t => inr (abs_times depth t) end in
    match exprs with
    | [] => finish output
    | EAbstraction :: r =>
        match output with
        | [] => fold_exprs_from f r (S depth) output
        | _ => (* an abstraction that is not leading extends to the end of its group *)
            match fold_exprs_from f exprs 0 [] with
            | inl e => inl e
            | inr t => finish (output ++ [t])
            end
        end
    | EVariable i :: r => fold_exprs_from f r depth (output ++ [Var i])
    | ESequence es :: r =>
        match fold_exprs_from f es 0 [] with
        | inl e => inl e
        | inr t => fold_exprs_from f r depth (output ++ [t])
        end
    end
  end.
Definition fold_exprs (exprs : list expression) : parse_error + term :=
  fold_exprs_from (S (2 * exprs_size exprs)) exprs 0 [].

Inductive notation := Classic | DeBruijn.

Definition parse (input : list cchar) (n : notation) : parse_error + term :=
  let tokens :=
    match n with
    | DeBruijn => tokenize_dbr input
    | Classic => match tokenize_cla input with inl e => inl e | inr ts => inr (convert_classic_tokens ts) end
    end in
  match tokens with
  | inl e => inl e
  | inr tokens =>
      match get_ast tokens with
      | inl e => inl e
      | inr (ESequence exprs) => fold_exprs exprs
      | inr _ => inl InvalidExpression
      end
  end.
