(** C16 — list operations agree with sequence semantics in all four list encodings.

    On the GENERATED constants of src/data/list/{pair,church,scott,parigot}.rs, for ALL lists (of arbitrary
    closed element terms, [allc]) and ALL numbers:
    (1) nil/cons/head/tail/is_nil of the four encodings are constructors and observers of sequences, both on
        encoded lists and (head, tail, is_nil of a cons) for ARBITRARY element and tail terms (Church-list tail:
        on encoded lists, since it is a fold);
    (2) the Vec conversions (modelled loops of convert.rs) produce exactly the closed forms that repeated cons produces;
    (3) each of the 18 pair-list library functions reduces to the encoding of the result of the corresponding
        operation on Coq lists (stdlib length, nth, rev, app, map, fold_left, fold_right, filter, last, removelast,
        combine, firstn, skipn, repeat; takeWhile/dropWhile defined here);
    (4) hence (C07) reduce with NOR or HNO and limit 0 returns exactly that encoding when it is a normal form.
    Termination under HAP is proved only on the bounded in-kernel grid (lists of length <= 3 over {0, 1}). *)
From Coq Require Import List. Import ListNotations.
From LC Require Import Spec.Encodings Spec.Confluence Spec.NorEval Model.Reduction Model.Convert Gen.Terms
  Proofs.Sound Proofs.ReduceProps Proofs.Normalise Proofs.Convert Proofs.ChurchArith Proofs.PairList Proofs.OtherLists Proofs.Returns Proofs.EagerTyped.

(** (1) constructors and observers, on encoded lists *)
Theorem C16_pair_basic : forall x r, closed x = true -> allc r ->
  lc_list_pair_nil = pair_list [] /\
  red (App (App lc_list_pair_cons x) (pair_list r)) (pair_list (x :: r)) /\
  red (App lc_list_pair_head (pair_list (x :: r))) x /\
  red (App lc_list_pair_tail (pair_list (x :: r))) (pair_list r) /\
  red (App lc_list_pair_is_nil (pair_list [])) tru_t /\
  red (App lc_list_pair_is_nil (pair_list (x :: r))) fls_t.
Proof.
  intros x r Cx Cr. repeat split.
  - apply cons_law; auto. - apply head_law; auto. - apply tail_law; auto. - apply is_nil_nil. - apply is_nil_cons; auto.
Qed.
Theorem C16_church_basic : forall x r, closed x = true -> allc r ->
  lc_list_church_nil = church_list [] /\
  red (App (App lc_list_church_cons x) (church_list r)) (church_list (x :: r)) /\
  red (App lc_list_church_head (church_list (x :: r))) x /\
  red (App lc_list_church_tail (church_list (x :: r))) (church_list r) /\
  red (App lc_list_church_is_nil (church_list [])) tru_t /\
  red (App lc_list_church_is_nil (church_list (x :: r))) fls_t.
Proof.
  intros x r Cx Cr. repeat split.
  - apply church_cons_law; auto. - apply church_head_law; auto. - apply church_tail_law; auto.
  - apply (church_is_nil_law []); reflexivity.
  - apply (church_is_nil_law (x :: r)). apply allc_cons_i; auto.
Qed.
Theorem C16_scott_basic : forall x r, closed x = true -> allc r ->
  lc_list_scott_nil = scott_list [] /\
  red (App (App lc_list_scott_cons x) (scott_list r)) (scott_list (x :: r)) /\
  red (App lc_list_scott_head (scott_list (x :: r))) x /\
  red (App lc_list_scott_tail (scott_list (x :: r))) (scott_list r) /\
  red (App lc_list_scott_is_nil (scott_list [])) tru_t /\
  red (App lc_list_scott_is_nil (scott_list (x :: r))) fls_t.
Proof.
  intros x r Cx Cr. repeat split.
  - apply scott_cons_law; auto. - apply scott_head_law; auto. - apply scott_tail_law; auto.
  - apply (scott_is_nil_law []); reflexivity.
  - apply (scott_is_nil_law (x :: r)). apply allc_cons_i; auto.
Qed.
Theorem C16_parigot_basic : forall x r, closed x = true -> allc r ->
  lc_list_parigot_nil = parigot_list [] /\
  red (App (App lc_list_parigot_cons x) (parigot_list r)) (parigot_list (x :: r)) /\
  red (App lc_list_parigot_head (parigot_list (x :: r))) x /\
  red (App lc_list_parigot_tail (parigot_list (x :: r))) (parigot_list r) /\
  red (App lc_list_parigot_is_nil (parigot_list [])) tru_t /\
  red (App lc_list_parigot_is_nil (parigot_list (x :: r))) fls_t.
Proof.
  intros x r Cx Cr. repeat split.
  - apply parigot_cons_law; auto. - apply parigot_head_law; auto. - apply parigot_tail_law; auto.
  - apply (parigot_is_nil_law []); reflexivity.
  - apply (parigot_is_nil_law (x :: r)). apply allc_cons_i; auto.
Qed.

(** (1') observers of a cons, for ARBITRARY element and tail terms *)
Theorem C16_observers_any_payload : forall x t,
  red (App lc_list_pair_head (App (App lc_list_pair_cons x) t)) x /\
  red (App lc_list_pair_tail (App (App lc_list_pair_cons x) t)) t /\
  red (App lc_list_pair_is_nil (App (App lc_list_pair_cons x) t)) fls_t /\
  red (App lc_list_church_head (App (App lc_list_church_cons x) t)) x /\
  red (App lc_list_church_is_nil (App (App lc_list_church_cons x) t)) fls_t /\
  red (App lc_list_scott_head (App (App lc_list_scott_cons x) t)) x /\
  red (App lc_list_scott_tail (App (App lc_list_scott_cons x) t)) t /\
  red (App lc_list_scott_is_nil (App (App lc_list_scott_cons x) t)) fls_t /\
  red (App lc_list_parigot_head (App (App lc_list_parigot_cons x) t)) x /\
  red (App lc_list_parigot_tail (App (App lc_list_parigot_cons x) t)) t /\
  red (App lc_list_parigot_is_nil (App (App lc_list_parigot_cons x) t)) fls_t.
Proof.
  intros x t. repeat split.
  - apply pair_head_any. - apply pair_tail_any. - apply pair_isnil_any.
  - apply church_head_any. - apply church_isnil_any.
  - apply scott_head_any. - apply scott_tail_any. - apply scott_isnil_any.
  - apply parigot_head_any. - apply parigot_tail_any. - apply parigot_isnil_any.
Qed.

(** (2) conversions *)
Theorem C16_conversions : forall xs,
  into_pair_list xs = pair_list xs /\ into_church_list xs = church_list xs /\
  into_scott_list xs = scott_list xs /\ into_parigot_list xs = parigot_list xs.
Proof.
  intros; repeat split; [apply into_pair_list_spec|apply into_church_list_spec|apply into_scott_list_spec|apply into_parigot_list_spec].
Qed.

(** (3) the pair-list library *)
Theorem C16_library_first_order : forall xs ys n x d, allc xs -> allc ys -> closed x = true ->
  red (App lc_list_pair_length (pair_list xs)) (church (length xs)) /\
  (n < length xs -> red (App (App lc_list_pair_index (church n)) (pair_list xs)) (nth n xs d)) /\
  red (App lc_list_pair_reverse (pair_list xs)) (pair_list (rev xs)) /\
  red (fold_left App xs (App lc_list_pair_list (church (length xs)))) (pair_list xs) /\
  red (App (App lc_list_pair_append (pair_list xs)) (pair_list ys)) (pair_list (xs ++ ys)) /\
  red (App lc_list_pair_last (pair_list xs)) (last xs lc_list_pair_nil) /\
  red (App lc_list_pair_init (pair_list xs)) (pair_list (removelast xs)) /\
  red (App (App lc_list_pair_zip (pair_list xs)) (pair_list ys))
      (pair_list (map (fun p => pair_t (fst p) (snd p)) (combine xs ys))) /\
  red (App (App lc_list_pair_take (church n)) (pair_list xs)) (pair_list (firstn n xs)) /\
  red (App (App lc_list_pair_drop (church n)) (pair_list xs)) (pair_list (skipn n xs)) /\
  red (App (App lc_list_pair_replicate (church n)) x) (pair_list (repeat x n)).
Proof.
  intros xs ys n x d Hx Hy Cx. repeat split.
  - apply pair_length; auto. - intros; apply pair_index; auto. - apply pair_reverse; auto.
  - apply pair_list_collect; auto. - apply pair_append; auto. - apply pair_last; auto. - apply pair_init; auto.
  - apply pair_zip; auto. - apply pair_take; auto. - apply pair_drop; auto. - apply pair_replicate; auto.
Qed.

Theorem C16_library_higher_order : forall g a p pb xs ys, closed g = true -> closed a = true -> closed p = true ->
  allc xs -> allc ys -> (forall x, In x xs -> red (App p x) (bool_t (pb x))) ->
  red (App (App lc_list_pair_map g) (pair_list xs)) (pair_list (map (App g) xs)) /\
  red (App (App (App lc_list_pair_foldl g) a) (pair_list xs)) (fold_left (fun acc x => App (App g acc) x) xs a) /\
  red (App (App (App lc_list_pair_foldr g) a) (pair_list xs)) (fold_right (fun x acc => App (App g x) acc) a xs) /\
  red (App (App (App lc_list_pair_zip_with g) (pair_list xs)) (pair_list ys))
      (pair_list (map (fun q => App (App g (fst q)) (snd q)) (combine xs ys))) /\
  red (App (App lc_list_pair_filter p) (pair_list xs)) (pair_list (filter pb xs)) /\
  red (App (App lc_list_pair_take_while p) (pair_list xs)) (pair_list (takeWhile pb xs)) /\
  red (App (App lc_list_pair_drop_while p) (pair_list xs)) (pair_list (dropWhile pb xs)).
Proof.
  intros g a p pb xs ys Cg Ca Cp Hx Hy Hd. repeat split.
  - apply pair_map; auto. - apply pair_foldl; auto. - apply pair_foldr; auto. - apply pair_zip_with; auto.
  - apply pair_filter; auto. - apply pair_take_while; auto. - apply pair_drop_while; auto.
Qed.

(** instances on lists of Church numerals, as exercised against the implementation *)
Definition nums (l : list nat) : term := pair_list (map church l).
Lemma allc_nums l : allc (map church l).
Proof. induction l; [reflexivity|]. cbn [map]. apply allc_cons_i; auto. apply church_closed. Qed.
Theorem C16_numeral_instances : forall l,
  red (App lc_list_pair_length (nums l)) (church (length l)) /\
  red (App lc_list_pair_reverse (nums l)) (nums (rev l)) /\
  red (App (App lc_list_pair_map lc_num_church_succ) (nums l)) (nums (map S l)) /\
  red (App (App lc_list_pair_filter lc_num_church_is_zero) (nums l)) (nums (filter (fun k => k =? 0) l)) /\
  red (App (App (App lc_list_pair_foldl lc_num_church_add) (church 1)) (nums l)) (church (fold_left Nat.add l 1)).
Proof.
  intros l. pose proof (allc_nums l) as Hc. unfold nums. repeat split.
  - rewrite <- (map_length church l). apply pair_length; auto.
  - rewrite map_rev. apply pair_reverse; auto.
  - rewrite map_map. eapply star_trans; [apply pair_map; auto; reflexivity|].
    apply red_pl. clear Hc. induction l; cbn [map]; constructor; auto. apply church_succ.
  - assert (E : map church (filter (fun k => k =? 0) l) =
                filter (fun t => match dec_church t with Some 0 => true | _ => false end) (map church l)).
    { clear Hc. induction l as [|k r IH]; [reflexivity|]. cbn [map filter]. rewrite dec_church_ok.
      destruct k; cbn [Nat.eqb map]; rewrite IH; reflexivity. }
    rewrite E. apply pair_filter; [reflexivity|exact Hc|].
    intros x Hx. apply in_map_iff in Hx. destruct Hx as (k & <- & _). rewrite dec_church_ok.
    eapply star_trans; [apply church_is_zero|]. destruct k; apply star_refl.
  - eapply star_trans; [apply pair_foldl; auto; try reflexivity; apply church_closed|].
    clear Hc. generalize 1. induction l as [|k r IH]; intros a; cbn [map fold_left]; [apply star_refl|].
    eapply star_trans; [|apply IH].
    assert (R : forall xs s t, red s t -> red (fold_left (fun acc x => App (App lc_num_church_add acc) x) xs s)
                                               (fold_left (fun acc x => App (App lc_num_church_add acc) x) xs t)).
    { induction xs; intros s t Hst; cbn [fold_left]; auto. apply IHxs. apply red_appl, red_appr. exact Hst. }
    apply R. apply church_add.
Qed.

(** encoded lists of normal elements are normal forms *)
Theorem C16_lists_normal : forall l, nfb (nums l) = true.
Proof.
  unfold nums. induction l as [|k r IH]; [reflexivity|]. cbn [map pair_list nfb is_abs negb andb].
  rewrite church_nf, IH. reflexivity.
Qed.
Theorem C16_nor_returns : forall t v, red t v -> nfb v = true -> exists fuel c, reduce_m fuel NOR 0 t = Some (v, c).
Proof. exact nor_normalises. Qed.
Theorem C16_hno_returns : forall t v, red t v -> nfb v = true -> exists fuel c, reduce_m fuel HNO 0 t = Some (v, c).
Proof. exact hno_reduce_normalises. Qed.

(** the property as stated: what [reduce] returns under the two normalising orders, for ALL lists of numerals *)
Theorem C16_reduce_returns : forall o l l2 k v, lazy o ->
  returns o (App lc_list_pair_length (nums l)) (church (length l)) /\
  returns o (App lc_list_pair_reverse (nums l)) (nums (rev l)) /\
  returns o (App (App lc_list_pair_append (nums l)) (nums l2)) (nums (l ++ l2)) /\
  returns o (App lc_list_pair_init (nums l)) (nums (removelast l)) /\
  (l <> [] -> returns o (App lc_list_pair_last (nums l)) (church (last l 0))) /\
  (k < length l -> returns o (App (App lc_list_pair_index (church k)) (nums l)) (church (nth k l 0))) /\
  returns o (App (App lc_list_pair_take (church k)) (nums l)) (nums (firstn k l)) /\
  returns o (App (App lc_list_pair_drop (church k)) (nums l)) (nums (skipn k l)) /\
  returns o (App (App lc_list_pair_replicate (church k)) (church v)) (nums (repeat v k)) /\
  returns o (fold_left App (map church l) (App lc_list_pair_list (church (length l)))) (nums l) /\
  returns o (App (App lc_list_pair_zip (nums l)) (nums l2))
            (pair_list (map (fun p => pair_t (church (fst p)) (church (snd p))) (combine l l2))) /\
  returns o (App (App lc_list_pair_map lc_num_church_succ) (nums l)) (nums (map S l)) /\
  returns o (App (App lc_list_pair_filter lc_num_church_is_zero) (nums l)) (nums (filter (fun k => k =? 0) l)) /\
  returns o (App (App (App lc_list_pair_foldl lc_num_church_add) (church 1)) (nums l)) (church (fold_left Nat.add l 1)).
Proof.
  intros o l l2 k v L.
  pose proof (allc_nums l) as Hl. pose proof (allc_nums l2) as Hl2.
  destruct (C16_numeral_instances l) as (I1 & I2 & I3 & I4 & I5).
  assert (NN : forall x, nfb (nums x) = true) by apply C16_lists_normal.
  assert (E_init : map church (removelast l) = removelast (map church l)).
  { clear. induction l as [|a [|b r] IH]; auto.
    change (removelast (map church (a :: b :: r))) with (church a :: removelast (map church (b :: r))).
    rewrite <- IH. reflexivity. }
  assert (E_zip : map (fun p => pair_t (church (fst p)) (church (snd p))) (combine l l2) =
                  map (fun p => pair_t (fst p) (snd p)) (combine (map church l) (map church l2))).
  { clear. revert l2. induction l as [|a r IH]; intros [|b s]; cbn [map combine fst snd]; auto. rewrite IH. reflexivity. }
  assert (N_zip : nfb (pair_list (map (fun p => pair_t (church (fst p)) (church (snd p))) (combine l l2))) = true).
  { clear. revert l2. induction l as [|a r IH]; intros [|b s]; cbn [map combine pair_list fst snd]; auto.
    cbn [nfb is_abs negb andb]. rewrite pair_nf by apply church_nf. rewrite IH. reflexivity. }
  repeat split.
  - apply (lazy_returns o); auto. apply church_nf.
  - apply (lazy_returns o); auto.
  - apply (lazy_returns o); auto. unfold nums. rewrite map_app. apply pair_append; auto.
  - apply (lazy_returns o); auto. unfold nums. rewrite E_init. apply pair_init; auto.
  - intros NE. apply (lazy_returns o); auto; [|apply church_nf].
    replace (church (last l 0)) with (last (map church l) lc_list_pair_nil); [apply pair_last; auto|].
    clear - NE. induction l as [|a [|b r] IH]; [congruence|reflexivity|].
    change (last (map church (a :: b :: r)) lc_list_pair_nil) with (last (map church (b :: r)) lc_list_pair_nil).
    rewrite IH by discriminate. reflexivity.
  - intros Hk. apply (lazy_returns o); auto; [|apply church_nf].
    rewrite <- (map_nth church l 0 k). apply pair_index; auto. rewrite map_length. exact Hk.
  - apply (lazy_returns o); auto. unfold nums. rewrite <- firstn_map. apply pair_take; auto.
  - apply (lazy_returns o); auto. unfold nums. rewrite <- skipn_map. apply pair_drop; auto.
  - apply (lazy_returns o); auto. unfold nums.
    replace (map church (repeat v k)) with (repeat (church v) k) by (clear; induction k; cbn [repeat map]; congruence).
    apply pair_replicate. apply church_closed.
  - apply (lazy_returns o); auto. rewrite <- (map_length church l). apply pair_list_collect; auto.
  - apply (lazy_returns o); auto. rewrite E_zip. apply pair_zip; auto.
  - apply (lazy_returns o); auto.
  - apply (lazy_returns o); auto.
  - apply (lazy_returns o); auto. apply church_nf.
Qed.

(** HAP (and APP) too, for ALL lists of numerals, for the constructors and observers of Church (fold) lists and of
    pair lists: these applications are simply typable, hence strongly normalising, hence normalised by every strategy
    ([full o] is o = NOR \/ o = HNO \/ o = APP \/ o = HAP) *)
Theorem C16_eager_returns : forall o k l, full o ->
  (returns o (App (App lc_list_church_cons (church k)) (nl l)) (nl (k :: l)) /\
   returns o (App lc_list_church_head (nl (k :: l))) (church k) /\
   returns o (App lc_list_church_tail (nl (k :: l))) (nl l) /\
   returns o (App lc_list_church_is_nil (nl (k :: l))) fls_t /\
   returns o (App lc_list_church_is_nil (nl [])) tru_t) /\
  (returns o (App (App lc_list_pair_cons (church k)) (pair_list (map church l))) (pair_list (map church (k :: l))) /\
   returns o (App lc_list_pair_head (pair_list (map church (k :: l)))) (church k) /\
   returns o (App lc_list_pair_tail (pair_list (map church (k :: l)))) (pair_list (map church l)) /\
   returns o (App lc_list_pair_is_nil (pair_list (map church (k :: l)))) fls_t /\
   returns o (App lc_list_pair_is_nil (pair_list (map church []))) tru_t).
Proof. intros o k l F. split; [apply church_list_returns|apply pair_list_returns]; auto. Qed.

Print Assumptions C16_pair_basic.
Print Assumptions C16_church_basic.
Print Assumptions C16_scott_basic.
Print Assumptions C16_parigot_basic.
Print Assumptions C16_observers_any_payload.
Print Assumptions C16_conversions.
Print Assumptions C16_library_first_order.
Print Assumptions C16_library_higher_order.
Print Assumptions C16_numeral_instances.
Print Assumptions C16_lists_normal.
Print Assumptions C16_nor_returns.
Print Assumptions C16_hno_returns.
Print Assumptions C16_reduce_returns.
Print Assumptions C16_eager_returns.
