(** * parse (Debug t) = t for every term with indices 1..15 (C11), through the reference parser *)
From LC Require Import Spec.Grammar Spec.Printing Model.Parser Model.Display
  Proofs.Printing Proofs.ParserCore Proofs.ParserEquiv.

(** the printed tokens and the expressions they represent *)
Definition needs_paren (t : term) (pos : position) : bool :=
  match t, pos with
  | Var _, _ => false
  | Abs _, Top => false
  | Abs _, _ => true
  | App _ _, Operand => true
  | App _ _, _ => false
  end.

Fixpoint ptoks (t : term) (pos : position) : list token :=
  let body := match t with
              | Var i => [Number i]
              | Abs b => Lambda :: ptoks b Top
              | App l r => ptoks l Operator ++ ptoks r Operand
              end in
  if needs_paren t pos then Lparen :: body ++ [Rparen] else body.

Fixpoint pexprs (t : term) (pos : position) : list expression :=
  let body := match t with
              | Var i => [EVariable i]
              | Abs b => EAbstraction :: pexprs b Top
              | App l r => pexprs l Operator ++ pexprs r Operand
              end in
  if needs_paren t pos then [ESequence body] else body.

Lemma rep_ptoks : forall t pos, rep (ptoks t pos) (pexprs t pos).
Proof.
  induction t as [i|b IH|l IHl r IHr]; intros pos.
  - destruct pos; simpl; repeat constructor.
  - destruct pos; cbn [ptoks pexprs needs_paren].
    + constructor. apply IH.
    + apply (rep_grp (Lambda :: ptoks b Top) (EAbstraction :: pexprs b Top) [] []); constructor; auto.
    + apply (rep_grp (Lambda :: ptoks b Top) (EAbstraction :: pexprs b Top) [] []); constructor; auto.
  - destruct pos; cbn [ptoks pexprs needs_paren].
    + apply rep_app; auto.
    + apply rep_app; auto.
    + apply (rep_grp (ptoks l Operator ++ ptoks r Operand) (pexprs l Operator ++ pexprs r Operand) [] []).
      * apply rep_app; auto.
      * constructor.
Qed.

Fixpoint spine (t : term) : list term :=
  match t with App l r => spine l ++ [r] | _ => [t] end.

Lemma apps_spine t : apps (spine t) = Some t.
Proof.
  assert (G : forall t, exists h args, spine t = h :: args /\ fold_left App args h = t).
  { induction t0 as [i|b IH|l IHl r IHr]; simpl; eauto.
    destruct IHl as (h & args & E & F). rewrite E. exists h, (args ++ [r]). split; auto.
    rewrite fold_left_app. simpl. rewrite F. reflexivity. }
  destruct (G t) as (h & args & E & F). rewrite E. simpl. rewrite F. reflexivity.
Qed.

Lemma SemA_app es1 a1 es2 a2 : SemA es1 a1 -> SemA es2 a2 -> SemA (es1 ++ es2) (a1 ++ a2).
Proof. induction 1; simpl; auto; constructor; auto. Qed.

Lemma Sem_of_atoms es atoms t : SemA es atoms -> apps atoms = Some t -> Sem es [] t.
Proof.
  intros SA A. rewrite <- (app_nil_r es). eapply SemA_Sem; eauto. constructor. simpl. auto.
Qed.

Lemma sem_printed : forall t,
  SemA (pexprs t Operand) [t] /\ SemA (pexprs t Operator) (spine t) /\ Sem (pexprs t Top) [] t.
Proof.
  induction t as [i|b IH|l IHl r IHr].
  - simpl. repeat split; repeat constructor.
  - destruct IH as (_ & _ & IHt).
    assert (Sb : Sem (EAbstraction :: pexprs b Top) [] (Abs b)) by (econstructor; eauto).
    cbn [pexprs needs_paren spine]. repeat split; auto; repeat constructor; auto.
  - destruct IHl as (_ & IHlo & _). destruct IHr as (IHra & _ & _).
    assert (SA : SemA (pexprs l Operator ++ pexprs r Operand) (spine (App l r))) by (apply SemA_app; auto).
    assert (St : Sem (pexprs l Operator ++ pexprs r Operand) [] (App l r)).
    { eapply Sem_of_atoms; eauto. apply apps_spine. }
    cbn [pexprs needs_paren]. repeat split; auto. repeat constructor; auto.
Qed.

Theorem rparse_ptoks t : rparse (ptoks t Top) = Some t.
Proof.
  unfold rparse.
  pose proof (rgroup_complete (S (length (ptoks t Top))) (ptoks t Top) (pexprs t Top) t []
                (rep_ptoks t Top) (proj2 (proj2 (sem_printed t))) (or_introl eq_refl)) as C.
  rewrite app_nil_r in C. rewrite C by lia. reflexivity.
Qed.

(** ** the lexer inverts the renderer *)
Lemma lex_dbr_app : forall s1 s2 i t1 t2,
  lex_dbr i s1 = LexOk t1 -> lex_dbr (i + length s1) s2 = LexOk t2 -> lex_dbr i (s1 ++ s2) = LexOk (t1 ++ t2).
Proof.
  induction s1 as [|c r IH]; intros s2 i t1 t2 H1 H2.
  - simpl in *. inversion H1; subst. rewrite Nat.add_0_r in H2. auto.
  - simpl app. cbn [lex_dbr] in *.
    replace (i + length (c :: r)) with (S i + length r) in H2 by (simpl; lia).
    destruct (lex_dbr (S i) r) as [tr| |] eqn:E.
    + rewrite (IH s2 (S i) tr t2 E H2).
      destruct (is_lambda_glyph (c)); [inversion H1; reflexivity|].
      destruct (is_char c_lparen c); [inversion H1; reflexivity|].
      destruct (is_char c_rparen c); [inversion H1; reflexivity|].
      destruct (to_digit16 c); [inversion H1; reflexivity|].
      destruct (is_whitespace c); [inversion H1; reflexivity|discriminate].
    + destruct (is_lambda_glyph c); [discriminate|]. destruct (is_char c_lparen c); [discriminate|].
      destruct (is_char c_rparen c); [discriminate|]. destruct (to_digit16 c); [discriminate|].
      destruct (is_whitespace c); discriminate.
    + destruct (is_lambda_glyph c); [discriminate|]. destruct (is_char c_lparen c); [discriminate|].
      destruct (is_char c_rparen c); [discriminate|]. destruct (to_digit16 c); [discriminate|].
      destruct (is_whitespace c); discriminate.
Qed.

Definition is_glyph (lam : N) : Prop := lam = 955%N \/ lam = 92%N.

Lemma lex_single i lam c t : is_glyph lam ->
  (c = lam /\ t = TLam [] \/ c = 40%N /\ t = TLp \/ c = 41%N /\ t = TRp \/
   exists d, 1 <= d <= 15 /\ c = hexd d /\ t = TIdx d) ->
  lex_dbr i [classify c] = LexOk [t].
Proof.
  intros [->| ->] [[-> ->]|[[-> ->]|[[-> ->]|(d & Hd & -> & ->)]]]; try reflexivity;
    (do 16 (destruct d as [|d]; [try lia; try reflexivity|])); lia.
Qed.

Lemma lex_paren lam : is_glyph lam -> forall X Y,
  (forall j, lex_dbr j (map classify X) = LexOk (map atok_of_token Y)) ->
  forall i, lex_dbr i (map classify ([40%N] ++ X ++ [41%N])) = LexOk (map atok_of_token (Lparen :: Y ++ [Rparen])).
Proof.
  intros G X Y H i. rewrite !map_app.
  change (map atok_of_token (Lparen :: Y ++ [Rparen])) with ([TLp] ++ map atok_of_token (Y ++ [Rparen])).
  rewrite (map_app atok_of_token Y [Rparen]).
  apply lex_dbr_app; [apply (lex_single i lam); auto|].
  apply lex_dbr_app; [apply H|apply (lex_single _ lam); auto].
Qed.

Lemma lex_printed lam : is_glyph lam -> forall t pos i, indices_in 1 15 t = true ->
  lex_dbr i (map classify (print_dbr lam t pos)) = LexOk (map atok_of_token (ptoks t pos)).
Proof.
  intros G. induction t as [n|b IH|l IHl r IHr]; intros pos i H; simpl in H.
  - destruct n; [discriminate|]. apply andb_true_iff in H. destruct H as [_ H]. apply Nat.leb_le in H.
    cbn [print_dbr ptoks needs_paren map]. apply (lex_single i lam); auto.
    right. right. right. exists (S n). repeat split; lia.
  - assert (B : forall i, lex_dbr i (map classify ([lam] ++ print_dbr lam b Top)) =
                          LexOk (map atok_of_token (Lambda :: ptoks b Top))).
    { intros j. rewrite map_app. apply (lex_dbr_app _ _ j [TLam []]).
      - apply (lex_single j lam); auto.
      - apply IH; auto. }
    cbn [print_dbr ptoks needs_paren]. destruct pos.
    + apply B.
    + apply (lex_paren lam G); auto.
    + apply (lex_paren lam G); auto.
  - apply andb_true_iff in H. destruct H as [Hl Hr].
    assert (B : forall i, lex_dbr i (map classify (print_dbr lam l Operator ++ print_dbr lam r Operand)) =
                          LexOk (map atok_of_token (ptoks l Operator ++ ptoks r Operand))).
    { intros j. rewrite !map_app. apply lex_dbr_app; [apply IHl|apply IHr]; auto. }
    cbn [print_dbr ptoks needs_paren]. destruct pos.
    + apply B.
    + apply B.
    + apply (lex_paren lam G); auto.
Qed.

Theorem debug_roundtrip lam t : is_glyph lam -> indices_in 1 15 t = true ->
  parse (map classify (debug lam t)) DeBruijn = inr t.
Proof.
  intros G H. rewrite (debug_format lam t H).
  pose proof (parse_is_reference (map classify (ref_print_dbr lam t)) false) as P.
  unfold ref_parse, ref_print_dbr in *. rewrite (lex_printed lam G t Top 0 H) in P.
  rewrite idx_tokens_of_tokens, rparse_ptoks in P. exact P.
Qed.
