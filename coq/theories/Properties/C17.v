(** C17 — combinators and sum/product data types obey their equations for ALL payloads.
    Each law is a theorem about the GENERATED constant, for arbitrary terms x, y, z, f, d
    (established on open terms by the certified evaluator, instantiated by substitutivity). *)
From Coq Require Import List. Import ListNotations.
From LC Require Import Spec.NorEval Spec.Encodings Model.Convert Gen.Terms Proofs.Laws Proofs.Convert Proofs.Tuples.

Theorem C17_combinators : forall x y z,
  red (App lc_combinators_I x) x /\
  red (App (App lc_combinators_K x) y) x /\
  red (App (App (App lc_combinators_S x) y) z) (App (App x z) (App y z)) /\
  red (App (App (App lc_combinators_B x) y) z) (App x (App y z)) /\
  red (App (App (App lc_combinators_C x) y) z) (App (App x z) y) /\
  red (App (App lc_combinators_W x) y) (App (App x y) y) /\
  red (App (App lc_combinators_R x) y) (App y x) /\
  red (App lc_combinators_o x) (App x x) /\
  red (App lc_combinators_i x) (App (App x lc_combinators_S) lc_combinators_K).
Proof.
  intros. repeat split.
  - apply I_law. - apply K_law. - apply S_law. - apply B_law. - apply C_law. - apply W_law.
  - apply R_law. - apply o_law. - apply i_law.
Qed.

Theorem C17_fixed_points : forall f,
  (exists w, red (App lc_combinators_Y f) w /\ red (App f (App lc_combinators_Y f)) w) /\
  red (App lc_combinators_T f) (App f (App lc_combinators_T f)) /\
  (exists w, red (App lc_combinators_Z f) w /\ red (App f (Abs (App (App lc_combinators_Z (shift 1 0 f)) (Var 1)))) w) /\
  (forall u, step lc_combinators_O u -> u = lc_combinators_O).
Proof. intros f. repeat split. - apply Y_law. - apply T_law. - apply Z_law. - apply O_law. Qed.

Theorem C17_pair : forall x y f,
  red (App lc_pair_fst (App (App lc_pair_pair x) y)) x /\
  red (App lc_pair_snd (App (App lc_pair_pair x) y)) y /\
  red (App lc_pair_swap (App (App lc_pair_pair x) y)) (pair_t (shift 1 0 y) (shift 1 0 x)) /\
  red (App (App lc_pair_uncurry f) (App (App lc_pair_pair x) y)) (App (App f x) y) /\
  red (App (App (App lc_pair_curry f) x) y) (App f (pair_t (shift 1 0 x) (shift 1 0 y))).
Proof.
  intros. repeat split.
  - apply fst_law. - apply snd_law. - apply swap_law. - apply uncurry_law. - apply curry_law.
Qed.

Theorem C17_option : forall x f d,
  red (App lc_option_is_some (App lc_option_some x)) lc_boolean_tru /\
  red (App lc_option_is_some lc_option_none) lc_boolean_fls /\
  red (App lc_option_is_none (App lc_option_some x)) lc_boolean_fls /\
  red (App lc_option_is_none lc_option_none) lc_boolean_tru /\
  red (App (App lc_option_map f) (App lc_option_some x)) (some_t (App (up2 f) (up2 x))) /\
  red (App (App lc_option_map f) lc_option_none) lc_option_none /\
  red (App (App (App lc_option_map_or d) f) (App lc_option_some x)) (App f x) /\
  red (App (App (App lc_option_map_or d) f) lc_option_none) d /\
  red (App (App lc_option_unwrap_or d) (App lc_option_some x)) x /\
  red (App (App lc_option_unwrap_or d) lc_option_none) d /\
  red (App (App lc_option_and_then (App lc_option_some x)) f) (App f x) /\
  red (App (App lc_option_and_then lc_option_none) f) lc_option_none.
Proof.
  intros. repeat split.
  - apply is_some_some. - apply is_some_none. - apply is_none_some. - apply is_none_none.
  - apply omap_some. - apply (omap_none x). - apply map_or_some. - apply (map_or_none x).
  - apply unwrap_or_some. - apply (unwrap_or_none x). - apply and_then_some. - apply (and_then_none x).
Qed.

Theorem C17_result : forall x f d,
  red (App lc_result_is_ok (App lc_result_ok x)) lc_boolean_tru /\
  red (App lc_result_is_ok (App lc_result_err x)) lc_boolean_fls /\
  red (App lc_result_is_err (App lc_result_ok x)) lc_boolean_fls /\
  red (App lc_result_is_err (App lc_result_err x)) lc_boolean_tru /\
  red (App lc_result_option_ok (App lc_result_ok x)) (some_t (up2 x)) /\
  red (App lc_result_option_ok (App lc_result_err x)) lc_option_none /\
  red (App lc_result_option_err (App lc_result_ok x)) lc_option_none /\
  red (App lc_result_option_err (App lc_result_err x)) (some_t (up2 x)) /\
  red (App (App lc_result_unwrap_or d) (App lc_result_ok x)) x /\
  red (App (App lc_result_unwrap_or d) (App lc_result_err x)) d /\
  red (App (App lc_result_map f) (App lc_result_ok x)) (ok_t (App (up2 f) (up2 x))) /\
  red (App (App lc_result_map f) (App lc_result_err x)) (err_t (up2 x)) /\
  red (App (App lc_result_map_err f) (App lc_result_ok x)) (ok_t (up2 x)) /\
  red (App (App lc_result_map_err f) (App lc_result_err x)) (err_t (App (up2 f) (up2 x))) /\
  red (App (App lc_result_and_then (App lc_result_ok x)) f) (App f x) /\
  red (App (App lc_result_and_then (App lc_result_err x)) f) (err_t (up2 x)).
Proof.
  intros. repeat split.
  - apply is_ok_ok. - apply is_ok_err. - apply is_err_ok. - apply is_err_err.
  - apply option_ok_ok. - apply option_ok_err. - apply option_err_ok. - apply option_err_err.
  - apply runwrap_ok. - apply runwrap_err. - apply rmap_ok. - apply rmap_err.
  - apply rmap_err_ok. - apply rmap_err_err. - apply rand_then_ok. - apply rand_then_err.
Qed.

Theorem C17_booleans :
  table2 lc_boolean_and andb /\ table2 lc_boolean_or orb /\ table2 lc_boolean_xor xorb /\
  table2 lc_boolean_nor (fun a b => negb (orb a b)) /\ table2 lc_boolean_xnor (fun a b => negb (xorb a b)) /\
  table2 lc_boolean_nand (fun a b => negb (andb a b)) /\ table2 lc_boolean_imply implb /\
  (forall a, red (App lc_boolean_not (bt a)) (bt (negb a))) /\
  (forall b x y, red (App (App (App lc_boolean_if_else (bt b)) x) y) (if b then x else y)).
Proof.
  repeat split.
  - apply and_table. - apply or_table. - apply xor_table. - apply nor_table. - apply xnor_table.
  - apply nand_table. - apply imply_table. - apply not_table. - apply if_else_law.
Qed.

(** pi!(i, n) selects the i-th component of tuple!(x1, .., xn), for ALL arities n, ALL 1 <= i <= n and ALL payload
    terms (the macros are modelled as the loops they expand to; payloads lifted over the tuple's binder, which for
    closed payloads is the identity) *)
Theorem C17_tuple_pi : forall x xs i d, 1 <= i <= length (x :: xs) ->
  red (App (pi_macro i (length (x :: xs))) (tuple_macro (shift 1 0 x) (map (shift 1 0) xs))) (nth (i - 1) (x :: xs) d).
Proof. intros x xs i d Hi. rewrite tuple_macro_spec. apply (pi_tuple (x :: xs) i d Hi). Qed.
Theorem C17_tuple_pi_closed : forall x xs i d, forallb closed (x :: xs) = true -> 1 <= i <= length (x :: xs) ->
  red (App (pi_macro i (length (x :: xs))) (tuple_macro x xs)) (nth (i - 1) (x :: xs) d).
Proof. intros x xs i d Hc Hi. rewrite tuple_macro_spec. apply pi_tuple_closed; auto. Qed.

(** the From conversions of closed payloads are the normal forms of the constructor applications *)
Theorem C17_from : forall a b, closed a = true -> closed b = true ->
  red (App (App lc_pair_pair a) b) (into_pair a b) /\
  red (App lc_option_some a) (into_option (Some a)) /\ lc_option_none = into_option None /\
  red (App lc_result_ok a) (into_result (inl a)) /\ red (App lc_result_err a) (into_result (inr a)) /\
  (nfb a = true -> nfb b = true ->
     nfb (into_pair a b) = true /\ nfb (into_option (Some a)) = true /\
     nfb (into_result (inl a)) = true /\ nfb (into_result (inr a)) = true) /\
  (forall c : bool, bool_t c = (if c then lc_boolean_tru else lc_boolean_fls)).
Proof.
  intros a b Ca Cb.
  destruct (from_pair a b Ca Cb) as [P1 P2]. destruct (from_option a Ca) as (O1 & O2 & O3).
  destruct (from_result a Ca) as (R1 & R2 & R3).
  repeat split; auto; try (apply R3; auto); apply from_bool.
Qed.

Print Assumptions C17_combinators.
Print Assumptions C17_fixed_points.
Print Assumptions C17_pair.
Print Assumptions C17_option.
Print Assumptions C17_result.
Print Assumptions C17_booleans.
Print Assumptions C17_tuple_pi.
Print Assumptions C17_tuple_pi_closed.
Print Assumptions C17_from.
