(** C10 — Classic-notation Display is unambiguous: parsing it back yields the same term.

    PARTIAL at the level of theorems: the format clause is proved for all terms, all depths and
    both glyphs; the round trip parse(Display t) = canon t is decided by the check (implementation
    and model parser run on the printed strings of an exhaustive universe, random terms and
    hand-built terms with binder depth beyond 26 and 702). *)
From LC Require Import Model.Display Spec.Printing Proofs.Printing.

Theorem C10_format : forall lam t, display lam t = ref_print_cla lam t.
Proof. exact display_format. Qed.

(** binder and variable names are the bijective base-26 numerals, for every depth *)
Theorem C10_names : forall n, base26_encode n = b26 n.
Proof. exact base26_encode_b26. Qed.

Example C10_example_names : b26 0 = [97%N] /\ b26 25 = [122%N] /\ b26 26 = [97; 97]%N /\ b26 701 = [122; 122]%N /\ b26 702 = [97; 97; 97]%N.
Proof. repeat split; vm_compute; reflexivity. Qed.

Print Assumptions C10_format.
Print Assumptions C10_names.
