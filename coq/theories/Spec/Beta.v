(** * Beta reduction, normal forms, free variables: what the properties mean. *)
From LC Require Export Spec.Subst.

(** ** One-step beta reduction (compatible closure of the beta rule). *)
Inductive step : term -> term -> Prop :=
| s_beta b a : step (App (Abs b) a) (subst 1 a b)
| s_abs b b' : step b b' -> step (Abs b) (Abs b')
| s_appl l l' r : step l l' -> step (App l r) (App l' r)
| s_appr l r r' : step r r' -> step (App l r) (App l r').

Notation red := (star step).

Lemma red_abs b b' : red b b' -> red (Abs b) (Abs b').
Proof. apply (star_map step step Abs). intros; constructor; auto. Qed.
Lemma red_appl l l' r : red l l' -> red (App l r) (App l' r).
Proof. apply (star_map step step (fun x => App x r)). intros; constructor; auto. Qed.
Lemma red_appr l r r' : red r r' -> red (App l r) (App l r').
Proof. apply (star_map step step (fun x => App l x)). intros; constructor; auto. Qed.
Lemma red_app l l' r r' : red l l' -> red r r' -> red (App l r) (App l' r').
Proof. intros; eapply star_trans; [apply red_appl|apply red_appr]; eauto. Qed.
Lemma red_abs_n n b b' : red b b' -> red (abs_n n b) (abs_n n b').
Proof. induction n; simpl; auto using red_abs. Qed.

Lemma step_shift d c t u : step t u -> step (shift d c t) (shift d c u).
Proof.
  intros H; revert c; induction H; intros c; simpl; try (constructor; auto).
  rewrite (shift_subst d c 1) by lia. replace (c + 1 - 1) with c by lia. constructor.
Qed.

Lemma step_subst k a t u : 1 <= k -> step t u -> step (subst k a t) (subst k a u).
Proof.
  intros Hk H; revert k Hk; induction H; intros k Hk; simpl; try (constructor; auto).
  rewrite (subst_subst k 1) by lia. replace (k - 1 + 1) with k by lia. constructor.
Qed.

Lemma red_shift d c t u : red t u -> red (shift d c t) (shift d c u).
Proof. apply star_map. intros; apply step_shift; auto. Qed.
Lemma red_subst k a t u : 1 <= k -> red t u -> red (subst k a t) (subst k a u).
Proof. intros Hk. apply star_map. intros; apply step_subst; auto. Qed.

(** reduction inside the substituted term *)
Lemma red_subst_arg k a a' t : red a a' -> red (subst k a t) (subst k a' t).
Proof.
  revert k; induction t as [i|b IH|l IHl r IHr]; intros k H; simpl.
  - destruct (i ?= k); try constructor. apply red_shift; auto.
  - apply red_abs; auto.
  - apply red_app; auto.
Qed.

(** ** Normal forms *)

(** neutral: a variable applied to arguments *)
Fixpoint neutralb (t : term) : bool :=
  match t with
  | Var _ => true
  | App l _ => neutralb l
  | Abs _ => false
  end.

(** beta-normal form: no redex anywhere *)
Fixpoint nfb (t : term) : bool :=
  match t with
  | Var _ => true
  | Abs b => nfb b
  | App l r => negb (is_abs l) && nfb l && nfb r
  end.

(** weak head normal form: an abstraction, or a variable applied to arguments *)
Definition whnfb (t : term) : bool := is_abs t || neutralb t.

(** weak normal form: no redex outside an abstraction *)
Fixpoint wnfb (t : term) : bool :=
  match t with
  | Var _ => true
  | Abs _ => true
  | App l r => negb (is_abs l) && wnfb l && wnfb r
  end.

(** head normal form: [λ..λ. x a1 .. an] *)
Fixpoint hnfb (t : term) : bool :=
  match t with
  | Var _ => true
  | Abs b => hnfb b
  | App l _ => neutralb l
  end.

Definition nf (t : term) : Prop := forall u, ~ step t u.

Lemma nfb_nf t : nfb t = true <-> nf t.
Proof.
  unfold nf; split.
  - induction t as [i|b IH|l IHl r IHr]; simpl; intros H u S; inversion S; subst.
    + eapply IH; eauto.
    + discriminate.
    + apply andb_true_iff in H; destruct H as [H _]. apply andb_true_iff in H; destruct H.
      eapply IHl; eauto.
    + apply andb_true_iff in H; destruct H as [_ H]. eapply IHr; eauto.
  - induction t as [i|b IH|l IHl r IHr]; simpl; intros H; auto.
    + apply IH. intros u S. apply (H (Abs u)). constructor; auto.
    + rewrite IHl, IHr.
      * destruct l; simpl; auto. exfalso. eapply H. constructor.
      * intros u S. apply (H (App l u)). constructor; auto.
      * intros u S. apply (H (App u r)). constructor; auto.
Qed.

(** ** Free variables (as levels) and UD *)

(** [fv_at d t]: the outer references of [t] below [d] binders, each reported as
    the level [i - d] it denotes outside. *)
Fixpoint fv_at (d : nat) (t : term) : list nat :=
  match t with
  | Var i => if d <? i then [i - d] else []
  | Abs b => fv_at (S d) b
  | App l r => fv_at d l ++ fv_at d r
  end.
Definition fv (t : term) : list nat := fv_at 0 t.

Fixpoint has_ud (t : term) : bool :=
  match t with
  | Var i => i =? 0
  | Abs b => has_ud b
  | App l r => has_ud l || has_ud r
  end.

(** closed: no index exceeds its binder depth (UD is not a variable) *)
Fixpoint closed_at (d : nat) (t : term) : bool :=
  match t with
  | Var i => i <=? d
  | Abs b => closed_at (S d) b
  | App l r => closed_at d l && closed_at d r
  end.
Definition closed (t : term) : bool := closed_at 0 t.

Lemma closed_at_fv d t : closed_at d t = true <-> fv_at d t = [].
Proof.
  revert d; induction t as [i|b IH|l IHl r IHr]; intros d; simpl.
  - destruct (Nat.ltb_spec d i), (Nat.leb_spec i d); split; intros; try lia; try discriminate; auto.
  - apply IH.
  - rewrite andb_true_iff, IHl, IHr. split.
    + intros [-> ->]; auto.
    + intros H; apply app_eq_nil in H; auto.
Qed.

Lemma closed_at_mono d d' t : d <= d' -> closed_at d t = true -> closed_at d' t = true.
Proof.
  revert d d'; induction t as [i|b IH|l IHl r IHr]; intros d d' Hd; simpl.
  - intros H; apply Nat.leb_le in H; apply Nat.leb_le; lia.
  - apply IH; lia.
  - rewrite !andb_true_iff; intros [? ?]; split; eauto.
Qed.

Lemma shift_closed_at d c t : closed_at c t = true -> shift d c t = t.
Proof.
  revert c; induction t as [i|b IH|l IHl r IHr]; intros c; simpl.
  - intros H; apply Nat.leb_le in H. destruct (Nat.ltb_spec c i); auto; lia.
  - intros H; f_equal; auto.
  - rewrite andb_true_iff; intros [? ?]; f_equal; auto.
Qed.

Lemma subst_closed_at k a t : closed_at (k - 1) t = true -> 1 <= k -> subst k a t = t.
Proof.
  revert k; induction t as [i|b IH|l IHl r IHr]; intros k; simpl.
  - intros H Hk; apply Nat.leb_le in H. destruct (Nat.compare_spec i k); auto; lia.
  - intros H Hk; f_equal. apply IH; [|lia]. replace (S k - 1) with (S (k - 1)) by lia. auto.
  - rewrite andb_true_iff; intros [? ?] ?; f_equal; auto.
Qed.

Lemma shift_closed d c t : closed t = true -> shift d c t = t.
Proof. intros H. apply shift_closed_at. eapply closed_at_mono; [|exact H]. lia. Qed.
Lemma subst_closed k a t : closed t = true -> 1 <= k -> subst k a t = t.
Proof. intros H Hk. apply subst_closed_at; auto. eapply closed_at_mono; [|exact H]. lia. Qed.
