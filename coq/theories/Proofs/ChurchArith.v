(** * Church arithmetic for ALL numerals (C13), on the generated constants.

    Method: the shape of each operation is exposed by an open law (certified evaluation on free
    variables, instantiated by [red_inst]); the numeral-specific part is the iteration lemma
    [church n f x ->* f^n x] and inductions over numerals. *)
From LC Require Import Spec.NorEval Spec.Encodings Gen.Terms Proofs.Laws Proofs.Convert.

Notation v4 := (Var 4).

(** ** iteration *)
Lemma subst_iter_app k a n g y : subst k a (iter_app n g y) = iter_app n (subst k a g) (subst k a y).
Proof. induction n; simpl; congruence. Qed.
Lemma shift_iter_app d c n g y : shift d c (iter_app n g y) = iter_app n (shift d c g) (shift d c y).
Proof. induction n; simpl; congruence. Qed.
Lemma iter_app_add n m f x : iter_app n f (iter_app m f x) = iter_app (n + m) f x.
Proof. induction n; simpl; congruence. Qed.
Lemma red_iter_arg n f x x' : red x x' -> red (iter_app n f x) (iter_app n f x').
Proof. intros H. induction n; simpl; auto. apply red_appr; auto. Qed.

Lemma shift_church d c n : shift d c (church n) = church n.
Proof. apply shift_closed, church_closed. Qed.
Lemma subst_church k a n : 1 <= k -> subst k a (church n) = church n.
Proof. intros. apply subst_closed; auto. apply church_closed. Qed.

(** ⌜n⌝ f x ->* f^n x, and the partial application ⌜n⌝ f ->* λy. f^n y *)
Lemma church_partial n f : red (church n @ f) (Abs (iter_app n (up1 f) (Var 1))).
Proof.
  unfold church. eapply star_step; [apply s_beta|].
  cbn [subst]. rewrite subst_iter_app. cbn [subst Nat.compare Nat.sub]. apply star_refl.
Qed.
Lemma church_iter n f x : red (church n @ f @ x) (iter_app n f x).
Proof.
  eapply star_trans; [apply red_appl, church_partial|].
  eapply star_step; [apply s_beta|]. rewrite subst_iter_app. unfold up1.
  rewrite subst_shift_cancel by lia. rewrite shift_0. cbn [subst Nat.compare Nat.sub]. rewrite shift_0.
  apply star_refl.
Qed.

(** instantiating an open law whose payloads are numerals *)
Ltac inst_num H ps :=
  let X := fresh "X" in
  pose proof (instantiate ps _ _ H) as X;
  cbn [inst payloads nth up] in X;
  repeat rewrite inst_closed in X by reflexivity;
  repeat rewrite shift_church in X.

(** ** succ *)
Lemma succ_open : red (lc_num_church_succ @ v1) (Abs (Abs (v2 @ (v3 @ v2 @ v1)))). Proof. open_law. Qed.
Theorem church_succ n : red (lc_num_church_succ @ church n) (church (S n)).
Proof.
  inst_num succ_open [church n]. eapply star_trans; [exact X|].
  apply red_abs, red_abs, red_appr. apply church_iter.
Qed.

(** ** add: n succ m *)
Lemma add_open : red (lc_num_church_add @ v1 @ v2) (v2 @ lc_num_church_succ @ v1). Proof. open_law. Qed.
Lemma iter_succ n m : red (iter_app n lc_num_church_succ (church m)) (church (n + m)).
Proof.
  induction n; simpl; [apply star_refl|].
  eapply star_trans; [apply red_appr; exact IHn|]. apply church_succ.
Qed.
Theorem church_add m n : red (lc_num_church_add @ church m @ church n) (church (m + n)).
Proof.
  inst_num add_open [church m; church n]. eapply star_trans; [exact X|].
  eapply star_trans; [apply church_iter|]. rewrite Nat.add_comm. apply iter_succ.
Qed.

(** ** mul: λf. m (n f) *)
Lemma mul_open : red (lc_num_church_mul @ v1 @ v2) (Abs (v2 @ (v3 @ v1))). Proof. open_law. Qed.
Lemma iter_compose m n f y :
  red (iter_app m (Abs (iter_app n (up1 f) (Var 1))) y) (iter_app (m * n) f y).
Proof.
  induction m; simpl; [apply star_refl|].
  eapply star_trans; [apply red_appr; exact IHm|].
  eapply star_step; [apply s_beta|]. rewrite subst_iter_app. unfold up1.
  rewrite subst_shift_cancel by lia. rewrite shift_0. cbn [subst Nat.compare Nat.sub]. rewrite shift_0.
  rewrite iter_app_add. apply star_refl.
Qed.
Theorem church_mul m n : red (lc_num_church_mul @ church m @ church n) (church (m * n)).
Proof.
  inst_num mul_open [church m; church n]. eapply star_trans; [exact X|].
  apply red_abs.
  eapply star_trans; [apply red_appr, church_partial|].
  eapply star_trans; [apply church_partial|].
  apply red_abs. unfold up1. cbn [shift Nat.ltb Nat.leb]. rewrite shift_iter_app. cbn [shift Nat.ltb Nat.leb Nat.add].
  apply (iter_compose m n (Var 2) (Var 1)).
Qed.

(** ** is_zero *)
Lemma is_zero_open : red (lc_num_church_is_zero @ v1) (v1 @ Abs lc_boolean_fls @ lc_boolean_tru). Proof. open_law. Qed.
Lemma iter_const_fls n : red (iter_app (S n) (Abs lc_boolean_fls) lc_boolean_tru) lc_boolean_fls.
Proof. simpl. eapply star_step; [apply s_beta|]. apply star_refl. Qed.
Theorem church_is_zero n : red (lc_num_church_is_zero @ church n) (bool_t (n =? 0)).
Proof.
  inst_num is_zero_open [church n]. eapply star_trans; [exact X|].
  eapply star_trans; [apply church_iter|].
  destruct n; [apply star_refl|apply iter_const_fls].
Qed.

(** ** pred: λnfx. n (λgh. h (g f)) (λu.x) (λu.u) *)
Definition predG : term := Abs (Abs (v1 @ (v2 @ v4))).   (* under the binders f = 2, x = 1 of pred *)
Lemma pred_open : red (lc_num_church_pred @ v1) (Abs (Abs (v3 @ predG @ Abs v2 @ Abs v1))). Proof. open_law. Qed.

Lemma predG_step k : red (predG @ Abs (v1 @ iter_app k v3 v2)) (Abs (v1 @ iter_app (S k) v3 v2)).
Proof.
  unfold predG. eapply star_step; [apply s_beta|].
  cbn [subst Nat.compare Nat.sub shift Nat.ltb Nat.leb Nat.add]. rewrite shift_iter_app.
  cbn [shift Nat.ltb Nat.leb Nat.add].
  apply red_abs, red_appr.
  eapply star_step; [apply s_beta|]. cbn [subst Nat.compare Nat.sub]. rewrite subst_iter_app.
  cbn [subst Nat.compare Nat.sub shift Nat.ltb Nat.leb Nat.add]. apply star_refl.
Qed.
Lemma predG_first : red (predG @ Abs v2) (Abs (v1 @ iter_app 0 v3 v2)).
Proof.
  unfold predG. eapply star_step; [apply s_beta|].
  cbn [subst Nat.compare Nat.sub shift Nat.ltb Nat.leb Nat.add].
  apply red_abs, red_appr. eapply star_step; [apply s_beta|]. cbn [subst Nat.compare Nat.sub iter_app]. apply star_refl.
Qed.
Lemma predG_iter k : red (iter_app (S k) predG (Abs v2)) (Abs (v1 @ iter_app k v3 v2)).
Proof.
  induction k.
  - simpl. apply predG_first.
  - change (iter_app (S (S k)) predG (Abs v2)) with (predG @ iter_app (S k) predG (Abs v2)).
    eapply star_trans; [apply red_appr; exact IHk|]. apply predG_step.
Qed.
Theorem church_pred n : red (lc_num_church_pred @ church n) (church (pred n)).
Proof.
  inst_num pred_open [church n]. eapply star_trans; [exact X|].
  apply red_abs, red_abs. fold predG.
  eapply star_trans; [apply red_appl, church_iter|].
  destruct n.
  - simpl. eapply star_step; [apply s_beta|]. apply star_refl.
  - eapply star_trans; [apply red_appl, predG_iter|].
    eapply star_step; [apply s_beta|]. cbn [subst Nat.compare Nat.sub]. rewrite subst_iter_app.
    cbn [subst Nat.compare Nat.sub shift Nat.ltb Nat.leb Nat.add].
    eapply star_step; [apply s_beta|]. cbn [subst Nat.compare Nat.sub]. rewrite shift_0. apply star_refl.
Qed.

(** ** sub: n pred m *)
Lemma sub_open : red (lc_num_church_sub @ v1 @ v2) (v2 @ lc_num_church_pred @ v1). Proof. open_law. Qed.
Lemma iter_pred n m : red (iter_app n lc_num_church_pred (church m)) (church (m - n)).
Proof.
  induction n; simpl.
  - rewrite Nat.sub_0_r. apply star_refl.
  - eapply star_trans; [apply red_appr; exact IHn|].
    replace (m - S n) with (pred (m - n)) by lia. apply church_pred.
Qed.
Theorem church_sub m n : red (lc_num_church_sub @ church m @ church n) (church (m - n)).
Proof.
  inst_num sub_open [church m; church n]. eapply star_trans; [exact X|].
  eapply star_trans; [apply church_iter|]. apply iter_pred.
Qed.

(** ** comparisons: leq m n = is_zero (sub m n) = n pred m (λ.fls) tru *)
Definition LEQ (a b : term) : term := b @ lc_num_church_pred @ a @ Abs lc_boolean_fls @ lc_boolean_tru.

Lemma bool_app b x y : red (bool_t b @ x @ y) (if b then x else y).
Proof.
  rewrite <- bt_bool_t. pose proof (if_else_law b x y) as H.
  destruct b; simpl bt in *.
  - unfold lc_boolean_tru. do 2 (eapply star_step; [repeat first [apply s_beta|apply s_appl]|]; cbn [subst Nat.compare Nat.sub]).
    rewrite subst_shift_cancel by lia. rewrite !shift_0. apply star_refl.
  - unfold lc_boolean_fls. do 2 (eapply star_step; [repeat first [apply s_beta|apply s_appl]|]; cbn [subst Nat.compare Nat.sub]).
    rewrite !shift_0. apply star_refl.
Qed.

Lemma is_zero_raw k : red (church k @ Abs lc_boolean_fls @ lc_boolean_tru) (bool_t (k =? 0)).
Proof.
  eapply star_trans; [apply church_iter|]. destruct k; [apply star_refl|apply iter_const_fls].
Qed.

Lemma LEQ_num m n : red (LEQ (church m) (church n)) (bool_t (m <=? n)).
Proof.
  unfold LEQ. eapply star_trans; [apply red_appl, red_appl, church_iter|].
  eapply star_trans; [apply red_appl, red_appl, iter_pred|].
  eapply star_trans; [apply is_zero_raw|].
  replace (m - n =? 0) with (m <=? n); [apply star_refl|].
  destruct (Nat.leb_spec m n), (Nat.eqb_spec (m - n) 0); auto; lia.
Qed.

Lemma leq_open : red (lc_num_church_leq @ v1 @ v2) (LEQ v1 v2). Proof. open_law. Qed.
Lemma geq_open : red (lc_num_church_geq @ v1 @ v2) (LEQ v2 v1). Proof. open_law. Qed.
Lemma lt_open : red (lc_num_church_lt @ v1 @ v2) (LEQ v2 v1 @ lc_boolean_fls @ lc_boolean_tru). Proof. open_law. Qed.
Lemma gt_open : red (lc_num_church_gt @ v1 @ v2) (LEQ v1 v2 @ lc_boolean_fls @ lc_boolean_tru). Proof. open_law. Qed.
Lemma eq_open : red (lc_num_church_eq @ v1 @ v2) (LEQ v1 v2 @ LEQ v2 v1 @ LEQ v1 v2). Proof. open_law. Qed.
Lemma neq_open : red (lc_num_church_neq @ v1 @ v2)
  ((LEQ v1 v2 @ lc_boolean_fls @ lc_boolean_tru) @ (LEQ v1 v2 @ lc_boolean_fls @ lc_boolean_tru) @ (LEQ v2 v1 @ lc_boolean_fls @ lc_boolean_tru)).
Proof. open_law. Qed.
Lemma min_open : red (lc_num_church_min @ v1 @ v2) (LEQ v1 v2 @ v1 @ v2). Proof. open_law. Qed.
Lemma max_open : red (lc_num_church_max @ v1 @ v2) (LEQ v1 v2 @ v2 @ v1). Proof. open_law. Qed.

Ltac inst_cmp H m n :=
  let X := fresh "X" in
  pose proof (instantiate [church m; church n] _ _ H) as X;
  unfold LEQ in X; cbn [inst payloads nth up] in X;
  repeat rewrite inst_closed in X by reflexivity;
  repeat rewrite shift_church in X;
  fold (LEQ (church m) (church n)) in X; fold (LEQ (church n) (church m)) in X.

Theorem church_leq m n : red (lc_num_church_leq @ church m @ church n) (bool_t (m <=? n)).
Proof. inst_cmp leq_open m n. eapply star_trans; [exact X|]. apply LEQ_num. Qed.
Theorem church_geq m n : red (lc_num_church_geq @ church m @ church n) (bool_t (n <=? m)).
Proof. inst_cmp geq_open m n. eapply star_trans; [exact X|]. apply LEQ_num. Qed.

Lemma not_raw b : red (bool_t b @ lc_boolean_fls @ lc_boolean_tru) (bool_t (negb b)).
Proof. eapply star_trans; [apply bool_app|]. destruct b; apply star_refl. Qed.

Theorem church_lt m n : red (lc_num_church_lt @ church m @ church n) (bool_t (m <? n)).
Proof.
  inst_cmp lt_open m n. eapply star_trans; [exact X|].
  eapply star_trans; [apply red_appl, red_appl, LEQ_num|]. eapply star_trans; [apply not_raw|].
  replace (negb (n <=? m)) with (m <? n); [apply star_refl|].
  destruct (Nat.leb_spec n m), (Nat.ltb_spec m n); auto; lia.
Qed.
Theorem church_gt m n : red (lc_num_church_gt @ church m @ church n) (bool_t (n <? m)).
Proof.
  inst_cmp gt_open m n. eapply star_trans; [exact X|].
  eapply star_trans; [apply red_appl, red_appl, LEQ_num|]. eapply star_trans; [apply not_raw|].
  replace (negb (m <=? n)) with (n <? m); [apply star_refl|].
  destruct (Nat.leb_spec m n), (Nat.ltb_spec n m); auto; lia.
Qed.

Theorem church_eq m n : red (lc_num_church_eq @ church m @ church n) (bool_t (m =? n)).
Proof.
  inst_cmp eq_open m n. eapply star_trans; [exact X|].
  eapply star_trans; [apply red_app; [apply red_app; apply LEQ_num|apply LEQ_num]|].
  eapply star_trans; [apply bool_app|].
  destruct (Nat.leb_spec m n), (Nat.leb_spec n m), (Nat.eqb_spec m n); try lia; apply star_refl.
Qed.
Theorem church_neq m n : red (lc_num_church_neq @ church m @ church n) (bool_t (negb (m =? n))).
Proof.
  inst_cmp neq_open m n. eapply star_trans; [exact X|].
  assert (G : forall a b, red (LEQ (church a) (church b) @ lc_boolean_fls @ lc_boolean_tru) (bool_t (negb (a <=? b)))).
  { intros. eapply star_trans; [apply red_appl, red_appl, LEQ_num|]. apply not_raw. }
  eapply star_trans; [apply red_app; [apply red_app; apply G|apply G]|].
  eapply star_trans; [apply bool_app|].
  destruct (Nat.leb_spec m n), (Nat.leb_spec n m), (Nat.eqb_spec m n); try lia; apply star_refl.
Qed.
Theorem church_min m n : red (lc_num_church_min @ church m @ church n) (church (Nat.min m n)).
Proof.
  inst_cmp min_open m n. eapply star_trans; [exact X|].
  eapply star_trans; [apply red_appl, red_appl, LEQ_num|]. eapply star_trans; [apply bool_app|].
  destruct (Nat.leb_spec m n); [rewrite Nat.min_l by lia|rewrite Nat.min_r by lia]; apply star_refl.
Qed.
Theorem church_max m n : red (lc_num_church_max @ church m @ church n) (church (Nat.max m n)).
Proof.
  inst_cmp max_open m n. eapply star_trans; [exact X|].
  eapply star_trans; [apply red_appl, red_appl, LEQ_num|]. eapply star_trans; [apply bool_app|].
  destruct (Nat.leb_spec m n); [rewrite Nat.max_r by lia|rewrite Nat.max_l by lia]; apply star_refl.
Qed.

(** ** pow: is_zero n one (n m) *)
Lemma church_exp_body m : forall k, red (iter_app (S k) (church m) v1) (Abs (iter_app (m ^ S k) v2 v1)).
Proof.
  induction k.
  - replace (m ^ 1) with m by (simpl; lia). apply (church_partial m v1).
  - change (iter_app (S (S k)) (church m) v1) with (church m @ iter_app (S k) (church m) v1).
    eapply star_trans; [apply red_appr; exact IHk|].
    eapply star_trans; [apply church_partial|]. apply red_abs.
    unfold up1. cbn [shift]. rewrite shift_iter_app. cbn [shift Nat.ltb Nat.leb Nat.add].
    replace (m ^ S (S k)) with (m * m ^ S k) by (rewrite (Nat.pow_succ_r' m (S k)); reflexivity).
    apply (iter_compose m (m ^ S k) v2 v1).
Qed.
Lemma church_exp m n : red (church (S n) @ church m) (church (m ^ S n)).
Proof.
  eapply star_trans; [apply church_partial|]. unfold up1. rewrite shift_church.
  apply red_abs. apply church_exp_body.
Qed.
Lemma pow_raw m n : red (church n @ Abs lc_boolean_fls @ lc_boolean_tru @ church 1 @ (church n @ church m)) (church (m ^ n)).
Proof.
  eapply star_trans; [apply red_appl, red_appl, is_zero_raw|].
  eapply star_trans; [apply bool_app|].
  destruct n; [apply star_refl|]. apply church_exp.
Qed.
Lemma pow_open : red (lc_num_church_pow @ v1 @ v2) (v2 @ Abs lc_boolean_fls @ lc_boolean_tru @ church 1 @ (v2 @ v1)). Proof. open_law. Qed.
Theorem church_pow m n : red (lc_num_church_pow @ church m @ church n) (church (m ^ n)).
Proof.
  inst_num pow_open [church m; church n]. eapply star_trans; [exact X|]. apply pow_raw.
Qed.

(** ** is_even, is_odd: n not tru / n not fls *)
Definition NOT : term := Abs (v1 @ lc_boolean_fls @ lc_boolean_tru).
Lemma NOT_bool b : red (NOT @ bool_t b) (bool_t (negb b)).
Proof.
  unfold NOT. eapply star_step; [apply s_beta|]. cbn [subst Nat.compare Nat.sub]. rewrite shift_0.
  rewrite !subst_closed by (reflexivity || lia). apply not_raw.
Qed.
Lemma iter_NOT n b : red (iter_app n NOT (bool_t b)) (bool_t (if Nat.even n then b else negb b)).
Proof.
  induction n.
  - apply star_refl.
  - simpl iter_app. eapply star_trans; [apply red_appr; exact IHn|]. eapply star_trans; [apply NOT_bool|].
    rewrite Nat.even_succ, <- Nat.negb_even. destruct (Nat.even n), b; apply star_refl.
Qed.
Lemma is_even_open : red (lc_num_church_is_even @ v1) (v1 @ NOT @ lc_boolean_tru). Proof. open_law. Qed.
Lemma is_odd_open : red (lc_num_church_is_odd @ v1) (v1 @ NOT @ lc_boolean_fls). Proof. open_law. Qed.
Theorem church_is_even n : red (lc_num_church_is_even @ church n) (bool_t (Nat.even n)).
Proof.
  inst_num is_even_open [church n]. eapply star_trans; [exact X|]. eapply star_trans; [apply church_iter|].
  eapply star_trans; [apply (iter_NOT n true)|]. destruct (Nat.even n); apply star_refl.
Qed.
Theorem church_is_odd n : red (lc_num_church_is_odd @ church n) (bool_t (Nat.odd n)).
Proof.
  inst_num is_odd_open [church n]. eapply star_trans; [exact X|]. eapply star_trans; [apply church_iter|].
  eapply star_trans; [apply (iter_NOT n false)|]. rewrite <- Nat.negb_even. destruct (Nat.even n); apply star_refl.
Qed.

(** ** shl: mul m (pow 2 n) *)
Lemma shl_open : red (lc_num_church_shl @ v1 @ v2)
  (Abs (v2 @ (v3 @ Abs lc_boolean_fls @ lc_boolean_tru @ church 1 @ (v3 @ church 2) @ v1))). Proof. open_law. Qed.
Theorem church_shl m n : red (lc_num_church_shl @ church m @ church n) (church (m * 2 ^ n)).
Proof.
  inst_num shl_open [church m; church n]. eapply star_trans; [exact X|].
  apply red_abs.
  eapply star_trans; [apply red_appr, red_appl, pow_raw|].
  eapply star_trans; [apply red_appr, church_partial|].
  eapply star_trans; [apply church_partial|].
  apply red_abs. unfold up1. cbn [shift Nat.ltb Nat.leb]. rewrite shift_iter_app. cbn [shift Nat.ltb Nat.leb Nat.add].
  apply (iter_compose m (2 ^ n) v2 v1).
Qed.

(** ** fac: n (λabc. a (mul b c) (succ c)) K 1 1 *)
Definition facG : term :=
  Abs (Abs (Abs (v3 @ Abs (v3 @ (v2 @ v1)) @ Abs (Abs (v2 @ (v3 @ v2 @ v1)))))).
Lemma fac_open : red (lc_num_church_fac @ v1) (v1 @ facG @ lc_boolean_tru @ church 1 @ church 1). Proof. open_law. Qed.

Fixpoint rising (a b k : nat) : nat := match k with 0 => a | S j => rising (a * b) (S b) j end.
Lemma rising_fact n : rising 1 1 n = fact n.
Proof.
  assert (G : forall k a b, rising (a * fact b) (S b) k = a * fact (b + k)).
  { induction k; intros a b; simpl.
    - rewrite Nat.add_0_r. reflexivity.
    - replace (a * fact b * S b) with (a * fact (S b)) by (simpl; lia).
      rewrite IHk. f_equal. f_equal. lia. }
  destruct n; auto. change (rising 1 1 (S n)) with (rising (1 * fact 1) (S 1) n).
  rewrite G. change (1 + n) with (S n). lia.
Qed.

Lemma facG_step F a b :
  red (facG @ F @ church a @ church b) (F @ church (a * b) @ church (S b)).
Proof.
  unfold facG.
  eapply star_step; [apply s_appl, s_appl, s_beta|]. cbn [subst Nat.compare Nat.sub].
  eapply star_step; [apply s_appl, s_beta|]. cbn [subst Nat.compare Nat.sub].
  eapply star_step; [apply s_beta|]. cbn [subst Nat.compare Nat.sub].
  rewrite !shift_church. rewrite !subst_church by lia.
  rewrite (subst_shift_cancel 2) by lia. cbn [Nat.sub]. rewrite (subst_shift_cancel 1) by lia. cbn [Nat.sub]. rewrite shift_0.
  apply red_app; [apply red_appr|].
  - (* λf. a (b f) ->* a * b *)
    apply red_abs.
    eapply star_trans; [apply red_appr, church_partial|].
    eapply star_trans; [apply church_partial|].
    apply red_abs. unfold up1. cbn [shift Nat.ltb Nat.leb]. rewrite shift_iter_app. cbn [shift Nat.ltb Nat.leb Nat.add].
    apply (iter_compose a b v2 v1).
  - apply red_abs, red_abs, red_appr. apply church_iter.
Qed.

Lemma fac_iter k : forall a b, red (iter_app k facG lc_boolean_tru @ church a @ church b) (church (rising a b k)).
Proof.
  induction k; intros a b.
  - simpl. eapply star_trans; [apply (bool_app true)|]. apply star_refl.
  - simpl iter_app. eapply star_trans; [apply facG_step|]. simpl rising. apply IHk.
Qed.

Theorem church_fac n : red (lc_num_church_fac @ church n) (church (fact n)).
Proof.
  inst_num fac_open [church n]. eapply star_trans; [exact X|].
  eapply star_trans; [apply red_appl, red_appl, church_iter|].
  rewrite <- rising_fact. apply fac_iter.
Qed.

(** ** the Z-based operations: quot, rem, div, shr *)
Definition Wz (g : term) : term := Abs (g @ Abs (v2 @ v2 @ v1)).
Definition Rz (g : term) : term := Wz g @ Wz g.

Lemma Z_start g : closed g = true -> red (lc_combinators_Z @ g) (Rz g).
Proof.
  intros C. unfold lc_combinators_Z, Rz, Wz. eapply star_step; [apply s_beta|].
  cbn [subst Nat.compare Nat.sub]. rewrite !(shift_closed 1 0 g C). apply star_refl.
Qed.
Lemma Z_unfold g : closed g = true -> red (Rz g) (g @ Abs (Rz g @ v1)).
Proof.
  intros C. unfold Rz at 1. unfold Wz at 1. eapply star_step; [apply s_beta|].
  cbn [subst Nat.compare Nat.sub]. rewrite (subst_closed 1 _ g C) by lia.
  assert (CW : closed (Wz g) = true).
  { unfold Wz, closed. simpl. unfold closed in C. rewrite (closed_at_mono 0 1 g ltac:(lia) C). reflexivity. }
  rewrite ?shift_0. rewrite ?(shift_closed 1 0 _ CW). apply star_refl.
Qed.
Lemma Rz_closed g : closed g = true -> closed (Rz g) = true.
Proof.
  intros C. unfold Rz, Wz, closed. simpl. unfold closed in C.
  rewrite (closed_at_mono 0 1 g ltac:(lia) C). reflexivity.
Qed.
Lemma Z_call g u : closed g = true -> red (Abs (Rz g @ v1) @ u) (Rz g @ u).
Proof.
  intros C. eapply star_step; [apply s_beta|]. cbn [subst Nat.compare Nat.sub].
  rewrite (subst_closed 1 _ _ (Rz_closed g C)) by lia. rewrite shift_0. apply star_refl.
Qed.

Ltac hb := eapply star_step; [repeat first [apply s_beta | apply s_appl]|];
  cbn [subst Nat.compare Nat.sub];
  repeat rewrite subst_closed by (reflexivity || lia || apply church_closed || (apply Rz_closed; reflexivity));
  repeat rewrite shift_closed by (reflexivity || apply church_closed || (apply Rz_closed; reflexivity));
  rewrite ?shift_0.

(** quot *)
Definition quotG : term :=
  Abs (Abs (Abs (lc_num_church_lt @ v2 @ v1 @ Abs (church 0) @
                 Abs (lc_num_church_succ @ (Var 4 @ (lc_num_church_sub @ v3 @ v2) @ v2)) @ lc_combinators_I))).
Lemma quot_shape : lc_num_church_quot = lc_combinators_Z @ quotG. Proof. reflexivity. Qed.

Lemma quot_rec : forall a b, 1 <= b -> red (Rz quotG @ church a @ church b) (church (a / b)).
Proof.
  intros a. induction a as [a IH] using lt_wf_ind. intros b Hb.
  assert (C : closed quotG = true) by reflexivity.
  eapply star_trans; [apply red_appl, red_appl, (Z_unfold quotG C)|].
  unfold quotG at 1. hb. hb. hb. fold quotG.
  (* lt a b K0 (λx. ...) I *)
  eapply star_trans; [apply red_appl, red_appl, red_appl, church_lt|].
  eapply star_trans; [apply red_appl, bool_app|].
  destruct (Nat.ltb_spec a b) as [Hlt|Hge].
  - hb. rewrite Nat.div_small by lia. apply star_refl.
  - hb.
    eapply star_trans; [apply red_appr, red_appl, (Z_call quotG _ C)|].
    eapply star_trans; [apply red_appr, red_appl, red_appr, church_sub|].
    eapply star_trans; [apply red_appr, (IH (a - b)); lia|].
    eapply star_trans; [apply church_succ|].
    replace (a / b) with ((a - b + 1 * b) / b) by (f_equal; lia).
    rewrite Nat.div_add by lia. replace ((a - b) / b + 1) with (S ((a - b) / b)) by lia. apply star_refl.
Qed.
Theorem church_quot a b : 1 <= b -> red (lc_num_church_quot @ church a @ church b) (church (a / b)).
Proof.
  intros Hb. rewrite quot_shape.
  eapply star_trans; [apply red_appl, red_appl, Z_start; reflexivity|]. apply quot_rec; auto.
Qed.

(** rem *)
Definition remG : term :=
  Abs (Abs (Abs (lc_num_church_lt @ v2 @ v1 @ Abs v3 @
                 Abs (Var 4 @ (lc_num_church_sub @ v3 @ v2) @ v2) @ lc_combinators_I))).
Lemma rem_shape : lc_num_church_rem = lc_combinators_Z @ remG. Proof. reflexivity. Qed.
Lemma rem_rec : forall a b, 1 <= b -> red (Rz remG @ church a @ church b) (church (a mod b)).
Proof.
  intros a. induction a as [a IH] using lt_wf_ind. intros b Hb.
  assert (C : closed remG = true) by reflexivity.
  eapply star_trans; [apply red_appl, red_appl, (Z_unfold remG C)|].
  unfold remG at 1. hb. hb. hb. fold remG.
  eapply star_trans; [apply red_appl, red_appl, red_appl, church_lt|].
  eapply star_trans; [apply red_appl, bool_app|].
  destruct (Nat.ltb_spec a b) as [Hlt|Hge].
  - hb. rewrite Nat.mod_small by lia. apply star_refl.
  - hb.
    eapply star_trans; [apply red_appl, (Z_call remG _ C)|].
    eapply star_trans; [apply red_appl, red_appr, church_sub|].
    eapply star_trans; [apply (IH (a - b)); lia|].
    replace (a mod b) with ((a - b + 1 * b) mod b) by (f_equal; lia).
    rewrite Nat.mod_add by lia. apply star_refl.
Qed.
Theorem church_rem a b : 1 <= b -> red (lc_num_church_rem @ church a @ church b) (church (a mod b)).
Proof.
  intros Hb. rewrite rem_shape.
  eapply star_trans; [apply red_appl, red_appl, Z_start; reflexivity|]. apply rem_rec; auto.
Qed.

(** div: quotient and remainder as a pair, with an accumulator *)
Definition divG : term :=
  Abs (Abs (Abs (Abs (lc_num_church_lt @ v2 @ v1 @ Abs (lc_pair_pair @ v4 @ v3) @
                      Abs (Var 5 @ (lc_num_church_succ @ v4) @ (lc_num_church_sub @ v3 @ v2) @ v2) @ lc_combinators_I)))).
Lemma div_shape : lc_num_church_div = lc_combinators_Z @ divG @ church 0. Proof. reflexivity. Qed.
Lemma div_rec : forall a q b, 1 <= b ->
  red (Rz divG @ church q @ church a @ church b) (pair_t (church (q + a / b)) (church (a mod b))).
Proof.
  intros a. induction a as [a IH] using lt_wf_ind. intros q b Hb.
  assert (C : closed divG = true) by reflexivity.
  eapply star_trans; [apply red_appl, red_appl, red_appl, (Z_unfold divG C)|].
  unfold divG at 1. hb. hb. hb. hb. fold divG.
  eapply star_trans; [apply red_appl, red_appl, red_appl, church_lt|].
  eapply star_trans; [apply red_appl, bool_app|].
  destruct (Nat.ltb_spec a b) as [Hlt|Hge].
  - hb. rewrite Nat.div_small, Nat.mod_small, Nat.add_0_r by lia.
    eapply star_trans; [apply pair_law|]. unfold up1. rewrite !shift_church. apply star_refl.
  - hb.
    eapply star_trans; [apply red_appl, red_appl, (Z_call divG _ C)|].
    eapply star_trans; [apply red_appl, red_appl, red_appr, church_succ|].
    eapply star_trans; [apply red_appl, red_appr, church_sub|].
    eapply star_trans; [apply (IH (a - b)); lia|].
    replace (a / b) with ((a - b + 1 * b) / b) by (f_equal; lia).
    replace (a mod b) with ((a - b + 1 * b) mod b) by (f_equal; lia).
    rewrite Nat.div_add, Nat.mod_add by lia.
    replace (S q + (a - b) / b) with (q + ((a - b) / b + 1)) by lia. apply star_refl.
Qed.
Theorem church_div a b : 1 <= b ->
  red (lc_num_church_div @ church a @ church b) (pair_t (church (a / b)) (church (a mod b))).
Proof.
  intros Hb. rewrite div_shape.
  eapply star_trans; [apply red_appl, red_appl, red_appl, Z_start; reflexivity|]. apply (div_rec a 0 b Hb).
Qed.

(** shr: is_zero b a (quot a (pow 2 b)) *)
Lemma shr_shape : lc_num_church_shr =
  Abs (Abs (lc_num_church_is_zero @ v1 @ v2 @
            (lc_num_church_quot @ v2 @ (lc_num_church_pow @ (lc_num_church_succ @ lc_num_church_one) @ v1)))).
Proof. reflexivity. Qed.
Theorem church_shr a b : red (lc_num_church_shr @ church a @ church b) (church (a / 2 ^ b)).
Proof.
  rewrite shr_shape. hb. hb.
  eapply star_trans; [apply red_appl, red_appl, church_is_zero|].
  eapply star_trans; [apply bool_app|].
  destruct b.
  - replace (a / 2 ^ 0) with a by (change (2 ^ 0) with 1; rewrite Nat.div_1_r; reflexivity). apply star_refl.
  - cbn [Nat.eqb].
    eapply star_trans; [apply red_appr, red_appl, red_appr, (church_succ 1)|].
    eapply star_trans; [apply red_appr, church_pow|].
    apply church_quot. assert (2 ^ S b <> 0) by (apply Nat.pow_nonzero; lia). lia.
Qed.
