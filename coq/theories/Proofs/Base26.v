(** * Bijective base 26: names are non-empty lower-case words and distinct numbers get distinct names *)
From Coq Require Import ZArith ZifyNat ZifyBool ZifyN Lia.
From LC Require Import Spec.Printing.
Ltac Zify.zify_post_hook ::= Z.div_mod_to_equations.

Definition lower (c : N) : Prop := (97 <= N.to_nat c <= 122)%nat.

Lemma b26_fuel_irrelevant : forall k a b, k < a -> k < b -> b26_fuel a k = b26_fuel b k.
Proof.
  induction k as [k IH] using lt_wf_ind. intros a b Ha Hb.
  destruct a as [|a]; [lia|]. destruct b as [|b]; [lia|]. cbn [b26_fuel].
  destruct (Nat.ltb_spec k 26); auto. f_equal. apply IH; lia.
Qed.

Lemma b26_unfold k : b26 k = if k <? 26 then [N.of_nat (97 + k)] else b26 (k / 26 - 1) ++ [N.of_nat (97 + k mod 26)].
Proof.
  unfold b26 at 1. cbn [b26_fuel]. destruct (Nat.ltb_spec k 26); auto.
  f_equal. unfold b26. apply b26_fuel_irrelevant; lia.
Qed.

Lemma b26_lower : forall k, Forall lower (b26 k) /\ b26 k <> [].
Proof.
  induction k as [k IH] using lt_wf_ind. rewrite b26_unfold.
  destruct (Nat.ltb_spec k 26).
  - split; [|discriminate]. constructor; [|constructor]. unfold lower. rewrite Nat2N.id. lia.
  - destruct (IH (k / 26 - 1) ltac:(lia)) as [F _]. split.
    + apply Forall_app. split; auto. constructor; [|constructor]. unfold lower. rewrite Nat2N.id. lia.
    + intros E. apply app_eq_nil in E. destruct E; discriminate.
Qed.

(** value of a word in bijective base 26 *)
Definition wval (l : list N) : nat := fold_left (fun acc c => acc * 26 + (N.to_nat c - 96)) l 0.

Lemma wval_app l c : wval (l ++ [c]) = wval l * 26 + (N.to_nat c - 96).
Proof. unfold wval. rewrite fold_left_app. reflexivity. Qed.

Lemma wval_b26 : forall k, wval (b26 k) = S k.
Proof.
  induction k as [k IH] using lt_wf_ind. rewrite b26_unfold.
  destruct (Nat.ltb_spec k 26).
  - unfold wval. cbn [fold_left]. rewrite Nat2N.id. lia.
  - rewrite wval_app, IH by lia. rewrite Nat2N.id. lia.
Qed.

Theorem b26_inj a b : b26 a = b26 b -> a = b.
Proof. intros H. pose proof (wval_b26 a) as A. rewrite H, wval_b26 in A. lia. Qed.

Lemma name_eqb_eq (x y : name) : name_eqb x y = true <-> x = y.
Proof.
  revert y; induction x as [|a x IH]; intros [|b y]; simpl; split; intros H; try discriminate; auto.
  - apply andb_true_iff in H. destruct H as [H1 H2]. apply N.eqb_eq in H1. apply IH in H2. subst. reflexivity.
  - inversion H; subst. rewrite N.eqb_refl. simpl. apply IH. reflexivity.
Qed.

Lemma name_eqb_b26 a b : name_eqb (b26 a) (b26 b) = (a =? b).
Proof.
  destruct (Nat.eqb_spec a b) as [->|N].
  - apply name_eqb_eq. reflexivity.
  - destruct (name_eqb (b26 a) (b26 b)) eqn:E; auto. apply name_eqb_eq, b26_inj in E. contradiction.
Qed.
