(** * Church, Scott and Parigot lists for ALL lists (C16), on the generated constants *)
From LC Require Import Spec.NorEval Spec.Encodings Model.TermOps Model.Convert Gen.Terms Proofs.Laws Proofs.Convert Proofs.ChurchArith
  Proofs.RedSetoid Proofs.PairList.
From Coq Require Import List. Import ListNotations.

(** applying a two-argument abstraction to the variables it binds changes nothing *)
Lemma subst_id2 : forall B d, closed_at (2 + d) B = true -> subst (1 + d) v1 (subst (2 + d) v2 B) = B.
Proof.
  induction B as [i|b IH|l IHl r IHr]; intros d H; cbn [closed_at] in H.
  - apply Nat.leb_le in H. cbn [subst].
    destruct (Nat.compare_spec i (2 + d)) as [E|E|E]; try lia.
    + subst i. cbn [shift]. replace (0 <? 2) with true by reflexivity. cbn [subst].
      destruct (Nat.compare_spec (2 + (2 + d - 1)) (1 + d)); try lia. f_equal; lia.
    + cbn [subst]. destruct (Nat.compare_spec i (1 + d)) as [E2|E2|E2]; try lia; auto.
      subst i. cbn [shift]. replace (0 <? 1) with true by reflexivity. f_equal; lia.
  - cbn [subst]. f_equal. apply (IH (S d)). exact H.
  - apply andb_true_iff in H. destruct H. cbn [subst]. f_equal; auto.
Qed.
Lemma eta2 B : closed_at 2 B = true -> red (Abs (Abs B) @ v2 @ v1) B.
Proof.
  intros H. eapply star_step; [apply s_appl, s_beta|]. cbn [subst].
  eapply star_step; [apply s_beta|]. pose proof (subst_id2 B 0 H) as E. cbn [Nat.add] in E. rewrite E. apply star_refl.
Qed.

Lemma closed_up d t : closed t = true -> closed_at d t = true.
Proof. intros. apply (closed_at_mono 0 d); auto. lia. Qed.
Notation UD := (Var 0).

(** ** Scott lists *)
Notation sl := scott_list.
Notation SNIL := lc_list_scott_nil.
Notation SISNIL := lc_list_scott_is_nil.
Notation SCONS := lc_list_scott_cons.
Notation SHEAD := lc_list_scott_head.
Notation STAIL := lc_list_scott_tail.
Lemma sl_closed xs : allc xs -> closed (sl xs) = true.
Proof.
  induction xs as [|x r IH]; intros H; [reflexivity|]. apply allc_cons in H. destruct H as [Cx Cr].
  unfold closed. cbn [scott_list closed_at Nat.leb]. rewrite (closed_up 2 x), (closed_up 2 (sl r)) by auto. reflexivity.
Qed.
#[export] Hint Resolve sl_closed : clos.
Lemma sl_cons_eq x r : sl (x :: r) = Abs (Abs (v1 @ x @ sl r)). Proof. reflexivity. Qed.

Theorem scott_nil_is : SNIL = sl []. Proof. reflexivity. Qed.
Theorem scott_cons_law x r : closed x = true -> allc r -> red (SCONS @ x @ sl r) (sl (x :: r)).
Proof. intros. unfold SCONS. hbc. hbc. reflexivity. Qed.
Theorem scott_head_law x r : closed x = true -> allc r -> red (SHEAD @ sl (x :: r)) x.
Proof. intros. unfold SHEAD. hbc. rewrite sl_cons_eq. hbc. hbc. hbc. hbc. reflexivity. Qed.
Theorem scott_tail_law x r : closed x = true -> allc r -> red (STAIL @ sl (x :: r)) (sl r).
Proof. intros. unfold STAIL. hbc. rewrite sl_cons_eq. hbc. hbc. hbc. hbc. reflexivity. Qed.
Theorem scott_is_nil_law xs : allc xs -> red (SISNIL @ sl xs) (bool_t (match xs with [] => true | _ => false end)).
Proof.
  intros H. destruct xs as [|x r].
  - apply (by_eval 10). vm_compute. reflexivity.
  - apply allc_cons in H. destruct H. unfold SISNIL. hbc. rewrite sl_cons_eq. hbc. hbc. hbc. hbc. reflexivity.
Qed.
(** for arbitrary (open, non-normal) element and tail terms *)
Lemma scott_head_open : red (SHEAD @ (SCONS @ v1 @ v2)) v1. Proof. open_law. Qed.
Lemma scott_tail_open : red (STAIL @ (SCONS @ v1 @ v2)) v2. Proof. open_law. Qed.
Lemma scott_isnil_open : red (SISNIL @ (SCONS @ v1 @ v2)) fls_t. Proof. open_law. Qed.
Theorem scott_head_any x t : red (SHEAD @ (SCONS @ x @ t)) x. Proof. inst_law scott_head_open [x; t]. Qed.
Theorem scott_tail_any x t : red (STAIL @ (SCONS @ x @ t)) t. Proof. inst_law scott_tail_open [x; t]. Qed.
Theorem scott_isnil_any x t : red (SISNIL @ (SCONS @ x @ t)) fls_t. Proof. inst_law scott_isnil_open [x; t]. Qed.
Theorem scott_isnil_nil : red (SISNIL @ SNIL) tru_t. Proof. apply (by_eval 10). vm_compute. reflexivity. Qed.

(** ** Parigot lists *)
Notation gl := parigot_list.
Notation PNIL := lc_list_parigot_nil.
Notation PISNIL := lc_list_parigot_is_nil.
Notation PCONS := lc_list_parigot_cons.
Notation PHEAD := lc_list_parigot_head.
Notation PTAIL := lc_list_parigot_tail.
Lemma gl_eta xs : gl xs = Abs (Abs (body2 (gl xs))). Proof. destruct xs; reflexivity. Qed.
Lemma gl_closed_at xs : allc xs -> forall d, closed_at d (gl xs) = true /\ closed_at (S (S d)) (body2 (gl xs)) = true.
Proof.
  induction xs as [|x r IH]; intros H d; [split; reflexivity|]. apply allc_cons in H. destruct H as [Cx Cr].
  destruct (IH Cr (S (S d))) as [A _]. destruct (IH Cr d) as [_ B].
  assert (E : closed_at (S (S d)) (body2 (gl (x :: r))) = true).
  { cbn [parigot_list body2 closed_at Nat.leb]. rewrite (closed_up _ x Cx), A, B. reflexivity. }
  split; auto.
Qed.
Lemma gl_closed xs : allc xs -> closed (gl xs) = true.
Proof. intros H. apply (gl_closed_at xs H 0). Qed.
#[export] Hint Resolve gl_closed : clos.
Lemma gl_cons_eq x r : gl (x :: r) = Abs (Abs (v1 @ x @ gl r @ body2 (gl r))). Proof. reflexivity. Qed.

Theorem parigot_nil_is : PNIL = gl []. Proof. reflexivity. Qed.
Theorem parigot_cons_law x r : closed x = true -> allc r -> red (PCONS @ x @ gl r) (gl (x :: r)).
Proof.
  intros Cx Cr. unfold PCONS. hbc. hbc. rewrite gl_cons_eq.
  apply red_abs, red_abs, red_appr.
  eapply star_step; [apply s_appl, s_appl, s_beta|]. cbn [subst Nat.compare Nat.sub]. rewrite shift_0.
  rewrite (gl_eta r) at 1. apply eta2. apply (gl_closed_at r Cr 0).
Qed.
Theorem parigot_head_law x r : closed x = true -> allc r -> red (PHEAD @ gl (x :: r)) x.
Proof.
  intros Cx Cr. unfold PHEAD. hbc. rewrite gl_cons_eq. hbc.
  assert (E : subst 2 UD (body2 (gl r)) = subst 2 UD (body2 (gl r))) by reflexivity.
  eapply star_step; [apply s_beta|]. cbn [subst Nat.compare Nat.sub]. simp_closed. rewrite ?shift_0.
  hbc. hbc. hbc. reflexivity.
Qed.
Theorem parigot_tail_law x r : closed x = true -> allc r -> red (PTAIL @ gl (x :: r)) (gl r).
Proof.
  intros Cx Cr. unfold PTAIL. hbc. rewrite gl_cons_eq. hbc.
  eapply star_step; [apply s_beta|]. cbn [subst Nat.compare Nat.sub]. simp_closed. rewrite ?shift_0.
  hbc. hbc. hbc. reflexivity.
Qed.
Theorem parigot_is_nil_law xs : allc xs -> red (PISNIL @ gl xs) (bool_t (match xs with [] => true | _ => false end)).
Proof.
  intros H. destruct xs as [|x r].
  - apply (by_eval 10). vm_compute. reflexivity.
  - apply allc_cons in H. destruct H. unfold PISNIL. hbc. rewrite gl_cons_eq. hbc.
    eapply star_step; [apply s_beta|]. cbn [subst Nat.compare Nat.sub]. simp_closed. rewrite ?shift_0.
    hbc. hbc. hbc. reflexivity.
Qed.
Lemma parigot_head_open : red (PHEAD @ (PCONS @ v1 @ v2)) v1. Proof. open_law. Qed.
Lemma parigot_tail_open : red (PTAIL @ (PCONS @ v1 @ v2)) v2. Proof. open_law. Qed.
Lemma parigot_isnil_open : red (PISNIL @ (PCONS @ v1 @ v2)) fls_t. Proof. open_law. Qed.
Theorem parigot_head_any x t : red (PHEAD @ (PCONS @ x @ t)) x. Proof. inst_law parigot_head_open [x; t]. Qed.
Theorem parigot_tail_any x t : red (PTAIL @ (PCONS @ x @ t)) t. Proof. inst_law parigot_tail_open [x; t]. Qed.
Theorem parigot_isnil_any x t : red (PISNIL @ (PCONS @ x @ t)) fls_t. Proof. inst_law parigot_isnil_open [x; t]. Qed.
Theorem parigot_isnil_nil : red (PISNIL @ PNIL) tru_t. Proof. apply (by_eval 10). vm_compute. reflexivity. Qed.

(** ** Church (right fold) lists *)
Notation cl := church_list.
Notation CNIL := lc_list_church_nil.
Notation CISNIL := lc_list_church_is_nil.
Notation CCONS := lc_list_church_cons.
Notation CHEAD := lc_list_church_head.
Notation CTAIL := lc_list_church_tail.
Lemma clb_closed xs : allc xs -> closed_at 2 (church_list_body xs) = true.
Proof.
  induction xs as [|x r IH]; intros H; [reflexivity|]. apply allc_cons in H. destruct H as [Cx Cr].
  cbn [church_list_body closed_at Nat.leb]. rewrite (closed_up 2 x), IH by auto. reflexivity.
Qed.
Lemma cl_closed xs : allc xs -> closed (cl xs) = true.
Proof. intros. unfold closed, church_list. cbn [closed_at]. apply clb_closed; auto. Qed.
#[export] Hint Resolve cl_closed : clos.

Fixpoint cfold (z s : term) (xs : list term) : term :=
  match xs with [] => z | x :: r => s @ x @ cfold z s r end.
Lemma clb_subst z s xs : allc xs -> subst 1 s (subst 2 z (church_list_body xs)) = cfold z s xs.
Proof.
  induction xs as [|x r IH]; intros H.
  - cbn [church_list_body subst Nat.compare Nat.sub cfold]. rewrite subst_shift_cancel by lia. apply shift_0.
  - apply allc_cons in H. destruct H as [Cx Cr].
    cbn [church_list_body subst Nat.compare Nat.sub cfold]. rewrite IH by auto.
    rewrite !(subst_closed _ _ x) by (auto || lia). rewrite shift_0. reflexivity.
Qed.
Theorem cl_fold xs z s : allc xs -> red (cl xs @ z @ s) (cfold z s xs).
Proof.
  intros H. unfold church_list. eapply star_step; [apply s_appl, s_beta|]. cbn [subst].
  eapply star_step; [apply s_beta|]. rewrite clb_subst by auto. apply star_refl.
Qed.

Theorem church_nil_is : CNIL = cl []. Proof. reflexivity. Qed.
Theorem church_cons_law x r : closed x = true -> allc r -> red (CCONS @ x @ cl r) (cl (x :: r)).
Proof.
  intros Cx Cr. unfold CCONS. hbc. hbc. unfold church_list at 2. cbn [church_list_body].
  apply red_abs, red_abs, red_appr.
  eapply star_step; [apply s_appl, s_appl, s_beta|]. cbn [subst Nat.compare Nat.sub]. rewrite shift_0.
  unfold church_list. apply eta2. apply clb_closed; auto.
Qed.
Theorem church_head_law x r : closed x = true -> allc r -> red (CHEAD @ cl (x :: r)) x.
Proof.
  intros Cx Cr. unfold CHEAD. hbc. rewrite cl_fold by auto with clos. cbn [cfold]. hbc. hbc. reflexivity.
Qed.
Theorem church_is_nil_law xs : allc xs -> red (CISNIL @ cl xs) (bool_t (match xs with [] => true | _ => false end)).
Proof.
  intros H. unfold CISNIL. hbc. rewrite cl_fold by auto. destruct xs as [|x r]; cbn [cfold].
  - reflexivity.
  - hbc. hbc. reflexivity.
Qed.

(** tail: a fold over the pair (tail of the suffix, suffix) *)
Definition tZ0 : term := lc_pair_pair @ UD @ CNIL.
Definition tS : term := Abs (Abs (lc_pair_pair @ (lc_pair_snd @ v1) @ (CCONS @ v2 @ (lc_pair_snd @ v1)))).
Lemma ctail_shape : CTAIL = Abs (lc_pair_fst @ (v1 @ tZ0 @ tS)). Proof. reflexivity. Qed.
Definition tstate (xs : list term) : term :=
  match xs with [] => pair_t UD (cl []) | x :: r => pair_t (cl r) (cl (x :: r)) end.
Lemma tstate_snd xs : allc xs -> red (lc_pair_snd @ tstate xs) (cl xs).
Proof.
  intros H. destruct xs as [|x r]; cbn [tstate].
  - apply snd_pair; reflexivity.
  - pose proof H as H'. apply allc_cons in H. destruct H. apply snd_pair; auto with clos.
Qed.
Lemma tail_fold xs : allc xs -> red (cfold tZ0 tS xs) (tstate xs).
Proof.
  induction xs as [|x r IH]; intros H; cbn [cfold].
  - unfold tZ0. cbn [tstate]. apply mk_pair; reflexivity.
  - apply allc_cons in H. destruct H as [Cx Cr]. rewrite IH by auto.
    assert (Ct : closed (tstate r) = true).
    { destruct r as [|y r']; cbn [tstate]; [reflexivity|]. pose proof Cr as Cr'. apply allc_cons in Cr. destruct Cr.
      apply pair_closed; auto with clos. }
    unfold tS. hbc. hbc. rewrite !tstate_snd by auto. rewrite church_cons_law by auto.
    cbn [tstate]. apply mk_pair; auto with clos.
Qed.
Theorem church_tail_law x r : closed x = true -> allc r -> red (CTAIL @ cl (x :: r)) (cl r).
Proof.
  intros Cx Cr. rewrite ctail_shape. hbc. rewrite cl_fold by auto with clos. rewrite tail_fold by auto with clos.
  cbn [tstate]. apply fst_pair; auto with clos.
Qed.
Lemma church_head_open : red (CHEAD @ (CCONS @ v1 @ v2)) v1. Proof. open_law. Qed.
Lemma church_isnil_open : red (CISNIL @ (CCONS @ v1 @ v2)) fls_t. Proof. open_law. Qed.
Theorem church_head_any x t : red (CHEAD @ (CCONS @ x @ t)) x. Proof. inst_law church_head_open [x; t]. Qed.
Theorem church_isnil_any x t : red (CISNIL @ (CCONS @ x @ t)) fls_t. Proof. inst_law church_isnil_open [x; t]. Qed.
Theorem church_isnil_nil : red (CISNIL @ CNIL) tru_t. Proof. apply (by_eval 10). vm_compute. reflexivity. Qed.

(** pair lists with arbitrary payloads *)
Lemma pair_head_open : red (HEAD @ (CONS @ v1 @ v2)) v1. Proof. open_law. Qed.
Lemma pair_tail_open : red (TAIL @ (CONS @ v1 @ v2)) v2. Proof. open_law. Qed.
Lemma pair_isnil_open : red (ISNIL @ (CONS @ v1 @ v2)) fls_t. Proof. open_law. Qed.
Theorem pair_head_any x t : red (HEAD @ (CONS @ x @ t)) x. Proof. inst_law pair_head_open [x; t]. Qed.
Theorem pair_tail_any x t : red (TAIL @ (CONS @ x @ t)) t. Proof. inst_law pair_tail_open [x; t]. Qed.
Theorem pair_isnil_any x t : red (ISNIL @ (CONS @ x @ t)) fls_t. Proof. inst_law pair_isnil_open [x; t]. Qed.
Theorem pair_isnil_nil : red (ISNIL @ NIL) tru_t. Proof. apply (by_eval 10). vm_compute. reflexivity. Qed.

(** ** the vector conversions of src/data/list/convert.rs produce these closed forms *)
Theorem into_scott_list_spec xs : into_scott_list xs = scott_list xs.
Proof. unfold into_scott_list. rewrite LC.Proofs.Convert.fold_left_rev_right. induction xs; simpl; auto; try (rewrite IHxs; reflexivity). Qed.
Lemma unabs2_body2 t : unabs2 t = body2 t.
Proof. destruct t as [|[| |]|]; reflexivity. Qed.
Theorem into_parigot_list_spec xs : into_parigot_list xs = parigot_list xs.
Proof.
  unfold into_parigot_list. rewrite LC.Proofs.Convert.fold_left_rev_right.
  induction xs as [|x r IH]; [reflexivity|]. cbn [fold_right]. rewrite IH, unabs2_body2. reflexivity.
Qed.
