#!/usr/bin/env python3
"""Translator: /repo/src/term.rs (accessors and predicates of `impl Term`)  ->  coq/theories/Gen/TermSrc.v

The Gallina model of the fifteen accessors (unvar/unabs/unapp/lhs/rhs and their _ref/_mut forms) and of the
predicates (is_supercombinator, max_depth, is_isomorphic_to, has_free_variables[_helper]) is REGENERATED from the
Rust source on every run of the C18/C19 checks; Proofs/TermSrcTie.v then re-proves, on what the source says now,
that each generated function is the hand-written model function the C18/C19 theorems were first proved for, and
Properties/C18.v / C19.v state the properties on the generated functions.

Understood idiom (anything else raises TransError naming the construct; `check` then falls back to the last good
copy coq/baseline/TermSrc.v and the tie rests on the correspondence run alone):
  * pure expression bodies: `if let PAT = E { .. } else { .. }`, `match E { arms }` (E may be a tuple), `let x = E;`,
    `let (a, b) = *boxed;`, `Ok(..)`/`Err(..)`, tuples, calls of other translated methods, `a.max(b)`, usize
    arithmetic `+`, comparisons, `&&`, `||`, `!`; `&`, `*`, `ref`, `mut` are erased (the model is pure: the
    consuming, borrowing and mutable forms of an accessor become three separately generated, separately proved
    functions);
  * the work-list loop of is_supercombinator: `let mut stack = vec![(E, self)]; while let Some((d, term)) =
    stack.pop() { match term { arms } } BOOL` whose arms consist of `if C { return BOOL; }`, `stack.push((E, x))`,
    `let (f, a) = **boxed;`, `let x = E;` and `for x in [a, b, ..] { .. }` (unrolled); it becomes recursion on fuel
    over a list used as a stack (top = head), `None` = out of fuel.
"""
import re
import sys

from trans_reduction import TransError, tokenize, P, split_top, matching

ACCESSORS = ["unvar", "unvar_ref", "unvar_mut", "unabs", "unabs_ref", "unabs_mut", "unapp", "unapp_ref", "unapp_mut",
             "lhs", "lhs_ref", "lhs_mut", "rhs", "rhs_ref", "rhs_mut"]
PREDICATES = ["max_depth", "is_isomorphic_to", "has_free_variables_helper", "has_free_variables"]
LOOPS = ["is_supercombinator"]
IDENT = re.compile(r"[A-Za-z_]\w*$")
RESERVED = {"self": "self_", "term": "term_", "nat": "nat_", "bool": "bool_", "list": "list_", "in": "in_", "end": "end_", "fix": "fix_", "fun": "fun_", "at": "at_", "as": "as_"}


def functions_with_types(toks):
    """{name: (params tokens, return-type tokens, body tokens)} of the first `impl Term { .. }`"""
    p = P(toks, "impl Term")
    while not p.eof():
        if p.accept("impl", "Term", "{"):
            p.i -= 1
            body = p.block()
            break
        p.next()
    else:
        raise TransError("no `impl Term { .. }` block found")
    q = P(body, "impl Term body")
    fns = {}
    while not q.eof():
        if q.next() == "fn":
            name = q.ident()
            params = q.parens()
            ret = []
            while q.peek() != "{":
                ret.append(q.next())
            fns[name] = (params, ret[1:] if ret and ret[0] == "->" else ret, q.block())
    return fns


def gname(x):
    return RESERVED.get(x, x)


def ty(toks, what):
    s = "".join(t for t in toks if t not in ("&", "mut", "'", "a"))
    table = {"usize": "nat", "u32": "nat", "bool": "bool", "Term": "term", "Self": "term",
             "Result<usize,TermError>": "term_error + nat", "Result<Term,TermError>": "term_error + term",
             "Result<(Term,Term),TermError>": "term_error + (term * term)"}
    if s not in table:
        raise TransError("%s: type `%s` is outside the translated idiom" % (what, " ".join(toks)))
    return table[s]


class Tr:
    """expression translator; env maps Rust names to Gallina expressions (pairs bound by `App(boxed)` map to a tuple)"""

    def __init__(self, known, what):
        self.known, self.what, self.fresh = known, what, 0

    def err(self, msg):
        raise TransError("%s: %s" % (self.what, msg))

    # ---- patterns: returns (gallina pattern, env updates)
    def pattern(self, p, env):
        while p.peek() in ("ref", "mut", "&"):
            p.next()
        x = p.next()
        if x == "_":
            return "_"
        if x == "(":
            p.i -= 1
            parts = [self.pattern(P(t, self.what), env) for t in split_top(p.parens(), ",")]
            return "(" + ", ".join(parts) + ")"
        if x.isdigit():
            return x
        if not IDENT.match(x):
            self.err("pattern token `%s`" % x)
        if p.peek() == "(":
            inner = split_top(p.parens(), ",")
            if x == "App":
                if len(inner) != 1:
                    self.err("App pattern")
                q = P(inner[0], self.what)
                while q.peek() in ("ref", "mut", "&"):
                    q.next()
                b = q.next()
                if b == "_":
                    return "App _ _"
                if not IDENT.match(b) or not q.eof():
                    self.err("App pattern `%s`" % " ".join(inner[0]))
                self.fresh += 1
                l, r = "%s_l%d" % (b, self.fresh), "%s_r%d" % (b, self.fresh)
                env[b] = ("pair", l, r)
                return "App %s %s" % (l, r)
            subs = [self.pattern(P(t, self.what), env) for t in inner]
            ctor = {"Var": "Var", "Abs": "Abs", "Ok": "inr", "Err": "inl", "Some": "Some"}.get(x)
            if ctor is None:
                self.err("constructor pattern `%s`" % x)
            return "%s %s" % (ctor, " ".join(s if IDENT.match(s) or s.startswith("(") else "(" + s + ")" for s in subs))
        if x in ("NotVar", "NotAbs", "NotApp", "None"):
            return x
        env[x] = gname(x)
        return gname(x)

    # ---- expressions
    def expr(self, p, env):
        e = self.and_(p, env)
        while p.accept("||"):
            e = "(%s) || (%s)" % (e, self.and_(p, env))
        return e

    def and_(self, p, env):
        e = self.cmp(p, env)
        while p.accept("&&"):
            e = "(%s) && (%s)" % (e, self.cmp(p, env))
        return e

    def cmp(self, p, env):
        a = self.add(p, env)
        op = p.peek()
        if op in ("==", "!=", "<", ">", "<=", ">="):
            p.next()
            b = self.add(p, env)
            return {"==": "%s =? %s" % (a, b), "!=": "negb (%s =? %s)" % (a, b), "<": "%s <? %s" % (a, b),
                    "<=": "%s <=? %s" % (a, b), ">": "%s <? %s" % (b, a), ">=": "%s <=? %s" % (b, a)}[op]
        return a

    def add(self, p, env):
        e = self.unary(p, env)
        while p.peek() in ("+",):
            p.next()
            e = "(%s + %s)" % (e, self.unary(p, env))
        if p.peek() == "-":
            self.err("subtraction is outside the translated idiom")
        return e

    def unary(self, p, env):
        while p.peek() in ("*", "&", "mut"):
            p.next()
        if p.accept("!"):
            return "negb (%s)" % self.unary(p, env)
        return self.postfix(p, env)

    def val(self, v):
        if isinstance(v, tuple):
            return "(%s, %s)" % (v[1], v[2])
        return v

    def postfix(self, p, env):
        e = self.primary(p, env)
        while p.peek() == ".":
            p.next()
            m = p.next()
            if m.isdigit():
                if not isinstance(e, tuple) or m not in ("0", "1"):
                    self.err("field access .%s" % m)
                e = e[1] if m == "0" else e[2]
                continue
            args = [self.expr(P(a, self.what), env) for a in split_top(p.parens(), ",") if a]
            recv = self.val(e)
            if m == "max" and len(args) == 1:
                e = "(Nat.max %s %s)" % (recv, args[0])
            elif m in self.known:
                e = "(%s %s)" % (" ".join([m, recv] + ["(%s)" % a for a in args]), "")
                e = e.replace(" )", ")")
            else:
                self.err("call of `.%s(..)` is outside the translated idiom" % m)
        return e

    def primary(self, p, env):
        x = p.next()
        if x.isdigit():
            if p.peek() in ("usize", "u32"):
                p.next()
            return x
        if x in ("true", "false"):
            return x
        if x == "(":
            p.i -= 1
            parts = [self.val(self.expr(P(t, self.what), env)) for t in split_top(p.parens(), ",")]
            return "(" + ", ".join(parts) + ")"
        if x == "{":
            p.i -= 1
            return self.block(p.block(), dict(env))
        if x == "if":
            return self.if_(p, env)
        if x == "match":
            return self.match(p, env)
        if not IDENT.match(x):
            self.err("unexpected token `%s`" % x)
        if p.peek() == "(":
            args = [self.val(self.expr(P(t, self.what), env)) for t in split_top(p.parens(), ",")]
            ctor = {"Ok": "inr", "Err": "inl", "Var": "Var", "Abs": "Abs"}.get(x)
            if ctor is None or len(args) != 1:
                self.err("call of `%s(..)` is outside the translated idiom" % x)
            return "(%s %s)" % (ctor, args[0])
        if x in ("NotVar", "NotAbs", "NotApp"):
            return x
        if x not in env:
            self.err("unbound identifier `%s`" % x)
        return env[x]

    def scrutinee(self, p, env):
        """expression up to the `{` of the following block"""
        start = p.i
        depth = 0
        while True:
            x = p.peek()
            if x is None:
                self.err("scrutinee without a block")
            if x == "{" and depth == 0:
                break
            if x in "([":
                depth += 1
            elif x in ")]":
                depth -= 1
            p.next()
        toks = p.t[start:p.i]
        if toks and toks[0] == "(" and matching(toks, 0) == len(toks) - 1 and len(split_top(toks[1:-1], ",")) > 1:
            parts = [self.val(self.expr(P(t, self.what), env)) for t in split_top(toks[1:-1], ",")]
            return ", ".join(parts), len(parts)
        q = P(toks, self.what)
        e = self.val(self.expr(q, env))
        if not q.eof():
            self.err("cannot translate scrutinee `%s`" % " ".join(toks))
        return e, 1

    def if_(self, p, env):
        if p.accept("let"):
            start = p.i
            while p.peek() != "=":
                p.next()
            pat_toks = p.t[start:p.i]
            p.expect("=")
            s, _ = self.scrutinee(p, env)
            env1 = dict(env)
            pat = self.pattern(P(pat_toks, self.what), env1)
            a = self.block(p.block(), env1)
            p.expect("else")
            b = self.block(p.block(), dict(env))
            return "match %s with %s => %s | _ => %s end" % (s, pat, a, b)
        s, _ = self.scrutinee(p, env)
        a = self.block(p.block(), dict(env))
        p.expect("else")
        if p.peek() == "if":
            p.next()
            b = self.if_(p, env)
        else:
            b = self.block(p.block(), dict(env))
        return "(if %s then %s else %s)" % (s, a, b)

    def match(self, p, env):
        s, n = self.scrutinee(p, env)
        body = P(p.block(), self.what)
        arms = []
        while not body.eof():
            start = body.i
            while body.peek() != "=>":
                body.next()
            pat_toks = body.t[start:body.i]
            body.expect("=>")
            env1 = dict(env)
            if n > 1 and pat_toks and pat_toks[0] == "(":
                pats = [self.pattern(P(t, self.what), env1) for t in split_top(pat_toks[1:-1], ",")]
                pat = ", ".join(pats)
            elif n > 1 and pat_toks == ["_"]:
                pat = ", ".join(["_"] * n)
            else:
                pat = self.pattern(P(pat_toks, self.what), env1)
            if body.peek() == "{":
                rhs = self.block(body.block(), env1)
            else:
                start, depth = body.i, 0
                while not body.eof():
                    x = body.peek()
                    if x in "({[":
                        depth += 1
                    elif x in ")}]":
                        depth -= 1
                    if x == "," and depth == 0:
                        break
                    body.next()
                q = P(body.t[start:body.i], self.what)
                rhs = self.val(self.expr(q, env1))
                if not q.eof():
                    self.err("cannot translate arm `%s`" % " ".join(q.t))
            body.accept(",")
            arms.append("| %s => %s" % (pat, rhs))
        return "match %s with\n    %s\n    end" % (s, "\n    ".join(arms))

    def let(self, p, env):
        """after `let`: binds into env (mutating it); returns a Gallina prefix ('' when the binding is inlined)"""
        if p.peek() == "(":
            names = []
            for part in split_top(p.parens(), ","):
                part = [x for x in part if x not in ("ref", "mut", "&")]
                if len(part) != 1 or not (IDENT.match(part[0]) or part[0] == "_"):
                    self.err("let pattern")
                names.append(part[0])
            p.expect("=")
            start = p.i
            while p.peek() != ";":
                p.next()
            q = P(p.t[start:p.i], self.what)
            p.expect(";")
            while q.peek() in ("*", "&"):
                q.next()
            b = q.next()
            if not q.eof() or not isinstance(env.get(b), tuple) or len(names) != 2:
                self.err("`let (..) = ..` is only translated for the pair bound by an `App(boxed)` pattern")
            for nm, v in zip(names, env[b][1:]):
                if nm != "_":
                    env[nm] = v
            return ""
        while p.peek() in ("mut", "ref"):
            p.next()
        x = p.ident()
        if p.accept(":"):
            while p.peek() != "=":
                p.next()
        p.expect("=")
        start, depth = p.i, 0
        while not (p.peek() == ";" and depth == 0):
            t = p.next()
            depth += (t in "({[") - (t in ")}]")
        q = P(p.t[start:p.i], self.what)
        p.expect(";")
        e = self.val(self.expr(q, env))
        if not q.eof():
            self.err("cannot translate `let %s = %s`" % (x, " ".join(q.t)))
        env[x] = gname(x)
        return "let %s := %s in " % (gname(x), e)

    def block(self, toks, env):
        p = P(list(toks), self.what)
        pre = ""
        while p.accept("let"):
            pre += self.let(p, env)
        e = self.val(self.expr(p, env))
        p.accept(";")
        if not p.eof():
            self.err("statements after the result expression: `%s`" % " ".join(p.rest()[:12]))
        return "(%s%s)" % (pre, e) if pre else e


def params_of(params, what):
    out = []
    for part in split_top(params, ","):
        if not part or "self" in part:
            continue
        if ":" not in part:
            raise TransError("%s: parameter `%s`" % (what, " ".join(part)))
        k = part.index(":")
        out.append((part[k - 1], ty(part[k + 1:], what)))
    return out


def trans_fn(name, fns, known):
    params, ret, body = fns[name]
    what = "fn " + name
    tr = Tr(known, what)
    ps = params_of(params, what)
    env = {"self": "self_"}
    for x, _ in ps:
        env[x] = gname(x)
    e = tr.block(body, env)
    rec = ("(%s " % name) in e
    sig = "".join(" (%s : %s)" % (gname(x), t) for x, t in ps)
    return "%s %s (self_ : term)%s%s : %s :=\n  %s.\n" % (
        "Fixpoint" if rec else "Definition", name, sig, " {struct self_}" if rec else "", ty(ret, what), e)


def trans_loop(name, fns, known):
    """the work-list loop of is_supercombinator"""
    params, ret, body = fns[name]
    what = "fn " + name
    tr = Tr(known, what)
    p = P(list(body), what)
    p.expect("let", "mut")
    stack = p.ident()
    p.expect("=", "vec", "!")
    p.expect("[")
    start = p.i
    depth = 1
    while depth:
        x = p.next()
        depth += (x == "[") - (x == "]")
    init_toks = p.t[start:p.i - 1]
    p.expect(";")
    env0 = {"self": "self_"}
    init = [tr.val(tr.expr(P(t, what), env0)) for t in split_top(init_toks, ",") if t]
    p.expect("while", "let", "Some", "(")
    p.i -= 1
    pat_toks = p.parens()
    p.expect("=", stack, ".", "pop", "(", ")")
    loop_body = p.block()
    env = {}
    top_pat = tr.pattern(P(pat_toks, what), env)
    final = tr.val(tr.expr(p, {}))
    if not p.eof() or final not in ("true", "false"):
        raise TransError("%s: the loop must be followed by a boolean literal" % what)
    q = P(loop_body, what)
    q.expect("match")
    s, _ = tr.scrutinee(q, env)
    arms_p = P(q.block(), what)
    if not q.eof():
        raise TransError("%s: statements after the match in the loop body" % what)

    def exec_stmts(toks, env, pushes):
        """returns a function k -> gallina, where k is the continuation text builder given the pushes"""
        r = P(list(toks), what)
        conds = []   # (cond, bool) early returns, in order, each with the pushes so far irrelevant (return exits)
        while not r.eof():
            if r.accept("let"):
                pre = tr.let(r, env)
                if pre:
                    # inline simple bindings: env[x] := expression text
                    m = re.match(r"let (\w+) := (.*) in $", pre, re.S)
                    env[[k for k, v in env.items() if v == m.group(1)][-1]] = "(%s)" % m.group(2)
            elif r.accept("if"):
                c, _ = tr.scrutinee(r, env)
                b = P(r.block(), what)
                b.expect("return")
                v = b.next()
                b.accept(";")
                if v not in ("true", "false") or not b.eof() or r.peek() == "else":
                    raise TransError("%s: only `if C { return BOOL; }` is translated inside the loop" % what)
                conds.append((c, v, len(pushes)))
            elif r.accept(stack, ".", "push"):
                arg = r.parens()
                r.accept(";")
                pushes.append(tr.val(tr.expr(P(arg, what), env)))
            elif r.accept("for"):
                x = r.ident()
                r.expect("in")
                r.accept("&")
                r.expect("[")
                start = r.i
                d = 1
                while d:
                    t = r.next()
                    d += (t == "[") - (t == "]")
                elems = [tr.val(tr.expr(P(t, what), env)) for t in split_top(r.t[start:r.i - 1], ",") if t]
                fb = r.block()
                for el in elems:
                    env1 = dict(env)
                    env1[x] = el
                    cs = exec_stmts(fb, env1, pushes)
                    conds.extend(cs)
            else:
                raise TransError("%s: statement `%s ..` inside the loop is outside the translated idiom" % (what, " ".join(r.rest()[:6])))
        return conds

    arms = []
    while not arms_p.eof():
        start = arms_p.i
        while arms_p.peek() != "=>":
            arms_p.next()
        pat_toks2 = arms_p.t[start:arms_p.i]
        arms_p.expect("=>")
        env1 = dict(env)
        pat = tr.pattern(P(pat_toks2, what), env1)
        if arms_p.peek() == "{":
            stm = arms_p.block()
        else:
            start, d = arms_p.i, 0
            while not arms_p.eof():
                x = arms_p.peek()
                d += (x in "({[") - (x in ")}]")
                if x == "," and d == 0:
                    break
                arms_p.next()
            stm = arms_p.t[start:arms_p.i]
        arms_p.accept(",")
        pushes = []
        conds = exec_stmts(stm, env1, pushes)
        if any(n != 0 for _, _, n in conds) and False:
            pass
        cont = "sc_loop f (%s)" % " :: ".join(list(reversed(pushes)) + ["rest"])
        for c, v, _ in reversed(conds):
            cont = "if %s then Some %s else %s" % (c, v, cont)
        arms.append("| %s => %s" % (pat, cont))
    return ("Fixpoint sc_loop (fuel : nat) (stack : list (nat * term)) : option bool :=\n"
            "  match fuel with 0 => None | S f =>\n    match stack with\n    | [] => Some %s\n    | %s :: rest =>\n"
            "        match %s with\n        %s\n        end\n    end\n  end.\n\n"
            "Definition %s (self_ : term) : option bool := sc_loop (S (size self_)) [%s].\n"
            % (final, top_pat, s, "\n        ".join(arms), name, "; ".join(init)))


def translate(src):
    src = re.sub(r"/\*.*?\*/", " ", src, flags=re.S)
    src = re.sub(r"//[^\n]*", " ", src)
    src = re.sub(r"'(?:\\.|[^'\\\n])'", "0", src)      # char literals (LAMBDA) are not part of the translated code
    k = src.find("impl Term {")
    if k < 0:
        raise TransError("no `impl Term { .. }` block found")
    j, depth = src.index("{", k), 0
    for j in range(j, len(src)):
        depth += (src[j] == "{") - (src[j] == "}")
        if depth == 0:
            break
    fns = functions_with_types(tokenize(src[k:j + 1]))
    out = ["(** GENERATED by lib/trans_term.py from /repo/src/term.rs on every run - do not edit. *)",
           "From LC Require Export Model.ReductionPrelude.",
           "Require Import List Arith. Import ListNotations.", "Open Scope bool_scope.", "",
           "Module TSrc.", ""]
    known = set()
    for name in ACCESSORS + PREDICATES:
        if name not in fns:
            raise TransError("src/term.rs no longer defines `fn %s` in `impl Term`" % name)
        known.add(name)
        out.append(trans_fn(name, fns, known))
    for name in LOOPS:
        if name not in fns:
            raise TransError("src/term.rs no longer defines `fn %s` in `impl Term`" % name)
        out.append(trans_loop(name, fns, known))
    out.append("End TSrc.")
    return "\n".join(out) + "\n"


if __name__ == "__main__":
    try:
        text = translate(open(sys.argv[1] if len(sys.argv) > 1 else "/repo/src/term.rs", encoding="utf-8").read())
    except TransError as e:
        print("TRANSLATION REFUSED: %s" % e)
        sys.exit(1)
    if len(sys.argv) > 2:
        open(sys.argv[2], "w", encoding="utf-8").write(text)
    else:
        print(text)
