(** * The pair-list library for ALL lists (C16), on the generated constants.
      Elements are arbitrary closed terms; numerals appear only where the function takes a number. *)
From LC Require Import Spec.NorEval Spec.Encodings Gen.Terms Proofs.Laws Proofs.Convert Proofs.ChurchArith Proofs.RedSetoid.
From Coq Require Import List. Import ListNotations.

Notation v5 := (Var 5). Notation v6 := (Var 6).
Notation pl := pair_list.
Notation NIL := lc_list_pair_nil.
Notation ISNIL := lc_list_pair_is_nil.
Notation CONS := lc_list_pair_cons.
Notation HEAD := lc_list_pair_head.
Notation TAIL := lc_list_pair_tail.
Notation II := lc_combinators_I.

Definition allc (xs : list term) : Prop := forallb closed xs = true.
Lemma allc_cons x r : allc (x :: r) <-> closed x = true /\ allc r.
Proof. unfold allc. cbn [forallb]. apply andb_true_iff. Qed.
Lemma allc_nil : allc []. Proof. reflexivity. Qed.
Lemma allc_cons_i x r : closed x = true -> allc r -> allc (x :: r).
Proof. intros. apply allc_cons. auto. Qed.
Lemma pl_closed xs : allc xs -> closed (pl xs) = true.
Proof.
  induction xs as [|x r IH]; intros H; [reflexivity|]. apply allc_cons in H. destruct H as [Cx Cr].
  change (pl (x :: r)) with (pair_t x (pl r)). apply pair_closed; auto.
Qed.
#[export] Hint Resolve pl_closed allc_nil allc_cons_i : clos.
Lemma allc_app a b : allc a -> allc b -> allc (a ++ b).
Proof. unfold allc. rewrite forallb_app. intros -> ->. reflexivity. Qed.
Lemma allc_rev a : allc a -> allc (rev a).
Proof.
  unfold allc. rewrite !forallb_forall. intros H x Hx. apply H. apply in_rev. exact Hx.
Qed.
#[export] Hint Resolve allc_app allc_rev : clos.

(** ** constructors and observers *)
Lemma nil_is : NIL = pl []. Proof. reflexivity. Qed.
Lemma cons_law x r : closed x = true -> allc r -> red (CONS @ x @ pl r) (pl (x :: r)).
Proof. intros. apply mk_pair; auto with clos. Qed.
Lemma head_law x r : closed x = true -> allc r -> red (HEAD @ pl (x :: r)) x.
Proof. intros. apply fst_pair; auto with clos. Qed.
Lemma tail_law x r : closed x = true -> allc r -> red (TAIL @ pl (x :: r)) (pl r).
Proof. intros. apply snd_pair; auto with clos. Qed.
Lemma is_nil_nil : red (ISNIL @ pl []) tru_t.
Proof. apply (by_eval 10). vm_compute. reflexivity. Qed.
Lemma is_nil_cons x r : closed x = true -> allc r -> red (ISNIL @ pl (x :: r)) fls_t.
Proof.
  intros Cx Cr. unfold ISNIL. hbc.
  change (pl (x :: r)) with (pair_t x (pl r)). rewrite pair_sel by auto with clos.
  hbc. hbc. hbc. reflexivity.
Qed.

(** the thunked conditional used by every recursive function: is_nil l (λ.A) (λ.B) I *)
Lemma nil_case A B : red (ISNIL @ pl [] @ Abs A @ Abs B @ II) (subst 1 II A).
Proof. rewrite is_nil_nil. rewrite (bool_app true). apply star_one, s_beta. Qed.
Lemma cons_case x r A B : closed x = true -> allc r ->
  red (ISNIL @ pl (x :: r) @ Abs A @ Abs B @ II) (subst 1 II B).
Proof. intros. rewrite is_nil_cons by auto. rewrite (bool_app false). apply star_one, s_beta. Qed.

Ltac ssub := cbn [subst Nat.compare Nat.sub]; simp_closed; rewrite ?shift_0.

(** ** length *)
Definition lenG : term :=
  Abs (Abs (Abs (ISNIL @ v1 @ Abs v3 @ Abs (v4 @ (lc_num_church_succ @ v3) @ (TAIL @ v2)) @ II))).
Lemma len_shape : lc_list_pair_length = lc_combinators_Z @ lenG @ church 0. Proof. reflexivity. Qed.
Lemma len_rec : forall xs n, allc xs -> red (Rz lenG @ church n @ pl xs) (church (n + length xs)).
Proof.
  assert (C : closed lenG = true) by reflexivity.
  induction xs as [|x r IH]; intros n Hc.
  - rewrite (Z_unfold lenG C) at 1. unfold lenG at 1. hbc. hbc. hbc.
    rewrite nil_case. ssub. rewrite Nat.add_0_r. reflexivity.
  - apply allc_cons in Hc. destruct Hc as [Cx Cr].
    rewrite (Z_unfold lenG C) at 1. unfold lenG at 1. hbc. hbc. hbc.
    rewrite cons_case by auto. ssub.
    rewrite (Z_call lenG _ C). rewrite church_succ, tail_law by auto. rewrite IH by auto.
    cbn [length]. replace (S n + length r) with (n + S (length r)) by lia. reflexivity.
Qed.
Theorem pair_length xs : allc xs -> red (lc_list_pair_length @ pl xs) (church (length xs)).
Proof. intros. rewrite len_shape. rewrite Z_start by reflexivity. apply (len_rec xs 0); auto. Qed.

Lemma is_nil_pl r : allc r -> red (ISNIL @ pl r) (bool_t (match r with [] => true | _ => false end)).
Proof. destruct r as [|y r']; intros H; [apply is_nil_nil|]. apply allc_cons in H. destruct H. apply is_nil_cons; auto. Qed.

(** ** reverse *)
Definition revG : term :=
  Abs (Abs (Abs (ISNIL @ v1 @ Abs v3 @ Abs (v4 @ (CONS @ (HEAD @ v2) @ v3) @ (TAIL @ v2)) @ II))).
Lemma rev_shape : lc_list_pair_reverse = lc_combinators_Z @ revG @ NIL. Proof. reflexivity. Qed.
Lemma rev_rec : forall xs acc, allc xs -> allc acc -> red (Rz revG @ pl acc @ pl xs) (pl (rev_append xs acc)).
Proof.
  assert (C : closed revG = true) by reflexivity.
  induction xs as [|x r IH]; intros acc Hc Ha.
  - rewrite (Z_unfold revG C) at 1. unfold revG at 1. hbc. hbc. hbc.
    rewrite nil_case. ssub. reflexivity.
  - apply allc_cons in Hc. destruct Hc as [Cx Cr].
    rewrite (Z_unfold revG C) at 1. unfold revG at 1. hbc. hbc. hbc.
    rewrite cons_case by auto. ssub.
    rewrite (Z_call revG _ C). rewrite head_law, tail_law by auto. rewrite cons_law by auto.
    apply IH; auto with clos.
Qed.
Theorem pair_reverse xs : allc xs -> red (lc_list_pair_reverse @ pl xs) (pl (rev xs)).
Proof.
  intros. rewrite rev_shape. rewrite Z_start by reflexivity. rewrite nil_is.
  rewrite rev_rec by auto with clos. rewrite rev_append_rev, app_nil_r. reflexivity.
Qed.

(** ** append *)
Definition appG : term :=
  Abs (Abs (Abs (ISNIL @ v2 @ Abs v2 @ Abs (CONS @ (HEAD @ v3) @ (v4 @ (TAIL @ v3) @ v2)) @ II))).
Lemma app_shape : lc_list_pair_append = lc_combinators_Z @ appG. Proof. reflexivity. Qed.
Lemma app_rec : forall a b, allc a -> allc b -> red (Rz appG @ pl a @ pl b) (pl (a ++ b)).
Proof.
  assert (C : closed appG = true) by reflexivity.
  induction a as [|x r IH]; intros b Ha Hb.
  - rewrite (Z_unfold appG C) at 1. unfold appG at 1. hbc. hbc. hbc.
    rewrite nil_case. ssub. reflexivity.
  - apply allc_cons in Ha. destruct Ha as [Cx Cr].
    rewrite (Z_unfold appG C) at 1. unfold appG at 1. hbc. hbc. hbc.
    rewrite cons_case by auto. ssub.
    rewrite (Z_call appG _ C). rewrite head_law, tail_law by auto. rewrite IH by auto.
    rewrite cons_law by auto with clos. reflexivity.
Qed.
Theorem pair_append a b : allc a -> allc b -> red (lc_list_pair_append @ pl a @ pl b) (pl (a ++ b)).
Proof. intros. rewrite app_shape. rewrite Z_start by reflexivity. apply app_rec; auto. Qed.

(** ** map *)
Lemma allc_map_app g xs : closed g = true -> allc xs -> allc (map (App g) xs).
Proof.
  intros Cg. induction xs as [|x r IH]; intros H; [reflexivity|]. apply allc_cons in H. destruct H.
  cbn [map]. apply allc_cons_i; auto with clos.
Qed.
#[export] Hint Resolve allc_map_app : clos.
Definition mapG : term :=
  Abs (Abs (Abs (ISNIL @ v1 @ Abs NIL @ Abs (CONS @ (v3 @ (HEAD @ v2)) @ (v4 @ v3 @ (TAIL @ v2))) @ II))).
Lemma map_shape : lc_list_pair_map = lc_combinators_Z @ mapG. Proof. reflexivity. Qed.
Lemma map_rec g : closed g = true -> forall xs, allc xs -> red (Rz mapG @ g @ pl xs) (pl (map (App g) xs)).
Proof.
  intros Cg. assert (C : closed mapG = true) by reflexivity.
  induction xs as [|x r IH]; intros Hc.
  - rewrite (Z_unfold mapG C) at 1. unfold mapG at 1. hbc. hbc. hbc.
    rewrite nil_case. ssub. reflexivity.
  - apply allc_cons in Hc. destruct Hc as [Cx Cr].
    rewrite (Z_unfold mapG C) at 1. unfold mapG at 1. hbc. hbc. hbc.
    rewrite cons_case by auto. ssub.
    rewrite (Z_call mapG _ C). rewrite head_law, tail_law by auto. rewrite IH by auto.
    rewrite cons_law by auto with clos. reflexivity.
Qed.
Theorem pair_map g xs : closed g = true -> allc xs -> red (lc_list_pair_map @ g @ pl xs) (pl (map (App g) xs)).
Proof. intros. rewrite map_shape. rewrite Z_start by reflexivity. apply map_rec; auto. Qed.

(** element-wise reduction of a list *)
Lemma red_pl xs ys : Forall2 red xs ys -> red (pl xs) (pl ys).
Proof. induction 1 as [|x y r s Hx Hr IH]; [reflexivity|]. cbn [pair_list]. rewrite Hx, IH. reflexivity. Qed.
Corollary pair_map_spec g (h : term -> term) xs : closed g = true -> allc xs ->
  (forall x, In x xs -> red (g @ x) (h x)) -> red (lc_list_pair_map @ g @ pl xs) (pl (map h xs)).
Proof.
  intros Cg Hc H. rewrite pair_map by auto. apply red_pl.
  induction xs as [|x r IH]; cbn [map]; constructor.
  - apply H. left; auto.
  - apply allc_cons in Hc. destruct Hc. apply IH; auto. intros y Hy. apply H. right; auto.
Qed.

(** ** foldl, foldr *)
Definition foldlG : term :=
  Abs (Abs (Abs (Abs (ISNIL @ v1 @ Abs v3 @ Abs (v5 @ v4 @ (v4 @ v3 @ (HEAD @ v2)) @ (TAIL @ v2)) @ II)))).
Lemma foldl_shape : lc_list_pair_foldl = lc_combinators_Z @ foldlG. Proof. reflexivity. Qed.
Lemma foldl_rec g : closed g = true -> forall xs a, allc xs -> closed a = true ->
  red (Rz foldlG @ g @ a @ pl xs) (fold_left (fun acc x => g @ acc @ x) xs a).
Proof.
  intros Cg. assert (C : closed foldlG = true) by reflexivity.
  induction xs as [|x r IH]; intros a Hc Ca.
  - rewrite (Z_unfold foldlG C) at 1. unfold foldlG at 1. hbc. hbc. hbc. hbc.
    rewrite nil_case. ssub. reflexivity.
  - apply allc_cons in Hc. destruct Hc as [Cx Cr].
    rewrite (Z_unfold foldlG C) at 1. unfold foldlG at 1. hbc. hbc. hbc. hbc.
    rewrite cons_case by auto. ssub.
    rewrite (Z_call foldlG _ C). rewrite head_law, tail_law by auto.
    cbn [fold_left]. apply IH; auto with clos.
Qed.
Theorem pair_foldl g a xs : closed g = true -> closed a = true -> allc xs ->
  red (lc_list_pair_foldl @ g @ a @ pl xs) (fold_left (fun acc x => g @ acc @ x) xs a).
Proof. intros. rewrite foldl_shape. rewrite Z_start by reflexivity. apply foldl_rec; auto. Qed.

Definition foldrG (g a : term) : term :=
  Abs (Abs (ISNIL @ v1 @ Abs a @ Abs (g @ (HEAD @ v2) @ (v3 @ (TAIL @ v2))) @ II)).
Lemma foldrG_closed g a : closed g = true -> closed a = true -> closed (foldrG g a) = true.
Proof.
  unfold closed, foldrG. intros Cg Ca. cbn [closed_at Nat.leb].
  rewrite (closed_at_mono 0 3 g), (closed_at_mono 0 3 a) by (auto || lia). reflexivity.
Qed.
#[export] Hint Resolve foldrG_closed : clos.
Lemma foldr_shape : lc_list_pair_foldr =
  Abs (Abs (Abs (lc_combinators_Z @ Abs (Abs (ISNIL @ v1 @ Abs v5 @ Abs (v6 @ (HEAD @ v2) @ (v3 @ (TAIL @ v2))) @ II)) @ v1))).
Proof. reflexivity. Qed.
Lemma foldr_rec g a : closed g = true -> closed a = true -> forall xs, allc xs ->
  red (Rz (foldrG g a) @ pl xs) (fold_right (fun x acc => g @ x @ acc) a xs).
Proof.
  intros Cg Ca. pose proof (foldrG_closed g a Cg Ca) as C.
  induction xs as [|x r IH]; intros Hc.
  - rewrite (Z_unfold _ C) at 1. unfold foldrG at 1. hbc. hbc.
    rewrite nil_case. ssub. reflexivity.
  - apply allc_cons in Hc. destruct Hc as [Cx Cr].
    rewrite (Z_unfold _ C) at 1. unfold foldrG at 1. hbc. hbc.
    rewrite cons_case by auto. ssub.
    rewrite (Z_call _ _ C). rewrite head_law, tail_law by auto. rewrite IH by auto. reflexivity.
Qed.
Theorem pair_foldr g a xs : closed g = true -> closed a = true -> allc xs ->
  red (lc_list_pair_foldr @ g @ a @ pl xs) (fold_right (fun x acc => g @ x @ acc) a xs).
Proof.
  intros Cg Ca Hc. rewrite foldr_shape. hbc. hbc. hbc. fold (foldrG g a).
  rewrite Z_start by auto with clos. apply foldr_rec; auto.
Qed.

(** ** filter, take_while, drop_while: the predicate must decide each element *)
Definition decides (p : term) (pb : term -> bool) (xs : list term) : Prop :=
  forall x, In x xs -> red (p @ x) (bool_t (pb x)).
Lemma decides_cons p pb x r : decides p pb (x :: r) -> red (p @ x) (bool_t (pb x)) /\ decides p pb r.
Proof. intros H. split; [apply H; left; auto|intros y Hy; apply H; right; auto]. Qed.
Lemma allc_filter pb xs : allc xs -> allc (filter pb xs).
Proof.
  induction xs as [|x r IH]; intros H; [reflexivity|]. apply allc_cons in H. destruct H.
  cbn [filter]. destruct (pb x); auto with clos.
Qed.
#[export] Hint Resolve allc_filter : clos.

Definition filterG : term :=
  Abs (Abs (Abs (ISNIL @ v1 @ Abs NIL @
    Abs (v3 @ (HEAD @ v2) @ (CONS @ (HEAD @ v2)) @ II @ (v4 @ v3 @ (TAIL @ v2))) @ II))).
Lemma filter_shape : lc_list_pair_filter = lc_combinators_Z @ filterG. Proof. reflexivity. Qed.
Lemma filter_rec p pb : closed p = true -> forall xs, allc xs -> decides p pb xs ->
  red (Rz filterG @ p @ pl xs) (pl (filter pb xs)).
Proof.
  intros Cp. assert (C : closed filterG = true) by reflexivity.
  induction xs as [|x r IH]; intros Hc Hd.
  - rewrite (Z_unfold filterG C) at 1. unfold filterG at 1. hbc. hbc. hbc.
    rewrite nil_case. ssub. reflexivity.
  - apply allc_cons in Hc. destruct Hc as [Cx Cr]. apply decides_cons in Hd. destruct Hd as [Hx Hr].
    rewrite (Z_unfold filterG C) at 1. unfold filterG at 1. hbc. hbc. hbc.
    rewrite cons_case by auto. ssub.
    rewrite (Z_call filterG _ C). rewrite !head_law, tail_law by auto. rewrite IH by auto.
    rewrite Hx. rewrite bool_app. cbn [filter]. destruct (pb x).
    + apply cons_law; auto with clos.
    + hbc. reflexivity.
Qed.
Theorem pair_filter p pb xs : closed p = true -> allc xs -> decides p pb xs ->
  red (lc_list_pair_filter @ p @ pl xs) (pl (filter pb xs)).
Proof. intros. rewrite filter_shape. rewrite Z_start by reflexivity. apply filter_rec; auto. Qed.

Fixpoint takeWhile (pb : term -> bool) (l : list term) : list term :=
  match l with [] => [] | x :: r => if pb x then x :: takeWhile pb r else [] end.
Fixpoint dropWhile (pb : term -> bool) (l : list term) : list term :=
  match l with [] => [] | x :: r => if pb x then dropWhile pb r else l end.
Lemma allc_takeWhile pb xs : allc xs -> allc (takeWhile pb xs).
Proof.
  induction xs as [|x r IH]; intros H; [reflexivity|]. apply allc_cons in H. destruct H.
  cbn [takeWhile]. destruct (pb x); auto with clos.
Qed.
#[export] Hint Resolve allc_takeWhile : clos.

Definition takewG : term :=
  Abs (Abs (Abs (ISNIL @ v1 @ Abs NIL @
    Abs (v3 @ (HEAD @ v2) @ (CONS @ (HEAD @ v2) @ (v4 @ v3 @ (TAIL @ v2))) @ NIL) @ II))).
Lemma takew_shape : lc_list_pair_take_while = lc_combinators_Z @ takewG. Proof. reflexivity. Qed.
Lemma takew_rec p pb : closed p = true -> forall xs, allc xs -> decides p pb xs ->
  red (Rz takewG @ p @ pl xs) (pl (takeWhile pb xs)).
Proof.
  intros Cp. assert (C : closed takewG = true) by reflexivity.
  induction xs as [|x r IH]; intros Hc Hd.
  - rewrite (Z_unfold takewG C) at 1. unfold takewG at 1. hbc. hbc. hbc.
    rewrite nil_case. ssub. reflexivity.
  - apply allc_cons in Hc. destruct Hc as [Cx Cr]. apply decides_cons in Hd. destruct Hd as [Hx Hr].
    rewrite (Z_unfold takewG C) at 1. unfold takewG at 1. hbc. hbc. hbc.
    rewrite cons_case by auto. ssub.
    rewrite (Z_call takewG _ C). rewrite !head_law, tail_law by auto. rewrite IH by auto.
    rewrite Hx. rewrite bool_app. cbn [takeWhile]. destruct (pb x).
    + apply cons_law; auto with clos.
    + reflexivity.
Qed.
Theorem pair_take_while p pb xs : closed p = true -> allc xs -> decides p pb xs ->
  red (lc_list_pair_take_while @ p @ pl xs) (pl (takeWhile pb xs)).
Proof. intros. rewrite takew_shape. rewrite Z_start by reflexivity. apply takew_rec; auto. Qed.

Definition dropwG : term :=
  Abs (Abs (Abs (ISNIL @ v1 @ Abs NIL @ Abs (v3 @ (HEAD @ v2) @ (v4 @ v3 @ (TAIL @ v2)) @ v2) @ II))).
Lemma dropw_shape : lc_list_pair_drop_while = lc_combinators_Z @ dropwG. Proof. reflexivity. Qed.
Lemma dropw_rec p pb : closed p = true -> forall xs, allc xs -> decides p pb xs ->
  red (Rz dropwG @ p @ pl xs) (pl (dropWhile pb xs)).
Proof.
  intros Cp. assert (C : closed dropwG = true) by reflexivity.
  induction xs as [|x r IH]; intros Hc Hd.
  - rewrite (Z_unfold dropwG C) at 1. unfold dropwG at 1. hbc. hbc. hbc.
    rewrite nil_case. ssub. reflexivity.
  - apply allc_cons in Hc. destruct Hc as [Cx Cr]. apply decides_cons in Hd. destruct Hd as [Hx Hr].
    rewrite (Z_unfold dropwG C) at 1. unfold dropwG at 1. hbc. hbc. hbc.
    rewrite cons_case by auto. ssub.
    rewrite (Z_call dropwG _ C). rewrite !head_law, tail_law by auto. rewrite IH by auto.
    rewrite Hx. rewrite bool_app. cbn [dropWhile]. destruct (pb x); reflexivity.
Qed.
Theorem pair_drop_while p pb xs : closed p = true -> allc xs -> decides p pb xs ->
  red (lc_list_pair_drop_while @ p @ pl xs) (pl (dropWhile pb xs)).
Proof. intros. rewrite dropw_shape. rewrite Z_start by reflexivity. apply dropw_rec; auto. Qed.

(** ** last, init *)
Definition lastG : term :=
  Abs (Abs (ISNIL @ v1 @ Abs NIL @ Abs (ISNIL @ (TAIL @ v2) @ (HEAD @ v2) @ (v3 @ (TAIL @ v2))) @ II)).
Lemma last_shape : lc_list_pair_last = lc_combinators_Z @ lastG. Proof. reflexivity. Qed.
Lemma last_rec : forall xs, allc xs -> red (Rz lastG @ pl xs) (last xs NIL).
Proof.
  assert (C : closed lastG = true) by reflexivity.
  induction xs as [|x r IH]; intros Hc.
  - rewrite (Z_unfold lastG C) at 1. unfold lastG at 1. hbc. hbc.
    rewrite nil_case. ssub. reflexivity.
  - apply allc_cons in Hc. destruct Hc as [Cx Cr].
    rewrite (Z_unfold lastG C) at 1. unfold lastG at 1. hbc. hbc.
    rewrite cons_case by auto. ssub.
    rewrite (Z_call lastG _ C). rewrite head_law, !tail_law by auto.
    rewrite is_nil_pl by auto. rewrite bool_app. destruct r as [|y r'].
    + reflexivity.
    + rewrite IH by auto. reflexivity.
Qed.
Theorem pair_last xs : allc xs -> red (lc_list_pair_last @ pl xs) (last xs NIL).
Proof. intros. rewrite last_shape. rewrite Z_start by reflexivity. apply last_rec; auto. Qed.

Lemma allc_removelast xs : allc xs -> allc (removelast xs).
Proof.
  induction xs as [|x r IH]; intros H; [reflexivity|]. apply allc_cons in H. destruct H.
  cbn [removelast]. destruct r; auto with clos.
Qed.
#[export] Hint Resolve allc_removelast : clos.
Definition initG : term :=
  Abs (Abs (ISNIL @ v1 @ Abs NIL @
    Abs (ISNIL @ (TAIL @ v2) @ NIL @ (CONS @ (HEAD @ v2) @ (v3 @ (TAIL @ v2)))) @ II)).
Lemma init_shape : lc_list_pair_init = lc_combinators_Z @ initG. Proof. reflexivity. Qed.
Lemma init_rec : forall xs, allc xs -> red (Rz initG @ pl xs) (pl (removelast xs)).
Proof.
  assert (C : closed initG = true) by reflexivity.
  induction xs as [|x r IH]; intros Hc.
  - rewrite (Z_unfold initG C) at 1. unfold initG at 1. hbc. hbc.
    rewrite nil_case. ssub. reflexivity.
  - apply allc_cons in Hc. destruct Hc as [Cx Cr].
    rewrite (Z_unfold initG C) at 1. unfold initG at 1. hbc. hbc.
    rewrite cons_case by auto. ssub.
    rewrite (Z_call initG _ C). rewrite head_law, !tail_law by auto.
    rewrite is_nil_pl by auto. rewrite bool_app. destruct r as [|y r'].
    + reflexivity.
    + rewrite IH by auto. rewrite cons_law by auto with clos. reflexivity.
Qed.
Theorem pair_init xs : allc xs -> red (lc_list_pair_init @ pl xs) (pl (removelast xs)).
Proof. intros. rewrite init_shape. rewrite Z_start by reflexivity. apply init_rec; auto. Qed.

(** ** zip, zip_with *)
Lemma allc_zipmap (h : term -> term -> term) a b :
  (forall x y, closed x = true -> closed y = true -> closed (h x y) = true) ->
  allc a -> allc b -> allc (map (fun p => h (fst p) (snd p)) (combine a b)).
Proof.
  intros Hh. revert b. induction a as [|x r IH]; intros b Ha Hb; [reflexivity|].
  destruct b as [|y s]; [reflexivity|]. apply allc_cons in Ha. apply allc_cons in Hb. destruct Ha, Hb.
  cbn [combine map fst snd]. apply allc_cons_i; auto.
Qed.

Definition zipG : term :=
  Abs (Abs (Abs (ISNIL @ v2 @ Abs NIL @
    Abs (ISNIL @ v2 @ NIL @ (CONS @ (CONS @ (HEAD @ v3) @ (HEAD @ v2)) @ (v4 @ (TAIL @ v3) @ (TAIL @ v2)))) @ II))).
Lemma zip_shape : lc_list_pair_zip = lc_combinators_Z @ zipG. Proof. reflexivity. Qed.
Definition zipped (a b : list term) : list term := map (fun p => pair_t (fst p) (snd p)) (combine a b).
Lemma zip_rec : forall a b, allc a -> allc b -> red (Rz zipG @ pl a @ pl b) (pl (zipped a b)).
Proof.
  assert (C : closed zipG = true) by reflexivity.
  induction a as [|x r IH]; intros b Ha Hb.
  - rewrite (Z_unfold zipG C) at 1. unfold zipG at 1. hbc. hbc. hbc.
    rewrite nil_case. ssub. reflexivity.
  - apply allc_cons in Ha. destruct Ha as [Cx Cr].
    rewrite (Z_unfold zipG C) at 1. unfold zipG at 1. hbc. hbc. hbc.
    rewrite cons_case by auto. ssub.
    rewrite is_nil_pl by auto. rewrite bool_app. destruct b as [|y s].
    + reflexivity.
    + apply allc_cons in Hb. destruct Hb as [Cy Cs].
      rewrite (Z_call zipG _ C). rewrite !head_law, !tail_law by auto. rewrite IH by auto.
      rewrite (mk_pair x y) by auto. unfold zipped. cbn [combine map fst snd].
      apply cons_law; auto with clos. apply allc_zipmap; auto with clos.
Qed.
Theorem pair_zip a b : allc a -> allc b -> red (lc_list_pair_zip @ pl a @ pl b) (pl (zipped a b)).
Proof. intros. rewrite zip_shape. rewrite Z_start by reflexivity. apply zip_rec; auto. Qed.

Definition zipwG : term :=
  Abs (Abs (Abs (Abs (ISNIL @ v2 @ Abs NIL @
    Abs (ISNIL @ v2 @ NIL @ (CONS @ (v4 @ (HEAD @ v3) @ (HEAD @ v2)) @ (v5 @ v4 @ (TAIL @ v3) @ (TAIL @ v2)))) @ II)))).
Lemma zipw_shape : lc_list_pair_zip_with = lc_combinators_Z @ zipwG. Proof. reflexivity. Qed.
Definition zipped_with (g : term) (a b : list term) : list term := map (fun p => g @ fst p @ snd p) (combine a b).
Lemma zipw_rec g : closed g = true -> forall a b, allc a -> allc b ->
  red (Rz zipwG @ g @ pl a @ pl b) (pl (zipped_with g a b)).
Proof.
  intros Cg. assert (C : closed zipwG = true) by reflexivity.
  induction a as [|x r IH]; intros b Ha Hb.
  - rewrite (Z_unfold zipwG C) at 1. unfold zipwG at 1. hbc. hbc. hbc. hbc.
    rewrite nil_case. ssub. reflexivity.
  - apply allc_cons in Ha. destruct Ha as [Cx Cr].
    rewrite (Z_unfold zipwG C) at 1. unfold zipwG at 1. hbc. hbc. hbc. hbc.
    rewrite cons_case by auto. ssub.
    rewrite is_nil_pl by auto. rewrite bool_app. destruct b as [|y s].
    + reflexivity.
    + apply allc_cons in Hb. destruct Hb as [Cy Cs].
      rewrite (Z_call zipwG _ C). rewrite !head_law, !tail_law by auto. rewrite IH by auto.
      unfold zipped_with. cbn [combine map fst snd].
      apply cons_law; auto with clos. apply (allc_zipmap (fun x y => g @ x @ y)); auto with clos.
Qed.
Theorem pair_zip_with g a b : closed g = true -> allc a -> allc b ->
  red (lc_list_pair_zip_with @ g @ pl a @ pl b) (pl (zipped_with g a b)).
Proof. intros. rewrite zipw_shape. rewrite Z_start by reflexivity. apply zipw_rec; auto. Qed.

(** ** take, drop, replicate, index: a Church numeral argument *)
Lemma allc_firstn n xs : allc xs -> allc (firstn n xs).
Proof.
  revert n. induction xs as [|x r IH]; intros n H; [destruct n; reflexivity|]. apply allc_cons in H. destruct H.
  destruct n; cbn [firstn]; auto with clos.
Qed.
Lemma allc_skipn n xs : allc xs -> allc (skipn n xs).
Proof.
  revert n. induction xs as [|x r IH]; intros n H; [destruct n; reflexivity|]. pose proof H as H'. apply allc_cons in H. destruct H.
  destruct n; cbn [skipn]; auto with clos.
Qed.
#[export] Hint Resolve allc_firstn allc_skipn : clos.

Notation IZ := lc_num_church_is_zero.
Notation PRED := lc_num_church_pred.
Definition takeG : term :=
  Abs (Abs (Abs (ISNIL @ v1 @ Abs NIL @
    Abs (IZ @ v3 @ NIL @ (CONS @ (HEAD @ v2) @ (v4 @ (PRED @ v3) @ (TAIL @ v2)))) @ II))).
Lemma take_shape : lc_list_pair_take = lc_combinators_Z @ takeG. Proof. reflexivity. Qed.
Lemma take_rec : forall xs n, allc xs -> red (Rz takeG @ church n @ pl xs) (pl (firstn n xs)).
Proof.
  assert (C : closed takeG = true) by reflexivity.
  induction xs as [|x r IH]; intros n Hc.
  - rewrite (Z_unfold takeG C) at 1. unfold takeG at 1. hbc. hbc. hbc.
    rewrite nil_case. ssub. destruct n; reflexivity.
  - apply allc_cons in Hc. destruct Hc as [Cx Cr].
    rewrite (Z_unfold takeG C) at 1. unfold takeG at 1. hbc. hbc. hbc.
    rewrite cons_case by auto. ssub.
    rewrite church_is_zero. rewrite bool_app. destruct n as [|k]; cbn [Nat.eqb firstn].
    + reflexivity.
    + rewrite (Z_call takeG _ C). rewrite head_law, tail_law by auto. rewrite church_pred. cbn [pred].
      rewrite IH by auto. apply cons_law; auto with clos.
Qed.
Theorem pair_take n xs : allc xs -> red (lc_list_pair_take @ church n @ pl xs) (pl (firstn n xs)).
Proof. intros. rewrite take_shape. rewrite Z_start by reflexivity. apply take_rec; auto. Qed.

Definition dropG : term :=
  Abs (Abs (Abs (ISNIL @ v1 @ Abs NIL @ Abs (IZ @ v3 @ v2 @ (v4 @ (PRED @ v3) @ (TAIL @ v2))) @ II))).
Lemma drop_shape : lc_list_pair_drop = lc_combinators_Z @ dropG. Proof. reflexivity. Qed.
Lemma drop_rec : forall xs n, allc xs -> red (Rz dropG @ church n @ pl xs) (pl (skipn n xs)).
Proof.
  assert (C : closed dropG = true) by reflexivity.
  induction xs as [|x r IH]; intros n Hc.
  - rewrite (Z_unfold dropG C) at 1. unfold dropG at 1. hbc. hbc. hbc.
    rewrite nil_case. ssub. destruct n; reflexivity.
  - pose proof Hc as Hc'. apply allc_cons in Hc. destruct Hc as [Cx Cr].
    rewrite (Z_unfold dropG C) at 1. unfold dropG at 1. hbc. hbc. hbc.
    rewrite cons_case by auto. ssub.
    rewrite church_is_zero. rewrite bool_app. destruct n as [|k]; cbn [Nat.eqb skipn].
    + reflexivity.
    + rewrite (Z_call dropG _ C). rewrite tail_law by auto. rewrite church_pred. cbn [pred]. apply IH; auto.
Qed.
Theorem pair_drop n xs : allc xs -> red (lc_list_pair_drop @ church n @ pl xs) (pl (skipn n xs)).
Proof. intros. rewrite drop_shape. rewrite Z_start by reflexivity. apply drop_rec; auto. Qed.

Lemma allc_repeat x n : closed x = true -> allc (repeat x n).
Proof. intros. induction n; cbn [repeat]; auto with clos. Qed.
#[export] Hint Resolve allc_repeat : clos.
Definition replG : term :=
  Abs (Abs (Abs (IZ @ v2 @ Abs NIL @ Abs (lc_pair_pair @ v2 @ (v4 @ (PRED @ v3) @ v2)) @ II))).
Lemma repl_shape : lc_list_pair_replicate = lc_combinators_Z @ replG. Proof. reflexivity. Qed.
Lemma repl_rec x : closed x = true -> forall n, red (Rz replG @ church n @ x) (pl (repeat x n)).
Proof.
  intros Cx. assert (C : closed replG = true) by reflexivity.
  induction n as [|k IH].
  - rewrite (Z_unfold replG C) at 1. unfold replG at 1. hbc. hbc. hbc.
    rewrite church_is_zero. rewrite (bool_app true). hbc. reflexivity.
  - rewrite (Z_unfold replG C) at 1. unfold replG at 1. hbc. hbc. hbc.
    rewrite church_is_zero. rewrite (bool_app false). hbc.
    rewrite (Z_call replG _ C). rewrite church_pred. cbn [pred]. rewrite IH.
    cbn [repeat]. apply (cons_law x (repeat x k)); auto with clos.
Qed.
Theorem pair_replicate n x : closed x = true -> red (lc_list_pair_replicate @ church n @ x) (pl (repeat x n)).
Proof. intros. rewrite repl_shape. rewrite Z_start by reflexivity. apply repl_rec; auto. Qed.

(** index: i-th tail, then head *)
Lemma index_shape : lc_list_pair_index = Abs (Abs (HEAD @ (v2 @ TAIL @ v1))). Proof. reflexivity. Qed.
Lemma iter_tail : forall i xs, allc xs -> i <= length xs -> red (iter_app i TAIL (pl xs)) (pl (skipn i xs)).
Proof.
  induction i as [|i IH]; intros xs Hc Hi; [reflexivity|].
  cbn [iter_app]. destruct xs as [|x r]; [cbn [length] in Hi; lia|].
  (* peel from the inside: iter_app (S i) f y = iter_app i f (f y) *)
  assert (E : forall n f y, f @ iter_app n f y = iter_app n f (f @ y)).
  { induction n; intros; cbn [iter_app]; [reflexivity|]. rewrite IHn. reflexivity. }
  rewrite E. apply allc_cons in Hc. destruct Hc as [Cx Cr].
  rewrite red_iter_arg; [|apply tail_law; auto]. cbn [skipn]. apply IH; auto. cbn [length] in Hi. lia.
Qed.
Theorem pair_index i xs d : allc xs -> i < length xs ->
  red (lc_list_pair_index @ church i @ pl xs) (nth i xs d).
Proof.
  intros Hc Hi. rewrite index_shape. hbc. hbc. rewrite church_iter. rewrite iter_tail by (auto; lia).
  assert (E : exists r, skipn i xs = nth i xs d :: r).
  { clear Hc. revert i Hi. induction xs as [|x r IH]; intros i Hi; [cbn [length] in Hi; lia|].
    destruct i; [eexists; reflexivity|]. cbn [skipn nth]. apply IH. cbn [length] in Hi. lia. }
  destruct E as [r E]. pose proof (allc_skipn i xs Hc) as Hs. rewrite E in *.
  apply allc_cons in Hs. destruct Hs. apply head_law; auto.
Qed.

(** list: LIST n x1 .. xn collects its n arguments *)
Definition listF : term := Abs (Abs (Abs (v3 @ (CONS @ v1 @ v2)))).
Lemma list_shape : lc_list_pair_list = Abs (v1 @ listF @ lc_list_pair_reverse @ NIL). Proof. reflexivity. Qed.
Lemma red_fold_app xs a b : red a b -> red (fold_left App xs a) (fold_left App xs b).
Proof. revert a b. induction xs as [|x r IH]; intros a b H; cbn [fold_left]; [auto|]. apply IH. rewrite H. reflexivity. Qed.
Lemma closed_iter_app n f y : closed f = true -> closed y = true -> closed (iter_app n f y) = true.
Proof. intros. induction n; cbn [iter_app]; auto with clos. Qed.
#[export] Hint Resolve closed_iter_app : clos.
Lemma list_iter : forall xs acc, allc xs -> allc acc ->
  red (fold_left App xs (iter_app (length xs) listF lc_list_pair_reverse @ pl acc)) (pl (rev acc ++ xs)).
Proof.
  induction xs as [|x r IH]; intros acc Hc Ha.
  - cbn [fold_left length iter_app]. rewrite pair_reverse by auto. rewrite app_nil_r. reflexivity.
  - apply allc_cons in Hc. destruct Hc as [Cx Cr]. cbn [fold_left length iter_app].
    assert (Cl : closed listF = true) by reflexivity.
    assert (Cv : closed lc_list_pair_reverse = true) by reflexivity.
    rewrite red_fold_app with (b := iter_app (length r) listF lc_list_pair_reverse @ pl (x :: acc)).
    + rewrite IH by auto with clos. cbn [rev]. rewrite <- app_assoc. reflexivity.
    + unfold listF at 1. hbc. hbc. hbc. rewrite cons_law by auto. reflexivity.
Qed.
Theorem pair_list_collect xs : allc xs ->
  red (fold_left App xs (lc_list_pair_list @ church (length xs))) (pl xs).
Proof.
  intros Hc. rewrite red_fold_app with (b := iter_app (length xs) listF lc_list_pair_reverse @ pl []).
  - apply (list_iter xs []); auto with clos.
  - rewrite list_shape. hbc. rewrite church_iter. reflexivity.
Qed.
