(** * Reference renderings of terms (C10, C11) and the canonical renumbering of free variables *)
From LC Require Export Spec.Chars Spec.Beta.

Definition str := list N.

(** bijective base 26: a, b, …, z, aa, ab, … *)
Fixpoint b26_fuel (fuel n : nat) : str :=
  match fuel with 0 => [] | S f =>
    if n <? 26 then [N.of_nat (97 + n)]
    else b26_fuel f (n / 26 - 1) ++ [N.of_nat (97 + n mod 26)]
  end.
Definition b26 (n : nat) : str := b26_fuel (S n) n.

Definition s_undef : str := [117; 110; 100; 101; 102; 105; 110; 101; 100]%N.

Inductive position := Top | Operator | Operand.

Fixpoint tdepth (t : term) : nat :=
  match t with Var _ => 0 | Abs b => S (tdepth b) | App l r => Nat.max (tdepth l) (tdepth r) end.

(** Classic notation: binders named by nesting depth, free variables named after all binder
    names, single spaces between the parts of an application, parentheses exactly around
    abstractions in operator/operand position and applications in operand position *)
Fixpoint print_cla (lam : N) (maxd : nat) (t : term) (pos : position) (depth : nat) : str :=
  match t with
  | Var 0 => s_undef
  | Var i => if i <=? depth then b26 (depth - i) else b26 (maxd + (i - depth) - 1)
  | Abs b =>
      let s := [lam] ++ b26 depth ++ [46%N] ++ print_cla lam maxd b Top (S depth) in
      match pos with Top => s | _ => [40%N] ++ s ++ [41%N] end
  | App l r =>
      let s := print_cla lam maxd l Operator depth ++ [32%N] ++ print_cla lam maxd r Operand depth in
      match pos with Operand => [40%N] ++ s ++ [41%N] | _ => s end
  end.
Definition ref_print_cla (lam : N) (t : term) : str := print_cla lam (tdepth t) t Top 0.

(** De Bruijn notation: one upper-case hexadecimal digit per index (1..15), no whitespace *)
Definition hexd (d : nat) : N := if d <? 10 then N.of_nat (48 + d) else N.of_nat (55 + d).
Fixpoint print_dbr (lam : N) (t : term) (pos : position) : str :=
  match t with
  | Var 0 => s_undef
  | Var i => [hexd i]
  | Abs b =>
      let s := [lam] ++ print_dbr lam b Top in
      match pos with Top => s | _ => [40%N] ++ s ++ [41%N] end
  | App l r =>
      let s := print_dbr lam l Operator ++ print_dbr lam r Operand in
      match pos with Operand => [40%N] ++ s ++ [41%N] | _ => s end
  end.
Definition ref_print_dbr (lam : N) (t : term) : str := print_dbr lam t Top.

Fixpoint indices_in (lo hi : nat) (t : term) : bool :=
  match t with
  | Var i => (lo <=? i) && (i <=? hi)
  | Abs b => indices_in lo hi b
  | App l r => indices_in lo hi l && indices_in lo hi r
  end.

(** canon: free variables renumbered in order of first appearance (left to right);
    bound indices unchanged.  [frees] lists the levels seen so far. *)
Fixpoint nat_index_of (x : nat) (l : list nat) : option nat :=
  match l with
  | [] => None
  | y :: r => if x =? y then Some 0 else option_map S (nat_index_of x r)
  end.

Fixpoint canon_at (d : nat) (frees : list nat) (t : term) : term * list nat :=
  match t with
  | Var i =>
      if i <=? d then (Var i, frees)
      else
        let lvl := i - d in
        match nat_index_of lvl frees with
        | Some j => (Var (d + j + 1), frees)
        | None => (Var (d + length frees + 1), frees ++ [lvl])
        end
  | Abs b => let '(b', f) := canon_at (S d) frees b in (Abs b', f)
  | App l r =>
      let '(l', f1) := canon_at d frees l in
      let '(r', f2) := canon_at d f1 r in
      (App l' r', f2)
  end.
Definition canon (t : term) : term := fst (canon_at 0 [] t).

(** classification of the characters the printers emit (validated against Rust's std by the harness) *)
Definition classify (c : N) : cchar :=
  let n := N.to_nat c in
  let lower := (97 <=? n) && (n <=? 122) in
  let upper := (65 <=? n) && (n <=? 90) in
  let digit := (48 <=? n) && (n <=? 57) in
  let greek_lambda := n =? 955 in
  {| code := c;
     is_alphabetic := lower || upper || greek_lambda;
     is_alphanumeric := lower || upper || digit || greek_lambda;
     is_whitespace := (n =? 32) || ((9 <=? n) && (n <=? 13));
     to_digit16 := if digit then Some (n - 48)
                   else if (97 <=? n) && (n <=? 102) then Some (n - 87)
                   else if (65 <=? n) && (n <=? 70) then Some (n - 55)
                   else None |}.
