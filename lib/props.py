"""Per-property configuration of the check driver (which suites run, which oracle tags decide it)."""

KERNEL = ("Coq 8.16.1 kernel (coqc; in the thorough tier also coqchk -o on the property file and everything it depends on, except the "
          "bounded evaluation grids Properties/CxxG.v of C13-C16, which coqchk would re-evaluate by plain conversion for hours); "
          "vm_compute only for closed computations; no native_compute")
NOAX = "axioms: none (every property theorem prints 'Closed under the global context'; checked on every run)"
TIE_B = ("tie: hand-written Gallina mirror (coq/theories/Model) checked against the compiled crate by the "
         "correspondence run of this check (harness/impl_run -> ocaml/driver on the extracted model); "
         "extraction uses ExtrOcamlBasic only (bool, option, list, prod, unit, sumbool, sumor)")
ORACLE = "search: Spec-level oracles (extracted from coq/theories/Spec) evaluated on the implementation's outputs"
OUTSIDE = ("outside the model: usize wrap-around for indices near 2^64 (the model uses unbounded nat; for apply / the "
           "contractions of the reducer the generated *_safe predicates and C02_machine_arithmetic show that no operation "
           "overflows while max index + binder depth + 1 < 2^64; Display, the parser and the conversions are exercised with "
           "large indices only), native stack exhaustion, allocation failure, timing")

TIE_R = ("tie (reducer): coq/theories/Gen/ReductionSrc.v - update_free_variables, _apply, apply, eval, is_reducible, the "
         "seven beta_* traversals and the dispatch of reduce - is REGENERATED from /repo/src/reduction.rs on every run by "
         "lib/trans_reduction.py (a translator for exactly the imperative idiom of that file: &mut self becomes input/"
         "output, &mut count is threaded, recursion gets fuel; when the source is outside the idiom the translation is "
         "refused, the last good model coq/baseline/ReductionSrc.v is used and the tie rests on the correspondence run alone, "
         "which the evidence records as reducer_model_tie); the proofs "
         "are re-checked against the regenerated model, and the regenerated model is ALSO run against the compiled crate "
         "by the correspondence run (harness/impl_run -> ocaml/driver on the extracted model; ExtrOcamlBasic only)")
RED_TB = [KERNEL, NOAX, TIE_R, ORACLE, OUTSIDE]
RED_ASM = ["the translator lib/trans_reduction.py renders the Rust idiom of reduction.rs faithfully (mem::replace/unwrap "
           "plumbing, usize arithmetic as nat; validated on every run by differential testing of its output)",
           "fuel: theorems are conditional on the model returning Some (never on a particular fuel)",
           OUTSIDE]

META_RULE = ("; metamorphic suite: UD replaced by a fresh free variable, and all free indices shifted by 2^32, must "
             "commute with reduce (all orders) and apply")
RULE_RED = ("exhaustive universe of all terms up to 6 (quick) / 7 (thorough) constructors over indices 0..3 (UD and "
            "dangling indices included) plus seeded random terms up to 45 constructors; each under all 7 orders with "
            "limits {0 if terminating, 1, 2, 3, 5, 17, probe}; non-trivial = at least one contraction performed; "
            "distinct = distinct (order, term)")

PROPS = {
    "C02": dict(
        suites=["apply", "meta-apply"], oracle_re=r"oracle:C02:",
        rule=("all pairs (receiver, argument) from the universes of terms up to 4x3 (quick) / 5x4 (thorough) constructors "
              "over indices 0..3, plus random receivers under up to 6 binders with free indices crossing them; "
              "non-trivial = substitution changes the body, or the error path on a non-abstraction"),
        trusted_base=[KERNEL, NOAX, TIE_R, ORACLE, OUTSIDE],
        assumptions=["the translator lib/trans_reduction.py renders apply/_apply/update_free_variables faithfully "
                     "(validated on every run by differential testing of its output)", OUTSIDE],
        explanation=("Theorems: apply_m (Abs b) a = subst 1 a b = inst (beta_sub a) b for all b, a (two independent "
                     "definitions of capture-avoiding substitution); non-abstractions yield NotAbs with the receiver "
                     "unchanged; free variables of the result come from the inputs; UD inert.  Machine arithmetic: the "
                     "translator also emits apply_safe / apply_rec_safe / update_free_variables_safe (no usize addition "
                     "reaches W, no subtraction goes below 0, same recursion as the functions); proved: they hold for any "
                     "word size W whenever max index of the argument + binder depth of the receiver + 1 < W.")),
    "C18": dict(
        suites=["termops"], oracle_re=r"oracle:C18:",
        rule=("every term up to 6 (quick) / 7 (thorough) constructors over indices 0..3 plus random terms; all pairs of "
              "terms up to 4/5 constructors for is_isomorphic_to; every case is distinct and non-trivial (a predicate "
              "is evaluated and compared with its definition)"),
        trusted_base=[KERNEL, NOAX, "tie: the four predicates (+helper) are REGENERATED from src/term.rs on every run by the "
                      "translator lib/trans_term.py (Gen/TermSrc.v) and proved equal to the model functions (Proofs/TermSrcTie.v); "
                      "outside the translated idiom the last good copy is used; in both cases: " + TIE_B, ORACLE, OUTSIDE],
        assumptions=["the translator lib/trans_term.py renders the Rust of the predicates faithfully (its output is proved equal to the hand model, which is differentially tested against the crate)",
                     "is_supercombinator is not constrained on terms containing UD (definition silent)", OUTSIDE],
        explanation=("Theorems: each model predicate equals its independent definition for all terms; the "
                     "supercombinator loop terminates within its fuel and decides the inductive definition.")),
    "C19": dict(
        suites=["termops"], oracle_re=r"oracle:C19:",
        rule=("every term up to 6/7 constructors over indices 0..3 plus random terms, all 15 accessors, 6 writes "
              "through _mut forms, app!/abs! with 2-4 arguments / n<=5; distinct = distinct term"),
        trusted_base=[KERNEL, NOAX, "tie: the 15 accessors are REGENERATED from src/term.rs on every run by lib/trans_term.py "
                      "(Gen/TermSrc.v) and proved equal to the model functions (Proofs/TermSrcTie.v); setters through _mut, abs, app, "
                      "abs!, app! are hand-written mirrors; in both cases: " + TIE_B, ORACLE, OUTSIDE],
        assumptions=["consuming, _ref and _mut reads are one function in the pure model; their agreement on the "
                     "implementation is established by the correspondence run", OUTSIDE],
        explanation="Theorems: accessor/constructor laws, precise errors, lens laws for the _mut forms, macros."),
}


def red(suites, tag, explanation, extra_rule=""):
    return dict(suites=suites, oracle_re=tag, rule=RULE_RED + extra_rule + (META_RULE if any(x.startswith("meta") for x in suites) else ""), trusted_base=RED_TB,
                assumptions=RED_ASM, explanation=explanation)

PROPS["C01"] = red(["reduce", "meta-reduce"], r"oracle:C01:",
    "Theorems: for all terms, orders, limits: the result of the model of reduce is reached by exactly `count` "
    "one-step beta contractions (steps step c t t'); count 0 leaves the term unchanged; beta = fst . reduce; UD inert. "
    "Oracle on the implementation: the result is the count-fold iteration of the Spec step function (and, when it is "
    "not, a bounded search over all beta paths of that length), count 0 => unchanged.")
PROPS["C03"] = red(["reduce"], r"oracle:C03:",
    "Theorems: a run that stops below its limit (or with limit 0) ends in the documented normal form; a term "
    "already in that form is returned unchanged with count 0, and such a run exists for every limit. "
    "Oracle: boolean normal-form deciders of the Spec on the implementation's results.")
PROPS["C04"] = red(["reduce", "history"], r"oracle:C04:",
    "Theorems: count <= limit; determinism; totality for non-zero limits; reduce(n);reduce(m) = reduce(n+m) "
    "(both directions, and for every list of positive limits); limit 1 = one step of the step function; limit 0 = "
    "its iteration until stuck. Oracle: composed same-order histories vs. the single-step iteration.",
    "; histories: 3000 (quick) / 30000 (thorough) random sequences of 1-7 calls (order, limit 0..6), half of them "
    "with a single order")
PROPS["C05"] = red(["reduce"], r"oracle:C05:",
    "Theorems: the step functions of NOR, CBN, APP, CBV equal the positional selection (first redex in pre-order; "
    "the same if its path is operator-only; first in post-order; first in post-order outside abstractions), hence "
    "every step of reduce contracts that redex; HSP only contracts redexes on the head spine. "
    "Oracle: pos_step on the inputs of all limit-1 runs.")
PROPS["C08"] = red(["reduce", "apply", "history", "meta-reduce", "meta-apply"], r"oracle:C08:",
    "Theorems: beta steps never enlarge the free-variable set nor create UD; hence reduce, apply and every "
    "history of calls preserve closedness and UD-freeness. Oracle: fv / has_ud on implementation results.")

PROPS["C06"] = red(["history", "normalise", "reduce", "meta-reduce"], r"oracle:C06:",
    "Theorems: Church-Rosser for the calculus (parallel reduction, complete development); every history of reduce "
    "calls with arbitrary orders and limits is a beta reduction; normal forms reached by any two histories / any two "
    "normalising orders coincide; the result of any call still normalises (under NOR) to the same normal form. "
    "Oracle: final terms of random histories normalise (Spec leftmost iteration) to the normal form of the start term.",
    "; normalise: 2500 (quick) / 20000 (thorough) terms built backwards from random normal forms by beta-expansions "
    "(erased diverging arguments, K s Omega, identity wrappers), run under NOR/HNO/CBN/HSP with limit 0 and under the "
    "eager orders with a safe limit")
PROPS["C07"] = red(["normalise"], r"oracle:C07:",
    "Theorems: standardisation (Kashima); leftmost reduction reaches every existing normal form, so reduce(NOR, 0) returns it; "
    "reduce(CBN, 0) returns whenever a weak head normal form exists; head reduction length never grows along a reduction "
    "(head steps commute with parallel reduction), hence the head-spine strategy terminates whenever a head normal form "
    "exists (reduce(HSP, 0) returns) and hybrid normal order reaches every existing normal form (reduce(HNO, 0) returns it). "
    "Oracle: planted normal forms (terms generated backwards by beta-expansion with diverging subterms in erased positions) "
    "must be found by the implementation under NOR and HNO; CBN/HSP must return (weak) head normal forms on terms whose head "
    "variable has diverging arguments; a hang or stack overflow is a violation.",
    "; normalise suite as described under C06")

PARSE_TB = [KERNEL, NOAX, TIE_B + "; modelled: src/parser.rs (tokenize_dbr, tokenize_cla, convert_classic_tokens, get_ast, "
            "fold_exprs, fold_terms, parse) and the Display/Debug implementations of src/term.rs (base26_encode, "
            "show_precedence_cla, show_precedence_dbr, parenthesize_if)",
            "character classes: char::is_alphabetic / is_alphanumeric / is_whitespace / to_digit(16) are supplied per "
            "character by the harness from Rust's std (no Unicode table is re-implemented); for the characters the "
            "printers emit, Spec.Printing.classify is compared with std on every printed string",
            ORACLE, OUTSIDE]
PROPS["C09"] = dict(
    suites=["parse"], oracle_re=r"oracle:C09:",
    rule=("all token sequences over {lambda, (, ), 1, 2, 3} up to length 5 (quick) / 7 (thorough) in De Bruijn notation and over "
          "{lambda a., lambda b., (, ), a, b, c} up to length 4 / 6 in Classic notation, each in a compact and a varied rendering "
          "(either glyph, ASCII and Unicode whitespace, letter case of hex digits) and, when accepted, wrapped in redundant "
          "parentheses; printed random terms and single-character mutations of them; random strings over a pool of ASCII, "
          "Unicode letters/digits/spaces/marks and arbitrary scalar values; non-trivial = accepted by the reference grammar"),
    trusted_base=PARSE_TB,
    assumptions=["the Gallina mirror of parser.rs is faithful (differential testing only)",
                 "the reference grammar of Spec/Grammar.v is the reading of the property text", OUTSIDE,
                 "native stack exhaustion on deeply nested input is probed (depth 1000 and 20000) but not claimed"],
    explanation=("Theorems for EVERY input string and both notations: the model of parse returns the reference parse "
                 "(reference = lexer automaton + lexical-scoping name resolution + recursive-descent parser of "
                 "Spec/Grammar.v): Ok(t) exactly when the reference accepts with t, InvalidCharacter(i, c) exactly where the "
                 "reference lexer meets a character that cannot start a token, some Err otherwise (no truncated parse). "
                 "Proof: lexer equivalences, convert_classic_tokens = resolve, and get_ast;fold_exprs = recursive descent "
                 "via balanced-token representation and a relational semantics (sound + complete on both sides). The oracle "
                 "runs the same reference against the implementation."))
PROPS["C10"] = dict(
    suites=["print"], oracle_re=r"oracle:C10:", both_glyphs=True, suites_bs=["print"],
    rule=("every term up to 6 / 7 constructors over indices 0..4, random terms up to 40 constructors, hand-built terms "
          "with binder depth 25..28, 52, 701..704, 730 and free indices up to 18279 (names of 1, 2, 3 and 4 letters); "
          "under both settings of the backslash_lambda feature (two builds of the harness); non-trivial = distinct term"),
    trusted_base=PARSE_TB,
    assumptions=["the Gallina mirrors of Display and of the parser are faithful (differential testing only)", OUTSIDE],
    explanation=("Theorems for every term without UD, every depth and both glyphs: Display = reference rendering; the model of "
                 "parse applied to the model's Display output returns canon(t) (= t when closed). Proof: bijective base 26 is "
                 "injective and lower-case; the Classic lexer inverts the renderer; lexical-scoping name resolution maps binder "
                 "names (depths below the maximal depth) and free names (numbered after all binder names) to the indices of "
                 "canon(t); the recursive-descent parser inverts the printer; C09 transfers this to the model. The "
                 "implementation's round trip is checked in both feature builds, incl. depths beyond 26 and 702 and indices "
                 "shifted by 2^32-1 / 2^48+12345."))
PROPS["C11"] = dict(
    suites=["print"], oracle_re=r"oracle:C11:", both_glyphs=True, suites_bs=["print"],
    rule=("every term up to 5 / 6 constructors over indices 0..3, random terms with indices 1..15 (all 15 digits, nested "
          "operand applications, abstractions in operator position), some terms with indices 0 and above 15 (format "
          "only); both glyph settings; non-trivial = distinct term with indices in 1..15"),
    trusted_base=PARSE_TB,
    assumptions=["the Gallina mirrors of Debug and of the parser are faithful (differential testing only)", OUTSIDE],
    explanation=("Theorems for all terms with indices 1..15 and both glyphs: Debug = reference rendering, and the model of "
                 "parse applied to the model's Debug output returns exactly the term (lexer inverts renderer, recursive "
                 "descent inverts printer, transferred to the model by the C09 equivalence). The implementation's round "
                 "trip and format are checked on exhaustive and random terms using all 15 digits, in both feature builds."))

TIE_A = ("tie (A): coq/theories/Gen/Terms.v is REGENERATED on every run from the compiled crate by "
         "harness/src/bin/dump_terms.rs (calls every exported term-valued function; own 10-line serialiser; the "
         "enumeration is checked against `pub fn .. -> Term` in the sources) and the property's proofs are re-checked "
         "against it")
DATA_TB = [KERNEL, NOAX, TIE_A, TIE_R, TIE_B + "; modelled by hand: the conversion loops of "
           "src/data/num/convert.rs, src/data/list/convert.rs, the From impls, tuple!/pi!", ORACLE,
           "expected results are computed natively (usize arithmetic, Vec operations) by the harness and encoded with "
           "the Spec encoders of coq/theories/Spec/Encodings.v", OUTSIDE]
DATA_ASM = ["bounded grids are theorems only for the bounds written in their statements",
            "the translator of reduction.rs (lib/trans_reduction.py) is faithful (its output is run against the crate on every run)", OUTSIDE]

PROPS["C12"] = dict(
    suites=["ops:convert"], oracle_re=r"oracle:C12:", gen=True,
    rule=("n.into_E() for n <= 120 (quick) / 300 (thorough) (Parigot <= 12/16, its numerals double in size), binary also "
          "at 2^8..2^20; into_signed for |z| <= 12/40 in four encodings; zero()/one(); pairs, options, results and "
          "vectors of numbers; non-trivial = distinct (encoding, number)"),
    trusted_base=DATA_TB, assumptions=DATA_ASM,
    explanation=("Theorems for all n: the constructor loops equal the documented closed forms; these are closed, normal, "
                 "decodable (hence injective); zero()/one() (generated constants) are the encodings of 0 and 1; containers "
                 "and into_signed (zero of the same encoding)."))
PROPS["C13"] = dict(
    suites=["ops:church"], oracle_re=r"oracle:C13:", gen=True,
    rule=("all 23 Church operations on the square m, n <= 5 (quick) / 7 (thorough) (smaller for pow, fac, shl), under NOR, "
          "HNO, HAP and (operations without a fixed-point combinator) APP; non-trivial = at least one contraction"),
    trusted_base=DATA_TB, assumptions=DATA_ASM,
    explanation=("Theorems for ALL m, n on the generated constants: each of the 23 Church operations applied to numerals reduces "
                 "to the encoding of the expected number / boolean / pair (Proofs/ChurchArith.v: iteration lemma, inductions over "
                 "numerals, Z-unfolding with strong induction for div/quot/rem/shr); hence NOR returns it (C07) and any result "
                 "of APP/HAP is it (C06). Termination of APP/HAP: for ALL m, n for succ/pred/is_zero/fac/add/mul (simply typable, hence strongly "
                 "normalising: Spec/Typed.v + Proofs/EagerTyped.v); for the other operations bounded in-kernel grid (m, n <= 3)."))
PROPS["C14"] = dict(
    suites=["ops:othernum"], oracle_re=r"oracle:C14:", gen=True,
    rule=("Scott/Parigot/Stump-Fu operations and the 7 conversions for m, n <= 4 (quick) / 6 (thorough), binary 0..40/70 "
          "(results of succ/pred/shl0 compared after decoding with leading zeroes allowed), orders as documented"),
    trusted_base=DATA_TB, assumptions=DATA_ASM,
    explanation=("Theorems for ALL m, n (and, for binary, all bit strings including leading zeroes) on the generated constants: "
                 "Scott succ/pred/is_zero/add/mul/pow (case lemmas + Z-unfolding), Parigot succ/pred/is_zero/add/sub/mul (recursor "
                 "lemma), Stump-Fu succ/pred/is_zero/add/mul, binary succ/pred/shl0/shl1/lsb/is_zero/strip (pair-state folds "
                 "proved equal to increment/decrement/strip on bit lists, canonical bit lists are unique), and all 7+1 conversions "
                 "(Proofs/{Scott,Parigot,StumpFu,Binary}Arith.v); hence NOR and HNO return the expected encoding (C07) and any "
                 "result of APP/HAP is it (C06). Termination of APP/HAP where documented as suitable: bounded in-kernel grid."))
PROPS["C15"] = dict(
    suites=["ops:signed"], oracle_re=r"oracle:C15:", gen=True,
    rule=("four encodings, all pairs (p, n) with components <= 3/4 for the unary operations and p1, n1, p2, n2 <= 2/3 for "
          "add, sub, mul (thorough: mul only for p1+n1+p2+n2 <= 8 - larger non-canonical products outgrow the size guard under "
          "normal order), under NOR and HNO; inputs are arbitrary, not only canonical, pairs"),
    trusted_base=DATA_TB, assumptions=DATA_ASM,
    explanation=("Theorems for ALL pairs (p, n), canonical or not, in all four encodings, on the generated constants: simplify, "
                 "modulus, neg, to_signed, add, sub, mul reduce to the canonical pair of the integer result (Proofs/SignedArith.v: one "
                 "generic proof over an abstract encoding with is_zero/pred/add/mul specifications, Z-unfolding with induction for "
                 "simplify; the generated constants are shown by reflexivity to be the generic templates over each encoding's "
                 "primitives, whose specifications are the C13/C14 theorems); hence NOR and HNO return them (C07). Bounded in-kernel "
                 "grid kept as evaluation of the model of reduce."))
PROPS["C16"] = dict(
    suites=["ops:lists", "ops:convert"], oracle_re=r"oracle:C16:", gen=True,
    rule=("nil/cons/head/tail/is_nil of the four list encodings on all lists of length <= 3/4 over 3 values and on "
          "symbolic (free-variable) element and tail; the 18 pair-list functions on all lists of length <= 3/4 over 2/3 "
          "values (pairs of lists, all counts up to length + 1); NOR, HNO, HAP"),
    trusted_base=DATA_TB, assumptions=DATA_ASM,
    explanation=("Theorems for ALL lists of closed element terms and ALL numbers, on the generated constants: nil/cons/head/tail/"
                 "is_nil of the pair, Church, Scott and Parigot encodings on encoded lists, and head/tail/is_nil of a cons for "
                 "ARBITRARY element and tail terms; the four Vec conversions equal the closed forms that repeated cons produces; "
                 "each of the 18 pair-list library functions reduces to the encoding of the corresponding Coq list operation "
                 "(Proofs/PairList.v, OtherLists.v: Z-unfolding with induction over the list, rewriting modulo beta via a "
                 "setoid on red); hence NOR/HNO return it (C07). Termination of HAP: for ALL lists of numerals for the Church-list and "
                 "pair-list constructors/observers (simply typable => strongly normalising); otherwise bounded in-kernel grid (length <= 3 over {0,1})."))
PROPS["C17"] = dict(
    suites=["ops:laws", "ops:convert"], oracle_re=r"oracle:C17:", gen=True,
    rule=("each law with free-variable payloads (two assignments) and with random closed normal payloads, both sides "
          "normalised by the implementation under NOR, HNO, APP, HAP; truth tables; tuple!/pi! for n <= 4; fixed-point "
          "combinators by bounded common reducts"),
    trusted_base=DATA_TB, assumptions=DATA_ASM,
    explanation=("Theorems for ALL payload terms on the generated constants: the 9 combinator equations, Y/T/Z fixed-point "
                 "convertibilities, Omega loops; fst/snd/swap/curry/uncurry; 12 option laws; 16 result laws; 7 truth "
                 "tables, not, if_else; pi!(i, n) on tuple! for ALL arities n, positions i and payloads (modelled macros); the From "
                 "conversions of closed payloads are the (normal, when the payloads are) reducts of the constructor applications."))


# deep-input suites additionally run in the unoptimised dev profile with debug assertions (the profile `cargo test` uses):
# iterative code that silently becomes recursive, or a debug_assert! that walks a structure, only shows there
PROPS["C12"]["convertsrc"] = True
PROPS["C10"]["printsrc"] = True
PROPS["C11"]["printsrc"] = True
PROPS["C18"]["termsrc"] = True
PROPS["C19"]["termsrc"] = True
PROPS["C18"]["suites_dev"] = ["deep"]
PROPS["C19"]["suites_dev"] = ["deep"]
PROPS["C12"]["suites_dev"] = ["ops:deep"]
PROPS["C16"]["suites_dev"] = ["ops:deep"]

# additions to the input rules after the adversarial mutation rounds (see DESIGN.md section 0)
_EXTRA_RULE = {
    "C04": "; plus limits 2^31..usize::MAX that are never reached (must equal limit 0) and a run of 2^17 contractions counted in one unlimited call and in 50 000-step slices",
    "C06": "; plus agreement of the normalising orders on terms whose free indices are shifted by 2^32-1, 2^32, 2^32+1, 2^48+12345",
    "C09": "; plus a dictionary of keyword-like words (lambda, fn, undefined, ..) and redundant parentheses / right-nested groups 1000..3000 deep (20000 reported)",
    "C10": "; plus runs of 255..1030 binders, Church numeral 1030, free variables named lambda/fn/let/in/undefined and indices 2^61..usize::MAX-8 (13- and 14-letter names)",
    "C11": "; plus runs of 255..1030 binders, Church numeral 1030 and a 1200-level F(λE(λF(..))) nesting",
    "C12": "; binary numerals 2^31..usize::MAX through the N-indexed encoder; all 15 container impls; numeral constructors on 200 000 with a 512 KiB stack (also in the dev profile)",
    "C13": "; plus single UNLIMITED calls on computations of 15 000-17 000 contractions (fac 7, pow 2 13, rem 24 1)",
    "C16": "; Vec conversions of UD / open elements; app! with operands from an iterator; list conversions of 200 000 elements on a 512 KiB stack (also in the dev profile)",
    "C17": "; every law also with UD payloads and with payload indices moved by 2^32-1, 2^32, 2^32+1, 2^63+3; the From impls for pair/option/result/Vec on closed payloads",
    "C18": "; predicates invariant under moving free indices by 2^32-1..2^48; digit-correlated pairs (t, parse(Debug t)) for is_isomorphic_to; is_supercombinator on 400 000 binders with a 512 KiB stack (also in the dev profile)",
    "C19": "; app! with operands drawn from an iterator (evaluation order); consuming lhs on a spine of 400 000 applications with a 512 KiB stack (also in the dev profile)",
}
for _k, _v in _EXTRA_RULE.items():
    PROPS[_k]["rule"] = PROPS[_k]["rule"] + _v

# session 4: source translators for term.rs
_PRINT_TIE = ("tie (printers): base26_encode, show_precedence_cla, show_precedence_dbr, parenthesize_if and the Display/Debug impls are "
              "REGENERATED from src/term.rs on every run by the translator lib/trans_print.py (Gen/PrintSrc.v; max_depth by "
              "lib/trans_term.py) and proved equal to the model printers (Proofs/PrintSrcTie.v); `{:X}` is the hand-written upper_hex; "
              "outside the translated idiom the last good copy coq/baseline/PrintSrc.v is used and the tie is the correspondence run alone")
for _k in ("C10", "C11"):
    PROPS[_k]["trusted_base"] = list(PROPS[_k]["trusted_base"]) + [_PRINT_TIE]
_CONV_TIE = ("tie (numeral constructors): into_church, into_scott, into_parigot, into_stumpfu are REGENERATED from "
             "src/data/num/convert.rs on every run by the translator lib/trans_convert.py (Gen/ConvertSrc.v; `unwrap` on Err is modelled "
             "by the inert Var 0 and the tie proof shows that branch is never taken) and proved equal to the model loops "
             "(Proofs/ConvertSrcTie.v); into_binary ({:b} formatting), into_signed (i32), the container impls and the macros are "
             "hand-written mirrors; outside the translated idiom the last good copy coq/baseline/ConvertSrc.v is used and the tie is the "
             "correspondence run alone")
PROPS["C12"]["trusted_base"] = list(PROPS["C12"]["trusted_base"]) + [_CONV_TIE]
