(** * A table-driven presentation of the seven traversals and of the seven step
      functions, and the central theorem: the counter-threading, fuelled
      traversal is the iteration of the stateless step function. *)
From LC Require Import Model.Reduction Proofs.Apply.

Record ospec := { under : bool;
                  preL : option order; preR : option order;
                  postL : option order; postR : option order }.

Definition spec_of (o : order) : ospec :=
  match o with
  | CBN => {| under := false; preL := Some CBN; preR := None; postL := None; postR := None |}
  | NOR => {| under := true; preL := Some CBN; preR := None; postL := Some NOR; postR := Some NOR |}
  | CBV => {| under := false; preL := Some CBV; preR := Some CBV; postL := None; postR := None |}
  | APP => {| under := true; preL := Some APP; preR := Some APP; postL := None; postR := None |}
  | HAP => {| under := true; preL := Some CBV; preR := Some HAP; postL := Some HAP; postR := None |}
  | HSP => {| under := true; preL := Some HSP; preR := None; postL := None; postR := None |}
  | HNO => {| under := true; preL := Some HSP; preR := None; postL := Some HNO; postR := Some HNO |}
  end.

Definition opt_run (rec : order -> nat -> term -> R) (p : option order) (count : nat) (t : term) : R :=
  match p with Some o' => rec o' count t | None => ret t count end.

Fixpoint beta_g (fuel limit : nat) (o : order) (count : nat) (t : term) : R :=
  match fuel with 0 => None | S f =>
    if limit_hit limit count then ret t count else
    match t with
    | Var _ => ret t count
    | Abs b =>
        if under (spec_of o)
        then bind (beta_g f limit o count b) (fun b1 c1 => ret (Abs b1) c1)
        else ret t count
    | App l r =>
        bind (opt_run (beta_g f limit) (preL (spec_of o)) count l) (fun l1 c1 =>
        bind (opt_run (beta_g f limit) (preR (spec_of o)) c1 r) (fun r1 c2 =>
        if is_reducible (App l1 r1) limit c2 then beta_g f limit o (S c2) (eval_m (App l1 r1))
        else
          bind (opt_run (beta_g f limit) (postL (spec_of o)) c2 l1) (fun l2 c3 =>
          bind (opt_run (beta_g f limit) (postR (spec_of o)) c3 r1) (fun r2 c4 =>
          ret (App l2 r2) c4))))
    end
  end.

Fixpoint step_g (o : order) (t : term) {struct t} : option term :=
  match t with
  | Var _ => None
  | Abs b => if under (spec_of o) then option_map Abs (step_g o b) else None
  | App l r =>
      match (match preL (spec_of o) with Some o' => step_g o' l | None => None end) with
      | Some l' => Some (App l' r)
      | None =>
      match (match preR (spec_of o) with Some o' => step_g o' r | None => None end) with
      | Some r' => Some (App l r')
      | None =>
      match l with
      | Abs b => Some (subst 1 r b)
      | _ =>
      match (match postL (spec_of o) with Some o' => step_g o' l | None => None end) with
      | Some l' => Some (App l' r)
      | None =>
      match (match postR (spec_of o) with Some o' => step_g o' r | None => None end) with
      | Some r' => Some (App l r')
      | None => None
      end end end end end
  end.

Definition os (p : option order) (t : term) : option term :=
  match p with Some o' => step_g o' t | None => None end.

(** ** The mirror of the Rust code is the table-driven traversal *)

Lemma bind_ext (x : R) k k' : (forall t c, k t c = k' t c) -> bind x k = bind x k'.
Proof. intros H; destruct x as [[t c]|]; simpl; auto. Qed.

Ltac mirror_fin IH mirror_sub :=
  repeat first
    [ reflexivity
    | rewrite IH
    | rewrite mirror_sub
    | apply bind_ext; intros ? ?
    | match goal with |- (if ?c then _ else _) = _ => destruct c end
    | progress simpl ].

Ltac mirror IH mirror_sub :=
  let f := fresh "f" in
  intros f; induction f as [|f IH]; intros limit count t; [reflexivity|];
  simpl; destruct (limit_hit limit count); [reflexivity|];
  destruct t as [i|b|l r]; unfold opt_run; mirror_fin IH mirror_sub.

Lemma mirror_cbn : forall fuel limit count t, beta_cbn fuel limit count t = beta_g fuel limit CBN count t.
Proof. pose proof (eq_refl 0) as mirror_sub. mirror IH mirror_sub. Qed.

Lemma mirror_cbv : forall fuel limit count t, beta_cbv fuel limit count t = beta_g fuel limit CBV count t.
Proof. pose proof (eq_refl 0) as mirror_sub. mirror IH mirror_sub. Qed.

Lemma mirror_app : forall fuel limit count t, beta_app fuel limit count t = beta_g fuel limit APP count t.
Proof. pose proof (eq_refl 0) as mirror_sub. mirror IH mirror_sub. Qed.

Lemma mirror_hsp : forall fuel limit count t, beta_hsp fuel limit count t = beta_g fuel limit HSP count t.
Proof. pose proof (eq_refl 0) as mirror_sub. mirror IH mirror_sub. Qed.

Lemma mirror_nor : forall fuel limit count t, beta_nor fuel limit count t = beta_g fuel limit NOR count t.
Proof. mirror IH mirror_cbn. Qed.

Lemma mirror_hno : forall fuel limit count t, beta_hno fuel limit count t = beta_g fuel limit HNO count t.
Proof. mirror IH mirror_hsp. Qed.

Lemma mirror_hap : forall fuel limit count t, beta_hap fuel limit count t = beta_g fuel limit HAP count t.
Proof. mirror IH mirror_cbv. Qed.

Theorem reduce_m_g fuel o limit t : reduce_m fuel o limit t = beta_g fuel limit o 0 t.
Proof.
  destruct o; simpl; auto using mirror_nor, mirror_cbn, mirror_hsp, mirror_hno, mirror_app, mirror_cbv, mirror_hap.
Qed.

(** ** The explicit step functions of the Spec are the table-driven one *)
Theorem step_g_spec : forall t o, step_g o t = step_of o t.
Proof.
  induction t as [i|b IH|l IHl r IHr]; intros o.
  - destruct o; reflexivity.
  - destruct o; simpl; rewrite ?IH; reflexivity.
  - destruct o; simpl; rewrite ?IHl, ?IHr; simpl; reflexivity.
Qed.
