(** * The predicates and accessors of the model meet their definitions (C18, C19) *)
From LC Require Import Model.TermOps Spec.Predicates.

(** ** has_free_variables *)
Lemma hfv_helper d t : has_free_variables_helper d t = negb (closed_at d t) || has_ud t.
Proof.
  revert d; induction t as [i|b IH|l IHl r IHr]; intros d; simpl.
  - destruct (Nat.ltb_spec d i), (Nat.leb_spec i d); try lia; reflexivity.
  - apply IH.
  - rewrite IHl, IHr. destruct (closed_at d l), (closed_at d r), (has_ud l), (has_ud r); reflexivity.
Qed.

Theorem has_free_variables_spec t : has_free_variables t = has_fv_spec t.
Proof. apply hfv_helper. Qed.

(** ** max_depth *)
Lemma list_max_app_ l1 l2 : list_max (l1 ++ l2) = Nat.max (list_max l1) (list_max l2).
Proof. apply list_max_app. Qed.

Lemma max_depth_leaf d t : list_max (leaf_depths d t) = d + max_depth t.
Proof.
  revert d; induction t as [i|b IH|l IHl r IHr]; intros d; simpl.
  - lia.
  - rewrite IH. lia.
  - rewrite list_max_app_, IHl, IHr. lia.
Qed.

Theorem max_depth_spec_ok t : max_depth t = max_depth_spec t.
Proof. unfold max_depth_spec. rewrite max_depth_leaf. reflexivity. Qed.

(** ** is_isomorphic_to *)
Theorem is_isomorphic_to_spec t u : is_isomorphic_to t u = true <-> t = u.
Proof.
  assert (E : forall t u, is_isomorphic_to t u = term_eqb t u).
  { induction t0; destruct u0; simpl; auto. }
  rewrite E. apply term_eqb_eq.
Qed.

(** ** is_supercombinator *)

(** the recursive reading of the loop *)
Fixpoint sc_aux (d : nat) (t : term) : bool :=
  match t with
  | Var i => i <=? d
  | Abs b => sc_aux (S d) b
  | App l r =>
      (if is_abs l then sc_aux 0 l else sc_aux d l) && (if is_abs r then sc_aux 0 r else sc_aux d r)
  end.

Fixpoint stack_size (s : list (nat * term)) : nat :=
  match s with [] => 0 | (_, t) :: r => size t + stack_size r end.

Lemma sc_loop_ok : forall fuel stack, stack_size stack < fuel ->
  sc_loop fuel stack = Some (forallb (fun p => sc_aux (fst p) (snd p)) stack).
Proof.
  induction fuel as [|f IH]; intros stack Hf; [lia|].
  destruct stack as [|[d t] rest]; simpl; auto.
  destruct t as [i|b|l r]; simpl in *.
  - destruct (Nat.ltb_spec d i), (Nat.leb_spec i d); try lia; auto. apply IH. lia.
  - rewrite IH by (simpl; lia). reflexivity.
  - rewrite IH by (simpl; lia). simpl. unfold child_depth.
    destruct (is_abs l), (is_abs r);
      repeat match goal with |- context[sc_aux ?a ?b] => destruct (sc_aux a b) end; reflexivity.
Qed.

Lemma is_supercombinator_aux t : is_supercombinator t = Some (sc_aux 0 t).
Proof.
  unfold is_supercombinator. rewrite sc_loop_ok by (simpl; lia). simpl. rewrite andb_true_r. reflexivity.
Qed.

Lemma strip_not_abs t : is_abs t = false -> strip t = t.
Proof. destruct t; simpl; auto; discriminate. Qed.

Lemma sc_aux_spec : forall t d, sc_aux d t = true <-> closed_at d t = true /\ all_abs_sc (strip t).
Proof.
  induction t as [i|b IH|l IHl r IHr]; intros d; simpl.
  - split; [intros H; split; auto; constructor|tauto].
  - apply IH.
  - assert (sub : forall u, (forall d, sc_aux d u = true <-> closed_at d u = true /\ all_abs_sc (strip u)) ->
               ((if is_abs u then sc_aux 0 u else sc_aux d u) = true <-> closed_at d u = true /\ all_abs_sc u)).
    { intros u IHu. destruct (is_abs u) eqn:A.
      - rewrite IHu. split.
        + intros [C S]. split; [eapply closed_at_mono; [|exact C]; lia|].
          destruct u; try discriminate. constructor. constructor; auto.
        + intros [C S]. inversion S; subst; try discriminate. inversion H; subst. auto.
      - rewrite IHu, strip_not_abs by auto. tauto. }
    rewrite !andb_true_iff, (sub l IHl), (sub r IHr). split.
    + intros [[? ?] [? ?]]. split; auto. constructor; auto.
    + intros [[? ?] S]. inversion S; subst. auto.
Qed.

Theorem is_supercombinator_spec t b :
  is_supercombinator t = Some b -> (b = true <-> supercomb t).
Proof.
  rewrite is_supercombinator_aux. intros E; inversion E; subst. rewrite sc_aux_spec. split.
  - intros [C S]. constructor; auto.
  - intros S. inversion S; subst. auto.
Qed.

Theorem is_supercombinator_total t : exists b, is_supercombinator t = Some b.
Proof. rewrite is_supercombinator_aux. eauto. Qed.

(** ** accessors (C19) *)
Lemma unvar_var n : unvar (Var n) = inr n. Proof. reflexivity. Qed.
Lemma unabs_abs b : unabs (Abs b) = inr b. Proof. reflexivity. Qed.
Lemma unapp_app l r : unapp (App l r) = inr (l, r). Proof. reflexivity. Qed.
Lemma lhs_app l r : lhs (App l r) = inr l. Proof. reflexivity. Qed.
Lemma rhs_app l r : rhs (App l r) = inr r. Proof. reflexivity. Qed.

Lemma unvar_err t : (forall n, t <> Var n) -> unvar t = inl NotVar.
Proof. destruct t; simpl; auto. intros H; exfalso; eapply H; eauto. Qed.
Lemma unabs_err t : (forall b, t <> Abs b) -> unabs t = inl NotAbs.
Proof. destruct t; simpl; auto. intros H; exfalso; eapply H; eauto. Qed.
Lemma unapp_err t : (forall l r, t <> App l r) -> unapp t = inl NotApp.
Proof. destruct t; simpl; auto. intros H; exfalso; eapply H; eauto. Qed.
Lemma lhs_err t : (forall l r, t <> App l r) -> lhs t = inl NotApp.
Proof. destruct t; simpl; auto. intros H; exfalso; eapply H; eauto. Qed.
Lemma rhs_err t : (forall l r, t <> App l r) -> rhs t = inl NotApp.
Proof. destruct t; simpl; auto. intros H; exfalso; eapply H; eauto. Qed.

(** lens laws for the [_mut] forms *)
Lemma get_set_var n t m : unvar t = inr m -> unvar (set_var n t) = inr n.
Proof. destruct t; simpl; congruence. Qed.
Lemma set_get_var t m : unvar t = inr m -> set_var m t = t.
Proof. destruct t; simpl; congruence. Qed.
Lemma get_set_abs b t m : unabs t = inr m -> unabs (set_abs b t) = inr b.
Proof. destruct t; simpl; congruence. Qed.
Lemma get_set_app_l x t l r : unapp t = inr (l, r) -> unapp (set_app_l x t) = inr (x, r).
Proof. destruct t; simpl; congruence. Qed.
Lemma get_set_app_r x t l r : unapp t = inr (l, r) -> unapp (set_app_r x t) = inr (l, x).
Proof. destruct t; simpl; congruence. Qed.
Lemma set_err_noop_var n t e : unvar t = inl e -> set_var n t = t.
Proof. destruct t; simpl; congruence. Qed.
Lemma set_err_noop_abs b t e : unabs t = inl e -> set_abs b t = t.
Proof. destruct t; simpl; congruence. Qed.
Lemma set_err_noop_app x t e : unapp t = inl e -> set_app_l x t = t /\ set_app_r x t = t.
Proof. destruct t; simpl; split; congruence. Qed.

(** macros *)
Lemma abs_macro_abs_n n t : abs_macro n t = abs_n n t.
Proof. revert t; induction n; intros; simpl; auto. rewrite IHn, abs_n_out. reflexivity. Qed.
Lemma app_macro_app_l t args : app_macro t args = app_l t args.
Proof. reflexivity. Qed.
