(** * From "reduces to the expected normal form" to "this is what reduce(NOR|HNO, 0) returns" *)
From LC Require Import Spec.Encodings Spec.Confluence Spec.NorEval Model.Reduction Proofs.Normalise Proofs.Convert.

(** [returns o t v]: the model of [Term::reduce(o, 0)] applied to [t] terminates and leaves exactly [v] *)
Definition returns (o : order) (t v : term) : Prop := exists fuel c, reduce_m fuel o 0 t = Some (v, c).
Definition lazy (o : order) : Prop := o = NOR \/ o = HNO.

Theorem lazy_returns o t v : lazy o -> red t v -> nfb v = true -> returns o t v.
Proof. intros [->| ->] R N; [apply nor_normalises|apply hno_reduce_normalises]; auto. Qed.

Lemma bool_nf b : nfb (bool_t b) = true. Proof. destruct b; reflexivity. Qed.
Lemma pair_nf a b : nfb a = true -> nfb b = true -> nfb (pair_t a b) = true.
Proof. intros Ha Hb. unfold pair_t. cbn [nfb is_abs negb andb]. rewrite Ha, Hb. reflexivity. Qed.
