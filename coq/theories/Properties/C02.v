(** C02 — Term::apply is capture-avoiding substitution (and refuses non-abstractions) *)
From LC Require Import Model.Reduction Proofs.Apply Proofs.MachineInt.

(** the model of apply computes the textbook single-variable substitution ... *)
Theorem C02_apply_is_subst : forall b a, apply_m (Abs b) a = inr (subst 1 a b).
Proof. exact apply_m_abs. Qed.

(** ... and, independently, the parallel substitution [1 := a, i+1 := i] *)
Theorem C02_apply_is_parallel_subst : forall b a, apply_m (Abs b) a = inr (inst (beta_sub a) b).
Proof. exact apply_m_abs_inst. Qed.

(** on anything that is not an abstraction: Err(NotAbs), receiver untouched *)
Theorem C02_not_abs : forall t a, is_abs t = false -> apply_m t a = inl (NotAbs, t).
Proof. exact apply_m_not_abs. Qed.

(** every outer reference of the result is one of the abstraction or of the argument *)
Theorem C02_free_variables : forall a b, incl (fv (subst 1 a b)) (fv (Abs b) ++ fv a).
Proof. exact fv_subst1. Qed.

(** UD is never substituted for, shifted or captured *)
Theorem C02_ud_inert : forall k a d c, 1 <= k -> subst k a (Var 0) = Var 0 /\ shift d c (Var 0) = Var 0.
Proof. intros; split; [apply subst_ud; auto|apply shift_ud]. Qed.

(** non-vacuity: a body whose variables cross two binders, an open argument *)
Example C02_example :
  apply_m (Abs (Abs (App (App (Var 4) (Var 2)) (Abs (App (Var 1) (Var 3)))))) (Abs (App (Var 5) (Var 1)))
  = inr (Abs (App (App (Var 3) (Abs (App (Var 6) (Var 1)))) (Abs (App (Var 1) (Abs (App (Var 7) (Var 1))))))).
Proof. reflexivity. Qed.

(** machine arithmetic: for ANY word size [W], if the largest index of the argument plus the binder depth of the receiver
    (plus one), and the binder depth of the argument, are below [W], then none of the usize additions / subtractions
    that [apply] performs over- or underflows ([apply_safe] is generated from the source next to [apply_m]); hence the
    unbounded [nat] of the model computes what the crate computes, in debug and release builds.  Every contraction
    the reducer performs inside a term that [fits] is covered, and sub-terms of a fitting term fit. *)
Theorem C02_machine_arithmetic : forall W b rhs,
  max_idx rhs + S (bdepth b) < W -> bdepth rhs < W -> apply_safe W (Abs b) rhs = true.
Proof. exact apply_safe_ok. Qed.
Theorem C02_machine_arithmetic_redex : forall W b a, fits W (App (Abs b) a) -> apply_safe W (Abs b) a = true.
Proof. exact redex_safe. Qed.
Theorem C02_fits_subterms : forall W l r b,
  (fits W (App l r) -> fits W l /\ fits W r) /\ (fits W (Abs b) -> fits W b).
Proof. intros. split; [apply fits_app|apply fits_abs]. Qed.

Print Assumptions C02_apply_is_subst.
Print Assumptions C02_apply_is_parallel_subst.
Print Assumptions C02_not_abs.
Print Assumptions C02_free_variables.
Print Assumptions C02_ud_inert.
Print Assumptions C02_machine_arithmetic.
Print Assumptions C02_machine_arithmetic_redex.
Print Assumptions C02_fits_subterms.
