(** C11 — De Bruijn-notation Debug output parses back to the identical term *)
From LC Require Import Spec.Printing Model.Parser Model.Display Proofs.Printing Proofs.RoundTripDbr Gen.PrintSrc Proofs.PrintSrcTie.

(** for every term (open or closed) whose indices lie in 1..15, under both glyphs: parsing the
    Debug output of the model with the model of the parser yields exactly the original term.
    ([classify] gives the std character classes of the characters Debug emits; it is compared
    with Rust's std on every printed string by the check.) *)
Theorem C11_roundtrip : forall lam t, (lam = 955%N \/ lam = 92%N) -> indices_in 1 15 t = true ->
  parse (map classify (debug lam t)) DeBruijn = inr t.
Proof. exact debug_roundtrip. Qed.

(** the documented compact format: one upper-case hex digit per index, the glyph, no whitespace,
    parentheses only around abstractions in operator/operand position and applications in operand position *)
Theorem C11_format : forall lam t, indices_in 1 15 t = true -> debug lam t = ref_print_dbr lam t.
Proof. exact debug_format. Qed.

(** The same statements about the printer REGENERATED from src/term.rs on every run (Gen/PrintSrc.v,
    lib/trans_print.py: show_precedence_dbr, parenthesize_if, the Debug impl; `{:X}` is the modelled upper_hex). *)
Theorem C11_src_roundtrip : forall lam t, (lam = 955%N \/ lam = 92%N) -> indices_in 1 15 t = true ->
  parse (map classify (PSrc.debug lam t)) DeBruijn = inr t.
Proof. exact src_debug_roundtrip. Qed.
Theorem C11_src_format : forall lam t, indices_in 1 15 t = true -> PSrc.debug lam t = ref_print_dbr lam t.
Proof. exact src_debug_format. Qed.

Example C11_example :
  debug 955%N (App (Var 15) (App (Abs (Var 10)) (App (Var 1) (Var 2)))) = [70; 40; 40; 955; 65; 41; 40; 49; 50; 41; 41]%N.
Proof. vm_compute. reflexivity. Qed.

Print Assumptions C11_roundtrip.
Print Assumptions C11_format.
Print Assumptions C11_src_roundtrip.
Print Assumptions C11_src_format.
