(** C01 — reduce/beta performs only genuine beta-contractions and counts them exactly *)
From LC Require Import Model.Reduction Proofs.Apply Proofs.Sound.

(** for every term, order, limit (and every fuel on which the model returns):
    the result is reachable by exactly [c] one-step beta contractions *)
Theorem C01_reduce : forall fuel o n t t' c,
  reduce_m fuel o n t = Some (t', c) -> steps step c t t'.
Proof. exact reduce_steps. Qed.

Theorem C01_zero : forall fuel o n t t', reduce_m fuel o n t = Some (t', 0) -> t' = t.
Proof. intros fuel o n t t' H. apply reduce_steps in H. inversion H; auto. Qed.

Theorem C01_beta : forall fuel t o n, beta_fn fuel t o n = option_map fst (reduce_m fuel o n t).
Proof. reflexivity. Qed.

(** each contraction replaces (λ.b) a by b with a substituted capture-avoidingly: this is the
    definition of [step] (constructor [s_beta]); UD is an inert constant of that substitution *)
Theorem C01_ud_inert : forall k a d c, 1 <= k -> subst k a (Var 0) = Var 0 /\ shift d c (Var 0) = Var 0.
Proof. intros; split; [apply subst_ud; auto|apply shift_ud]. Qed.

(** non-vacuity: an open term whose variable crosses two binders, under every order *)
Example C01_example :
  forall o, exists t' c, reduce_m 50 o 0 (App (Abs (Abs (App (Var 2) (App (Var 1) (Var 4))))) (Abs (App (Var 3) (Var 1)))) = Some (t', S c).
Proof. destruct o; eexists; eexists; vm_compute; reflexivity. Qed.

Print Assumptions C01_reduce.
Print Assumptions C01_zero.
Print Assumptions C01_beta.
Print Assumptions C01_ud_inert.
