(** * Head reduction: head normalisation, and head length is non-increasing under beta.
      Foundation for the normalisation of the head-spine (HSP) and hybrid normal (HNO) strategies. *)
From LC Require Export Spec.Standard Spec.Confluence.

(** head reduction: call-by-name under the lambda prefix *)
Fixpoint step_head (t : term) : option term :=
  match t with
  | Abs b => option_map Abs (step_head b)
  | _ => step_cbn t
  end.

Lemma step_head_app l r : step_head (App l r) = step_cbn (App l r).
Proof. reflexivity. Qed.

Lemma step_head_sound : forall t u, step_head t = Some u -> step t u.
Proof.
  induction t as [i|b IH|l IHl r IHr]; intros u H; simpl in H; try discriminate.
  - destruct (step_head b) eqn:E; inversion H; subst. constructor; auto.
  - apply wh_step. apply wh_cbn. exact H.
Qed.

(** stuck = head normal form *)
Lemma cbn_stuck_neutral_or_abs t : step_cbn t = None -> is_abs t = true \/ neutralb t = true.
Proof.
  induction t as [i|b IH|l IHl r IHr]; simpl; auto.
  destruct (step_cbn l) eqn:E; [discriminate|].
  destruct l; try discriminate; intros _; right; simpl.
  - reflexivity.
  - destruct (IHl eq_refl) as [A|N]; [discriminate|exact N].
Qed.

Lemma neutral_cbn_stuck t : neutralb t = true -> step_cbn t = None.
Proof.
  induction t as [i|b IH|l IHl r IHr]; simpl; auto; try discriminate.
  intros N. rewrite (IHl N). destruct l; auto; discriminate.
Qed.

Lemma head_stuck_hnf t : step_head t = None <-> hnfb t = true.
Proof.
  induction t as [i|b IH|l IHl r IHr].
  - simpl; tauto.
  - simpl. destruct (step_head b); simpl.
    + split; [discriminate|]. intros H. apply IH in H. discriminate.
    + split; auto. intros _. apply IH. reflexivity.
  - rewrite step_head_app. cbn [hnfb]. split.
    + intros H. destruct (cbn_stuck_neutral_or_abs _ H) as [A|N]; [discriminate|exact N].
    + intros N. apply (neutral_cbn_stuck (App l r)). exact N.
Qed.

(** substitutivity *)
Lemma step_cbn_subst k a : 1 <= k -> forall t u, step_cbn t = Some u -> step_cbn (subst k a t) = Some (subst k a u).
Proof. intros Hk t u H. apply wh_cbn. apply wh_subst; auto. apply wh_cbn; auto. Qed.

Lemma step_head_subst : forall t k a u, 1 <= k -> step_head t = Some u -> step_head (subst k a t) = Some (subst k a u).
Proof.
  induction t as [i|b IH|l IHl r IHr]; intros k a u Hk H.
  - discriminate.
  - simpl in H. destruct (step_head b) eqn:E; inversion H; subst. simpl. rewrite (IH (S k) a t) by (auto; lia). reflexivity.
  - rewrite step_head_app in H. change (subst k a (App l r)) with (App (subst k a l) (subst k a r)).
    rewrite step_head_app. apply (step_cbn_subst k a Hk (App l r) u H).
Qed.

(** ** head length *)
Definition HL (t : term) (n : nat) : Prop := exists u, iter step_head n t = Some u /\ step_head u = None.

Lemma HL_zero t : step_head t = None -> HL t 0.
Proof. intros H. exists t. auto. Qed.
Lemma HL_succ t t' n : step_head t = Some t' -> HL t' n -> HL t (S n).
Proof. intros H [u [I S]]. exists u. simpl. rewrite H. auto. Qed.
Lemma HL_inv t n : HL t n ->
  match step_head t with
  | None => n = 0
  | Some t' => exists m, n = S m /\ HL t' m
  end.
Proof.
  intros [u [I S]]. destruct (step_head t) as [t'|] eqn:E.
  - destruct n; simpl in I; [inversion I; subst; congruence|]. rewrite E in I. exists n. split; auto. exists u; auto.
  - destruct n; auto. simpl in I. rewrite E in I. discriminate.
Qed.
Lemma HL_abs b n : HL (Abs b) n <-> HL b n.
Proof.
  assert (G : forall n b u, iter step_head n (Abs b) = Some u <-> exists u', u = Abs u' /\ iter step_head n b = Some u').
  { induction n0; intros b0 u; simpl.
    - split; [intros H; inversion H; eauto|intros (u' & -> & H); inversion H; auto].
    - destruct (step_head b0); simpl; [apply IHn0|]. split; [discriminate|intros (u' & _ & H); discriminate]. }
  split.
  - intros (u & I & S). apply G in I. destruct I as (u' & -> & I). exists u'. split; auto.
    simpl in S. destruct (step_head u'); [discriminate|reflexivity].
  - intros (u & I & S). exists (Abs u). split; [apply G; eauto|]. simpl. rewrite S. reflexivity.
Qed.

(** ** head normalisation (from standardisation) *)
Lemma whs_head t u : whs t u -> exists n, iter step_head n t = Some u.
Proof.
  induction 1 as [|x y z H _ [n IH]].
  - exists 0; reflexivity.
  - exists (S n). simpl. assert (E : step_head x = Some y).
    { inversion H; subst; apply wh_cbn in H; exact H. }
    rewrite E. exact IH.
Qed.

Lemma iter_head_abs n b u : iter step_head n b = Some u -> iter step_head n (Abs b) = Some (Abs u).
Proof.
  revert b; induction n; simpl; intros b H; [congruence|].
  destruct (step_head b); [simpl; auto|discriminate].
Qed.

Theorem st_head_normal : forall t h, st t h -> hnfb h = true -> exists n, HL t n.
Proof.
  intros t h H. induction H as [t i W|t b b' W Sb IH|t l r l' r' W Sl IHl Sr IHr]; intros N.
  - destruct (whs_head _ _ W) as [n I]. exists n, (Var i). auto.
  - simpl in N. destruct (IH N) as (m & u & I & S). destruct (whs_head _ _ W) as [n I0].
    exists (n + m), (Abs u). split.
    + eapply iter_plus; [exact I0|apply iter_head_abs; auto].
    + simpl. rewrite S. reflexivity.
  - simpl in N. destruct (st_neutral _ _ (st_app _ _ _ _ _ W Sl Sr)) as (u0 & W0 & N0); [exact N|].
    destruct (whs_head _ _ W0) as [n I]. exists n, u0. split; auto.
    destruct u0; simpl in N0; try discriminate; auto. apply (neutral_cbn_stuck (App u0_1 u0_2)). exact N0.
Qed.

Theorem head_normalization t h : red t h -> hnfb h = true -> exists n, HL t n.
Proof. intros H N. eapply st_head_normal; [apply standardization; eauto|auto]. Qed.

(** ** head steps commute with parallel reduction; head length never grows along a reduction *)
Lemma par_abs_inv b u : par (Abs b) u -> exists b', u = Abs b' /\ par b b'.
Proof. intros H. inversion H; subst. eauto. Qed.

Lemma par_cbn : forall t u, par t u -> forall t', step_cbn t = Some t' ->
  par t' u \/ exists u', step_cbn u = Some u' /\ par t' u'.
Proof.
  induction 1 as [i|b b2 Pb IH|l l2 r r2 Pl IHl Pr IHr|b b2 a a2 Pb IHb Pa IHa]; intros t' H.
  - discriminate.
  - discriminate.
  - simpl in H. destruct (step_cbn l) as [l1|] eqn:E.
    + inversion H; subst. destruct (IHl l1 eq_refl) as [P|(l3 & S3 & P3)].
      * left. constructor; auto.
      * right. exists (App l3 r2). split; [simpl; rewrite S3; reflexivity|constructor; auto].
    + destruct l as [j|lb|l1' l2']; try discriminate. inversion H; subst.
      destruct (par_abs_inv _ _ Pl) as (b2 & -> & Pb).
      right. exists (subst 1 r2 b2). split; [reflexivity|]. apply par_subst; auto.
  - simpl in H. inversion H; subst. left. apply par_subst; auto.
Qed.

Lemma cbn_head t u : step_cbn t = Some u -> step_head t = Some u.
Proof. destruct t; simpl; auto; discriminate. Qed.

Lemma par_head : forall t u, par t u -> forall t', step_head t = Some t' ->
  par t' u \/ exists u', step_head u = Some u' /\ par t' u'.
Proof.
  induction 1 as [i|b b2 Pb IH|l l2 r r2 Pl IHl Pr IHr|b b2 a a2 Pb IHb Pa IHa]; intros t' H.
  - discriminate.
  - simpl in H. destruct (step_head b) as [b1|] eqn:E; inversion H; subst.
    destruct (IH b1 eq_refl) as [P|(b3 & S3 & P3)].
    + left. constructor; auto.
    + right. exists (Abs b3). split; [simpl; rewrite S3; reflexivity|constructor; auto].
  - rewrite step_head_app in H.
    destruct (par_cbn _ _ (p_app _ _ _ _ Pl Pr) t' H) as [P|(u' & S' & P')]; auto.
    right. exists u'. split; auto; try (apply cbn_head; auto).
  - rewrite step_head_app in H.
    destruct (par_cbn _ _ (p_beta _ _ _ _ Pb Pa) t' H) as [P|(u' & S' & P')]; auto.
    right. exists u'. split; auto; try (apply cbn_head; auto).
Qed.

Lemma par_neutral t u : par t u -> neutralb t = true -> neutralb u = true.
Proof. induction 1; simpl; auto; discriminate. Qed.

Lemma par_hnf t u : par t u -> hnfb t = true -> hnfb u = true.
Proof.
  induction 1 as [i|b b2 Pb IH|l l2 r r2 Pl IHl Pr IHr|b b2 a a2 Pb IHb Pa IHa]; simpl; auto.
  - intros N. eapply par_neutral; eauto.
  - discriminate.
Qed.

Theorem HL_par : forall n t u, HL t n -> par t u -> exists m, m <= n /\ HL u m.
Proof.
  induction n as [n IH] using lt_wf_ind. intros t u H P.
  pose proof (HL_inv _ _ H) as I. destruct (step_head t) as [t'|] eqn:E.
  - destruct I as (m & -> & Hm).
    destruct (par_head _ _ P t' E) as [P'|(u' & S' & P')].
    + destruct (IH m ltac:(lia) _ _ Hm P') as (m' & L & H'). exists m'. split; [lia|auto].
    + destruct (IH m ltac:(lia) _ _ Hm P') as (m' & L & H'). exists (S m'). split; [lia|].
      eapply HL_succ; eauto.
  - subst n. exists 0. split; auto. apply HL_zero. apply head_stuck_hnf. eapply par_hnf; eauto.
    apply head_stuck_hnf; auto.
Qed.

Theorem HL_red t u n : red t u -> HL t n -> exists m, m <= n /\ HL u m.
Proof.
  intros R. apply red_star_par in R. revert n. induction R as [|x y z P _ IH]; intros n H.
  - exists n. auto.
  - destruct (HL_par _ _ _ H P) as (m & L & Hm). destruct (IH m Hm) as (m' & L' & H'). exists m'. split; [lia|auto].
Qed.

(** substitution instances have at least as long a head reduction *)
Theorem HL_subst : forall m t k a, 1 <= k -> HL (subst k a t) m -> exists m', m' <= m /\ HL t m'.
Proof.
  induction m as [m IH] using lt_wf_ind. intros t k a Hk H.
  destruct (step_head t) as [t'|] eqn:E.
  - pose proof (step_head_subst t k a t' Hk E) as E'.
    pose proof (HL_inv _ _ H) as I. rewrite E' in I. destruct I as (m1 & -> & H1).
    destruct (IH m1 ltac:(lia) t' k a Hk H1) as (m' & L & H'). exists (S m'). split; [lia|]. eapply HL_succ; eauto.
  - exists 0. split; [lia|]. apply HL_zero; auto.
Qed.

(** the operator of an application with a head normal form has one, found no later *)
Theorem HL_app : forall n l r, HL (App l r) n -> exists m, m <= n /\ HL l m.
Proof.
  induction n as [n IH] using lt_wf_ind. intros l r H.
  pose proof (HL_inv _ _ H) as I. rewrite step_head_app in I. simpl in I.
  destruct (step_cbn l) as [l1|] eqn:E.
  - destruct I as (m & -> & Hm). destruct (IH m ltac:(lia) l1 r Hm) as (m' & L & H').
    exists (S m'). split; [lia|]. eapply HL_succ; eauto. apply cbn_head; auto.
  - destruct l as [j|b|l1 l2].
    + exists 0. split; [lia|]. apply HL_zero. reflexivity.
    + destruct I as (m & -> & Hm). destruct (HL_subst m b 1 r ltac:(lia) Hm) as (m' & L & H').
      exists m'. split; [lia|]. apply HL_abs. auto.
    + exists 0. split; [lia|]. apply HL_zero. rewrite step_head_app. exact E.
Qed.
