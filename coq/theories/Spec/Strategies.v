(** * The seven reduction strategies as stateless one-step functions,
      written from their textbook descriptions (Sestoft, "Demonstrating lambda
      calculus reduction"), and the normal form each one aims at. *)
From LC Require Export Spec.Beta.

Inductive order := NOR | CBN | HSP | HNO | APP | CBV | HAP.

Definition order_eq_dec (a b : order) : {a = b} + {a <> b}.
Proof. decide equality. Defined.

Definition beta_top (t : term) : option term :=
  match t with App (Abs b) a => Some (subst 1 a b) | _ => None end.

(** call-by-name: the head redex, never under a lambda, never in an operand *)
Fixpoint step_cbn (t : term) : option term :=
  match t with
  | App l r =>
      match step_cbn l with
      | Some l' => Some (App l' r)
      | None => match l with Abs b => Some (subst 1 r b) | _ => None end
      end
  | _ => None
  end.

(** normal order: leftmost-outermost redex *)
Fixpoint step_nor (t : term) : option term :=
  match t with
  | Var _ => None
  | Abs b => option_map Abs (step_nor b)
  | App l r =>
      match step_cbn l with
      | Some l' => Some (App l' r)
      | None =>
          match l with
          | Abs b => Some (subst 1 r b)
          | _ => match step_nor l with
                 | Some l' => Some (App l' r)
                 | None => option_map (App l) (step_nor r)
                 end
          end
      end
  end.

(** call-by-value: operator, then operand, to weak normal form, then the redex;
    never under a lambda *)
Fixpoint step_cbv (t : term) : option term :=
  match t with
  | App l r =>
      match step_cbv l with
      | Some l' => Some (App l' r)
      | None =>
          match step_cbv r with
          | Some r' => Some (App l r')
          | None => match l with Abs b => Some (subst 1 r b) | _ => None end
          end
      end
  | _ => None
  end.

(** applicative order: leftmost-innermost redex *)
Fixpoint step_app (t : term) : option term :=
  match t with
  | Var _ => None
  | Abs b => option_map Abs (step_app b)
  | App l r =>
      match step_app l with
      | Some l' => Some (App l' r)
      | None =>
          match step_app r with
          | Some r' => Some (App l r')
          | None => match l with Abs b => Some (subst 1 r b) | _ => None end
          end
      end
  end.

(** head spine: like call-by-name, but the body of an abstraction in head
    position is reduced (to head normal form) before the abstraction is applied *)
Fixpoint step_hsp (t : term) : option term :=
  match t with
  | Var _ => None
  | Abs b => option_map Abs (step_hsp b)
  | App l r =>
      match step_hsp l with
      | Some l' => Some (App l' r)
      | None => match l with Abs b => Some (subst 1 r b) | _ => None end
      end
  end.

(** hybrid normal order: head spine on the operator, then normal order *)
Fixpoint step_hno (t : term) : option term :=
  match t with
  | Var _ => None
  | Abs b => option_map Abs (step_hno b)
  | App l r =>
      match step_hsp l with
      | Some l' => Some (App l' r)
      | None =>
          match l with
          | Abs b => Some (subst 1 r b)
          | _ => match step_hno l with
                 | Some l' => Some (App l' r)
                 | None => option_map (App l) (step_hno r)
                 end
          end
      end
  end.

(** hybrid applicative order: call-by-value on the operator, hybrid applicative
    on the operand, the redex, then hybrid applicative on a stuck operator *)
Fixpoint step_hap (t : term) : option term :=
  match t with
  | Var _ => None
  | Abs b => option_map Abs (step_hap b)
  | App l r =>
      match step_cbv l with
      | Some l' => Some (App l' r)
      | None =>
          match step_hap r with
          | Some r' => Some (App l r')
          | None =>
              match l with
              | Abs b => Some (subst 1 r b)
              | _ => option_map (fun l' => App l' r) (step_hap l)
              end
          end
      end
  end.

Definition step_of (o : order) : term -> option term :=
  match o with
  | NOR => step_nor | CBN => step_cbn | HSP => step_hsp | HNO => step_hno
  | APP => step_app | CBV => step_cbv | HAP => step_hap
  end.

(** the normal form documented for each order *)
Definition nf_of (o : order) : term -> bool :=
  match o with
  | NOR | HNO | APP | HAP => nfb
  | CBN => whnfb
  | CBV => wnfb
  | HSP => hnfb
  end.

(** iteration of a step function *)
Fixpoint iter (f : term -> option term) (n : nat) (t : term) : option term :=
  match n with
  | 0 => Some t
  | S m => match f t with Some u => iter f m u | None => None end
  end.
