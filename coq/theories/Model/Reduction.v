(** * Gallina mirror of src/reduction.rs (function by function).

    [&mut self] becomes an input and an output term, [&mut count] is threaded as
    a pair component.  Rust recursion that may not terminate (limit 0) is given
    explicit fuel: [None] means "out of fuel", never a normal-looking value. *)
From LC Require Export Spec.Strategies.

Inductive term_error := NotVar | NotAbs | NotApp.

(** update_free_variables(added_depth, own_depth) *)
Fixpoint update_free_variables (added own : nat) (t : term) : term :=
  match t with
  | Var i => if own <? i then Var (i + added) else Var i
  | Abs b => Abs (update_free_variables added (S own) b)
  | App l r => App (update_free_variables added own l) (update_free_variables added own r)
  end.

(** _apply(rhs, depth) *)
Fixpoint apply_rec (rhs : term) (depth : nat) (t : term) : term :=
  match t with
  | Var i =>
      match i ?= depth with
      | Eq => update_free_variables (depth - 1) 0 rhs
      | Gt => Var (i - 1)
      | Lt => Var i
      end
  | Abs b => Abs (apply_rec rhs (S depth) b)
  | App l r => App (apply_rec rhs depth l) (apply_rec rhs depth r)
  end.

(** apply: [Err(NotAbs)] leaves the receiver untouched (the receiver is returned
    next to the error so that this can be stated) *)
Definition apply_m (t rhs : term) : (term_error * term) + term :=
  match t with
  | Abs _ =>
      match apply_rec rhs 0 t with   (* self._apply(rhs, 0) on the abstraction itself *)
      | Abs b' => inr b'             (* ret.unabs().unwrap() *)
      | other => inl (NotAbs, other) (* unreachable *)
      end
  | _ => inl (NotAbs, t)
  end.

(** eval: only called on [App (Abs _) _] *)
Definition eval_m (t : term) : term :=
  match t with
  | App l r => match apply_m l r with inr t' => t' | inl _ => t end
  | _ => t
  end.

Definition limit_hit (limit count : nat) : bool := negb (limit =? 0) && (count =? limit).

Definition is_reducible (t : term) (limit count : nat) : bool :=
  match t with
  | App (Abs _) _ => (limit =? 0) || (count <? limit)
  | _ => false
  end.

Definition R := option (term * nat).
Definition bind (x : R) (k : term -> nat -> R) : R :=
  match x with Some (t, c) => k t c | None => None end.
Definition ret (t : term) (c : nat) : R := Some (t, c).

Fixpoint beta_cbn (fuel limit count : nat) (t : term) : R :=
  match fuel with 0 => None | S f =>
    if limit_hit limit count then ret t count else
    match t with
    | App l r =>
        bind (beta_cbn f limit count l) (fun l1 c1 =>
        let t1 := App l1 r in
        if is_reducible t1 limit c1 then beta_cbn f limit (S c1) (eval_m t1)
        else ret t1 c1)
    | _ => ret t count
    end
  end.

Fixpoint beta_nor (fuel limit count : nat) (t : term) : R :=
  match fuel with 0 => None | S f =>
    if limit_hit limit count then ret t count else
    match t with
    | Abs b => bind (beta_nor f limit count b) (fun b1 c1 => ret (Abs b1) c1)
    | App l r =>
        bind (beta_cbn f limit count l) (fun l1 c1 =>
        let t1 := App l1 r in
        if is_reducible t1 limit c1 then beta_nor f limit (S c1) (eval_m t1)
        else
          bind (beta_nor f limit c1 l1) (fun l2 c2 =>
          bind (beta_nor f limit c2 r) (fun r2 c3 =>
          ret (App l2 r2) c3)))
    | _ => ret t count
    end
  end.

Fixpoint beta_cbv (fuel limit count : nat) (t : term) : R :=
  match fuel with 0 => None | S f =>
    if limit_hit limit count then ret t count else
    match t with
    | App l r =>
        bind (beta_cbv f limit count l) (fun l1 c1 =>
        bind (beta_cbv f limit c1 r) (fun r1 c2 =>
        let t1 := App l1 r1 in
        if is_reducible t1 limit c2 then beta_cbv f limit (S c2) (eval_m t1)
        else ret t1 c2))
    | _ => ret t count
    end
  end.

Fixpoint beta_app (fuel limit count : nat) (t : term) : R :=
  match fuel with 0 => None | S f =>
    if limit_hit limit count then ret t count else
    match t with
    | Abs b => bind (beta_app f limit count b) (fun b1 c1 => ret (Abs b1) c1)
    | App l r =>
        bind (beta_app f limit count l) (fun l1 c1 =>
        bind (beta_app f limit c1 r) (fun r1 c2 =>
        let t1 := App l1 r1 in
        if is_reducible t1 limit c2 then beta_app f limit (S c2) (eval_m t1)
        else ret t1 c2))
    | _ => ret t count
    end
  end.

Fixpoint beta_hap (fuel limit count : nat) (t : term) : R :=
  match fuel with 0 => None | S f =>
    if limit_hit limit count then ret t count else
    match t with
    | Abs b => bind (beta_hap f limit count b) (fun b1 c1 => ret (Abs b1) c1)
    | App l r =>
        bind (beta_cbv f limit count l) (fun l1 c1 =>
        bind (beta_hap f limit c1 r) (fun r1 c2 =>
        let t1 := App l1 r1 in
        if is_reducible t1 limit c2 then beta_hap f limit (S c2) (eval_m t1)
        else
          bind (beta_hap f limit c2 l1) (fun l2 c3 =>
          ret (App l2 r1) c3)))
    | _ => ret t count
    end
  end.

Fixpoint beta_hsp (fuel limit count : nat) (t : term) : R :=
  match fuel with 0 => None | S f =>
    if limit_hit limit count then ret t count else
    match t with
    | Abs b => bind (beta_hsp f limit count b) (fun b1 c1 => ret (Abs b1) c1)
    | App l r =>
        bind (beta_hsp f limit count l) (fun l1 c1 =>
        let t1 := App l1 r in
        if is_reducible t1 limit c1 then beta_hsp f limit (S c1) (eval_m t1)
        else ret t1 c1)
    | _ => ret t count
    end
  end.

Fixpoint beta_hno (fuel limit count : nat) (t : term) : R :=
  match fuel with 0 => None | S f =>
    if limit_hit limit count then ret t count else
    match t with
    | Abs b => bind (beta_hno f limit count b) (fun b1 c1 => ret (Abs b1) c1)
    | App l r =>
        bind (beta_hsp f limit count l) (fun l1 c1 =>
        let t1 := App l1 r in
        if is_reducible t1 limit c1 then beta_hno f limit (S c1) (eval_m t1)
        else
          bind (beta_hno f limit c1 l1) (fun l2 c2 =>
          bind (beta_hno f limit c2 r) (fun r2 c3 =>
          ret (App l2 r2) c3)))
    | _ => ret t count
    end
  end.

(** Term::reduce: [count] starts at 0 *)
Definition reduce_m (fuel : nat) (o : order) (limit : nat) (t : term) : R :=
  match o with
  | CBN => beta_cbn fuel limit 0 t
  | NOR => beta_nor fuel limit 0 t
  | CBV => beta_cbv fuel limit 0 t
  | APP => beta_app fuel limit 0 t
  | HSP => beta_hsp fuel limit 0 t
  | HNO => beta_hno fuel limit 0 t
  | HAP => beta_hap fuel limit 0 t
  end.

(** beta(term, order, limit) *)
Definition beta_fn (fuel : nat) (t : term) (o : order) (limit : nat) : option term :=
  option_map fst (reduce_m fuel o limit t).

(** a history of reduce calls on one term *)
Fixpoint run_history (fuel : nat) (h : list (order * nat)) (t : term) : option (term * list nat) :=
  match h with
  | [] => Some (t, [])
  | (o, n) :: h' =>
      match reduce_m fuel o n t with
      | None => None
      | Some (t1, c) =>
          match run_history fuel h' t1 with
          | None => None
          | Some (t2, cs) => Some (t2, c :: cs)
          end
      end
  end.
