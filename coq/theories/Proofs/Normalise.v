(** * Confluence and normalisation transported to the model of reduce (C06, C07) *)
From LC Require Import Model.Reduction Spec.Confluence Spec.Standard Proofs.Sound Proofs.ReduceProps.

Lemma nf_of_normalising o : (o = NOR \/ o = HNO \/ o = APP \/ o = HAP) -> nf_of o = nfb.
Proof. intros [->|[->|[->| ->]]]; reflexivity. Qed.

(** ** C07: NOR reaches every existing normal form *)
Theorem nor_normalises t v : red t v -> nfb v = true -> exists fuel c, reduce_m fuel NOR 0 t = Some (v, c).
Proof.
  intros H N. destruct (leftmost_normalization t v H N) as [n Hn].
  destruct (reduce_complete_unlimited NOR n t v) as [f E]; auto.
  - simpl. apply nfb_step_nor; auto.
  - exists f, n; auto.
Qed.

(** CBN terminates whenever a weak head normal form exists *)
Theorem cbn_normalises t w : red t w -> whnfb w = true -> exists fuel r, reduce_m fuel CBN 0 t = Some r.
Proof.
  intros H W. destruct (wh_normalization t w H W) as (w0 & Hw & W0).
  destruct (whs_iter_cbn _ _ Hw) as [n Hn].
  destruct (reduce_complete_unlimited CBN n t w0) as [f E]; auto.
  - apply (stuck_nf CBN). exact W0.
  - eauto.
Qed.

(** ** C06 *)
Theorem history_agree h1 h2 f1 f2 t u1 u2 cs1 cs2 :
  run_history f1 h1 t = Some (u1, cs1) -> run_history f2 h2 t = Some (u2, cs2) ->
  nfb u1 = true -> nfb u2 = true -> u1 = u2.
Proof.
  intros H1 H2 N1 N2. apply history_red in H1. apply history_red in H2.
  eapply nf_unique; eauto; apply nfb_nf; auto.
Qed.

Theorem orders_agree o1 o2 f1 f2 t u1 u2 c1 c2 :
  (o1 = NOR \/ o1 = HNO \/ o1 = APP \/ o1 = HAP) -> (o2 = NOR \/ o2 = HNO \/ o2 = APP \/ o2 = HAP) ->
  reduce_m f1 o1 0 t = Some (u1, c1) -> reduce_m f2 o2 0 t = Some (u2, c2) -> u1 = u2.
Proof.
  intros O1 O2 H1 H2.
  pose proof (reduce_stops_normal _ _ _ _ _ _ H1 (or_introl eq_refl)) as N1.
  pose proof (reduce_stops_normal _ _ _ _ _ _ H2 (or_introl eq_refl)) as N2.
  rewrite (nf_of_normalising _ O1) in N1. rewrite (nf_of_normalising _ O2) in N2.
  apply reduce_steps, steps_star in H1. apply reduce_steps, steps_star in H2.
  eapply nf_unique; eauto; apply nfb_nf; auto.
Qed.

(** after any history the term still has the same normal form, and NOR finds it *)
Theorem history_keeps_nf h f t t' cs v : run_history f h t = Some (t', cs) -> red t v -> nfb v = true ->
  red t' v /\ exists fuel c, reduce_m fuel NOR 0 t' = Some (v, c).
Proof.
  intros H R N. apply history_red in H.
  assert (red t' v) by (eapply nf_stable; eauto; apply nfb_nf; auto).
  split; auto. apply nor_normalises; auto.
Qed.

Theorem weaker_then_nor f1 f2 o n t w cw v cv :
  reduce_m f1 o n t = Some (w, cw) -> reduce_m f2 NOR 0 t = Some (v, cv) ->
  exists fuel c, reduce_m fuel NOR 0 w = Some (v, c).
Proof.
  intros H1 H2.
  pose proof (reduce_stops_normal _ _ _ _ _ _ H2 (or_introl eq_refl)) as N. simpl in N.
  apply reduce_steps, steps_star in H1. apply reduce_steps, steps_star in H2.
  apply nor_normalises; auto. eapply nf_stable; eauto. apply nfb_nf; auto.
Qed.

(** ** C07: HNO and HSP *)
From LC Require Import Proofs.HeadSpine.

Theorem hno_reduce_normalises t v : red t v -> nfb v = true -> exists fuel c, reduce_m fuel HNO 0 t = Some (v, c).
Proof.
  intros H N. destruct (hno_normalises t v H N) as [n Hn].
  destruct (reduce_complete_unlimited HNO n t v) as [f E]; auto.
  - apply (proj2 (stuck_nf HNO v)). exact N.
  - exists f, n; auto.
Qed.

Theorem hsp_reduce_normalises t h : red t h -> hnfb h = true -> exists fuel r, reduce_m fuel HSP 0 t = Some r.
Proof.
  intros H N. destruct (hsp_normalises t h H N) as (k & u & I & S).
  destruct (reduce_complete_unlimited HSP k t u) as [f E]; auto. eauto.
Qed.
