#!/usr/bin/env python3
"""Translator: the unary numeral constructors of /repo/src/data/num/convert.rs  ->  coq/theories/Gen/ConvertSrc.v (module CSrc)

`into_church`, `into_scott`, `into_parigot`, `into_stumpfu` (impls for usize) are REGENERATED from the Rust source on
every run of the C12 check; Proofs/ConvertSrcTie.v re-proves that they are the hand-written model loops of
Model/Convert.v, for which "constructor loop = closed form, closed, normal, decodable" was proved.

Idiom: `let mut ret = E0; for X in A..B { ret = E; } FINAL` with E built from `Var(k)`, `app(a, b)`, `abs!(k, e)`,
`app!(a, b, ..)`, `x.clone()`, `n.into_church()` (an already translated constructor), `x.unabs()`,
`.and_then(|r| e)`, `.unwrap()` (a panic is modelled by the inert `Var 0`, and the tie proof shows the branch is never
taken) and usize `+`.  The loop becomes `for_range A (B - A) (fun X ret => E) E0`.  `into_binary` (Rust's `{:b}`
formatting) and `into_signed` (i32 arithmetic) stay hand-written mirrors tied by the differential run.
"""
import re
import sys

from trans_reduction import TransError, P, split_top

FUNCS = ["into_church", "into_scott", "into_parigot", "into_stumpfu"]
IDENT = re.compile(r"[A-Za-z_]\w*$")


def tokens(src):
    src = re.sub(r"/\*.*?\*/", " ", src, flags=re.S)
    src = re.sub(r"//[^\n]*", " ", src)
    src = re.sub(r"b'(.)'", " 0 ", src)
    src = re.sub(r'"((?:[^"\\]|\\.)*)"', " STR__ ", src)
    return [t for t in re.findall(r"\s+|\d+|[A-Za-z_][A-Za-z0-9_]*|::|=>|==|!=|<=|>=|&&|\|\||\+=|-=|->|\.\.|[{}()\[\];,.&*=<>!+\-|?:#'%/@$^~]", src)
            if not t.isspace()]


class E:
    def __init__(self, known, what):
        self.known, self.what = known, what

    def err(self, m):
        raise TransError("%s: %s" % (self.what, m))

    def num(self, p, env):
        e = self.natom(p, env)
        while p.peek() == "+":
            p.next()
            e = "(%s + %s)" % (e, self.natom(p, env))
        return e

    def natom(self, p, env):
        x = p.next()
        if x.isdigit():
            return x
        if x in env and env[x][1] == "nat":
            return env[x][0]
        self.err("numeric expression at `%s`" % x)

    def args(self, p, env):
        return [self.term(P(a, self.what), env, True) for a in split_top(p.parens(), ",") if a]

    def term(self, p, env, whole=False):
        x = p.next()
        if x == "Var" and p.peek() == "(":
            e = "(Var %s)" % self.num(P(p.parens(), self.what), env)
        elif x == "app" and p.peek() == "(":
            a = self.args(p, env)
            if len(a) != 2:
                self.err("app(..) takes two arguments")
            e = "(app_c %s %s)" % (a[0], a[1])
        elif x in ("abs", "app") and p.peek() == "!":
            p.next()
            parts = [a for a in split_top(p.parens(), ",") if a]
            if x == "abs":
                if len(parts) != 2:
                    self.err("abs!(n, term)")
                e = "(abs_macro %s %s)" % (self.num(P(parts[0], self.what), env), self.term(P(parts[1], self.what), env, True))
            else:
                ts = [self.term(P(a, self.what), env, True) for a in parts]
                if len(ts) < 2:
                    self.err("app!(..) needs at least two terms")
                e = "(app_macro %s [%s])" % (ts[0], "; ".join(ts[1:]))
        elif x in env:
            e, ty = env[x]
            if ty == "nat":
                # n.into_church()
                if p.accept("."):
                    m = p.next()
                    if m in self.known and not p.parens():
                        e = "(%s %s)" % (m, e)
                    else:
                        self.err("method `.%s` on a number" % m)
                else:
                    self.err("a number where a term is expected")
        else:
            self.err("unexpected token `%s`" % x)
        # postfix on terms / results
        while p.peek() == ".":
            p.next()
            m = p.next()
            if m == "clone" and not p.parens():
                continue
            if m == "unabs" and not p.parens():
                e = "(TSrc.unabs %s)" % e
            elif m == "and_then":
                c = P(p.parens(), self.what)
                c.expect("|")
                r = c.ident()
                c.expect("|")
                env1 = dict(env)
                env1[r] = (r, "term")
                body = self.term(c, env1, True)
                e = "(match %s with inr %s => %s | inl err => inl err end)" % (e, r, body)
            elif m == "unwrap" and not p.parens():
                e = "(unwrap_term %s)" % e
            else:
                self.err("method `.%s(..)` is outside the translated idiom" % m)
        if whole and not p.eof():
            self.err("trailing tokens `%s`" % " ".join(p.rest()[:8]))
        return e


def find_fns(toks):
    p = P(toks, "convert.rs")
    fns = {}
    while not p.eof():
        if p.accept("impl"):
            hdr = []
            while p.peek() != "{":
                hdr.append(p.next())
            body = p.block()
            if hdr[-2:] != ["for", "usize"]:
                continue
            q = P(body, "impl")
            while not q.eof():
                if q.next() == "fn":
                    name = q.ident()
                    params = q.parens()
                    while q.peek() != "{":
                        q.next()
                    fns[name] = (params, q.block())
        else:
            p.next()
    return fns


def trans_fn(name, fns, known):
    what = "fn " + name
    params, body = fns[name]
    if params != ["self"]:
        raise TransError(what + ": parameters")
    ex = E(known, what)
    p = P(list(body), what)
    env = {"self": ("self_", "nat")}
    p.expect("let", "mut")
    ret = p.ident()
    p.expect("=")
    start = p.i
    while p.peek() != ";":
        p.next()
    init = ex.term(P(p.t[start:p.i], what), env, True)
    p.expect(";")
    p.expect("for")
    x = p.next()
    p.expect("in")
    start = p.i
    while p.peek() != "..":
        p.next()
    lo = ex.num(P(p.t[start:p.i], what), env)
    p.expect("..")
    start = p.i
    while p.peek() != "{":
        p.next()
    hi = ex.num(P(p.t[start:p.i], what), env)
    loop = P(p.block(), what)
    loop.expect(ret, "=")
    start = loop.i
    while not loop.eof() and loop.peek() != ";":
        loop.next()
    env1 = dict(env)
    env1[ret] = (ret, "term")
    var = "_"
    if x != "_":
        if not IDENT.match(x):
            raise TransError(what + ": loop variable")
        env1[x] = (x, "nat")
        var = x
    step = ex.term(P(loop.t[start:loop.i], what), env1, True)
    loop.accept(";")
    if not loop.eof():
        raise TransError(what + ": more than one statement in the loop")
    env2 = dict(env)
    env2[ret] = (ret, "term")
    final = ex.term(p, env2, False)
    p.accept(";")
    if not p.eof():
        raise TransError(what + ": statements after the result")
    return ("Definition %s (self_ : nat) : term :=\n  let %s := for_range %s (%s - %s) (fun %s %s => %s) %s in\n  %s.\n"
            % (name, ret, lo, hi, lo, var, ret, step, init, final))


def translate(src):
    fns = find_fns(tokens(src))
    out = ["(** GENERATED by lib/trans_convert.py from /repo/src/data/num/convert.rs on every run - do not edit. *)",
           "From Coq Require Import List Arith. Import ListNotations.",
           "From LC Require Import Model.Convert Gen.TermSrc.", "", "Module CSrc.", "",
           "(** for x in lo..lo+count { ret = f x ret } *)",
           "Fixpoint for_range (k count : nat) (f : nat -> term -> term) (ret : term) : term :=",
           "  match count with 0 => ret | S c => for_range (S k) c f (f k ret) end.",
           "(** Result::unwrap: a panic is modelled by the inert constant (the tie proof shows it is never produced) *)",
           "Definition unwrap_term (r : term_error + term) : term := match r with inr t => t | inl _ => Var 0 end.", ""]
    known = set()
    for name in FUNCS:
        if name not in fns:
            raise TransError("src/data/num/convert.rs no longer defines `fn %s` for usize" % name)
        out.append(trans_fn(name, fns, known))
        known.add(name)
    out.append("End CSrc.")
    return "\n".join(out) + "\n"


if __name__ == "__main__":
    try:
        text = translate(open(sys.argv[1] if len(sys.argv) > 1 else "/repo/src/data/num/convert.rs", encoding="utf-8").read())
    except TransError as e:
        print("TRANSLATION REFUSED: %s" % e)
        sys.exit(1)
    if len(sys.argv) > 2:
        open(sys.argv[2], "w", encoding="utf-8").write(text)
    else:
        print(text)
