(* parser / printer / data-encoding suites *)
open Lc_model
open Common

let rec pos_of_int (n : int) : positive =
  if n = 1 then XH else if n land 1 = 0 then XO (pos_of_int (n lsr 1)) else XI (pos_of_int (n lsr 1))
let n_of_int (n : int) : n = if n = 0 then N0 else Npos (pos_of_int n)
let rec int_of_pos = function XH -> 1 | XO p -> 2 * int_of_pos p | XI p -> 2 * int_of_pos p + 1
let int_of_n = function N0 -> 0 | Npos p -> int_of_pos p

(* "code:flags:digit" *)
let parse_chars (s : string) : cchar list =
  List.filter_map (fun x ->
      if x = "" then None else
        match String.split_on_char ':' x with
        | [c; f; d] ->
            let f = int_of_string f and d = int_of_string d in
            Some { code = n_of_int (int_of_string c); is_alphabetic = f land 1 <> 0; is_alphanumeric = f land 2 <> 0;
                   is_whitespace = f land 4 <> 0; to_digit16 = (if d < 0 then None else Some (nat_of_int d)) }
        | _ -> failwith "char field") (String.split_on_char ' ' s)

let codes_of_field (s : string) : int list =
  List.filter_map (fun x -> if x = "" then None else
                      match String.split_on_char ':' x with c :: _ -> Some (int_of_string c) | _ -> None)
    (String.split_on_char ' ' s)

let show_parse = function
  | Inr t -> "ok " ^ ser t
  | Inl (InvalidCharacter (i, c)) -> Printf.sprintf "err IC %d %d" (int_of_nat i) (int_of_n c)
  | Inl InvalidExpression -> "err IE"
  | Inl EmptyExpression -> "err EE"

let is_prefix p s = String.length s >= String.length p && String.sub s 0 (String.length p) = p

(* the std classification of the characters the printers emit must be what Spec.Printing.classify says *)
let check_classify (chars : cchar list) line =
  List.iter (fun (c : cchar) ->
      let k = classify c.code in
      if k.is_alphabetic <> c.is_alphabetic || k.is_alphanumeric <> c.is_alphanumeric
         || k.is_whitespace <> c.is_whitespace || k.to_digit16 <> c.to_digit16 then
        fail "corr:classify" (Printf.sprintf "std and Spec.Printing.classify differ on code %d" (int_of_n c.code)) line) chars

let do_parse f line =
  match f with
  | [nota; chars; res] ->
      let classic = (nota = "C") in
      let cs = parse_chars chars in
      if is_prefix "panic" res then fail "oracle:C09:panic" "parse panicked" line
      else begin
        let m = show_parse (parse cs (if classic then Classic else DeBruijn)) in
        if m <> res then fail "corr:parse" ("model=" ^ m) line;
        (match ref_parse classic cs with
         | RefOk t ->
             let e = "ok " ^ ser t in
             if res <> e then fail "oracle:C09:reference-parse" ("the reference grammar accepts this input as " ^ ser t) line;
             note_nontrivial ("parse " ^ nota ^ chars)
         | RefBadStart (i, c) ->
             let e = Printf.sprintf "err IC %d %d" (int_of_nat i) (int_of_n c) in
             if res <> e then fail "oracle:C09:invalid-character" ("expected " ^ e) line;
             bump counts "parse-badchar"
         | RefErr ->
             if not (is_prefix "err" res) then fail "oracle:C09:accepts-ill-formed" "the reference grammar rejects this input" line;
             bump counts "parse-illformed");
        if is_prefix "ok" res then (bump counts "parse-ok"; sample line)
      end
  | _ -> fail "format" "parse" line

let do_same f line =
  match f with
  | [_; _; _; r0; r1] ->
      if r0 <> r1 && not (is_prefix "err" r0 && is_prefix "err" r1) then
        fail "oracle:C09:rendering-changes-result" "whitespace / glyph / redundant parentheses changed the result" line
  | _ -> fail "format" "same" line

let lam_of glyph = n_of_int (int_of_string glyph)

let do_display f line =
  match f with
  | [glyph; ts; chars; res] when chars <> "panic" ->
      let t = parse_term ts in
      let lam = lam_of glyph in
      let cs = parse_chars chars in
      check_classify cs line;
      let got = codes_of_field chars in
      let model = List.map int_of_n (display lam t) in
      if model <> got then fail "corr:display" "model Display differs" line;
      let refp = List.map int_of_n (ref_print_cla lam t) in
      if refp <> got then fail "oracle:C10:format" "Display differs from the reference rendering" line;
      if (if !backslash then 92 else 955) <> int_of_string glyph then fail "oracle:C10:glyph" "LAMBDA does not follow the backslash_lambda feature" line;
      if not (has_ud t) then begin
        let e = "ok " ^ ser (canon t) in
        if res <> e then fail "oracle:C10:roundtrip" ("expected " ^ e) line;
        (* model parser on the model's own output *)
        let m = show_parse (parse (List.map classify (display lam t)) Classic) in
        if m <> e then fail "corr:display-roundtrip-model" ("model parse of model display = " ^ m) line
      end;
      note_nontrivial ("display " ^ ts); sample line
  | _ -> fail "oracle:C10:panic" "Display panicked" line

let do_debug f line =
  match f with
  | [glyph; ts; chars; res] when chars <> "panic" ->
      let t = parse_term ts in
      let lam = lam_of glyph in
      let cs = parse_chars chars in
      check_classify cs line;
      let got = codes_of_field chars in
      let model = List.map int_of_n (debug lam t) in
      if model <> got then fail "corr:debug" "model Debug differs" line;
      if (if !backslash then 92 else 955) <> int_of_string glyph then fail "oracle:C11:glyph" "LAMBDA does not follow the backslash_lambda feature" line;
      if indices_in (nat_of_int 1) (nat_of_int 15) t then begin
        let refp = List.map int_of_n (ref_print_dbr lam t) in
        if refp <> got then fail "oracle:C11:format" "Debug differs from the reference rendering" line;
        let e = "ok " ^ ser t in
        if res <> e then fail "oracle:C11:roundtrip" ("expected " ^ e) line;
        note_nontrivial ("debug " ^ ts)
      end;
      sample line
  | _ -> fail "oracle:C11:panic" "Debug panicked" line

let do_display_shift f line =
  match f with
  | [_; ts; res] ->
      let t = parse_term ts in
      let e = "ok " ^ ser (canon t) in
      if res <> e then fail "oracle:C10:roundtrip-large-index" ("free indices shifted far away: expected " ^ e) line
  | _ -> fail "format" "display-shift" line


(* ---------- data encodings: values, Spec encoders, operation runs *)
type v =
  | VN of string * int | VB of bool | VP of v * v | VNone | VSome of v | VOk of v | VErr of v
  | VL of string * v list | VS of string * int * int | VT of term

(* recursive-descent parser for the value syntax printed by harness/src/bin/ops_run.rs *)
let parse_value (s : string) : v =
  let n = String.length s in
  let pos = ref 0 in
  let peek () = if !pos < n then s.[!pos] else '\000' in
  let expect c = if peek () = c then incr pos else failwith (Printf.sprintf "value syntax: expected %c at %d in %s" c !pos s) in
  let read_while p = let st = !pos in while !pos < n && p s.[!pos] do incr pos done; String.sub s st (!pos - st) in
  let is_alpha c = (c >= 'a' && c <= 'z') in
  let is_digit c = (c >= '0' && c <= '9') in
  let rec value () =
    let kw = read_while is_alpha in
    match kw with
    | "n" -> expect ':'; let e = read_while is_alpha in expect ':'; let k = read_while is_digit in VN (e, int_of_string k)
    | "b" -> expect ':'; let k = read_while is_digit in VB (k = "1")
    | "p" -> expect '('; let a = value () in expect ','; let b = value () in expect ')'; VP (a, b)
    | "none" -> VNone
    | "some" -> expect '('; let a = value () in expect ')'; VSome a
    | "ok" -> expect '('; let a = value () in expect ')'; VOk a
    | "err" -> expect '('; let a = value () in expect ')'; VErr a
    | "l" -> expect ':'; let e = read_while is_alpha in expect '[';
        let items = ref [] in
        if peek () = ']' then incr pos
        else begin
          let continue = ref true in
          while !continue do
            items := value () :: !items;
            if peek () = ';' then incr pos else (expect ']'; continue := false)
          done
        end;
        VL (e, List.rev !items)
    | "s" -> expect ':'; let e = read_while is_alpha in expect ':'; let p = read_while is_digit in expect ',';
        let q = read_while is_digit in VS (e, int_of_string p, int_of_string q)
    | "t" -> expect ':';
        (* a raw term runs to the end of the value: only used at top level *)
        let rest = String.sub s !pos (n - !pos) in pos := n; VT (parse_term rest)
    | _ -> failwith ("value syntax: " ^ s)
  in
  value ()

let enc_num e k =
  let k = nat_of_int k in
  match e with
  | "church" -> church k | "scott" -> scott k | "parigot" -> parigot k | "stumpfu" -> stumpfu k | "binary" -> binary k
  | _ -> failwith "encoding"

let rec enc_value = function
  | VN (e, k) -> enc_num e k
  | VB b -> bool_t b
  | VP (a, b) -> pair_t (enc_value a) (enc_value b)
  | VNone -> none_t
  | VSome a -> some_t (enc_value a)
  | VOk a -> ok_t (enc_value a)
  | VErr a -> err_t (enc_value a)
  | VL (e, xs) ->
      let ts = List.map enc_value xs in
      (match e with "pair" -> pair_list ts | "church" -> church_list ts | "scott" -> scott_list ts
                  | "parigot" -> parigot_list ts | _ -> failwith "list encoding")
  | VS (e, p, q) -> pair_t (enc_num e p) (enc_num e q)
  | VT t -> t

let gen_lookup name =
  try List.assoc name Gen_table.table with Not_found ->
    (* tuple projections are macros, not constants *)
    (match String.split_on_char '_' name with
     | ["tuple"; "pi"; i; n] -> pi_macro (nat_of_int (int_of_string i)) (nat_of_int (int_of_string n))
     | _ -> failwith ("unknown constant " ^ name))

let split_args (s : string) : string list =
  (* top-level values are separated by single spaces; a raw term (t:...) contains spaces, so it is only
     recognised greedily: everything after "t:" up to the next " n:" / " b:" / ... marker *)
  let n = String.length s in
  let out = ref [] and cur = Buffer.create 64 in
  let starts_value i =
    let rest = String.sub s i (n - i) in
    List.exists (fun p -> is_prefix p rest) ["n:"; "b:"; "p("; "none"; "some("; "ok("; "err("; "l:"; "s:"; "t:"] in
  let i = ref 0 in
  while !i < n do
    if s.[!i] = ' ' && !i + 1 < n && starts_value (!i + 1) then (out := Buffer.contents cur :: !out; Buffer.clear cur)
    else Buffer.add_char cur s.[!i];
    incr i
  done;
  if Buffer.length cur > 0 then out := Buffer.contents cur :: !out;
  List.rev !out

let do_op f line =
  match f with
  | [prop; name; os; args; expected; cmp; res; cs] ->
      let o = order_of_string os in
      let argv = List.map parse_value (if args = "" then [] else split_args args) in
      let ev = parse_value expected in
      let c = int_of_string cs in
      let t = List.fold_left (fun acc a -> App (acc, enc_value a)) (gen_lookup name) argv in
      let tag what = Printf.sprintf "oracle:%s:%s:%s" prop name what in
      (* correspondence: the model of the reducer on the generated constant and the Spec encodings *)
      if res <> "PANIC" && res <> "LIMIT" && c <= 8000 then begin
        match reduce_m big_fuel o (nat_of_int 300000) t with
        | None -> bump counts "model-out-of-fuel"
        | Some (mt, mc) ->
            let ms = if int_of_nat mc >= 300000 then "LIMIT" else ser mt in
            if ms <> res || (res <> "LIMIT" && int_of_nat mc <> c) then
              fail "corr:ops" (Printf.sprintf "model=%s count=%d" (if String.length ms > 200 then String.sub ms 0 200 else ms) (int_of_nat mc)) line
      end else bump counts "ops-model-skipped";
      (* oracle *)
      (match cmp with
       | "eq" ->
           let e = ser (enc_value ev) in
           if res <> e then fail (tag (if res = "LIMIT" then "diverges" else if res = "PANIC" then "panic" else "wrong-result"))
               ("expected " ^ (if String.length e > 300 then String.sub e 0 300 else e)) line
       | "strip" ->
           (match ev with
            | VN ("binary", k) ->
                if res = "LIMIT" || res = "PANIC" then fail (tag "diverges") "" line
                else (match dec_binary (parse_term res) with
                    | Some v when int_of_nat v = k -> ()
                    | _ -> fail (tag "wrong-result") (Printf.sprintf "expected a binary numeral of value %d (leading zeroes allowed)" k) line)
            | _ -> fail "format" "strip" line)
       | "nf" ->
           (match normalize (enc_value ev) 3000 20000 with
            | Some nf ->
                (* the laws are beta-convertibilities: an eager order may diverge on an instance whose discarded part diverges *)
                if res = "LIMIT" && (o = APP || o = HAP) then bump counts "law-eager-diverges"
                else if res <> ser nf then fail (tag (if res = "LIMIT" then "diverges" else "wrong-result")) ("expected " ^ ser nf) line
            | None -> if res <> "LIMIT" then bump counts "law-rhs-diverges-lhs-not" else bump counts "law-both-diverge")
       | _ -> fail "format" "cmp" line);
      if c > 0 then note_nontrivial (name ^ os ^ args); if c > 3 then sample (if String.length line > 300 then String.sub line 0 300 else line)
  | _ -> fail "format" "op" line

(* bounded convertibility: some leftmost reduct of lhs equals some leftmost reduct of rhs *)
let do_conv f line =
  match f with
  | [prop; name; l; r] ->
      let reducts t k =
        let rec go t k acc = if k = 0 then List.rev (t :: acc) else
            match step_of NOR t with Some u -> go u (k - 1) (t :: acc) | None -> List.rev (t :: acc) in
        go t k [] in
      let ls = reducts (parse_term l) 12 and rs = reducts (parse_term r) 12 in
      if not (List.exists (fun a -> List.exists (fun b -> term_eqb a b) rs) ls) then
        fail (Printf.sprintf "oracle:%s:%s:not-convertible" prop name) "no common reduct within 12 leftmost steps on each side" line;
      note_nontrivial ("conv" ^ name ^ l)
  | _ -> fail "format" "conv" line

(* C12 *)
let do_num f line =
  match f with
  | [e; ks; ts] ->
      let k = int_of_string ks in
      let kn = nat_of_int k in
      let model = (match e with "church" -> into_church kn | "scott" -> into_scott kn | "parigot" -> into_parigot kn
                            | "stumpfu" -> into_stumpfu kn | "binary" -> into_binary kn | _ -> failwith "enc") in
      if ser model <> ts then fail "corr:convert" "model of the constructor loop differs" line;
      let t = parse_term ts in
      if ser (enc_num e k) <> ts then fail "oracle:C12:shape" "not the documented shape of the numeral" line;
      if not (closed t) then fail "oracle:C12:closed" "" line;
      if not (nfb t) then fail "oracle:C12:normal" "" line;
      let fuel = nat_of_int (k + 2) in
      let d = (match e with "church" -> dec_church t | "scott" -> dec_scott fuel t | "parigot" -> dec_parigot fuel t
                          | "stumpfu" -> dec_stumpfu fuel t | "binary" -> dec_binary t | _ -> None) in
      (match d with Some v when int_of_nat v = k -> () | _ -> fail "oracle:C12:decode" "does not decode back to the number" line);
      note_nontrivial ("num" ^ e ^ ks)
  | _ -> fail "format" "num" line

let do_signed f line =
  match f with
  | [e; zs; ts] ->
      let z = int_of_string zs in
      let enc = (match e with "church" -> Church | "scott" -> Scott | "parigot" -> Parigot | "stumpfu" -> StumpFu | _ -> Binary) in
      (match into_signed (z > 0) (nat_of_int (abs z)) enc with
       | Some m -> if ser m <> ts then fail "corr:convert" "model of into_signed differs" line
       | None -> fail "corr:convert" "model panics" line);
      let num = enc_num e (abs z) and zero = enc_num e 0 in
      let exp = if z > 0 then pair_t num zero else pair_t zero num in
      if ser exp <> ts then fail "oracle:C12:signed" "not the pair (n, zero) / (zero, n) with the zero of the same encoding" line;
      note_nontrivial ("signed" ^ e ^ zs)
  | _ -> fail "format" "signed" line

let do_const f line =
  match f with
  | [e; _; z; _; o] ->
      if ser (enc_num e 0) <> z then fail "oracle:C12:zero" "zero() is not the encoding of 0" line;
      if ser (enc_num e 1) <> o then fail "oracle:C12:one" "one() is not the encoding of 1" line;
      let g n = ser (gen_lookup (Printf.sprintf "num_%s_%s" e n)) in
      if g "zero" <> z || g "one" <> o then fail "corr:convert" "generated constant differs" line
  | _ -> fail "format" "const" line

let do_cont f line =
  match f with
  | [kind; e; args; ts] ->
      let ks = List.filter_map (fun x -> if x = "" then None else Some (int_of_string x)) (String.split_on_char ' ' args) in
      let nums = List.map (enc_num e) ks in
      let exp, model = (match kind, nums with
        | "pair", [a; b] -> pair_t a b, into_pair a b
        | "some", [a] -> some_t a, into_option (Some a)
        | "none", [] -> none_t, into_option None
        | "ok", [a] -> ok_t a, into_result (Inl a)
        | "err", [a] -> err_t a, into_result (Inr a)
        | "list-pair", xs -> pair_list xs, into_pair_list xs
        | "list-church", xs -> church_list xs, into_church_list xs
        | "list-scott", xs -> scott_list xs, into_scott_list xs
        | "list-parigot", xs -> parigot_list xs, into_parigot_list xs
        | _ -> failwith "cont") in
      if ser model <> ts then fail "corr:convert" "model of the conversion differs" line;
      if ser exp <> ts then fail ("oracle:C12:container-" ^ kind) "not the canonical container" line;
      (if String.length kind > 4 && String.sub kind 0 4 = "list" then
         if ser exp <> ts then fail "oracle:C16:conversion" "list conversion differs from repeated cons" line);
      note_nontrivial ("cont" ^ kind ^ e ^ args)
  | _ -> fail "format" "cont" line

(* binary numerals of large numbers: the number arrives as its bit string (most significant first) *)
let do_bignum f line =
  match f with
  | ["binary"; bits; dec; ts] ->
      let bs = List.init (String.length bits) (fun i -> bits.[i] = '1') in
      let n = n_of_bits_msb bs in
      let t = parse_term ts in
      if ser (binary_N n) <> ts then fail "oracle:C12:shape" "not the documented shape of the numeral" line;
      if not (closed t) then fail "oracle:C12:closed" "" line;
      if not (nfb t) then fail "oracle:C12:normal" "" line;
      (match dec_binary_N t with Some v when v = n -> () | _ -> fail "oracle:C12:decode" "does not decode back to the number" line);
      note_nontrivial ("bignum" ^ dec)
  | _ -> fail "format" "bignum" line

let split_terms s = if s = "" then [] else List.map parse_term (String.split_on_char ';' s)

let do_from f line =
  match f with
  | ["bool"; b; ts] -> if ser (bool_t (b = "1")) <> ts then fail "oracle:C17:from-bool" "" line
  | [kind; args; ts] ->
      let xs = split_terms args in
      let exp, model = (match kind, xs with
        | "pair", [a; b] -> pair_t a b, into_pair a b
        | "some", [a] -> some_t a, into_option (Some a)
        | "none", [] -> none_t, into_option None
        | "ok", [a] -> ok_t a, into_result (Inl a)
        | "err", [a] -> err_t a, into_result (Inr a)
        | "vec", xs -> pair_list xs, into_pair_list xs
        | _ -> failwith "from") in
      if ser model <> ts then fail "corr:convert" "model of the From conversion differs" line;
      if ser exp <> ts then fail ("oracle:C17:from-" ^ kind) "not the normal form of the constructor application" line;
      (* independently: the constructor constant applied to the payloads normalises to it *)
      let ctor = (match kind with "pair" -> Some "pair_pair" | "some" -> Some "option_some" | "ok" -> Some "result_ok"
                                | "err" -> Some "result_err" | _ -> None) in
      (match ctor with
       | Some c ->
           let app = List.fold_left (fun acc x -> App (acc, x)) (gen_lookup c) xs in
           (match normalize app 2000 200000 with
            | Some v -> if ser v <> ts then fail ("oracle:C17:from-" ^ kind) "differs from the normal form of the constructor application" line
            | None -> ())
       | None -> ());
      (if kind = "vec" then
         if ser exp <> ts then fail "oracle:C16:conversion" "Vec conversion differs from repeated cons" line);
      note_nontrivial ("from" ^ kind ^ args)
  | _ -> fail "format" "from" line

let dispatch (f : string list) (line : string) =
  match f with
  | "op" :: r -> bump counts "op"; do_op r line
  | "conv" :: r -> bump counts "conv"; do_conv r line
  | "num" :: r -> bump counts "num"; do_num r line
  | "signed" :: r -> bump counts "signed"; do_signed r line
  | "const" :: r -> bump counts "const"; do_const r line
  | "cont" :: r -> bump counts "cont"; do_cont r line
  | "from" :: r -> bump counts "from"; do_from r line
  | "bignum" :: r -> bump counts "bignum"; do_bignum r line
  | "vecany" :: [kind; elems; res] ->
      bump counts "vecany";
      let xs = split_terms elems in
      let exp = (match kind with "from" | "pair" -> pair_list xs | "church" -> church_list xs | "scott" -> scott_list xs
                               | "parigot" -> parigot_list xs | _ -> failwith "vecany") in
      if res <> ser exp then fail "oracle:C16:conversion" "Vec conversion of arbitrary (UD / open) elements differs from repeated cons" line;
      note_nontrivial ("vecany" ^ kind ^ elems)
  | "apporder16" :: [expected; got] ->
      bump counts "apporder";
      if expected <> got then fail "oracle:C16:app-macro-order" "app! does not apply its operands left to right" line
  | "bigctor" :: [kind; n; ok] ->
      bump counts "bigctor";
      if ok <> "true" then begin
        if String.length kind > 4 && String.sub kind 0 4 = "list" then
          fail "oracle:C16:conversion" ("the list conversion fails on " ^ n ^ " elements (512 KiB stack)") line
        else fail "oracle:C12:constructor" ("the numeral constructor fails on " ^ n ^ " (512 KiB stack)") line
      end;
      note_nontrivial ("bigctor" ^ kind)
  | "metalaw" :: [name; o; bb; ok] ->
      bump counts "metalaw";
      if ok <> "true" then fail ("oracle:C17:" ^ name ^ ":large-index-payload") ("the law fails when the payloads' free indices are shifted by " ^ bb) line;
      note_nontrivial ("metalaw" ^ name ^ o ^ bb)
  | "display-shift" :: r -> bump counts "display-shift"; do_display_shift r line
  | "parse" :: r -> bump counts "parse"; do_parse r line
  | "same" :: r -> bump counts "same"; do_same r line
  | "deep" :: [kind; d; ok] ->
      bump counts ("deep-" ^ kind ^ "-" ^ d ^ "-" ^ ok);
      if ok <> "true" && int_of_string d <= 3000 then
        fail "oracle:C09:deep-nesting" ("well-formed input (" ^ kind ^ ", size/depth " ^ d ^ ") is not parsed to the term it denotes") line;
      note_nontrivial ("deep" ^ kind ^ d)
  | "display" :: r -> bump counts "display"; do_display r line
  | "debug" :: r -> bump counts "debug"; do_debug r line
  | _ -> fail "format" "unknown line kind" line
