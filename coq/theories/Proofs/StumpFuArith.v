(** * Stump-Fu numerals for ALL numbers (C14), on the generated constants *)
From LC Require Import Spec.NorEval Spec.Encodings Gen.Terms Proofs.Laws Proofs.Convert Proofs.ChurchArith Proofs.ScottArith Proofs.ParigotArith.

Lemma shift_stumpfu d c n : shift d c (stumpfu n) = stumpfu n.
Proof. apply shift_closed, stumpfu_closed. Qed.
Lemma subst_stumpfu k a n : 1 <= k -> subst k a (stumpfu n) = stumpfu n.
Proof. intros. apply subst_closed; auto. apply stumpfu_closed. Qed.

(** case analysis: what ⌜n⌝ f z computes *)
Theorem stumpfu_case_zero f z : red (stumpfu 0 @ f @ z) z.
Proof. simpl. do 2 hbeta. done_red. Qed.
Theorem stumpfu_case_succ n f z : red (stumpfu (S n) @ f @ z) (f @ church (S n) @ stumpfu n).
Proof.
  change (stumpfu (S n)) with (Abs (Abs (v2 @ church (S n) @ stumpfu n))).
  eapply star_step; [apply s_appl, s_beta|]. cbn [subst Nat.compare Nat.sub].
  rewrite subst_church, subst_stumpfu by lia.
  eapply star_step; [apply s_beta|]. cbn [subst Nat.compare Nat.sub].
  rewrite subst_church, subst_stumpfu by lia. rewrite subst_shift_cancel by lia. rewrite shift_0. apply star_refl.
Qed.

Definition sfG (x : term) : term := Abs (Abs (Abs (Abs (Var 2 @ Abs (Abs (Var 2 @ (Var 6 @ Var 2 @ Var 1))) @ x)))).
Ltac inst_sf H ps :=
  let X := fresh "X" in
  pose proof (instantiate ps _ _ H) as X;
  try unfold sfG in X;
  cbn [inst payloads nth up] in X;
  repeat rewrite inst_closed in X by reflexivity;
  repeat rewrite shift_stumpfu in X; repeat rewrite shift_church in X.

Notation v5 := (Var 5). Notation v6 := (Var 6).

(** pred, is_zero, to_church *)
Lemma fpred_open : red (lc_num_stumpfu_pred @ v1) (v1 @ Abs (Abs v1) @ stumpfu 0). Proof. open_law. Qed.
Theorem stumpfu_pred n : red (lc_num_stumpfu_pred @ stumpfu n) (stumpfu (pred n)).
Proof.
  inst_sf fpred_open [stumpfu n]. eapply star_trans; [exact X|]. destruct n.
  - apply stumpfu_case_zero.
  - eapply star_trans; [apply stumpfu_case_succ|]. do 2 hbeta. done_red.
Qed.
Lemma fis_zero_open : red (lc_num_stumpfu_is_zero @ v1) (v1 @ Abs (Abs lc_boolean_fls) @ lc_boolean_tru). Proof. open_law. Qed.
Theorem stumpfu_is_zero n : red (lc_num_stumpfu_is_zero @ stumpfu n) (bool_t (n =? 0)).
Proof.
  inst_sf fis_zero_open [stumpfu n]. eapply star_trans; [exact X|]. destruct n.
  - apply stumpfu_case_zero.
  - eapply star_trans; [apply stumpfu_case_succ|]. do 2 hbeta. done_red.
Qed.
Lemma f2c_open : red (lc_num_stumpfu_to_church @ v1) (v1 @ Abs (Abs v2) @ v1). Proof. open_law. Qed.
(** note: ⌜0⌝_SF and ⌜0⌝_Church are the same term *)
Theorem stumpfu_to_church n : red (lc_num_stumpfu_to_church @ stumpfu n) (church n).
Proof.
  inst_sf f2c_open [stumpfu n]. eapply star_trans; [exact X|]. destruct n.
  - apply stumpfu_case_zero.
  - eapply star_trans; [apply stumpfu_case_succ|]. hbeta. rewrite ?shift_church. hbeta.
    rewrite ?shift_church, ?subst_church by lia. done_red.
Qed.

(** succ: n (λc p f a. f (csucc c) n) one *)
Lemma fsucc_open : red (lc_num_stumpfu_succ @ v1) (v1 @ sfG v5 @ stumpfu 1). Proof. open_law. Qed.
Lemma sfG_law x j p : closed_at 0 x = true ->
  red (sfG x @ church j @ p) (Abs (Abs (v2 @ church (S j) @ x))).
Proof.
  intros Cx. unfold sfG.
  eapply star_step; [apply s_appl, s_beta|]. cbn [subst Nat.compare Nat.sub]. rewrite shift_church.
  rewrite (subst_closed 4 _ x) by (auto || lia).
  eapply star_step; [apply s_beta|]. cbn [subst Nat.compare Nat.sub]. rewrite subst_church by lia.
  rewrite (subst_closed 3 _ x) by (auto || lia).
  apply red_abs, red_abs, red_appl, red_appr.
  change (church (S j)) with (Abs (Abs (v2 @ iter_app j v2 v1))).
  apply red_abs, red_abs, red_appr. apply church_iter.
Qed.
Theorem stumpfu_succ n : red (lc_num_stumpfu_succ @ stumpfu n) (stumpfu (S n)).
Proof.
  inst_sf fsucc_open [stumpfu n]. eapply star_trans; [exact X|]. fold (sfG (stumpfu n)). destruct n.
  - apply stumpfu_case_zero.
  - eapply star_trans; [apply stumpfu_case_succ|]. apply sfG_law. apply stumpfu_closed.
Qed.

Lemma iter_fsucc k n : red (iter_app k lc_num_stumpfu_succ (stumpfu n)) (stumpfu (k + n)).
Proof.
  induction k; simpl; [apply star_refl|].
  eapply star_trans; [apply red_appr; exact IHk|]. apply stumpfu_succ.
Qed.

(** the normal form of succ, which is what appears inside add and mul *)
Definition fsuccN : term := Abs (v1 @ sfG v5 @ stumpfu 1).
Lemma fsuccN_law n : red (fsuccN @ stumpfu n) (stumpfu (S n)).
Proof.
  unfold fsuccN, sfG. hbeta. rewrite ?shift_stumpfu. fold (sfG (stumpfu n)).
  change (Abs (Abs (v2 @ Abs (Abs (v2 @ v1)) @ Abs (Abs v1)))) with (stumpfu 1).
  destruct n.
  - apply stumpfu_case_zero.
  - eapply star_trans; [apply stumpfu_case_succ|]. apply sfG_law. apply stumpfu_closed.
Qed.
Lemma iter_fsuccN k n : red (iter_app k fsuccN (stumpfu n)) (stumpfu (k + n)).
Proof.
  induction k; simpl; [apply star_refl|].
  eapply star_trans; [apply red_appr; exact IHk|]. apply fsuccN_law.
Qed.

(** add: m (λc p. c succ n) n *)
Lemma fadd_open : red (lc_num_stumpfu_add @ v1 @ v2) (v1 @ Abs (Abs (v2 @ fsuccN @ v4)) @ v2). Proof. open_law. Qed.
Lemma fadd_core m n : red (stumpfu m @ Abs (Abs (v2 @ fsuccN @ stumpfu n)) @ stumpfu n) (stumpfu (m + n)).
Proof.
  destruct m.
  - apply stumpfu_case_zero.
  - eapply star_trans; [apply stumpfu_case_succ|].
    hbeta. rewrite ?shift_church. rewrite (subst_closed 2 _ fsuccN) by (reflexivity || lia). rewrite subst_stumpfu by lia.
    hbeta. rewrite ?subst_church by lia. rewrite (subst_closed 1 _ fsuccN) by (reflexivity || lia). rewrite subst_stumpfu by lia.
    eapply star_trans; [apply church_iter|]. apply iter_fsuccN.
Qed.
Ltac inst_sf2 H ps :=
  let X := fresh "X" in
  pose proof (instantiate ps _ _ H) as X;
  cbn [inst payloads nth up] in X;
  repeat rewrite inst_closed in X by reflexivity;
  repeat rewrite shift_stumpfu in X; repeat rewrite shift_church in X.
Theorem stumpfu_add m n : red (lc_num_stumpfu_add @ stumpfu m @ stumpfu n) (stumpfu (m + n)).
Proof. inst_sf2 fadd_open [stumpfu m; stumpfu n]. eapply star_trans; [exact X|]. apply fadd_core. Qed.

(** mul: m (λc p. c (add n) zero) zero *)
Definition faddN (x : term) : term := Abs (x @ Abs (Abs (v2 @ fsuccN @ v3)) @ v1).
Lemma fmul_open : red (lc_num_stumpfu_mul @ v1 @ v2)
  (v1 @ Abs (Abs (v2 @ Abs (v5 @ Abs (Abs (v2 @ fsuccN @ v3)) @ v1) @ stumpfu 0)) @ stumpfu 0). Proof. open_law. Qed.
Lemma faddN_law n j : red (faddN (stumpfu n) @ stumpfu j) (stumpfu (n + j)).
Proof.
  unfold faddN. eapply star_step; [apply s_beta|]. cbn [subst Nat.compare Nat.sub].
  rewrite subst_stumpfu by lia. rewrite (subst_closed 3 _ fsuccN) by (reflexivity || lia).
  rewrite shift_0, shift_stumpfu. apply fadd_core.
Qed.
Lemma iter_faddN n k : red (iter_app k (faddN (stumpfu n)) (stumpfu 0)) (stumpfu (k * n)).
Proof.
  induction k; simpl; [apply star_refl|].
  eapply star_trans; [apply red_appr; exact IHk|]. apply faddN_law.
Qed.
Theorem stumpfu_mul m n : red (lc_num_stumpfu_mul @ stumpfu m @ stumpfu n) (stumpfu (m * n)).
Proof.
  inst_sf2 fmul_open [stumpfu m; stumpfu n]. eapply star_trans; [exact X|]. clear X.
  cbn [shift Nat.ltb Nat.leb Nat.add]. fold (faddN (stumpfu n)).
  assert (Cf : closed_at 0 (faddN (stumpfu n)) = true).
  { unfold faddN. cbn [closed_at]. rewrite (closed_at_mono 0 1) by (apply stumpfu_closed || lia). reflexivity. }
  remember (faddN (stumpfu n)) as F eqn:EF.
  destruct m.
  - apply stumpfu_case_zero.
  - eapply star_trans; [apply stumpfu_case_succ|].
    hbeta. rewrite ?shift_church. rewrite (subst_closed 2 _ F) by (auto || lia).
    hbeta. rewrite ?subst_church by lia. rewrite (subst_closed 1 _ F) by (auto || lia).
    eapply star_trans; [apply church_iter|]. subst F. apply iter_faddN.
Qed.

(** conversions *)
Lemma f2s_open : red (lc_num_stumpfu_to_scott @ v1) (v1 @ Abs (Abs v2) @ v1 @ lc_num_scott_succ @ scott 0). Proof. open_law. Qed.
Lemma stumpfu_self n : red (stumpfu n @ Abs (Abs v2) @ stumpfu n) (church n).
Proof.
  destruct n.
  - apply stumpfu_case_zero.
  - eapply star_trans; [apply stumpfu_case_succ|]. hbeta. rewrite ?shift_church. hbeta.
    rewrite ?shift_church, ?subst_church by lia. done_red.
Qed.
Theorem stumpfu_to_scott n : red (lc_num_stumpfu_to_scott @ stumpfu n) (scott n).
Proof.
  inst_sf2 f2s_open [stumpfu n]. eapply star_trans; [exact X|].
  eapply star_trans; [apply red_appl, red_appl, stumpfu_self|].
  eapply star_trans; [apply church_iter|]. apply iter_ssucc.
Qed.
Lemma f2p_open : red (lc_num_stumpfu_to_parigot @ v1) (v1 @ Abs (Abs v2) @ v1 @ lc_num_parigot_succ @ parigot 0). Proof. open_law. Qed.
Theorem stumpfu_to_parigot n : red (lc_num_stumpfu_to_parigot @ stumpfu n) (parigot n).
Proof.
  inst_sf2 f2p_open [stumpfu n]. eapply star_trans; [exact X|].
  eapply star_trans; [apply red_appl, red_appl, stumpfu_self|].
  eapply star_trans; [apply church_iter|]. apply iter_psucc.
Qed.
Lemma c2f_open : red (lc_num_church_to_stumpfu @ v1) (v1 @ fsuccN @ stumpfu 0). Proof. open_law. Qed.
Theorem church_to_stumpfu n : red (lc_num_church_to_stumpfu @ church n) (stumpfu n).
Proof.
  inst_sf2 c2f_open [church n]. eapply star_trans; [exact X|].
  eapply star_trans; [apply church_iter|]. rewrite <- (Nat.add_0_r n) at 2. apply iter_fsuccN.
Qed.
