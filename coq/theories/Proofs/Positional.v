(** * The step functions contract the redex at the position their documentation names (C05) *)
From LC Require Import Spec.Positions.

Lemma first_map {A B} (f : A -> B) (l : list A) :
  match l with x :: _ => Some (f x) | [] => None end = match (map f l) with y :: _ => Some y | [] => None end.
Proof. destruct l; reflexivity. Qed.

Lemma first_path_map d l : first_path (map (cons d) l) = option_map (cons d) (first_path l).
Proof. destruct l; reflexivity. Qed.

Lemma first_path_app l1 l2 : first_path (l1 ++ l2) = match first_path l1 with Some p => Some p | None => first_path l2 end.
Proof. destruct l1; reflexivity. Qed.

Lemma contract_pre_defined : forall t p, In p (redexes_pre t) -> exists u, contract_at p t = Some u.
Proof.
  induction t as [i|b IH|l IHl r IHr]; intros p H; simpl in H.
  - destruct H.
  - apply in_map_iff in H. destruct H as (q & <- & Hq). destruct (IH _ Hq) as [u E].
    simpl. rewrite E. simpl. eauto.
  - apply in_app_or in H. destruct H as [H|H].
    + destruct l; simpl in H; try contradiction. destruct H as [<-|[]]. simpl. eauto.
    + apply in_app_or in H. destruct H as [H|H]; apply in_map_iff in H; destruct H as (q & <- & Hq).
      * destruct (IHl _ Hq) as [u E]. simpl. rewrite E. simpl. eauto.
      * destruct (IHr _ Hq) as [u E]. simpl. rewrite E. simpl. eauto.
Qed.

Lemma contract_post_defined : forall t p, In p (redexes_post t) -> exists u, contract_at p t = Some u.
Proof.
  induction t as [i|b IH|l IHl r IHr]; intros p H; simpl in H.
  - destruct H.
  - rewrite app_nil_r in H. apply in_map_iff in H. destruct H as (q & <- & Hq). destruct (IH _ Hq) as [u E].
    simpl. rewrite E. simpl. eauto.
  - apply in_app_or in H. destruct H as [H|H].
    + apply in_app_or in H. destruct H as [H|H]; apply in_map_iff in H; destruct H as (q & <- & Hq).
      * destruct (IHl _ Hq) as [u E]. simpl. rewrite E. simpl. eauto.
      * destruct (IHr _ Hq) as [u E]. simpl. rewrite E. simpl. eauto.
    + destruct l; simpl in H; try contradiction. destruct H as [<-|[]]. simpl. eauto.
Qed.

Lemma first_in (l : list path) p : first_path l = Some p -> In p l.
Proof. destruct l; simpl; intros H; inversion H; auto. Qed.

Definition sel_pre (t : term) : option term :=
  match first_path (redexes_pre t) with Some p => contract_at p t | None => None end.
Definition sel_post (f : path -> bool) (t : term) : option term :=
  match first_path (filter f (redexes_post t)) with Some p => contract_at p t | None => None end.

Lemma cbn_sub_nor : forall t u, step_cbn t = Some u -> step_nor t = Some u.
Proof.
  induction t as [i|b IH|l IHl r IHr]; intros u H; simpl in *; try discriminate.
  destruct (step_cbn l) eqn:E; auto.
  destruct l; try discriminate. auto.
Qed.

Lemma sel_pre_none t : sel_pre t = None -> redexes_pre t = [].
Proof.
  unfold sel_pre. destruct (redexes_pre t) as [|p rest] eqn:E; auto. simpl.
  destruct (contract_pre_defined t p) as [u Hu]; [rewrite E; left; auto|]. rewrite Hu. discriminate.
Qed.

Lemma step_nor_app_nabs l r : is_abs l = false ->
  step_nor (App l r) =
  match step_cbn l with
  | Some l' => Some (App l' r)
  | None => match step_nor l with
            | Some l' => Some (App l' r)
            | None => option_map (App l) (step_nor r)
            end
  end.
Proof. destruct l; try discriminate; reflexivity. Qed.

Lemma redexes_pre_app_nabs l r : is_abs l = false ->
  redexes_pre (App l r) = map (cons DL) (redexes_pre l) ++ map (cons DR) (redexes_pre r).
Proof. destruct l; try discriminate; reflexivity. Qed.

Lemma redexes_post_app_nabs l r : is_abs l = false ->
  redexes_post (App l r) = map (cons DL) (redexes_post l) ++ map (cons DR) (redexes_post r).
Proof. intros H. destruct l; try discriminate; simpl; rewrite app_nil_r; reflexivity. Qed.

Lemma contract_DL p l r : contract_at (DL :: p) (App l r) = option_map (fun l' => App l' r) (contract_at p l).
Proof. reflexivity. Qed.
Lemma contract_DR p l r : contract_at (DR :: p) (App l r) = option_map (fun r' => App l r') (contract_at p r).
Proof. reflexivity. Qed.

Lemma sel_pre_some t : forall p, first_path (redexes_pre t) = Some p -> exists u, contract_at p t = Some u.
Proof. intros p H. apply contract_pre_defined, first_in; auto. Qed.

(** NOR contracts the leftmost-outermost redex *)
Theorem nor_positional : forall t, step_nor t = pos_step NOR t.
Proof.
  unfold pos_step, pos_select. change (forall t, step_nor t = sel_pre t).
  induction t as [i|b IH|l IHl r IHr].
  - reflexivity.
  - simpl. rewrite IH. unfold sel_pre. simpl. rewrite first_path_map.
    destruct (first_path (redexes_pre b)); reflexivity.
  - destruct (is_abs l) eqn:A.
    { destruct l; try discriminate. reflexivity. }
    rewrite step_nor_app_nabs by auto. unfold sel_pre in *.
    rewrite redexes_pre_app_nabs by auto.
    rewrite first_path_app, !first_path_map.
    destruct (first_path (redexes_pre l)) as [p|] eqn:Ep.
    + cbn [option_map]. rewrite contract_DL.
      destruct (sel_pre_some l p Ep) as [u Hu]. rewrite Hu in *. cbn [option_map].
      destruct (step_cbn l) eqn:Ec.
      * apply cbn_sub_nor in Ec. congruence.
      * rewrite IHl. reflexivity.
    + cbn [option_map].
      destruct (step_cbn l) eqn:Ec.
      * apply cbn_sub_nor in Ec. congruence.
      * rewrite IHl, IHr.
        destruct (first_path (redexes_pre r)); reflexivity.
Qed.

(** CBN contracts that same redex, but only while it is in head position outside any abstraction *)
Theorem cbn_positional : forall t, step_cbn t = pos_step CBN t.
Proof.
  unfold pos_step, pos_select.
  induction t as [i|b IH|l IHl r IHr].
  - reflexivity.
  - simpl. rewrite first_path_map. destruct (first_path (redexes_pre b)); reflexivity.
  - destruct (is_abs l) eqn:A.
    { destruct l; try discriminate. reflexivity. }
    assert (E : step_cbn (App l r) = match step_cbn l with Some l' => Some (App l' r) | None => None end).
    { destruct l; try discriminate; reflexivity. }
    rewrite E, IHl. rewrite redexes_pre_app_nabs by auto.
    rewrite first_path_app, !first_path_map.
    destruct (first_path (redexes_pre l)) as [p|] eqn:Ep.
    + cbn [option_map]. unfold head_path. cbn [forallb andb].
      destruct (forallb (fun d : dir => match d with DL => true | _ => false end) p) eqn:Hp.
      * rewrite contract_DL. destruct (contract_at p l); reflexivity.
      * reflexivity.
    + destruct (first_path (redexes_pre r)); reflexivity.
Qed.

Lemma sel_post_some f t : forall p, first_path (filter f (redexes_post t)) = Some p -> exists u, contract_at p t = Some u.
Proof.
  intros p H. apply contract_post_defined. apply first_in in H. apply filter_In in H. tauto.
Qed.

Lemma filter_map_cons (f : path -> bool) d l :
  (forall p, f (d :: p) = f p) -> filter f (map (cons d) l) = map (cons d) (filter f l).
Proof.
  intros H. induction l as [|a l IHl]; simpl; auto. rewrite H. destruct (f a); simpl; rewrite IHl; reflexivity.
Qed.

Definition all_paths (p : path) := true.

(** APP contracts the leftmost of the innermost redexes *)
Theorem app_positional : forall t, step_app t = pos_step APP t.
Proof.
  unfold pos_step, pos_select.
  assert (F : forall l, filter all_paths l = l).
  { induction l; simpl; congruence. }
  assert (G : forall t, step_app t = sel_post all_paths t); [|intros t; rewrite G; unfold sel_post; rewrite F; reflexivity].
  induction t as [i|b IH|l IHl r IHr].
  - reflexivity.
  - simpl. rewrite IH. unfold sel_post. rewrite !F. simpl. rewrite app_nil_r, first_path_map.
    destruct (first_path (redexes_post b)); reflexivity.
  - unfold sel_post in *. rewrite F in *. 
    change (step_app (App l r)) with
      (match step_app l with Some l' => Some (App l' r) | None =>
       match step_app r with Some r' => Some (App l r') | None =>
       match l with Abs b => Some (subst 1 r b) | _ => None end end end).
    rewrite IHl, IHr. simpl redexes_post.
    rewrite !first_path_app, !first_path_map.
    destruct (first_path (redexes_post l)) as [p|] eqn:Ep.
    + cbn [option_map]. rewrite contract_DL.
      destruct (contract_post_defined l p (first_in _ _ Ep)) as [u Hu]. rewrite Hu. reflexivity.
    + cbn [option_map].
      destruct (first_path (redexes_post r)) as [q|] eqn:Eq.
      * cbn [option_map]. rewrite contract_DR.
        destruct (contract_post_defined r q (first_in _ _ Eq)) as [u Hu]. rewrite Hu. reflexivity.
      * cbn [option_map]. destruct l; reflexivity.
Qed.

(** CBV contracts the leftmost innermost redex among those not inside an abstraction *)
Theorem cbv_positional : forall t, step_cbv t = pos_step CBV t.
Proof.
  unfold pos_step, pos_select.
  set (f := fun p => negb (under_abs p)).
  change (forall t, step_cbv t = sel_post f t).
  assert (FL : forall p, f (DL :: p) = f p) by reflexivity.
  assert (FR : forall p, f (DR :: p) = f p) by reflexivity.
  induction t as [i|b IH|l IHl r IHr].
  - reflexivity.
  - unfold sel_post. simpl. rewrite app_nil_r.
    assert (E : filter f (map (cons DB) (redexes_post b)) = []).
    { induction (redexes_post b); simpl; auto. }
    rewrite E. reflexivity.
  - unfold sel_post in *.
    change (step_cbv (App l r)) with
      (match step_cbv l with Some l' => Some (App l' r) | None =>
       match step_cbv r with Some r' => Some (App l r') | None =>
       match l with Abs b => Some (subst 1 r b) | _ => None end end end).
    rewrite IHl, IHr. simpl redexes_post.
    rewrite !filter_app, !filter_map_cons by auto.
    rewrite !first_path_app, !first_path_map.
    destruct (first_path (filter f (redexes_post l))) as [p|] eqn:Ep.
    + cbn [option_map]. rewrite contract_DL.
      destruct (sel_post_some f l p Ep) as [u Hu]. rewrite Hu. reflexivity.
    + cbn [option_map].
      destruct (first_path (filter f (redexes_post r))) as [q|] eqn:Eq.
      * cbn [option_map]. rewrite contract_DR.
        destruct (sel_post_some f r q Eq) as [u Hu]. rewrite Hu. reflexivity.
      * cbn [option_map]. destruct l; reflexivity.
Qed.

(** HSP only ever contracts redexes on the head spine *)
Theorem hsp_spine : forall t u, step_hsp t = Some u ->
  exists p, spine_path p = true /\ In p (redexes_pre t) /\ contract_at p t = Some u.
Proof.
  induction t as [i|b IH|l IHl r IHr]; intros u H.
  - discriminate.
  - simpl in H. destruct (step_hsp b) eqn:E; inversion H; subst.
    destruct (IH _ eq_refl) as (p & Sp & Ip & Cp).
    exists (DB :: p). split; [exact Sp|]. split.
    + simpl. apply in_map; auto.
    + simpl. rewrite Cp. reflexivity.
  - change (step_hsp (App l r)) with
      (match step_hsp l with Some l' => Some (App l' r) | None =>
       match l with Abs b => Some (subst 1 r b) | _ => None end end) in H.
    destruct (step_hsp l) eqn:E.
    + inversion H; subst. destruct (IHl _ eq_refl) as (p & Sp & Ip & Cp).
      exists (DL :: p). split; [exact Sp|]. split.
      * simpl. apply in_or_app. right. apply in_or_app. left. apply in_map; auto.
      * rewrite contract_DL, Cp. reflexivity.
    + destruct l; try discriminate. inversion H; subst.
      exists []. split; [reflexivity|]. split; [left; reflexivity|reflexivity].
Qed.

Lemma hsp_spine_reducts t u : step_hsp t = Some u -> In u (spine_reducts t).
Proof.
  intros H. destruct (hsp_spine _ _ H) as (p & Sp & Ip & Cp).
  unfold spine_reducts. apply in_flat_map. exists p. split.
  - apply filter_In; auto.
  - rewrite Cp. left; auto.
Qed.
