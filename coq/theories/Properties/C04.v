(** C04 — the limit is a hard bound and a limited run is a prefix of the unlimited run *)
From LC Require Import Model.Reduction Proofs.Sound Proofs.ReduceProps.

Theorem C04_bound : forall fuel o n t t' c, n <> 0 -> reduce_m fuel o n t = Some (t', c) -> c <= n.
Proof. exact reduce_bound. Qed.

(** reduction is a function of (term, order, limit): the fuel of the model is immaterial *)
Theorem C04_deterministic : forall f1 f2 o n t r1 r2,
  reduce_m f1 o n t = Some r1 -> reduce_m f2 o n t = Some r2 -> r1 = r2.
Proof. exact reduce_deterministic. Qed.

(** with a non-zero limit reduce always returns *)
Theorem C04_total : forall o n t, n <> 0 -> exists fuel r, reduce_m fuel o n t = Some r.
Proof. exact reduce_total. Qed.

(** the returned count is the number of steps of the stateless step function, and the run stopped
    because the term is stuck or because the limit was reached *)
Theorem C04_prefix : forall fuel o n t t' c, reduce_m fuel o n t = Some (t', c) ->
  iter (step_of o) c t = Some t' /\ (n <> 0 -> c <= n) /\ (step_of o t' = None \/ (n <> 0 /\ c = n)).
Proof. exact reduce_char. Qed.

Theorem C04_compose : forall f1 f2 o n m t t1 c1 t2 c2, n <> 0 -> m <> 0 ->
  reduce_m f1 o n t = Some (t1, c1) -> reduce_m f2 o m t1 = Some (t2, c2) ->
  exists f3, reduce_m f3 o (n + m) t = Some (t2, c1 + c2).
Proof. exact reduce_compose. Qed.

Theorem C04_split : forall f o n m t t2 c, n <> 0 -> m <> 0 ->
  reduce_m f o (n + m) t = Some (t2, c) ->
  exists f1 f2 t1 c1 c2, reduce_m f1 o n t = Some (t1, c1) /\ reduce_m f2 o m t1 = Some (t2, c2) /\ c = c1 + c2.
Proof. exact reduce_split. Qed.

(** any finite sequence of positive limits *)
Theorem C04_compose_list : forall ns fuel o n0 t t' cs, n0 <> 0 -> Forall (fun n => n <> 0) ns ->
  run_history fuel (same_order_history o (n0 :: ns)) t = Some (t', cs) ->
  exists f, reduce_m f o (fold_left Nat.add ns n0) t = Some (t', fold_left Nat.add cs 0).
Proof. exact reduce_compose_list. Qed.

(** limit 0 is the fixpoint of single steps: reduce(o, 1) is one application of the step function
    (or none, returning 0), and reduce(o, 0) is its iteration until it is stuck *)
Theorem C04_single : forall fuel o t t' c, reduce_m fuel o 1 t = Some (t', c) ->
  (c = 1 /\ step_of o t = Some t') \/ (c = 0 /\ t' = t /\ step_of o t = None).
Proof. exact reduce_single. Qed.
Theorem C04_fixpoint : forall o n t t',
  iter (step_of o) n t = Some t' -> step_of o t' = None -> exists fuel, reduce_m fuel o 0 t = Some (t', n).
Proof. exact reduce_complete_unlimited. Qed.

Example C04_example :
  reduce_m 50 NOR 2 (App (Abs (App (Var 1) (Var 1))) (App (Abs (Var 1)) (Abs (Var 1)))) =
    Some (App (Abs (Var 1)) (App (Abs (Var 1)) (Abs (Var 1))), 2).
Proof. reflexivity. Qed.

Print Assumptions C04_bound.
Print Assumptions C04_deterministic.
Print Assumptions C04_total.
Print Assumptions C04_prefix.
Print Assumptions C04_compose.
Print Assumptions C04_split.
Print Assumptions C04_compose_list.
Print Assumptions C04_single.
Print Assumptions C04_fixpoint.
