(** * Bounded, in-kernel evaluation of the encoded operations on the model reducer.

    Every theorem here carries its bound in its statement: it is a proof for the finite grid it
    names (by [vm_compute] of the model of [reduce] on the GENERATED constants, lifted with
    [forallb_forall]), not a claim about all numbers. *)
From LC Require Import Spec.Encodings Model.Reduction Gen.Terms Proofs.Generic Proofs.Limits.

Definition FUEL : nat := 4000.
(** a limit that is never reached on the grids, so that a diverging computation (after a change of
    the crate) is cut off instead of running until the fuel is exhausted *)
Definition GLIMIT : nat := 3000.

Definition run_is_l (L : nat) (o : order) (t expected : term) : bool :=
  match reduce_m FUEL o L t with Some (u, c) => term_eqb u expected && (c <? L) | None => false end.
Definition run_is := run_is_l GLIMIT.
(** the signed operations need more steps *)
Definition SLIMIT : nat := 4 * 3000.
Definition run_is_s := run_is_l SLIMIT.

Lemma run_is_l_sound L o t e : run_is_l L o t e = true -> exists c, reduce_m FUEL o 0 t = Some (e, c).
Proof.
  unfold run_is_l. destruct (reduce_m FUEL o L t) as [[u c]|] eqn:E; try discriminate.
  intros H. apply andb_true_iff in H. destruct H as [H1 H2].
  apply term_eqb_eq in H1. apply Nat.ltb_lt in H2. subst. exists c.
  rewrite reduce_m_g in *. eapply nolimit; [|exact E|exact H2]. lia.
Qed.
Lemma run_is_sound o t e : run_is o t e = true -> exists c, reduce_m FUEL o 0 t = Some (e, c).
Proof. apply run_is_l_sound. Qed.

Definition upto (B : nat) : list nat := seq 0 (S B).
Lemma in_upto B n : n <= B -> In n (upto B).
Proof. intros. apply in_seq. lia. Qed.

Definition for1 (B : nat) (P : nat -> bool) : bool := forallb P (upto B).
Definition for2 (B : nat) (P : nat -> nat -> bool) : bool := forallb (fun m => forallb (P m) (upto B)) (upto B).
Lemma for1_sound B P : for1 B P = true -> forall n, n <= B -> P n = true.
Proof. unfold for1. rewrite forallb_forall. intros H n Hn. apply H, in_upto; auto. Qed.
Lemma for2_sound B P : for2 B P = true -> forall m n, m <= B -> n <= B -> P m n = true.
Proof.
  unfold for2. rewrite forallb_forall. intros H m n Hm Hn.
  specialize (H m (in_upto _ _ Hm)). rewrite forallb_forall in H. apply H, in_upto; auto.
Qed.

Definition orders_all : list order := [NOR; HNO; HAP; APP].
Definition orders_noapp : list order := [NOR; HNO; HAP].
Definition orders_lazy : list order := [NOR; HNO].
Definition for_orders (os : list order) (P : order -> bool) : bool := forallb P os.
Lemma for_orders_sound os P : for_orders os P = true -> forall o, In o os -> P o = true.
Proof. unfold for_orders. rewrite forallb_forall. auto. Qed.

(** unary / binary operation on encoded numbers, result encoded *)
Definition grid1 (os : list order) (B : nat) (op : term) (enc_in : nat -> term) (expected : nat -> term) : bool :=
  for_orders os (fun o => for1 B (fun n => run_is o (App op (enc_in n)) (expected n))).
Definition grid2 (os : list order) (B : nat) (op : term) (enc_in : nat -> term) (expected : nat -> nat -> term) : bool :=
  for_orders os (fun o => for2 B (fun m n => run_is o (App (App op (enc_in m)) (enc_in n)) (expected m n))).

Lemma grid1_sound os B op enc_in expected : grid1 os B op enc_in expected = true ->
  forall o n, In o os -> n <= B -> exists c, reduce_m FUEL o 0 (App op (enc_in n)) = Some (expected n, c).
Proof.
  intros H o n Ho Hn. apply run_is_sound.
  apply (for1_sound B (fun n => run_is o (App op (enc_in n)) (expected n))); auto.
  apply (for_orders_sound os _ H o Ho).
Qed.
Lemma grid2_sound os B op enc_in expected : grid2 os B op enc_in expected = true ->
  forall o m n, In o os -> m <= B -> n <= B ->
  exists c, reduce_m FUEL o 0 (App (App op (enc_in m)) (enc_in n)) = Some (expected m n, c).
Proof.
  intros H o m n Ho Hm Hn. apply run_is_sound.
  apply (for2_sound B (fun m n => run_is o (App (App op (enc_in m)) (enc_in n)) (expected m n))); auto.
  apply (for_orders_sound os _ H o Ho).
Qed.

(** ** Church numerals (C13), all m, n <= 3 *)
Definition cB : nat := 3.
Definition church_grid : list bool := [
  grid1 orders_all 5 lc_num_church_succ church (fun n => church (S n));
  grid1 orders_all 5 lc_num_church_pred church (fun n => church (pred n));
  grid1 orders_all 3 lc_num_church_fac church (fun n => church (fact n));
  grid1 orders_all 5 lc_num_church_is_zero church (fun n => bool_t (n =? 0));
  grid1 orders_all 5 lc_num_church_is_even church (fun n => bool_t (Nat.even n));
  grid1 orders_all 5 lc_num_church_is_odd church (fun n => bool_t (Nat.odd n));
  grid2 orders_all cB lc_num_church_add church (fun m n => church (m + n));
  grid2 orders_all cB lc_num_church_sub church (fun m n => church (m - n));
  grid2 orders_all cB lc_num_church_mul church (fun m n => church (m * n));
  grid2 orders_all cB lc_num_church_pow church (fun m n => church (m ^ n));
  grid2 orders_all cB lc_num_church_min church (fun m n => church (Nat.min m n));
  grid2 orders_all cB lc_num_church_max church (fun m n => church (Nat.max m n));
  grid2 orders_all cB lc_num_church_shl church (fun m n => church (m * 2 ^ n));
  grid2 orders_noapp cB lc_num_church_shr church (fun m n => church (m / 2 ^ n));
  grid2 orders_all cB lc_num_church_lt church (fun m n => bool_t (m <? n));
  grid2 orders_all cB lc_num_church_leq church (fun m n => bool_t (m <=? n));
  grid2 orders_all cB lc_num_church_eq church (fun m n => bool_t (m =? n));
  grid2 orders_all cB lc_num_church_neq church (fun m n => bool_t (negb (m =? n)));
  grid2 orders_all cB lc_num_church_geq church (fun m n => bool_t (n <=? m));
  grid2 orders_all cB lc_num_church_gt church (fun m n => bool_t (n <? m))
].
(** division family: the divisor is n + 1 *)
Definition church_div_grid : list bool := [
  grid2 orders_noapp cB (Abs (Abs (App (App lc_num_church_quot (Var 2)) (App lc_num_church_succ (Var 1))))) church (fun m n => church (m / S n));
  grid2 orders_noapp cB (Abs (Abs (App (App lc_num_church_rem (Var 2)) (App lc_num_church_succ (Var 1))))) church (fun m n => church (m mod S n));
  grid2 orders_noapp cB (Abs (Abs (App (App lc_num_church_div (Var 2)) (App lc_num_church_succ (Var 1))))) church (fun m n => pair_t (church (m / S n)) (church (m mod S n)))
].

Theorem church_grid_ok : forallb (fun b => b) church_grid = true.
Proof. vm_compute. reflexivity. Qed.
Theorem church_div_grid_ok : forallb (fun b => b) church_div_grid = true.
Proof. vm_compute. reflexivity. Qed.

(** ** the other numeral systems and the conversions (C14) *)
Definition othernum_grid : list bool := [
  grid1 orders_all 5 lc_num_scott_succ scott (fun n => scott (S n));
  grid1 orders_all 5 lc_num_scott_pred scott (fun n => scott (pred n));
  grid1 orders_all 5 lc_num_scott_is_zero scott (fun n => bool_t (n =? 0));
  grid2 orders_lazy cB lc_num_scott_add scott (fun m n => scott (m + n));
  grid2 orders_lazy 2 lc_num_scott_mul scott (fun m n => scott (m * n));
  grid2 orders_lazy 2 lc_num_scott_pow scott (fun m n => scott (m ^ n));
  grid1 orders_all 5 lc_num_parigot_succ parigot (fun n => parigot (S n));
  grid1 orders_all 5 lc_num_parigot_pred parigot (fun n => parigot (pred n));
  grid1 orders_all 5 lc_num_parigot_is_zero parigot (fun n => bool_t (n =? 0));
  grid2 orders_all cB lc_num_parigot_add parigot (fun m n => parigot (m + n));
  grid2 orders_all cB lc_num_parigot_sub parigot (fun m n => parigot (m - n));
  grid2 orders_all 2 lc_num_parigot_mul parigot (fun m n => parigot (m * n));
  grid1 orders_all 5 lc_num_stumpfu_succ stumpfu (fun n => stumpfu (S n));
  grid1 orders_all 5 lc_num_stumpfu_pred stumpfu (fun n => stumpfu (pred n));
  grid1 orders_all 5 lc_num_stumpfu_is_zero stumpfu (fun n => bool_t (n =? 0));
  grid2 orders_all cB lc_num_stumpfu_add stumpfu (fun m n => stumpfu (m + n));
  grid2 orders_all 2 lc_num_stumpfu_mul stumpfu (fun m n => stumpfu (m * n));
  grid1 orders_all 5 lc_num_church_to_scott church scott;
  grid1 orders_all 5 lc_num_church_to_parigot church parigot;
  grid1 orders_all 5 lc_num_church_to_stumpfu church stumpfu;
  grid1 orders_lazy 5 lc_num_scott_to_church scott church;
  grid1 orders_all 5 lc_num_stumpfu_to_church stumpfu church;
  grid1 orders_all 5 lc_num_stumpfu_to_scott stumpfu scott;
  grid1 orders_all 5 lc_num_stumpfu_to_parigot stumpfu parigot;
  grid1 orders_all 20 lc_num_binary_shl1 binary (fun n => binary (2 * n + 1));
  grid1 orders_all 20 lc_num_binary_lsb binary (fun n => bool_t (Nat.even n));
  grid1 orders_all 20 lc_num_binary_is_zero binary (fun n => bool_t (n =? 0));
  grid1 orders_all 20 lc_num_binary_strip binary binary;
  (* succ, pred, shl0 may leave leading zeroes: compared after strip *)
  grid1 orders_lazy 20 (Abs (App lc_num_binary_strip (App lc_num_binary_succ (Var 1)))) binary (fun n => binary (S n));
  grid1 orders_lazy 20 (Abs (App lc_num_binary_strip (App lc_num_binary_pred (Var 1)))) binary (fun n => binary (pred n));
  grid1 orders_lazy 20 (Abs (App lc_num_binary_strip (App lc_num_binary_shl0 (Var 1)))) binary (fun n => binary (2 * n))
].
Theorem othernum_grid_ok : forallb (fun b => b) othernum_grid = true.
Proof. vm_compute. reflexivity. Qed.

(** ** signed numbers (C15): all pairs (p, n) with p, n <= 2, both operands *)
Definition for4 (B : nat) (P : nat -> nat -> nat -> nat -> bool) : bool :=
  for2 B (fun a b => for2 B (fun c d => P a b c d)).
Lemma for4_sound B P : for4 B P = true -> forall a b c d, a <= B -> b <= B -> c <= B -> d <= B -> P a b c d = true.
Proof.
  intros H a b c d Ha Hb Hc Hd.
  pose proof (for2_sound B _ H a b Ha Hb) as H2. simpl in H2.
  apply (for2_sound B _ H2 c d Hc Hd).
Qed.

(** the canonical pair of an integer given as p - n *)
Definition canon_pair (enc : nat -> term) (p n : nat) : term := pair_t (enc (p - n)) (enc (n - p)).

Definition signed_grid_for (enc : nat -> term) (to_signed simplify modulus add sub mul : term) : list bool := [
  grid1 orders_lazy 3 to_signed enc (fun n => pair_t (enc n) (enc 0));
  for_orders orders_lazy (fun o => for2 3 (fun p n => run_is_s o (App simplify (pair_t (enc p) (enc n))) (canon_pair enc p n)));
  for_orders orders_lazy (fun o => for2 3 (fun p n => run_is_s o (App modulus (pair_t (enc p) (enc n))) (enc ((p - n) + (n - p)))));
  for_orders orders_lazy (fun o => for2 3 (fun p n => run_is_s o (App lc_num_signed_neg (pair_t (enc p) (enc n))) (pair_t (enc n) (enc p))));
  for_orders orders_lazy (fun o => for4 2 (fun p1 n1 p2 n2 =>
    run_is_s o (App (App add (pair_t (enc p1) (enc n1))) (pair_t (enc p2) (enc n2))) (canon_pair enc (p1 + p2) (n1 + n2))));
  for_orders orders_lazy (fun o => for4 2 (fun p1 n1 p2 n2 =>
    run_is_s o (App (App sub (pair_t (enc p1) (enc n1))) (pair_t (enc p2) (enc n2))) (canon_pair enc (p1 + n2) (n1 + p2))));
  for_orders orders_lazy (fun o => for4 2 (fun p1 n1 p2 n2 =>
    run_is_s o (App (App mul (pair_t (enc p1) (enc n1))) (pair_t (enc p2) (enc n2))) (canon_pair enc (p1 * p2 + n1 * n2) (p1 * n2 + n1 * p2))))
].
Definition signed_grid : list bool :=
  signed_grid_for church lc_num_signed_to_signed_church lc_num_signed_simplify_church lc_num_signed_modulus_church
                  lc_num_signed_add_church lc_num_signed_sub_church lc_num_signed_mul_church ++
  signed_grid_for scott lc_num_signed_to_signed_scott lc_num_signed_simplify_scott lc_num_signed_modulus_scott
                  lc_num_signed_add_scott lc_num_signed_sub_scott lc_num_signed_mul_scott ++
  signed_grid_for parigot lc_num_signed_to_signed_parigot lc_num_signed_simplify_parigot lc_num_signed_modulus_parigot
                  lc_num_signed_add_parigot lc_num_signed_sub_parigot lc_num_signed_mul_parigot ++
  signed_grid_for stumpfu lc_num_signed_to_signed_stumpfu lc_num_signed_simplify_stumpfu lc_num_signed_modulus_stumpfu
                  lc_num_signed_add_stumpfu lc_num_signed_sub_stumpfu lc_num_signed_mul_stumpfu.
Theorem signed_grid_ok : forallb (fun b => b) signed_grid = true.
Proof. vm_compute. reflexivity. Qed.

(** ** lists (C16): all lists of length <= 3 over the values {0, 1} (as Church numerals) *)
Fixpoint lists_upto (len : nat) : list (list nat) :=
  match len with
  | 0 => [[]]
  | S k => [] :: flat_map (fun l => [0 :: l; 1 :: l]) (lists_upto k)
  end.
Definition all_lists : list (list nat) := nodup (list_eq_dec Nat.eq_dec) (lists_upto 3).
Definition plist (l : list nat) : term := pair_list (map church l).
Definition for_lists (P : list nat -> bool) : bool := forallb P all_lists.
Definition lrun (os : list order) (t expected : term) : bool := for_orders os (fun o => run_is o t expected).

Definition basic_list_grid (nil cons head tail is_nil : term) (enc : list term -> term) : list bool := [
  lrun orders_noapp nil (enc []);
  for_lists (fun l => lrun orders_noapp (App is_nil (enc (map church l))) (bool_t (match l with [] => true | _ => false end)));
  for_lists (fun l => match l with [] => true | x :: r => lrun orders_noapp (App head (enc (map church l))) (church x) end);
  for_lists (fun l => match l with [] => true | x :: r => lrun orders_noapp (App tail (enc (map church l))) (enc (map church r)) end);
  for_lists (fun l => lrun orders_noapp (App (App cons (church 1)) (enc (map church l))) (enc (map church (1 :: l))))
].

Fixpoint take_while (p : nat -> bool) (l : list nat) := match l with [] => [] | x :: r => if p x then x :: take_while p r else [] end.
Fixpoint drop_while (p : nat -> bool) (l : list nat) := match l with [] => [] | x :: r => if p x then drop_while p r else l end.

Definition list_grid : list bool :=
  basic_list_grid lc_list_pair_nil lc_list_pair_cons lc_list_pair_head lc_list_pair_tail lc_list_pair_is_nil pair_list ++
  basic_list_grid lc_list_church_nil lc_list_church_cons lc_list_church_head lc_list_church_tail lc_list_church_is_nil church_list ++
  basic_list_grid lc_list_scott_nil lc_list_scott_cons lc_list_scott_head lc_list_scott_tail lc_list_scott_is_nil scott_list ++
  basic_list_grid lc_list_parigot_nil lc_list_parigot_cons lc_list_parigot_head lc_list_parigot_tail lc_list_parigot_is_nil parigot_list ++
  [ for_lists (fun l => lrun orders_noapp (App lc_list_pair_length (plist l)) (church (length l)));
    for_lists (fun l => lrun orders_noapp (App lc_list_pair_reverse (plist l)) (plist (rev l)));
    for_lists (fun l => match l with [] => true | _ => lrun orders_noapp (App lc_list_pair_last (plist l)) (church (last l 0)) end);
    for_lists (fun l => match l with [] => true | _ => lrun orders_noapp (App lc_list_pair_init (plist l)) (plist (removelast l)) end);
    for_lists (fun l => for1 2 (fun i => if i <? length l then lrun orders_noapp (App (App lc_list_pair_index (church i)) (plist l)) (church (nth i l 0)) else true));
    for_lists (fun l => for1 4 (fun k => lrun orders_noapp (App (App lc_list_pair_take (church k)) (plist l)) (plist (firstn k l))));
    for_lists (fun l => for1 4 (fun k => lrun orders_noapp (App (App lc_list_pair_drop (church k)) (plist l)) (plist (skipn k l))));
    for_lists (fun l => lrun orders_noapp (App (App lc_list_pair_map lc_num_church_succ) (plist l)) (plist (map S l)));
    for_lists (fun l => lrun orders_noapp (App (App (App lc_list_pair_foldl lc_num_church_add) (church 1)) (plist l)) (church (fold_left Nat.add l 1)));
    for_lists (fun l => lrun orders_noapp (App (App (App lc_list_pair_foldr lc_num_church_add) (church 1)) (plist l)) (church (fold_right Nat.add 1 l)));
    for_lists (fun l => lrun orders_noapp (App (App lc_list_pair_filter lc_num_church_is_zero) (plist l)) (plist (filter (fun x => x =? 0) l)));
    for_lists (fun l => lrun orders_noapp (App (App lc_list_pair_take_while lc_num_church_is_zero) (plist l)) (plist (take_while (fun x => x =? 0) l)));
    for_lists (fun l => lrun orders_noapp (App (App lc_list_pair_drop_while lc_num_church_is_zero) (plist l)) (plist (drop_while (fun x => x =? 0) l)));
    for_lists (fun l => forallb (fun l2 => lrun orders_noapp (App (App lc_list_pair_append (plist l)) (plist l2)) (plist (l ++ l2))) (lists_upto 2));
    for_lists (fun l => forallb (fun l2 => lrun orders_noapp (App (App lc_list_pair_zip (plist l)) (plist l2))
                                              (pair_list (map (fun ab => pair_t (church (fst ab)) (church (snd ab))) (combine l l2)))) (lists_upto 2));
    for_lists (fun l => forallb (fun l2 => lrun orders_noapp (App (App (App lc_list_pair_zip_with lc_num_church_add) (plist l)) (plist l2))
                                              (plist (map (fun ab => fst ab + snd ab) (combine l l2)))) (lists_upto 2));
    for2 3 (fun k v => lrun orders_noapp (App (App lc_list_pair_replicate (church k)) (church v)) (plist (repeat v k)));
    for_lists (fun l => lrun orders_noapp (fold_left App (map church l) (App lc_list_pair_list (church (length l)))) (plist l))
  ].
Theorem list_grid_ok : forallb (fun b => b) list_grid = true.
Proof. vm_compute. reflexivity. Qed.
