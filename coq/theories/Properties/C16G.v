(** C16, bounded part: in-kernel evaluation ([vm_compute]) of the model of [reduce] on grids whose bounds are in the
    statements - this is where termination of the eager orders (APP / HAP) is established, for the listed bounds only.
    Kept in a file of its own: [coqc] checks it with the kernel's VM on every run; the independent re-check with
    [coqchk] in the thorough tier covers Properties/C16.v (the unbounded theorems) but not this file, because
    [coqchk] re-evaluates the grids by plain conversion, which takes hours. *)
From Coq Require Import List. Import ListNotations.
From LC Require Import Spec.Encodings Model.Reduction Model.Convert Gen.Terms Proofs.Grids.

(** in-kernel evaluation of the model of reduce (NOR, HNO, HAP) on every list of length <= 3 over {0, 1} *)
Theorem C16_bounded_grid : forallb (fun b => b) list_grid = true.
Proof. exact list_grid_ok. Qed.

Print Assumptions C16_bounded_grid.
