(** * The Gallina model of src/reduction.rs.

    The functions (update_free_variables, _apply, apply, eval, is_reducible, the seven traversals and the
    dispatch of Term::reduce) are in Gen/ReductionSrc.v, which lib/trans_reduction.py REGENERATES from the Rust
    source on every run: [&mut self] becomes an input and an output term, [&mut count] is threaded as a pair
    component, and Rust recursion that may not terminate (limit 0) is given explicit fuel ([None] means "out of
    fuel", never a normal-looking value).  Here: what is defined on top of them. *)
From LC Require Export Model.ReductionPrelude Gen.ReductionSrc.

(** beta(term, order, limit) *)
Definition beta_fn (fuel : nat) (t : term) (o : order) (limit : nat) : option term :=
  option_map fst (reduce_m fuel o limit t).

(** a history of reduce calls on one term *)
Fixpoint run_history (fuel : nat) (h : list (order * nat)) (t : term) : option (term * list nat) :=
  match h with
  | [] => Some (t, [])
  | (o, n) :: h' =>
      match reduce_m fuel o n t with
      | None => None
      | Some (t1, c) =>
          match run_history fuel h' t1 with
          | None => None
          | Some (t2, cs) => Some (t2, c :: cs)
          end
      end
  end.
