(** * Fuel monotonicity, totality for a non-zero limit, independence of an unreached limit,
      completeness: whenever the iteration of the step function ends, the traversal returns it (C04, C07) *)
From LC Require Import Model.Reduction Proofs.Apply Proofs.Generic Proofs.Char.

(** ** more fuel never changes a result *)
Lemma beta_g_S f L o c t : beta_g (S f) L o c t =
    if limit_hit L c then ret t c else
    match t with
    | Var _ => ret t c
    | Abs b =>
        if under (spec_of o)
        then bind (beta_g f L o c b) (fun b1 c1 => ret (Abs b1) c1)
        else ret t c
    | App l r =>
        bind (opt_run (beta_g f L) (preL (spec_of o)) c l) (fun l1 c1 =>
        bind (opt_run (beta_g f L) (preR (spec_of o)) c1 r) (fun r1 c2 =>
        if is_reducible (App l1 r1) L c2 then beta_g f L o (S c2) (eval_m (App l1 r1))
        else
          bind (opt_run (beta_g f L) (postL (spec_of o)) c2 l1) (fun l2 c3 =>
          bind (opt_run (beta_g f L) (postR (spec_of o)) c3 r1) (fun r2 c4 =>
          ret (App l2 r2) c4))))
    end.
Proof. reflexivity. Qed.

Lemma opt_run_mono (rec1 rec2 : order -> nat -> term -> R) p c t r :
  (forall o c t r, rec1 o c t = Some r -> rec2 o c t = Some r) ->
  opt_run rec1 p c t = Some r -> opt_run rec2 p c t = Some r.
Proof. intros H. destruct p; simpl; auto. Qed.

Lemma beta_g_mono1 : forall f L o c t r, beta_g f L o c t = Some r -> beta_g (S f) L o c t = Some r.
Proof.
  induction f as [|f IH]; intros L o c t r H; [discriminate|].
  rewrite beta_g_S in H. rewrite beta_g_S.
  destruct (limit_hit L c); auto.
  destruct t as [i|b|l r0]; auto.
  - destruct (under (spec_of o)); auto.
    destruct (beta_g f L o c b) as [[b1 c1]|] eqn:E; [|discriminate].
    rewrite (IH _ _ _ _ _ E). exact H.
  - assert (M : forall o c t r, beta_g f L o c t = Some r -> beta_g (S f) L o c t = Some r) by (intros; apply IH; auto).
    destruct (opt_run (beta_g f L) (preL (spec_of o)) c l) as [[l1 c1]|] eqn:E1; [|discriminate].
    rewrite (opt_run_mono _ _ _ _ _ _ M E1). cbn [bind] in *.
    destruct (opt_run (beta_g f L) (preR (spec_of o)) c1 r0) as [[r1 c2]|] eqn:E2; [|discriminate].
    rewrite (opt_run_mono _ _ _ _ _ _ M E2). cbn [bind] in *.
    destruct (is_reducible (App l1 r1) L c2); auto.
    destruct (opt_run (beta_g f L) (postL (spec_of o)) c2 l1) as [[l2 c3]|] eqn:E3; [|discriminate].
    rewrite (opt_run_mono _ _ _ _ _ _ M E3). cbn [bind] in *.
    destruct (opt_run (beta_g f L) (postR (spec_of o)) c3 r1) as [[r2 c4]|] eqn:E4; [|discriminate].
    rewrite (opt_run_mono _ _ _ _ _ _ M E4). cbn [bind] in *. exact H.
Qed.

Lemma beta_g_mono f f' L o c t r : f <= f' -> beta_g f L o c t = Some r -> beta_g f' L o c t = Some r.
Proof. induction 1; auto. intros. apply beta_g_mono1; auto. Qed.

Lemma beta_g_det f1 f2 L o c t r1 r2 :
  beta_g f1 L o c t = Some r1 -> beta_g f2 L o c t = Some r2 -> r1 = r2.
Proof.
  intros H1 H2. apply (beta_g_mono f1 (f1 + f2)) in H1; [|lia]. apply (beta_g_mono f2 (f1 + f2)) in H2; [|lia].
  congruence.
Qed.

(** ** a limit that is not reached plays no role *)
Lemma limit_hit_lt L c : c < L -> limit_hit L c = false.
Proof. intros. apply limit_hit_false. lia. Qed.
Lemma limit_hit_0 c : limit_hit 0 c = false.
Proof. reflexivity. Qed.

Lemma is_reducible_nolimit t L c : c < L -> is_reducible t L c = is_reducible t 0 c.
Proof.
  intros H. destruct t as [|?|[]]; simpl; auto.
  destruct (Nat.eqb_spec L 0); [lia|]. destruct (Nat.ltb_spec c L); [reflexivity|lia].
Qed.

Lemma count_mono f L o c t t' c' : (L <> 0 -> c <= L) -> beta_g f L o c t = Some (t', c') -> c <= c'.
Proof. intros Hi H. apply char_g in H; auto. destruct H; auto. Qed.

Lemma opt_count_mono f L p c t t' c' : (L <> 0 -> c <= L) -> opt_run (beta_g f L) p c t = Some (t', c') -> c <= c' /\ (L <> 0 -> c' <= L).
Proof.
  intros Hi H. destruct p; simpl in H.
  - apply char_g in H; auto. destruct H as (?&?&?&?); auto.
  - inversion H; subst. auto.
Qed.

Lemma nolimit : forall f L o c t t' c', c <= L ->
  beta_g f L o c t = Some (t', c') -> c' < L -> beta_g f 0 o c t = Some (t', c').
Proof.
  induction f as [|f IH]; intros L o c t t' c' Hc H Hlt; [discriminate|].
  assert (Hi : L <> 0 -> c <= L) by auto.
  pose proof (count_mono _ _ _ _ _ _ _ Hi H) as Hm.
  rewrite beta_g_S in H. rewrite beta_g_S. rewrite limit_hit_0. rewrite limit_hit_lt in H by lia.
  destruct t as [i|b|l r]; auto.
  - destruct (under (spec_of o)); auto.
    destruct (beta_g f L o c b) as [[b1 c1]|] eqn:E; [|discriminate].
    cbn [bind ret] in H. inversion H; subst. rewrite (IH L _ _ _ _ _ Hc E Hlt). reflexivity.
  - assert (OR : forall p c t t' c', c <= L -> opt_run (beta_g f L) p c t = Some (t', c') -> c' < L ->
                   opt_run (beta_g f 0) p c t = Some (t', c')).
    { intros [o'|] ? ? ? ? ? ? ?; simpl in *; eauto. }
    destruct (opt_run (beta_g f L) (preL (spec_of o)) c l) as [[l1 c1]|] eqn:E1; [|discriminate].
    cbn [bind] in H.
    destruct (opt_run (beta_g f L) (preR (spec_of o)) c1 r) as [[r1 c2]|] eqn:E2; [|discriminate].
    cbn [bind] in H.
    destruct (opt_count_mono _ _ _ _ _ _ _ Hi E1) as [M1 B1].
    assert (Hi1 : L <> 0 -> c1 <= L) by auto.
    destruct (opt_count_mono _ _ _ _ _ _ _ Hi1 E2) as [M2 B2].
    assert (Hi2 : L <> 0 -> c2 <= L) by auto.
    assert (L0 : L <> 0) by lia.
    destruct (is_reducible (App l1 r1) L c2) eqn:IR.
    + assert (c2 < L).
      { apply is_reducible_true in IR. destruct IR as (?&?&_&C). apply can_true in C. lia. }
      assert (S c2 <= c') by (eapply count_mono; [|exact H]; intros; lia).
      rewrite (OR _ _ _ _ _ Hc E1) by lia. cbn [bind].
      rewrite (OR _ _ _ _ _ (B1 L0) E2) by lia. cbn [bind].
      rewrite <- (is_reducible_nolimit _ L) by lia. rewrite IR.
      apply (IH L); auto; lia.
    + destruct (opt_run (beta_g f L) (postL (spec_of o)) c2 l1) as [[l2 c3]|] eqn:E3; [|discriminate].
      cbn [bind] in H.
      destruct (opt_run (beta_g f L) (postR (spec_of o)) c3 r1) as [[r2 c4]|] eqn:E4; [|discriminate].
      cbn [bind ret] in H. inversion H; subst t' c4. clear H.
      destruct (opt_count_mono _ _ _ _ _ _ _ Hi2 E3) as [M3 B3].
      assert (Hi3 : L <> 0 -> c3 <= L) by auto.
      destruct (opt_count_mono _ _ _ _ _ _ _ Hi3 E4) as [M4 B4].
      rewrite (OR _ _ _ _ _ Hc E1) by lia. cbn [bind].
      rewrite (OR _ _ _ _ _ (B1 L0) E2) by lia. cbn [bind].
      rewrite <- (is_reducible_nolimit _ L) by lia. rewrite IR.
      rewrite (OR _ _ _ _ _ (B2 L0) E3) by lia. cbn [bind].
      rewrite (OR _ _ _ _ _ (B3 L0) E4) by lia. reflexivity.
Qed.

(** ** with a non-zero limit the traversal always terminates *)
Definition terminates (L : nat) (o : order) (c : nat) (t : term) : Prop :=
  exists f r, beta_g f L o c t = Some r.

Lemma opt_terminates L p c t :
  (forall o, terminates L o c t) -> exists f r, opt_run (beta_g f L) p c t = Some r.
Proof.
  intros H. destruct p as [o'|]; simpl.
  - apply H.
  - exists 0, (t, c). reflexivity.
Qed.

(** zero steps leave the term alone *)
Lemma opt_same_count f L p c t t' : (L <> 0 -> c <= L) ->
  opt_run (beta_g f L) p c t = Some (t', c) -> t' = t.
Proof.
  intros Hi H. destruct p; simpl in H.
  - apply char_g in H; auto. destruct H as (_ & H & _). rewrite Nat.sub_diag in H. cbn [iter] in H. congruence.
  - inversion H; auto.
Qed.

Lemma total_g L : L <> 0 -> forall n s o c t, L - c <= n -> size t <= s -> c <= L -> terminates L o c t.
Proof.
  intros L0. induction n as [|n IHn].
  { intros s o c t Hn _ Hc. assert (c = L) by lia. subst. exists 1, (t, L).
    rewrite beta_g_S. assert (E : limit_hit L L = true) by (apply limit_hit_true; auto). rewrite E. reflexivity. }
  induction s as [|s IHs]; intros o c t Hn Hs Hc.
  { destruct t; simpl in Hs; lia. }
  destruct (Nat.eq_dec c L) as [->|Hne].
  { exists 1, (t, L). rewrite beta_g_S.
    assert (E : limit_hit L L = true) by (apply limit_hit_true; auto). rewrite E. reflexivity. }
  assert (LH : limit_hit L c = false) by (apply limit_hit_lt; lia).
  assert (Hi : L <> 0 -> c <= L) by auto.
  (* the combined induction hypothesis: a later count, or the same count and a smaller term *)
  assert (IHc : forall o' c' t', c' <= L -> (c < c' \/ (c' = c /\ size t' <= s)) -> terminates L o' c' t').
  { intros o' c' t' Hc' [Hlt|[-> Hsz]].
    - apply (IHn (size t')); auto; lia.
    - apply IHs; auto. }
  destruct t as [i|b|l r].
  - exists 1, (Var i, c). rewrite beta_g_S. rewrite LH. reflexivity.
  - destruct (under (spec_of o)) eqn:U.
    + destruct (IHc o c b Hc) as (f & [b1 c1] & E); [right; split; auto; simpl in Hs; lia|].
      exists (S f), (Abs b1, c1). rewrite beta_g_S. rewrite LH, U, E. reflexivity.
    + exists 1, (Abs b, c). rewrite beta_g_S. rewrite LH, U. reflexivity.
  - simpl in Hs.
    (* phase 1 *)
    destruct (opt_terminates L (preL (spec_of o)) c l) as (f1 & [l1 c1] & E1).
    { intros o'. apply IHc; auto. right; split; auto; lia. }
    destruct (opt_count_mono _ _ _ _ _ _ _ Hi E1) as [M1 B1]. specialize (B1 L0).
    assert (S1 : c1 = c -> l1 = l) by (intros ->; eapply opt_same_count; eauto).
    (* phase 2 *)
    destruct (opt_terminates L (preR (spec_of o)) c1 r) as (f2 & [r1 c2] & E2).
    { intros o'. apply IHc; auto. destruct (Nat.eq_dec c1 c); [right; split; auto; lia|left; lia]. }
    assert (Hi1 : L <> 0 -> c1 <= L) by auto.
    destruct (opt_count_mono _ _ _ _ _ _ _ Hi1 E2) as [M2 B2]. specialize (B2 L0).
    assert (S2 : c2 = c1 -> r1 = r) by (intros ->; eapply opt_same_count; eauto).
    assert (Hi2 : L <> 0 -> c2 <= L) by auto.
    destruct (is_reducible (App l1 r1) L c2) eqn:IR.
    + assert (c2 < L).
      { apply is_reducible_true in IR. destruct IR as (?&?&_&C). apply can_true in C. lia. }
      destruct (IHc o (S c2) (eval_m (App l1 r1))) as (f3 & r3 & E3); [lia|left; lia|].
      exists (S (f1 + f2 + f3)), r3. rewrite beta_g_S. rewrite LH.
      rewrite (opt_run_mono _ (beta_g (f1 + f2 + f3) L) _ _ _ _ (fun o c t r => beta_g_mono f1 (f1 + f2 + f3) L o c t r ltac:(lia)) E1). cbn [bind].
      rewrite (opt_run_mono _ (beta_g (f1 + f2 + f3) L) _ _ _ _ (fun o c t r => beta_g_mono f2 (f1 + f2 + f3) L o c t r ltac:(lia)) E2). cbn [bind].
      rewrite IR. eapply beta_g_mono; [|exact E3]. lia.
    + (* phase 3 *)
      destruct (opt_terminates L (postL (spec_of o)) c2 l1) as (f3 & [l2 c3] & E3).
      { intros o'. apply IHc; auto. destruct (Nat.eq_dec c2 c); [right; split; auto|left; lia].
        assert (c1 = c) by lia. rewrite (S1 H). lia. }
      destruct (opt_count_mono _ _ _ _ _ _ _ Hi2 E3) as [M3 B3]. specialize (B3 L0).
      (* phase 4 *)
      destruct (opt_terminates L (postR (spec_of o)) c3 r1) as (f4 & [r2 c4] & E4).
      { intros o'. apply IHc; auto. destruct (Nat.eq_dec c3 c); [right; split; auto|left; lia].
        assert (c2 = c1) by lia. assert (c1 = c) by lia. rewrite (S2 H). lia. }
      exists (S (f1 + f2 + f3 + f4)), (App l2 r2, c4). rewrite beta_g_S. rewrite LH.
      rewrite (opt_run_mono _ (beta_g (f1 + f2 + f3 + f4) L) _ _ _ _ (fun o c t r => beta_g_mono f1 (f1 + f2 + f3 + f4) L o c t r ltac:(lia)) E1). cbn [bind].
      rewrite (opt_run_mono _ (beta_g (f1 + f2 + f3 + f4) L) _ _ _ _ (fun o c t r => beta_g_mono f2 (f1 + f2 + f3 + f4) L o c t r ltac:(lia)) E2). cbn [bind].
      rewrite IR.
      rewrite (opt_run_mono _ (beta_g (f1 + f2 + f3 + f4) L) _ _ _ _ (fun o c t r => beta_g_mono f3 (f1 + f2 + f3 + f4) L o c t r ltac:(lia)) E3). cbn [bind].
      rewrite (opt_run_mono _ (beta_g (f1 + f2 + f3 + f4) L) _ _ _ _ (fun o c t r => beta_g_mono f4 (f1 + f2 + f3 + f4) L o c t r ltac:(lia)) E4). reflexivity.
Qed.

Theorem total_limited L o t : L <> 0 -> exists f r, beta_g f L o 0 t = Some r.
Proof. intros L0. apply (total_g L L0 L (size t)); lia. Qed.

(** ** completeness *)
Lemma iter_stuck_unique f n m t u v :
  iter f n t = Some u -> f u = None -> iter f m t = Some v -> (f v = None \/ m > n) -> m = n /\ v = u.
Proof.
  intros H1 S1 H2 S2.
  assert (m <= n) by (eapply iter_det_stuck; eauto).
  destruct S2 as [S2|]; [|lia].
  assert (n <= m) by (eapply iter_det_stuck; eauto).
  assert (m = n) by lia. subst. split; auto. congruence.
Qed.

Theorem complete_unlimited o n t t' :
  iter (step_g o) n t = Some t' -> step_g o t' = None -> exists f, beta_g f 0 o 0 t = Some (t', n).
Proof.
  intros H St.
  destruct (total_limited (Datatypes.S n) o t) as (f & [t2 c] & E); [lia|].
  pose proof E as E'. apply char_g in E'; [|lia]. destruct E' as (_ & I & B & D).
  rewrite Nat.sub_0_r in I. specialize (B ltac:(lia)). change (os (Some o)) with (step_g o) in *.
  destruct (iter_stuck_unique _ _ _ _ _ _ H St I) as [-> ->].
  { destruct D as [D|[_ D]]; [auto|right; lia]. }
  exists f. eapply nolimit; [|exact E|]; lia.
Qed.

Theorem complete_limited o L n t t' : L <> 0 ->
  iter (step_g o) n t = Some t' -> (step_g o t' = None /\ n <= L) \/ n = L ->
  exists f, beta_g f L o 0 t = Some (t', n).
Proof.
  intros L0 H St.
  destruct (total_limited L o t L0) as (f & [t2 c] & E).
  pose proof E as E'. apply char_g in E'; [|lia]. destruct E' as (_ & I & B & D).
  rewrite Nat.sub_0_r in I. specialize (B L0). change (os (Some o)) with (step_g o) in *.
  exists f. rewrite E. f_equal.
  destruct St as [[St Hn]|En].
  - destruct D as [D|[_ D]].
    + destruct (iter_stuck_unique _ _ _ _ _ _ H St I) as [E1 E2]; auto. subst; auto.
    + subst c. destruct (Nat.eq_dec n L) as [En|En].
      * subst n. assert (t2 = t') by congruence. subst; auto.
      * destruct (iter_stuck_unique _ _ _ _ _ _ H St I) as [E1 E2]; [right; lia|]. subst; auto.
  - subst n. destruct D as [D|[_ D]].
    + destruct (Nat.eq_dec c L) as [Ec|Ec].
      * subst c. assert (t2 = t') by congruence. subst; auto.
      * destruct (iter_stuck_unique _ _ _ _ _ _ I D H) as [E1 E2]; [right; lia|]. subst; auto.
    + subst c. assert (t2 = t') by congruence. subst; auto.
Qed.
