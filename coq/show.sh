#!/bin/bash
# usage: show.sh file.v LINE  -- compile file up to LINE (inclusive), then Show.
f=$1; n=$2
head -n $n $f > /tmp/scratch_show.v
echo "Show. Abort." >> /tmp/scratch_show.v
cd /verif/coq && coqc -Q theories LC /tmp/scratch_show.v 2>&1 | tail -${3:-40}
