(** * Gallina mirror of the accessors, constructors, macros and predicates of src/term.rs *)
From LC Require Export Model.Reduction.

(** ** accessors.  In a pure model the consuming, [_ref] and [_mut] (read) forms
    are one function; the [_mut] forms additionally give a setter (lens). *)
Definition unvar (t : term) : term_error + nat :=
  match t with Var n => inr n | _ => inl NotVar end.
Definition unabs (t : term) : term_error + term :=
  match t with Abs b => inr b | _ => inl NotAbs end.
Definition unapp (t : term) : term_error + (term * term) :=
  match t with App l r => inr (l, r) | _ => inl NotApp end.
(** lhs/rhs go through unapp and re-wrap the error as NotApp *)
Definition lhs (t : term) : term_error + term :=
  match unapp t with inr (l, _) => inr l | inl _ => inl NotApp end.
Definition rhs (t : term) : term_error + term :=
  match unapp t with inr (_, r) => inr r | inl _ => inl NotApp end.

(** writes through the [_mut] references (no-ops when the accessor returns Err) *)
Definition set_var (n : nat) (t : term) : term := match t with Var _ => Var n | _ => t end.
Definition set_abs (b : term) (t : term) : term := match t with Abs _ => Abs b | _ => t end.
Definition set_app_l (x : term) (t : term) : term := match t with App _ r => App x r | _ => t end.
Definition set_app_r (x : term) (t : term) : term := match t with App l _ => App l x | _ => t end.

(** abs(), app(), abs!(n, t), app!(t, args..) *)
Definition abs_c (t : term) : term := Abs t.
Definition app_c (l r : term) : term := App l r.
Fixpoint abs_macro (n : nat) (t : term) : term :=     (* for _ in 0..n { term = abs(term) } *)
  match n with 0 => t | S k => abs_macro k (Abs t) end.
Definition app_macro (t1 : term) (args : list term) : term := fold_left app_c args t1.

(** ** predicates *)
Fixpoint has_free_variables_helper (depth : nat) (t : term) : bool :=
  match t with
  | Var x => (depth <? x) || (x =? 0)
  | Abs p => has_free_variables_helper (S depth) p
  | App f a => has_free_variables_helper depth f || has_free_variables_helper depth a
  end.
Definition has_free_variables (t : term) : bool := has_free_variables_helper 0 t.

Fixpoint max_depth (t : term) : nat :=
  match t with
  | Var _ => 0
  | Abs b => max_depth b + 1
  | App l r => Nat.max (max_depth l) (max_depth r)
  end.

Fixpoint is_isomorphic_to (t u : term) : bool :=
  match t, u with
  | Var x, Var y => x =? y
  | Abs p, Abs q => is_isomorphic_to p q
  | App fp ap, App fq aq => is_isomorphic_to fp fq && is_isomorphic_to ap aq
  | _, _ => false
  end.

(** is_supercombinator: the explicit work-list loop.  [stack] is the Vec used as
    a stack, with its top at the head of the list. *)
Definition child_depth (depth : nat) (t : term) : nat := if is_abs t then 0 else depth.

Fixpoint sc_loop (fuel : nat) (stack : list (nat * term)) : option bool :=
  match fuel with 0 => None | S f =>
    match stack with
    | [] => Some true
    | (depth, t) :: rest =>
        match t with
        | Var i => if depth <? i then Some false else sc_loop f rest
        | Abs b => sc_loop f ((S depth, b) :: rest)
        | App l r =>
            (* for t in [f, a] { stack.push((child depth, t)) }  -- a ends up on top *)
            sc_loop f ((child_depth depth r, r) :: (child_depth depth l, l) :: rest)
        end
    end
  end.

Definition is_supercombinator (t : term) : option bool := sc_loop (S (size t)) [(0, t)].
