(** * Properties of [reduce_m] assembled from the characterisation (C01, C03, C04, C05, C08) *)
From LC Require Import Model.Reduction Spec.Positions Proofs.Apply Proofs.Generic Proofs.Char Proofs.Sound
  Proofs.Limits Proofs.Positional.

Lemma iter_ext f g n t : (forall x, f x = g x) -> iter f n t = iter g n t.
Proof. intros E. revert t; induction n; simpl; intros; auto. rewrite E. destruct (g t); auto. Qed.

Lemma iter_g_of o n t : iter (step_g o) n t = iter (step_of o) n t.
Proof. apply iter_ext. intros; apply step_g_spec. Qed.

(** ** C03 *)
Theorem reduce_stops_normal fuel o n t t' c :
  reduce_m fuel o n t = Some (t', c) -> (n = 0 \/ c < n) -> nf_of o t' = true.
Proof.
  intros H Hn. apply reduce_char in H. destruct H as (_ & _ & [S|[? ?]]).
  - apply stuck_nf; auto.
  - lia.
Qed.

Lemma iter_from_stuck f n t u : f t = None -> iter f n t = Some u -> n = 0 /\ u = t.
Proof. destruct n; simpl; intros S H; [inversion H; auto|rewrite S in H; discriminate]. Qed.

Theorem reduce_idle fuel o n t t' c :
  nf_of o t = true -> reduce_m fuel o n t = Some (t', c) -> t' = t /\ c = 0.
Proof.
  intros N H. apply reduce_char in H. destruct H as (I & _). apply stuck_nf in N.
  destruct (iter_from_stuck _ _ _ _ N I); auto.
Qed.

Theorem reduce_idle_total o n t : nf_of o t = true -> exists fuel, reduce_m fuel o n t = Some (t, 0).
Proof.
  intros N. apply stuck_nf in N. rewrite <- step_g_spec in N.
  destruct n as [|n].
  - destruct (complete_unlimited o 0 t t eq_refl N) as [f E]. exists f. rewrite reduce_m_g. exact E.
  - destruct (complete_limited o (S n) 0 t t ltac:(lia) eq_refl) as [f E]; [left; split; auto; lia|].
    exists f. rewrite reduce_m_g. exact E.
Qed.

(** ** C04 *)
Theorem reduce_bound fuel o n t t' c : n <> 0 -> reduce_m fuel o n t = Some (t', c) -> c <= n.
Proof. intros N H. apply reduce_char in H. destruct H as (_ & B & _). auto. Qed.

Theorem reduce_deterministic f1 f2 o n t r1 r2 :
  reduce_m f1 o n t = Some r1 -> reduce_m f2 o n t = Some r2 -> r1 = r2.
Proof. rewrite !reduce_m_g. apply beta_g_det. Qed.

Theorem reduce_total o n t : n <> 0 -> exists fuel r, reduce_m fuel o n t = Some r.
Proof. intros N. destruct (total_limited n o t N) as (f & r & E). exists f, r. rewrite reduce_m_g; auto. Qed.

(** completeness: the iteration of the step function is what [reduce] returns *)
Theorem reduce_complete_unlimited o n t t' :
  iter (step_of o) n t = Some t' -> step_of o t' = None -> exists fuel, reduce_m fuel o 0 t = Some (t', n).
Proof.
  rewrite <- iter_g_of, <- step_g_spec. intros I S.
  destruct (complete_unlimited o n t t' I S) as [f E]. exists f. rewrite reduce_m_g; auto.
Qed.

Theorem reduce_complete_limited o L n t t' : L <> 0 ->
  iter (step_of o) n t = Some t' -> (step_of o t' = None /\ n <= L) \/ n = L ->
  exists fuel, reduce_m fuel o L t = Some (t', n).
Proof.
  rewrite <- iter_g_of, <- step_g_spec. intros L0 I S.
  destruct (complete_limited o L n t t' L0 I S) as [f E]. exists f. rewrite reduce_m_g; auto.
Qed.

(** reduce(o, n) followed by reduce(o, m) is reduce(o, n + m) *)
Theorem reduce_compose f1 f2 o n m t t1 c1 t2 c2 : n <> 0 -> m <> 0 ->
  reduce_m f1 o n t = Some (t1, c1) -> reduce_m f2 o m t1 = Some (t2, c2) ->
  exists f3, reduce_m f3 o (n + m) t = Some (t2, c1 + c2).
Proof.
  intros N M H1 H2. apply reduce_char in H1. apply reduce_char in H2.
  destruct H1 as (I1 & B1 & D1). destruct H2 as (I2 & B2 & D2).
  specialize (B1 N). specialize (B2 M).
  apply reduce_complete_limited; [lia| |].
  - eapply iter_add; eauto.
  - destruct D1 as [S1|[_ ->]].
    + destruct (iter_from_stuck _ _ _ _ S1 I2) as [-> ->]. left. split; auto. lia.
    + destruct D2 as [S2|[_ ->]]; [left; split; auto; lia|right; lia].
Qed.

(** conversely a run with limit n + m splits at n *)
Theorem reduce_split f o n m t t2 c : n <> 0 -> m <> 0 ->
  reduce_m f o (n + m) t = Some (t2, c) ->
  exists f1 f2 t1 c1 c2, reduce_m f1 o n t = Some (t1, c1) /\ reduce_m f2 o m t1 = Some (t2, c2) /\ c = c1 + c2.
Proof.
  intros N M H.
  destruct (reduce_total o n t N) as (f1 & [t1 c1] & E1).
  destruct (reduce_total o m t1 M) as (f2 & [t2' c2] & E2).
  destruct (reduce_compose _ _ _ _ _ _ _ _ _ _ N M E1 E2) as [f3 E3].
  pose proof (reduce_deterministic _ _ _ _ _ _ _ H E3) as Eq. inversion Eq; subst.
  exists f1, f2, t1, c1, c2. auto.
Qed.

(** a whole list of positive limits *)
Fixpoint same_order_history (o : order) (ns : list nat) : list (order * nat) :=
  match ns with [] => [] | n :: r => (o, n) :: same_order_history o r end.

Theorem reduce_compose_list : forall ns fuel o n0 t t' cs, n0 <> 0 -> Forall (fun n => n <> 0) ns ->
  run_history fuel (same_order_history o (n0 :: ns)) t = Some (t', cs) ->
  exists f, reduce_m f o (fold_left Nat.add ns n0) t = Some (t', fold_left Nat.add cs 0).
Proof.
  induction ns as [|n1 ns IH]; intros fuel o n0 t t' cs N0 Hall H.
  - simpl in H. destruct (reduce_m fuel o n0 t) as [[t1 c1]|] eqn:E; [|discriminate].
    inversion H; subst. simpl. exists fuel. auto.
  - inversion Hall as [|? ? N1 Hall']; subst.
    cbn [same_order_history run_history] in H.
    destruct (reduce_m fuel o n0 t) as [[t1 c1]|] eqn:E0; [|discriminate].
    destruct (reduce_m fuel o n1 t1) as [[t2 c2]|] eqn:E1; [|discriminate].
    destruct (run_history fuel (same_order_history o ns) t2) as [[t3 cs3]|] eqn:E2; [|discriminate].
    inversion H; subst. clear H.
    destruct (reduce_compose _ _ _ _ _ _ _ _ _ _ N0 N1 E0 E1) as [f3 E3].
    (* feed the merged first call to the induction hypothesis *)
    destruct (IH (f3 + fuel) o (n0 + n1) t t' ((c1 + c2) :: cs3)) as [f4 E4]; [lia|auto| |].
    + cbn [same_order_history run_history].
      assert (M : forall f o n t r, reduce_m f o n t = Some r -> reduce_m (f3 + fuel) o n t = Some r -> True) by auto.
      rewrite reduce_m_g in *.
      rewrite (beta_g_mono f3 (f3 + fuel) _ _ _ _ _ ltac:(lia) E3).
      assert (RH : forall h x r, run_history fuel h x = Some r -> run_history (f3 + fuel) h x = Some r).
      { induction h as [|[o' n'] h IHh]; intros x r Hx; simpl in *; auto.
        rewrite reduce_m_g in *.
        destruct (beta_g fuel n' o' 0 x) as [[x1 cx]|] eqn:Ex; [|discriminate].
        rewrite (beta_g_mono fuel (f3 + fuel) _ _ _ _ _ ltac:(lia) Ex).
        destruct (run_history fuel h x1) as [[x2 cxs]|] eqn:Eh; [|discriminate].
        rewrite (IHh _ _ Eh). exact Hx. }
      rewrite (RH _ _ _ E2). reflexivity.
    + exists f4. simpl. simpl in E4. exact E4.
Qed.

(** limit 1: exactly one application of the step function, or none *)
Theorem reduce_single fuel o t t' c :
  reduce_m fuel o 1 t = Some (t', c) ->
  (c = 1 /\ step_of o t = Some t') \/ (c = 0 /\ t' = t /\ step_of o t = None).
Proof.
  intros H. apply reduce_char in H. destruct H as (I & B & D). specialize (B ltac:(lia)).
  destruct c as [|[|c]]; [|left|lia].
  - right. simpl in I. inversion I; subst. destruct D as [D|[_ D]]; [auto|discriminate].
  - split; auto. simpl in I. destruct (step_of o t); [congruence|discriminate].
Qed.

(** ** C05 *)
Theorem step_positional o t : (o = NOR \/ o = CBN \/ o = APP \/ o = CBV) -> step_of o t = pos_step o t.
Proof.
  intros [->|[->|[->| ->]]]; simpl step_of.
  - apply nor_positional. - apply cbn_positional. - apply app_positional. - apply cbv_positional.
Qed.

Definition spine_step (t u : term) : Prop :=
  exists p, spine_path p = true /\ In p (redexes_pre t) /\ contract_at p t = Some u.

Theorem reduce_hsp_spine fuel n t t' c : reduce_m fuel HSP n t = Some (t', c) -> steps spine_step c t t'.
Proof.
  intros H. apply reduce_char in H. destruct H as (I & _).
  eapply iter_steps; eauto. intros x y E. simpl in E. apply hsp_spine; auto.
Qed.

(** ** C08 *)
Theorem reduce_fv fuel o n t t' c : reduce_m fuel o n t = Some (t', c) ->
  incl (fv t') (fv t) /\ (has_ud t' = true -> has_ud t = true).
Proof. intros H. apply reduce_steps in H. eapply steps_fv; eauto. Qed.

Lemma history_red : forall h fuel t t' cs, run_history fuel h t = Some (t', cs) -> red t t'.
Proof.
  induction h as [|[o n] h IH]; intros fuel t t' cs H; simpl in H.
  - inversion H; constructor.
  - destruct (reduce_m fuel o n t) as [[t1 c]|] eqn:E; [|discriminate].
    destruct (run_history fuel h t1) as [[t2 cs2]|] eqn:E2; [|discriminate].
    inversion H; subst. eapply star_trans; [eapply steps_star, reduce_steps; eauto|eauto].
Qed.

Lemma red_fv t u : red t u -> incl (fv u) (fv t) /\ (has_ud u = true -> has_ud t = true).
Proof. intros H. apply star_steps in H. destruct H as [n H]. eapply steps_fv; eauto. Qed.
