(** * The index-level parser of the model (get_ast, then fold_exprs) is the reference
      recursive-descent parser (C09, part 4). *)
From LC Require Import Spec.Grammar Model.Parser.

(** a token list represents a list of expressions (balanced groups) *)
Inductive rep : list token -> list expression -> Prop :=
| rep_nil : rep [] []
| rep_lam ts es : rep ts es -> rep (Lambda :: ts) (EAbstraction :: es)
| rep_idx n ts es : rep ts es -> rep (Number n :: ts) (EVariable n :: es)
| rep_grp g sub ts es : rep g sub -> rep ts es -> rep (Lparen :: g ++ Rparen :: ts) (ESequence sub :: es).

(** the value of a list of expressions, with the accumulated atoms [out] *)
Inductive Sem : list expression -> list term -> term -> Prop :=
| sem_nil out t : apps out = Some t -> Sem [] out t
| sem_abs r out body t : Sem r [] body -> apps (out ++ [Abs body]) = Some t -> Sem (EAbstraction :: r) out t
| sem_var n r out t : Sem r (out ++ [Var n]) t -> Sem (EVariable n :: r) out t
| sem_seq sub r out ts t : Sem sub [] ts -> Sem r (out ++ [ts]) t -> Sem (ESequence sub :: r) out t.

Lemma rep_app ts1 es1 ts2 es2 : rep ts1 es1 -> rep ts2 es2 -> rep (ts1 ++ ts2) (es1 ++ es2).
Proof.
  induction 1; intros H2; simpl; auto.
  - constructor; auto.
  - constructor; auto.
  - rewrite <- app_assoc. simpl. constructor; auto.
Qed.

(** ** get_ast *)
Definition rest_ok (nested : bool) (rest : list token) : Prop :=
  if nested then exists r, rest = Rparen :: r else rest = [].

Lemma ast_sound : forall f toks nested acc e rest,
  ast_from f toks nested acc = inr (e, rest) ->
  exists ts es, toks = ts ++ rest /\ rep ts es /\ e = ESequence (acc ++ es) /\ rest_ok nested rest.
Proof.
  induction f as [|f IH]; intros toks nested acc e rest H; [discriminate|].
  destruct toks as [|t r]; cbn [ast_from] in H.
  - destruct nested; inversion H; subst. exists [], []. rewrite !app_nil_r. repeat split; constructor.
  - destruct t as [| | |n].
    + apply IH in H. destruct H as (ts & es & -> & R & -> & O).
      exists (Lambda :: ts), (EAbstraction :: es). rewrite <- app_assoc. repeat split; auto. constructor; auto.
    + destruct (ast_from f r true []) as [err|[sub r']] eqn:E1; [discriminate|].
      apply IH in E1. destruct E1 as (g & subes & -> & Rg & -> & [r'' ->]).
      simpl tl in H. apply IH in H. destruct H as (ts & es & -> & R & -> & O).
      exists (Lparen :: g ++ Rparen :: ts), (ESequence subes :: es). simpl. rewrite <- !app_assoc. simpl.
      repeat split; auto. constructor; auto.
    + destruct nested; inversion H; subst. exists [], []. rewrite !app_nil_r. repeat split; try constructor. simpl. eauto.
    + apply IH in H. destruct H as (ts & es & -> & R & -> & O).
      exists (Number n :: ts), (EVariable n :: es). rewrite <- app_assoc. repeat split; auto. constructor; auto.
Qed.

Lemma ast_complete : forall ts es, rep ts es -> forall f nested acc rest,
  rest_ok nested rest -> length (ts ++ rest) < f ->
  ast_from f (ts ++ rest) nested acc = inr (ESequence (acc ++ es), rest).
Proof.
  induction 1 as [|ts es R IH|n ts es R IH|g sub ts es Rg IHg Rt IHt]; intros f nested acc rest O Hf.
  - destruct f; [lia|]. simpl app. rewrite app_nil_r. destruct nested; simpl in O.
    + destruct O as [r ->]. reflexivity.
    + subst. reflexivity.
  - destruct f; [simpl in Hf; lia|]. simpl app. cbn [ast_from]. rewrite IH; auto; [|simpl in Hf; lia].
    rewrite <- app_assoc. reflexivity.
  - destruct f; [simpl in Hf; lia|]. simpl app. cbn [ast_from]. rewrite IH; auto; [|simpl in Hf; lia].
    rewrite <- app_assoc. reflexivity.
  - destruct f; [simpl in Hf; lia|]. simpl app. cbn [ast_from].
    rewrite <- app_assoc. simpl app.
    rewrite (IHg f true [] (Rparen :: ts ++ rest)); [|simpl; eauto|].
    + simpl tl. rewrite IHt; auto.
      * rewrite <- app_assoc. reflexivity.
      * simpl in Hf. repeat (rewrite ?app_length in *; simpl length in *). lia.
    + simpl in Hf. repeat (rewrite ?app_length in *; simpl length in *). lia.
Qed.

Theorem get_ast_spec toks :
  match get_ast toks with
  | inr e => exists es, e = ESequence es /\ rep toks es /\ toks <> []
  | inl _ => toks = [] \/ forall es, ~ rep toks es
  end.
Proof.
  unfold get_ast. destruct toks as [|t r]; [auto|].
  destruct (ast_from (S (length (t :: r))) (t :: r) false []) as [err|[e rest]] eqn:E.
  - right. intros es R.
    pose proof (ast_complete _ _ R (S (length (t :: r))) false [] [] eq_refl) as C.
    rewrite app_nil_r in C. rewrite C in E; [discriminate|lia].
  - apply ast_sound in E. destruct E as (ts & es & E1 & R & -> & O). simpl in O. subst rest.
    rewrite app_nil_r in E1. subst ts. exists es. repeat split; auto. discriminate.
Qed.

(** ** fold_exprs *)
Lemma fold_terms_apps out : fold_terms out = match apps out with Some t => inr t | None => inl EmptyExpression end.
Proof. destruct out; reflexivity. Qed.

Lemma abs_times_succ d t : abs_times (S d) t = abs_times d (Abs t).
Proof. reflexivity. Qed.

Lemma fold_sound : forall f es d out T,
  fold_exprs_from f es d out = inr T -> exists t, Sem es out t /\ T = abs_times d t.
Proof.
  induction f as [|f IH]; intros es d out T H; [discriminate|].
  destruct es as [|e r]; cbn [fold_exprs_from] in H.
  - rewrite fold_terms_apps in H. destruct (apps out) eqn:A; inversion H; subst.
    eexists; split; [constructor; eauto|reflexivity].
  - destruct e as [|sub|n].
    + destruct out as [|x o].
      * apply IH in H. destruct H as (t & S1 & ->). exists (Abs t). split; [|reflexivity].
        econstructor; eauto.
      * destruct (fold_exprs_from f (EAbstraction :: r) 0 []) as [err|t1] eqn:E1; [discriminate|].
        apply IH in E1. destruct E1 as (t1' & S1 & E1). simpl in E1. subst t1'.
        rewrite fold_terms_apps in H. destruct (apps ((x :: o) ++ [t1])) eqn:A; inversion H; subst.
        inversion S1 as [|r0 out0 body t0 Sb Ab| |]; subst. simpl in Ab. inversion Ab; subst.
        exists t. split; [|reflexivity]. econstructor; eauto.
    + destruct (fold_exprs_from f sub 0 []) as [err|ts] eqn:E1; [discriminate|].
      apply IH in E1. destruct E1 as (ts' & S1 & E1). simpl in E1. subst ts'.
      apply IH in H. destruct H as (t & S2 & ->). exists t. split; [|reflexivity]. econstructor; eauto.
    + apply IH in H. destruct H as (t & S1 & ->). exists t. split; [|reflexivity]. constructor; auto.
Qed.

Lemma exprs_size_cons e r : exprs_size (e :: r) = expr_size e + exprs_size r.
Proof. reflexivity. Qed.
Lemma expr_size_seq l : expr_size (ESequence l) = S (exprs_size l).
Proof. reflexivity. Qed.

Lemma fold_complete : forall es out t, Sem es out t -> forall f d,
  2 * exprs_size es < f -> fold_exprs_from f es d out = inr (abs_times d t).
Proof.
  induction 1 as [out t A|r out body t S1 IH A|n r out t S1 IH|sub r out ts t S1 IH1 S2 IH2]; intros f d Hf.
  - destruct f; [lia|]. cbn [fold_exprs_from]. rewrite fold_terms_apps, A. reflexivity.
  - rewrite exprs_size_cons in Hf. simpl expr_size in Hf.
    destruct f; [lia|]. cbn [fold_exprs_from]. destruct out as [|x o].
    + rewrite IH by lia. simpl in A. inversion A; subst. reflexivity.
    + destruct f; [lia|]. cbn [fold_exprs_from]. rewrite (IH f 1) by lia.
      simpl abs_times. rewrite fold_terms_apps, A. reflexivity.
  - rewrite exprs_size_cons in Hf. simpl expr_size in Hf.
    destruct f; [lia|]. cbn [fold_exprs_from]. apply IH. lia.
  - rewrite exprs_size_cons, expr_size_seq in Hf.
    destruct f; [lia|]. cbn [fold_exprs_from]. rewrite (IH1 f 0) by lia. simpl abs_times. apply IH2. lia.
Qed.

(** ** the reference parser *)
Section ratoms_ext.
  Variable rg : list token -> option (term * list token).
  Fixpoint ratoms_ext (fuel2 : nat) (toks : list token) {struct fuel2} : option (list term * list token) :=
    match fuel2 with 0 => None | S f2 =>
      match toks with
      | Number n :: r =>
          match ratoms_ext f2 r with Some (ts, r') => Some (Var n :: ts, r') | None => None end
      | Lparen :: r =>
          match rg r with
          | Some (t, Rparen :: r') =>
              match ratoms_ext f2 r' with Some (ts, r'') => Some (t :: ts, r'') | None => None end
          | _ => None
          end
      | _ => Some ([], toks)
      end
    end.
End ratoms_ext.

Lemma rgroup_unfold f toks :
  rgroup (S f) toks =
  match ratoms_ext (rgroup f) (S f) toks with
  | None => None
  | Some (atoms, rest) =>
      match rest with
      | Lambda :: rest' =>
          match rgroup f rest' with
          | Some (body, rest'') =>
              match apps (atoms ++ [Abs body]) with Some t => Some (t, rest'') | None => None end
          | None => None
          end
      | _ => match apps atoms with Some t => Some (t, rest) | None => None end
      end
  end.
Proof. reflexivity. Qed.

Inductive SemA : list expression -> list term -> Prop :=
| sa_nil : SemA [] []
| sa_var n r ts : SemA r ts -> SemA (EVariable n :: r) (Var n :: ts)
| sa_seq sub r t ts : Sem sub [] t -> SemA r ts -> SemA (ESequence sub :: r) (t :: ts).

Lemma SemA_Sem esA atoms : SemA esA atoms -> forall tail out t, Sem tail (out ++ atoms) t -> Sem (esA ++ tail) out t.
Proof.
  induction 1 as [|n r ts S1 IH|sub r t0 ts S0 S1 IH]; intros tail out t H; simpl.
  - rewrite app_nil_r in H. auto.
  - constructor. apply IH. rewrite <- app_assoc. auto.
  - econstructor; eauto. apply IH. rewrite <- app_assoc. auto.
Qed.

Definition group_end (rest : list token) : Prop := rest = [] \/ exists r, rest = Rparen :: r.
Definition atoms_end (rest : list token) : Prop := group_end rest \/ exists r, rest = Lambda :: r.

Definition rg_sound (rg : list token -> option (term * list token)) : Prop :=
  forall toks t rest, rg toks = Some (t, rest) ->
    exists ts es, toks = ts ++ rest /\ rep ts es /\ Sem es [] t /\ group_end rest.

Lemma ratoms_sound rg : rg_sound rg -> forall f2 toks atoms rest,
  ratoms_ext rg f2 toks = Some (atoms, rest) ->
  exists ts es, toks = ts ++ rest /\ rep ts es /\ SemA es atoms /\ atoms_end rest.
Proof.
  intros Hrg. induction f2 as [|f2 IH]; intros toks atoms rest H; [discriminate|].
  destruct toks as [|t r]; cbn [ratoms_ext] in H.
  - inversion H; subst. exists [], []. split; [reflexivity|]. split; [constructor|]. split; [constructor|]. left. left. reflexivity.
  - destruct t as [| | |n].
    + inversion H; subst. exists [], []. split; [reflexivity|]. split; [constructor|]. split; [constructor|]. right. eauto.
    + destruct (rg r) as [[t0 [|[| | |m] r']]|] eqn:E; try discriminate.
      destruct (ratoms_ext rg f2 r') as [[ts r'']|] eqn:E2; [|discriminate]. inversion H; subst.
      apply Hrg in E. destruct E as (g & sub & -> & Rg & Sg & _).
      apply IH in E2. destruct E2 as (ts' & es & -> & R & SA & O).
      exists (Lparen :: g ++ Rparen :: ts'), (ESequence sub :: es). simpl. rewrite <- !app_assoc. simpl.
      split; [reflexivity|]. split; [constructor; auto|]. split; [constructor; auto|auto].
    + inversion H; subst. exists [], []. split; [reflexivity|]. split; [constructor|]. split; [constructor|]. left. right. eauto.
    + destruct (ratoms_ext rg f2 r) as [[ts r']|] eqn:E2; [|discriminate]. inversion H; subst.
      apply IH in E2. destruct E2 as (ts' & es & -> & R & SA & O).
      exists (Number n :: ts'), (EVariable n :: es).
      split; [reflexivity|]. split; [constructor; auto|]. split; [constructor; auto|auto].
Qed.

Theorem rgroup_sound : forall f, rg_sound (rgroup f).
Proof.
  induction f as [|f IH]; intros toks t rest H; [discriminate|].
  rewrite rgroup_unfold in H.
  destruct (ratoms_ext (rgroup f) (S f) toks) as [[atoms rest1]|] eqn:E; [|discriminate].
  apply (ratoms_sound _ IH) in E. destruct E as (tsA & esA & -> & RA & SA & O).
  destruct rest1 as [|[| | |n] rest'].
  - destruct (apps atoms) eqn:A; inversion H; subst.
    exists tsA, esA. repeat split; auto.
    + rewrite <- (app_nil_r esA). eapply SemA_Sem; eauto. constructor. auto.
    + left; auto.
  - destruct (rgroup f rest') as [[body rest'']|] eqn:E2; [|discriminate].
    destruct (apps (atoms ++ [Abs body])) eqn:A; inversion H; subst.
    apply IH in E2. destruct E2 as (ts' & es' & -> & R' & S' & O').
    exists (tsA ++ Lambda :: ts'), (esA ++ EAbstraction :: es'). rewrite <- app_assoc. simpl.
    repeat split; auto.
    + apply rep_app; auto. constructor; auto.
    + eapply SemA_Sem; eauto. econstructor; eauto.
  - exfalso. destruct O as [[O|[r O]]|[r O]]; discriminate.
  - destruct (apps atoms) eqn:A; inversion H; subst.
    exists tsA, esA. repeat split; auto.
    + rewrite <- (app_nil_r esA). eapply SemA_Sem; eauto. constructor. auto.
    + right; eauto.
  - exfalso. destruct O as [[O|[r O]]|[r O]]; discriminate.
Qed.

(** completeness *)
Definition atom_only (es : list expression) : Prop := Forall (fun e => e <> EAbstraction) es.

Lemma rep_split ts es : rep ts es ->
  exists tsA esA ts2 es2, ts = tsA ++ ts2 /\ es = esA ++ es2 /\ rep tsA esA /\ atom_only esA /\
    ((ts2 = [] /\ es2 = []) \/ exists ts' es', ts2 = Lambda :: ts' /\ es2 = EAbstraction :: es' /\ rep ts' es').
Proof.
  induction 1 as [|ts es R IH|n ts es R IH|g sub ts es Rg IHg Rt IHt].
  - exists [], [], [], []. split; [reflexivity|]. split; [reflexivity|]. split; [constructor|]. split; [constructor|]. left; auto.
  - exists [], [], (Lambda :: ts), (EAbstraction :: es).
    split; [reflexivity|]. split; [reflexivity|]. split; [constructor|]. split; [constructor|]. right. eauto.
  - destruct IH as (tsA & esA & ts2 & es2 & -> & -> & RA & AO & C).
    exists (Number n :: tsA), (EVariable n :: esA), ts2, es2.
    split; [reflexivity|]. split; [reflexivity|]. split; [constructor; auto|]. split; [|exact C].
    constructor; auto. discriminate.
  - destruct IHt as (tsA & esA & ts2 & es2 & -> & -> & RA & AO & C).
    exists (Lparen :: g ++ Rparen :: tsA), (ESequence sub :: esA), ts2, es2.
    split; [simpl; rewrite <- app_assoc; reflexivity|]. split; [reflexivity|]. split; [constructor; auto|]. split; [|exact C].
    constructor; auto. discriminate.
Qed.

Lemma Sem_split esA : atom_only esA -> forall es2 out t, Sem (esA ++ es2) out t ->
  exists atoms, SemA esA atoms /\ Sem es2 (out ++ atoms) t.
Proof.
  induction 1 as [|e r He Hr IH]; intros es2 out t H; simpl in H.
  - exists []. rewrite app_nil_r. split; [constructor|auto].
  - destruct e as [|sub|n]; [congruence| |].
    + inversion H as [| | |sub0 r0 out0 ts0 t0 Ssub Srest]; subst. destruct (IH _ _ _ Srest) as (atoms & SA & S2).
      exists (ts0 :: atoms). split; [constructor; auto|]. rewrite <- app_assoc in S2. auto.
    + inversion H as [| |n0 r0 out0 t0 Srest|]; subst. destruct (IH _ _ _ Srest) as (atoms & SA & S2).
      exists (Var n :: atoms). split; [constructor; auto|]. rewrite <- app_assoc in S2. auto.
Qed.

Definition rg_complete (rg : list token -> option (term * list token)) (bound : nat) : Prop :=
  forall ts es t rest, rep ts es -> Sem es [] t -> group_end rest -> length (ts ++ rest) < bound ->
    rg (ts ++ rest) = Some (t, rest).

Lemma ratoms_complete rg bound : rg_complete rg bound ->
  forall tsA esA, rep tsA esA -> forall atoms rest f2, SemA esA atoms -> atoms_end rest ->
    length (tsA ++ rest) <= bound -> length (tsA ++ rest) < f2 ->
    ratoms_ext rg f2 (tsA ++ rest) = Some (atoms, rest).
Proof.
  intros Hrg. induction 1 as [|ts es R IH|n ts es R IH|g sub ts es Rg IHg Rt IHt]; intros atoms rest f2 SA O Hb Hf.
  - inversion SA; subst. destruct f2; [lia|]. simpl app.
    destruct O as [[->|[r ->]]|[r ->]]; reflexivity.
  - inversion SA.
  - inversion SA; subst. destruct f2; [simpl in Hf; lia|]. simpl app. cbn [ratoms_ext].
    rewrite (IH ts0 rest f2); auto; simpl in *; lia.
  - inversion SA; subst. destruct f2; [simpl in Hf; lia|]. simpl app. cbn [ratoms_ext].
    rewrite <- app_assoc. simpl app.
    rewrite (Hrg g sub t (Rparen :: ts ++ rest)); auto.
    + rewrite (IHt ts0 rest f2); auto.
      * simpl in Hb. repeat (rewrite ?app_length in *; simpl length in *). lia.
      * simpl in Hf. repeat (rewrite ?app_length in *; simpl length in *). lia.
    + right. eauto.
    + simpl in Hb. repeat (rewrite ?app_length in *; simpl length in *). lia.
Qed.

Theorem rgroup_complete : forall f, rg_complete (rgroup f) f.
Proof.
  induction f as [|f IH]; intros ts es t rest R Sm O Hf; [lia|].
  rewrite rgroup_unfold.
  destruct (rep_split _ _ R) as (tsA & esA & ts2 & es2 & -> & -> & RA & AO & C).
  destruct (Sem_split _ AO _ _ _ Sm) as (atoms & SA & S2). simpl app in S2.
  rewrite <- app_assoc.
  assert (L : length (tsA ++ ts2 ++ rest) <= f) by (rewrite <- app_assoc in Hf; lia).
  destruct C as [[-> ->]|(ts' & es' & -> & -> & R')].
  - simpl app. rewrite (ratoms_complete _ f IH tsA esA RA atoms rest (S f)); auto.
    + inversion S2 as [out0 t0 Aq| | |]; subst. simpl in Aq. rewrite Aq.
      destruct O as [->|[r ->]]; reflexivity.
    + left; auto.
    + simpl in L. lia.
  - rewrite (ratoms_complete _ f IH tsA esA RA atoms ((Lambda :: ts') ++ rest) (S f)); auto.
    + simpl app. inversion S2 as [|r0 out0 body t0 Sb Ab| |]; subst. simpl in Ab.
      rewrite (IH ts' es' body rest); auto.
      * rewrite Ab. reflexivity.
      * repeat (rewrite ?app_length in *; simpl length in *). lia.
    + right. simpl. eauto.
    + lia.
Qed.

(** ** the two index-level parsers agree on every token list *)
Definition pipeline (toks : list token) : parse_error + term :=
  match get_ast toks with
  | inl e => inl e
  | inr (ESequence es) => fold_exprs es
  | inr _ => inl InvalidExpression
  end.

Lemma Sem_nonempty t : ~ Sem [] [] t.
Proof. intros H. inversion H; subst. discriminate. Qed.

Theorem pipeline_rparse toks :
  match rparse toks with
  | Some t => pipeline toks = inr t
  | None => exists e, pipeline toks = inl e
  end.
Proof.
  unfold rparse.
  destruct (rgroup (S (length toks)) toks) as [[t rest]|] eqn:E.
  - destruct rest as [|x rest'].
    + (* the reference accepts *)
      apply rgroup_sound in E. destruct E as (ts & es & E1 & R & Sm & _). rewrite app_nil_r in E1. subst ts.
      assert (NE : toks <> []).
      { intros ->. inversion R; subst. eapply Sem_nonempty; eauto. }
      unfold pipeline, get_ast. destruct toks as [|t0 r]; [congruence|].
      pose proof (ast_complete _ _ R (S (length (t0 :: r))) false [] [] eq_refl) as C.
      rewrite app_nil_r in C. rewrite C by lia. simpl app.
      unfold fold_exprs. rewrite (fold_complete _ _ _ Sm) by lia. reflexivity.
    + (* leftover tokens: the model must reject too *)
      destruct (pipeline toks) as [e|t'] eqn:P; [eauto|exfalso].
      unfold pipeline in P. destruct (get_ast toks) as [e|[|es|n]] eqn:G; try discriminate.
      unfold get_ast in G. destruct toks as [|t0 r]; [discriminate|].
      destruct (ast_from (S (length (t0 :: r))) (t0 :: r) false []) as [e|[e2 rest2]] eqn:A; [discriminate|].
      inversion G; subst. apply ast_sound in A. destruct A as (ts & es' & E1 & R & E2 & O). simpl in O. subst rest2.
      inversion E2; subst. rewrite app_nil_r in E1. subst ts.
      apply fold_sound in P. destruct P as (t1 & S1 & ->).
      pose proof (rgroup_complete (S (length (t0 :: r))) (t0 :: r) es' t1 [] R S1 (or_introl eq_refl)) as C.
      rewrite app_nil_r in C. rewrite C in E by lia. discriminate.
  - destruct (pipeline toks) as [e|t'] eqn:P; [eauto|exfalso].
    unfold pipeline in P. destruct (get_ast toks) as [e|[|es|n]] eqn:G; try discriminate.
    unfold get_ast in G. destruct toks as [|t0 r]; [discriminate|].
    destruct (ast_from (S (length (t0 :: r))) (t0 :: r) false []) as [e|[e2 rest2]] eqn:A; [discriminate|].
    inversion G; subst. apply ast_sound in A. destruct A as (ts & es' & E1 & R & E2 & O). simpl in O. subst rest2.
    inversion E2; subst. rewrite app_nil_r in E1. subst ts.
    apply fold_sound in P. destruct P as (t1 & S1 & ->).
    pose proof (rgroup_complete (S (length (t0 :: r))) (t0 :: r) es' t1 [] R S1 (or_introl eq_refl)) as C.
    rewrite app_nil_r in C. rewrite C in E by lia. discriminate.
Qed.
