(** C09 — parse accepts exactly well-formed expressions and returns the term they denote.

    [ref_parse] (Spec/Grammar.v) is the reference: a lexer automaton over the documented lexical
    elements, name resolution by lexical scoping, and a recursive-descent parser for
        G ::= A+ | A* λ G        A ::= index | name | ( G )
    with left-nested application.  The theorems below are about the model of src/parser.rs
    (Model/Parser.v: tokenize_dbr, tokenize_cla, convert_classic_tokens, get_ast, fold_exprs,
    fold_terms, parse) and hold for EVERY input string in either notation. *)
From LC Require Import Spec.Grammar Model.Parser Proofs.ParserLex Proofs.ParserCore Proofs.ParserEquiv.

Definition nota (classic : bool) : notation := if classic then Classic else DeBruijn.

(** the model returns the denoted term on well-formed input, the documented InvalidCharacter on a
    character that cannot start a token, and some Err on every other ill-formed input *)
Theorem C09_parse_is_reference : forall s classic,
  match ref_parse classic s with
  | RefOk t => parse s (nota classic) = inr t
  | RefBadStart i c => parse s (nota classic) = inl (InvalidCharacter i c)
  | RefErr => exists e, parse s (nota classic) = inl e
  end.
Proof. exact parse_is_reference. Qed.

(** "succeeds exactly when well-formed", "never a silently truncated parse" *)
Theorem C09_accepts_only_well_formed : forall s classic t,
  parse s (nota classic) = inr t <-> ref_parse classic s = RefOk t.
Proof.
  intros s classic t. pose proof (parse_is_reference s classic) as H. unfold nota.
  destruct (ref_parse classic s) as [t'|i c|]; split; intros E.
  - rewrite H in E. congruence.
  - inversion E; subst; auto.
  - rewrite H in E. discriminate.
  - discriminate.
  - destruct H as [e H]. rewrite H in E. discriminate.
  - discriminate.
Qed.

(** whitespace, the choice of glyph and anything else the lexer abstracts from never change the
    result: two inputs with the same reference parse have the same parse *)
Theorem C09_same_tokens_same_result : forall s1 s2 c1 c2 t,
  ref_parse c1 s1 = RefOk t -> ref_parse c2 s2 = RefOk t ->
  parse s1 (nota c1) = inr t /\ parse s2 (nota c2) = inr t.
Proof. intros s1 s2 c1 c2 t H1 H2. split; apply C09_accepts_only_well_formed; auto. Qed.

(** the index-level core: get_ast followed by fold_exprs is the recursive-descent parser, on every
    token list (balanced or not) *)
Theorem C09_index_parser : forall toks,
  match rparse toks with
  | Some t => pipeline toks = inr t
  | None => exists e, pipeline toks = inl e
  end.
Proof. exact pipeline_rparse. Qed.

(** name resolution of the model is lexical scoping *)
Theorem C09_name_resolution : forall cts, convert_classic_tokens cts = resolve (map atok_of_ctoken cts).
Proof. exact convert_is_resolve. Qed.

(** the first character that cannot start a token is reported with its character index (De Bruijn) *)
Theorem C09_invalid_character_dbr : forall pre c post,
  forallb dbr_char_ok pre = true -> dbr_char_ok c = false ->
  parse (pre ++ c :: post) DeBruijn = inl (InvalidCharacter (length pre) (code c)).
Proof. exact parse_dbr_invalid_character. Qed.

(** the model is a total function into ParseError + Term *)
Theorem C09_total : forall s n, exists r, parse s n = r.
Proof. intros; eauto. Qed.

Print Assumptions C09_parse_is_reference.
Print Assumptions C09_accepts_only_well_formed.
Print Assumptions C09_same_tokens_same_result.
Print Assumptions C09_index_parser.
Print Assumptions C09_name_resolution.
Print Assumptions C09_invalid_character_dbr.
Print Assumptions C09_total.
