(** * Redex positions: an independent, positional reading of the strategies (C05).

    A position is a path from the root: [DL]/[DR] into the operator/operand of an
    application, [DB] into the body of an abstraction. *)
From LC Require Export Spec.Strategies.

Inductive dir := DL | DR | DB.
Definition path := list dir.

Definition is_redex (t : term) : bool :=
  match t with App (Abs _) _ => true | _ => false end.

(** all redex positions, outermost first / leftmost first (pre-order) *)
Fixpoint redexes_pre (t : term) : list path :=
  (if is_redex t then [[]] else []) ++
  match t with
  | Var _ => []
  | Abs b => map (cons DB) (redexes_pre b)
  | App l r => map (cons DL) (redexes_pre l) ++ map (cons DR) (redexes_pre r)
  end.

(** all redex positions, innermost first / leftmost first (post-order) *)
Fixpoint redexes_post (t : term) : list path :=
  match t with
  | Var _ => []
  | Abs b => map (cons DB) (redexes_post b)
  | App l r => map (cons DL) (redexes_post l) ++ map (cons DR) (redexes_post r)
  end ++ (if is_redex t then [[]] else []).

(** contract the redex at a position *)
Fixpoint contract_at (p : path) (t : term) : option term :=
  match p, t with
  | [], App (Abs b) a => Some (subst 1 a b)
  | DL :: p', App l r => option_map (fun l' => App l' r) (contract_at p' l)
  | DR :: p', App l r => option_map (fun r' => App l r') (contract_at p' r)
  | DB :: p', Abs b => option_map Abs (contract_at p' b)
  | _, _ => None
  end.

Definition under_abs (p : path) : bool := existsb (fun d => match d with DB => true | _ => false end) p.
Definition head_path (p : path) : bool := forallb (fun d => match d with DL => true | _ => false end) p.
(** on the head spine: only bodies and operators, never an operand *)
Definition spine_path (p : path) : bool := forallb (fun d => match d with DR => false | _ => true end) p.

Definition first_path (l : list path) : option path := match l with p :: _ => Some p | [] => None end.

(** the redex each strategy's documentation names *)
Definition pos_select (o : order) (t : term) : option path :=
  match o with
  | NOR => first_path (redexes_pre t)                                   (* leftmost-outermost *)
  | CBN => match first_path (redexes_pre t) with                        (* the same, only while in head position outside abstractions *)
           | Some p => if head_path p then Some p else None
           | None => None
           end
  | APP => first_path (redexes_post t)                                  (* leftmost of the innermost *)
  | CBV => first_path (filter (fun p => negb (under_abs p)) (redexes_post t))
                                                                        (* leftmost innermost among those not inside an abstraction *)
  | _ => None
  end.

Definition pos_step (o : order) (t : term) : option term :=
  match pos_select o t with Some p => contract_at p t | None => None end.

(** all one-step reducts (used by the C01 oracle), and those on the head spine *)
Definition reducts (t : term) : list term :=
  flat_map (fun p => match contract_at p t with Some u => [u] | None => [] end) (redexes_pre t).
Definition spine_reducts (t : term) : list term :=
  flat_map (fun p => match contract_at p t with Some u => [u] | None => [] end)
           (filter spine_path (redexes_pre t)).
