(** * Shifting and substitution: two independent definitions and their algebra. *)
From LC Require Export Spec.Term.

(** ** Textbook single-variable substitution (lift on the way down). *)

(** [shift d c t]: add [d] to every index of [t] that is greater than [c]
    (i.e. refers to something outside the [c] innermost binders).  [Var 0]
    is never greater than [c], so UD is inert. *)
Fixpoint shift (d c : nat) (t : term) : term :=
  match t with
  | Var i => if c <? i then Var (i + d) else Var i
  | Abs b => Abs (shift d (S c) b)
  | App l r => App (shift d c l) (shift d c r)
  end.

(** [subst k a t]: replace index [k] (k >= 1) of [t] by [a] (whose free indices
    are lifted over the [k-1] binders crossed), and decrement the indices above
    [k], because the binder [k] referred to disappears. *)
Fixpoint subst (k : nat) (a : term) (t : term) : term :=
  match t with
  | Var i => match i ?= k with
             | Eq => shift (k - 1) 0 a
             | Gt => Var (i - 1)
             | Lt => Var i
             end
  | Abs b => Abs (subst (S k) a b)
  | App l r => App (subst k a l) (subst k a r)
  end.

Ltac cmp := repeat match goal with
  | |- context[?a <? ?b] => destruct (Nat.ltb_spec a b)
  | |- context[?a ?= ?b] => destruct (Nat.compare_spec a b)
  end; try (f_equal; lia); try lia.

Lemma shift_0 c t : shift 0 c t = t.
Proof. revert c; induction t; intros; simpl; [cmp|f_equal; auto|f_equal; auto]. Qed.

Lemma shift_shift d1 d2 c1 c2 t : c1 <= c2 -> c2 <= c1 + d1 ->
  shift d2 c2 (shift d1 c1 t) = shift (d1 + d2) c1 t.
Proof.
  revert c1 c2; induction t; intros; simpl.
  - cmp; simpl; cmp.
  - f_equal. apply IHt; lia.
  - f_equal; auto.
Qed.

Lemma shift_shift_comm d1 d2 c1 c2 t : c2 <= c1 ->
  shift d2 c2 (shift d1 c1 t) = shift d1 (c1 + d2) (shift d2 c2 t).
Proof.
  revert c1 c2; induction t; intros; simpl.
  - cmp; simpl; cmp.
  - f_equal. rewrite IHt by lia. reflexivity.
  - f_equal; auto.
Qed.

Lemma subst_shift_cancel k a c d t : c < k -> k <= c + d ->
  subst k a (shift d c t) = shift (d - 1) c t.
Proof.
  revert k c; induction t; intros; simpl.
  - cmp; simpl; cmp.
  - f_equal. apply IHt; lia.
  - f_equal; auto.
Qed.

Lemma shift_subst d c k a t : 1 <= k -> k <= S c ->
  shift d c (subst k a t) = subst k (shift d (c + 1 - k) a) (shift d (S c) t).
Proof.
  revert k c; induction t as [i|b IH|l IHl r IHr]; intros k c Hk Hc; simpl.
  - cmp; simpl; cmp.
    rewrite (shift_shift_comm d (k - 1) (c + 1 - k) 0) by lia. f_equal; lia.
  - f_equal. rewrite IH by lia. f_equal.
  - f_equal; auto.
Qed.

Lemma shift_subst_low d c k a t : c < k ->
  shift d c (subst k a t) = subst (k + d) a (shift d c t).
Proof.
  revert k c; induction t as [i|b IH|l IHl r IHr]; intros k c Hc; simpl.
  - cmp; simpl; cmp. rewrite shift_shift by lia. f_equal; lia.
  - f_equal. rewrite IH by lia. reflexivity.
  - f_equal; auto.
Qed.

Lemma subst_subst k j a b t : 1 <= j -> j <= k ->
  subst k a (subst j b t) = subst j (subst (k - j + 1) a b) (subst (S k) a t).
Proof.
  revert k j; induction t as [i|u IH|l IHl r IHr]; intros k j Hj Hk; simpl.
  - cmp; simpl; cmp.
    + rewrite (shift_subst_low (j - 1) 0 (k - j + 1)) by lia. f_equal; lia.
    + rewrite subst_shift_cancel by lia. f_equal; lia.
  - f_equal. rewrite IH by lia. reflexivity.
  - f_equal; auto.
Qed.

(** ** Parallel substitution: an independent second definition.

    [inst s t] replaces every index [i >= 1] of [t] by [s i]; under a binder the
    substitution is lifted.  Index 0 (UD) is left alone. *)

Definition up (s : nat -> term) : nat -> term :=
  fun i => match i with
           | 0 => Var 0
           | 1 => Var 1
           | S j => shift 1 0 (s j)
           end.

Fixpoint inst (s : nat -> term) (t : term) : term :=
  match t with
  | Var 0 => Var 0
  | Var i => s i
  | Abs b => Abs (inst (up s) b)
  | App l r => App (inst s l) (inst s r)
  end.

(** The substitution performed by a beta step: index 1 becomes [a], every other
    index is decremented. *)
Definition beta_sub (a : term) : nat -> term :=
  fun i => match i with
           | 0 => Var 0
           | 1 => a
           | S j => Var j
           end.

Lemma inst_ext s s' t : (forall i, 1 <= i -> s i = s' i) -> inst s t = inst s' t.
Proof.
  revert s s'; induction t as [i|b IH|l IHl r IHr]; intros s s' H; simpl.
  - destruct i; auto. apply H; lia.
  - f_equal. apply IH. intros [|[|j]] Hi; simpl; auto. rewrite H by lia; auto.
  - f_equal; auto.
Qed.

(** the single-variable substitution at level [k], seen as a parallel one *)
Definition sub_at (k : nat) (a : term) : nat -> term :=
  fun i => match i ?= k with
           | Eq => shift (k - 1) 0 a
           | Gt => Var (i - 1)
           | Lt => Var i
           end.

Lemma up_sub_at k a i : 1 <= k -> 1 <= i -> up (sub_at k a) i = sub_at (S k) a i.
Proof.
  intros Hk Hi. destruct i as [|[|j]]; [lia| |].
  - unfold up, sub_at. simpl. destruct k; [lia|]. reflexivity.
  - unfold up, sub_at.
    change (S (S j) ?= S k) with (S j ?= k).
    destruct (Nat.compare_spec (S j) k).
    + rewrite shift_shift by lia. f_equal; lia.
    + simpl. f_equal; lia.
    + destruct j; [lia|]. simpl. f_equal; lia.
Qed.

Lemma inst_sub_at k a t : 1 <= k -> inst (sub_at k a) t = subst k a t.
Proof.
  revert k; induction t as [i|b IH|l IHl r IHr]; intros k Hk; simpl.
  - destruct i.
    + destruct k; [lia|]. reflexivity.
    + reflexivity.
  - f_equal. rewrite <- IH by lia. apply inst_ext. intros; apply up_sub_at; auto.
  - f_equal; auto.
Qed.

Lemma beta_sub_sub_at a i : 1 <= i -> beta_sub a i = sub_at 1 a i.
Proof.
  intros Hi. destruct i as [|[|j]]; [lia| |]; unfold beta_sub, sub_at; simpl.
  - rewrite shift_0; auto.
  - f_equal; lia.
Qed.

Theorem inst_beta_sub a t : inst (beta_sub a) t = subst 1 a t.
Proof. rewrite <- inst_sub_at by lia. apply inst_ext. apply beta_sub_sub_at. Qed.
