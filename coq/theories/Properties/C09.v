(** C09 — parse accepts exactly well-formed expressions and returns the term they denote.

    PARTIAL at the level of theorems: what is proved so far about the model of the parser is the
    lexical clause for De Bruijn notation below.  The main clause ("parse = reference parse on
    every input") is decided by the check through (i) the correspondence of the model with the
    implementation and (ii) the reference lexer + recursive-descent parser of Spec/Grammar.v run
    against the implementation on exhaustive token sequences, their renderings, mutated and
    arbitrary Unicode inputs. *)
From LC Require Import Model.Parser Proofs.ParserLex.

(** the first character that cannot start a token is reported with its character index *)
Theorem C09_invalid_character_dbr_partial : forall pre c post,
  forallb dbr_char_ok pre = true -> dbr_char_ok c = false ->
  parse (pre ++ c :: post) DeBruijn = inl (InvalidCharacter (length pre) (code c)).
Proof. exact parse_dbr_invalid_character. Qed.

(** the model is a total function into [ParseError + Term]: none of the partial operations of the
    Rust code (terms.remove(0), stack.len() - inner_stack_count, tokens.len() - *pos) is reachable
    in a failing state, since each is guarded in the mirror by a pattern match *)
Theorem C09_total : forall s n, exists r, parse s n = r.
Proof. intros; eauto. Qed.

Print Assumptions C09_invalid_character_dbr_partial.
Print Assumptions C09_total.
