(** * The printers GENERATED from src/term.rs (Gen/PrintSrc.v, lib/trans_print.py) are the model printers of
      Model/Display.v; hence the round-trip and format theorems of C10 / C11 hold of what the source says now. *)
From Coq Require Import NArith List Arith Lia. Import ListNotations.
From LC Require Import Spec.Printing Model.Parser Model.Display Gen.TermSrc Gen.PrintSrc Proofs.TermSrcTie
  Proofs.Printing Proofs.RoundTripCla Proofs.RoundTripDbr Proofs.Base26.

Lemma base26_loop_tie : forall fuel n buf, PSrc.base26_loop fuel n buf = base26_loop fuel n buf.
Proof.
  induction fuel as [|f IH]; intros n buf; [reflexivity|].
  cbn [PSrc.base26_loop base26_loop]. cbv zeta.
  destruct (Nat.eqb_spec n 0) as [->|Hn]; [reflexivity|].
  destruct (Nat.ltb_spec 0 n) as [_|Hle]; [|lia].
  rewrite IH. reflexivity.
Qed.

Lemma base26_tie n : PSrc.base26_encode n = base26_encode n.
Proof. unfold PSrc.base26_encode, base26_encode. rewrite base26_loop_tie, ?Nat.add_1_r. reflexivity. Qed.

Lemma paren_tie lam s c : PSrc.parenthesize_if lam s c = parenthesize_if s c.
Proof. destruct c; reflexivity. Qed.

Lemma dbr_tie lam : forall t ctx, PSrc.show_precedence_dbr lam t ctx = show_precedence_dbr lam t ctx.
Proof.
  induction t as [i|b IH|l IHl r IHr]; intros ctx.
  - destruct i; reflexivity.
  - cbn [PSrc.show_precedence_dbr show_precedence_dbr]. cbv zeta. rewrite paren_tie, IH. reflexivity.
  - cbn [PSrc.show_precedence_dbr show_precedence_dbr]. cbv zeta. rewrite paren_tie, IHl, IHr. reflexivity.
Qed.

Lemma cla_tie lam : forall t ctx md d, PSrc.show_precedence_cla lam t ctx md d = show_precedence_cla lam t ctx md d.
Proof.
  induction t as [i|b IH|l IHl r IHr]; intros ctx md d.
  - destruct i as [|k]; [reflexivity|].
    cbn [PSrc.show_precedence_cla show_precedence_cla]. cbv zeta. rewrite base26_tie. reflexivity.
  - cbn [PSrc.show_precedence_cla show_precedence_cla]. cbv zeta.
    rewrite paren_tie, IH, base26_tie, ?Nat.add_1_r. reflexivity.
  - cbn [PSrc.show_precedence_cla show_precedence_cla]. cbv zeta. rewrite paren_tie, IHl, IHr. reflexivity.
Qed.

Theorem src_display_tie lam t : PSrc.display lam t = display lam t.
Proof. unfold PSrc.display, display. rewrite cla_tie, max_depth_tie. reflexivity. Qed.

Theorem src_debug_tie lam t : PSrc.debug lam t = debug lam t.
Proof. unfold PSrc.debug, debug. apply dbr_tie. Qed.

(** ** C10 / C11 on the generated printers *)
Theorem src_display_roundtrip : forall lam t, (lam = 955%N \/ lam = 92%N) -> has_ud t = false ->
  parse (map classify (PSrc.display lam t)) Classic = inr (canon t).
Proof. intros. rewrite src_display_tie. apply display_roundtrip; assumption. Qed.

Theorem src_display_format : forall lam t, PSrc.display lam t = ref_print_cla lam t.
Proof. intros. rewrite src_display_tie. apply display_format. Qed.

Theorem src_names : forall n, PSrc.base26_encode n = b26 n.
Proof. intros. rewrite base26_tie. apply base26_encode_b26. Qed.

Theorem src_debug_roundtrip : forall lam t, (lam = 955%N \/ lam = 92%N) -> indices_in 1 15 t = true ->
  parse (map classify (PSrc.debug lam t)) DeBruijn = inr t.
Proof. intros. rewrite src_debug_tie. apply debug_roundtrip; assumption. Qed.

Theorem src_debug_format : forall lam t, indices_in 1 15 t = true -> PSrc.debug lam t = ref_print_dbr lam t.
Proof. intros. rewrite src_debug_tie. apply debug_format; assumption. Qed.
