(** C07 — NOR and HNO reach every existing normal form; CBN and HSP the head forms *)
From LC Require Import Model.Reduction Spec.Confluence Spec.Standard Spec.HeadRed
  Proofs.Sound Proofs.ReduceProps Proofs.Normalise Proofs.HeadSpine.

(** standardisation, the theorem of the calculus everything below rests on *)
Theorem C07_standardization : forall t u, red t u -> st t u.
Proof. exact standardization. Qed.

(** if some reduction sequence reaches a beta-normal form v, reduce with NOR or HNO and limit 0
    terminates with exactly v *)
Theorem C07_nor : forall t v, red t v -> nfb v = true -> exists fuel c, reduce_m fuel NOR 0 t = Some (v, c).
Proof. exact nor_normalises. Qed.

Theorem C07_hno : forall t v, red t v -> nfb v = true -> exists fuel c, reduce_m fuel HNO 0 t = Some (v, c).
Proof. exact hno_reduce_normalises. Qed.

(** CBN terminates whenever a weak head normal form exists, HSP whenever a head normal form exists *)
Theorem C07_cbn : forall t w, red t w -> whnfb w = true -> exists fuel r, reduce_m fuel CBN 0 t = Some r.
Proof. exact cbn_normalises. Qed.

Theorem C07_hsp : forall t h, red t h -> hnfb h = true -> exists fuel r, reduce_m fuel HSP 0 t = Some r.
Proof. exact hsp_reduce_normalises. Qed.

(** the lemma behind HSP and HNO: head reduction length never grows along a reduction *)
Theorem C07_head_length_monotone : forall t u n, red t u -> HL t n -> exists m, m <= n /\ HL u m.
Proof. exact HL_red. Qed.

(** non-vacuity, and "even when eager orders diverge": (λ.2) Ω *)
Definition omega := App (Abs (App (Var 1) (Var 1))) (Abs (App (Var 1) (Var 1))).
Example C07_example_nor : reduce_m 20 NOR 0 (App (Abs (Var 2)) omega) = Some (Var 1, 1).
Proof. reflexivity. Qed.
Example C07_example_hno : reduce_m 20 HNO 0 (App (Abs (Var 2)) omega) = Some (Var 1, 1).
Proof. reflexivity. Qed.
Example C07_example_app_diverges : reduce_m 300 APP 0 (App (Abs (Var 2)) omega) = None.
Proof. vm_compute. reflexivity. Qed.

Print Assumptions C07_standardization.
Print Assumptions C07_nor.
Print Assumptions C07_hno.
Print Assumptions C07_cbn.
Print Assumptions C07_hsp.
Print Assumptions C07_head_length_monotone.
