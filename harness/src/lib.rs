//! Shared helpers for the verification harness: PRNG, term generators, serialisation.
use lambda_calculus::*;
use lambda_calculus::reduction::Order;
use std::fmt::Write as _;

/// xorshift64* PRNG: every random choice of a run derives from one seed.
pub struct Rng(pub u64);
impl Rng {
    pub fn new(seed: u64) -> Rng {
        Rng(seed.wrapping_mul(0x9E3779B97F4A7C15) ^ 0xD1B54A32D192ED03 | 1)
    }
    pub fn next(&mut self) -> u64 {
        let mut x = self.0;
        x ^= x >> 12;
        x ^= x << 25;
        x ^= x >> 27;
        self.0 = x;
        x.wrapping_mul(0x2545F4914F6CDD1D)
    }
    pub fn below(&mut self, n: u64) -> u64 {
        (self.next() >> 11) % n.max(1)
    }
    pub fn chance(&mut self, num: u64, den: u64) -> bool {
        self.below(den) < num
    }
}

/// own serialiser (prefix notation): V<n> | L <t> | A <l> <r>.  Deliberately not Debug/Display,
/// which are themselves under verification.
pub fn ser(t: &Term) -> String {
    let mut s = String::new();
    // explicit stack: terms can be deep
    let mut stack = vec![t];
    while let Some(t) = stack.pop() {
        if !s.is_empty() {
            s.push(' ');
        }
        match t {
            Var(n) => {
                let _ = write!(s, "V{}", n);
            }
            Abs(b) => {
                s.push('L');
                stack.push(b);
            }
            App(p) => {
                s.push('A');
                stack.push(&p.1);
                stack.push(&p.0);
            }
        }
    }
    s
}

pub fn deser(s: &str) -> Term {
    let toks: Vec<&str> = s.split_whitespace().collect();
    let mut pos = 0;
    fn go(toks: &[&str], pos: &mut usize) -> Term {
        let t = toks[*pos];
        *pos += 1;
        if t == "L" {
            abs(go(toks, pos))
        } else if t == "A" {
            let l = go(toks, pos);
            let r = go(toks, pos);
            app(l, r)
        } else {
            Var(t[1..].parse().unwrap())
        }
    }
    go(&toks, &mut pos)
}

pub fn size(t: &Term) -> usize {
    match t {
        Var(_) => 1,
        Abs(b) => 1 + size(b),
        App(p) => 1 + size(&p.0) + size(&p.1),
    }
}

/// all terms with exactly `n` constructors over indices 0..=maxidx
pub fn enumerate_exact(n: usize, maxidx: usize, memo: &mut Vec<Option<Vec<Term>>>) -> Vec<Term> {
    if let Some(Some(v)) = memo.get(n) {
        return v.clone();
    }
    let mut out = Vec::new();
    if n == 1 {
        for i in 0..=maxidx {
            out.push(Var(i));
        }
    } else if n >= 2 {
        for b in enumerate_exact(n - 1, maxidx, memo) {
            out.push(abs(b));
        }
        for k in 1..n - 1 {
            let ls = enumerate_exact(k, maxidx, memo);
            let rs = enumerate_exact(n - 1 - k, maxidx, memo);
            for l in &ls {
                for r in &rs {
                    out.push(app(l.clone(), r.clone()));
                }
            }
        }
    }
    while memo.len() <= n {
        memo.push(None);
    }
    memo[n] = Some(out.clone());
    out
}

pub fn enumerate_upto(n: usize, maxidx: usize) -> Vec<Term> {
    let mut memo = Vec::new();
    let mut out = Vec::new();
    for k in 1..=n {
        out.extend(enumerate_exact(k, maxidx, &mut memo));
    }
    out
}

/// random term: `budget` constructors, `depth` = number of enclosing binders; indices are mostly
/// bound, sometimes free (up to depth+free), rarely UD.
pub fn random_term(rng: &mut Rng, budget: usize, depth: usize, free: usize, ud: bool) -> Term {
    if budget <= 1 {
        let r = rng.below(20);
        if ud && r == 0 {
            return Var(0);
        }
        if depth > 0 && r < 15 {
            return Var(1 + rng.below(depth as u64) as usize);
        }
        if free > 0 {
            return Var(depth + 1 + rng.below(free as u64) as usize);
        }
        if depth > 0 {
            return Var(1 + rng.below(depth as u64) as usize);
        }
        return Var(1 + rng.below(2) as usize);
    }
    match rng.below(10) {
        0..=3 => abs(random_term(rng, budget - 1, depth + 1, free, ud)),
        _ => {
            let k = 1 + rng.below((budget - 1).max(1) as u64 - 0) as usize;
            let k = k.min(budget - 2).max(1);
            let l = random_term(rng, k, depth, free, ud);
            let r = random_term(rng, (budget - 1 - k).max(1), depth, free, ud);
            // bias towards redexes
            if rng.chance(1, 3) {
                if let Abs(_) = l {
                    app(l, r)
                } else {
                    app(abs(random_term(rng, k.max(2) - 1, depth + 1, free, ud)), r)
                }
            } else {
                app(l, r)
            }
        }
    }
}

pub const ORDERS: [(Order, &str); 7] = [
    (NOR, "NOR"),
    (CBN, "CBN"),
    (HSP, "HSP"),
    (HNO, "HNO"),
    (APP, "APP"),
    (CBV, "CBV"),
    (HAP, "HAP"),
];

pub fn order_name(o: Order) -> &'static str {
    ORDERS.iter().find(|(x, _)| *x == o).unwrap().1
}
