
val negb : bool -> bool

type nat =
| O
| S of nat

val option_map : ('a1 -> 'a2) -> 'a1 option -> 'a2 option

type ('a, 'b) sum =
| Inl of 'a
| Inr of 'b

val fst : ('a1 * 'a2) -> 'a1

val snd : ('a1 * 'a2) -> 'a2

val length : 'a1 list -> nat

val app : 'a1 list -> 'a1 list -> 'a1 list

type comparison =
| Eq
| Lt
| Gt

val add : nat -> nat -> nat

val mul : nat -> nat -> nat

val sub : nat -> nat -> nat

val max : nat -> nat -> nat

module Nat :
 sig
  val sub : nat -> nat -> nat

  val eqb : nat -> nat -> bool

  val leb : nat -> nat -> bool

  val ltb : nat -> nat -> bool

  val compare : nat -> nat -> comparison

  val max : nat -> nat -> nat

  val even : nat -> bool

  val odd : nat -> bool

  val divmod : nat -> nat -> nat -> nat -> nat * nat

  val div : nat -> nat -> nat

  val modulo : nat -> nat -> nat
 end

val tl : 'a1 list -> 'a1 list

val rev : 'a1 list -> 'a1 list

val map : ('a1 -> 'a2) -> 'a1 list -> 'a2 list

val flat_map : ('a1 -> 'a2 list) -> 'a1 list -> 'a2 list

val fold_left : ('a1 -> 'a2 -> 'a1) -> 'a2 list -> 'a1 -> 'a1

val fold_right : ('a2 -> 'a1 -> 'a1) -> 'a1 -> 'a2 list -> 'a1

val existsb : ('a1 -> bool) -> 'a1 list -> bool

val forallb : ('a1 -> bool) -> 'a1 list -> bool

val filter : ('a1 -> bool) -> 'a1 list -> 'a1 list

val firstn : nat -> 'a1 list -> 'a1 list

val list_max : nat list -> nat

type positive =
| XI of positive
| XO of positive
| XH

type n =
| N0
| Npos of positive

module Pos :
 sig
  val succ : positive -> positive

  val eqb : positive -> positive -> bool

  val iter_op : ('a1 -> 'a1 -> 'a1) -> positive -> 'a1 -> 'a1

  val to_nat : positive -> nat

  val of_succ_nat : nat -> positive
 end

module N :
 sig
  val succ_double : n -> n

  val double : n -> n

  val eqb : n -> n -> bool

  val to_nat : n -> nat

  val of_nat : nat -> n
 end

type term =
| Var of nat
| Abs of term
| App of term * term

val size : term -> nat

val is_abs : term -> bool

val term_eqb : term -> term -> bool

val shift : nat -> nat -> term -> term

val subst : nat -> term -> term -> term

val up : (nat -> term) -> nat -> term

val inst : (nat -> term) -> term -> term

val beta_sub : term -> nat -> term

val neutralb : term -> bool

val nfb : term -> bool

val whnfb : term -> bool

val wnfb : term -> bool

val hnfb : term -> bool

val fv_at : nat -> term -> nat list

val fv : term -> nat list

val has_ud : term -> bool

val closed_at : nat -> term -> bool

val closed : term -> bool

type order =
| NOR
| CBN
| HSP
| HNO
| APP
| CBV
| HAP

val step_cbn : term -> term option

val step_nor : term -> term option

val step_cbv : term -> term option

val step_app : term -> term option

val step_hsp : term -> term option

val step_hno : term -> term option

val step_hap : term -> term option

val step_of : order -> term -> term option

val nf_of : order -> term -> bool

val iter : (term -> term option) -> nat -> term -> term option

type dir =
| DL
| DR
| DB

type path = dir list

val is_redex : term -> bool

val redexes_pre : term -> path list

val redexes_post : term -> path list

val contract_at : path -> term -> term option

val under_abs : path -> bool

val head_path : path -> bool

val spine_path : path -> bool

val first_path : path list -> path option

val pos_select : order -> term -> path option

val pos_step : order -> term -> term option

val reducts : term -> term list

val spine_reducts : term -> term list

val has_fv_spec : term -> bool

val strip : term -> term

val leaf_depths : nat -> term -> nat list

val max_depth_spec : term -> nat

val supercombb : nat -> term -> bool

type cchar = { code : n; is_alphabetic : bool; is_alphanumeric : bool;
               is_whitespace : bool; to_digit16 : nat option }

val c_backslash : n

val c_lambda : n

val c_lparen : n

val c_rparen : n

val c_dot : n

val is_char : n -> cchar -> bool

val is_lambda_glyph : cchar -> bool

type name = n list

val name_eqb : name -> name -> bool

type token =
| Lambda
| Lparen
| Rparen
| Number of nat

type atok =
| TLam of name
| TLp
| TRp
| TIdx of nat
| TName of name

type lex_result =
| LexOk of atok list
| LexBadStart of nat * n
| LexBad

val lex_dbr : nat -> cchar list -> lex_result

type lstate =
| LTop
| LBinder0
| LBinder of name
| LName of name

val lex_cla : lstate -> nat -> cchar list -> lex_result

val index_of : name -> name list -> nat option

val res_group :
  nat -> name list -> name list -> atok list -> (token list * atok
  list) * name list

val resolve : atok list -> token list

val apps : term list -> term option

val rgroup : nat -> token list -> (term * token list) option

val idx_tokens : atok list -> token list

val rparse : token list -> term option

type ref_result =
| RefOk of term
| RefBadStart of nat * n
| RefErr

val ref_parse : bool -> cchar list -> ref_result

type str = n list

val b26_fuel : nat -> nat -> str

val b26 : nat -> str

val s_undef : str

type position =
| Top
| Operator
| Operand

val tdepth : term -> nat

val print_cla : n -> nat -> term -> position -> nat -> str

val ref_print_cla : n -> term -> str

val hexd : nat -> n

val print_dbr : n -> term -> position -> str

val ref_print_dbr : n -> term -> str

val indices_in : nat -> nat -> term -> bool

val nat_index_of : nat -> nat list -> nat option

val canon_at : nat -> nat list -> term -> term * nat list

val canon : term -> term

val classify : n -> cchar

val iter_app : nat -> term -> term -> term

val church : nat -> term

val scott : nat -> term

val body2 : term -> term

val parigot : nat -> term

val stumpfu : nat -> term

val bits_term : bool list -> term

val bits_of : nat -> nat -> bool list

val binary : nat -> term

val tru_t : term

val fls_t : term

val bool_t : bool -> term

val pair_t : term -> term -> term

val none_t : term

val some_t : term -> term

val ok_t : term -> term

val err_t : term -> term

val tuple_t : term list -> term

val pair_list : term list -> term

val church_list_body : term list -> term

val church_list : term list -> term

val scott_list : term list -> term

val parigot_list : term list -> term

val count_apps : nat -> term -> nat option

val dec_church : term -> nat option

val dec_scott : nat -> term -> nat option

val dec_parigot : nat -> term -> nat option

val dec_stumpfu : nat -> term -> nat option

val dec_bits : term -> nat option

val dec_binary : term -> nat option

val bits_of_pos : positive -> bool list

val bits_of_N : n -> bool list

val binary_N : n -> term

val dec_bits_N : term -> n option

val dec_binary_N : term -> n option

val n_of_bits_msb : bool list -> n

type term_error =
| NotVar
| NotAbs
| NotApp

type r = (term * nat) option

val bind : r -> (term -> nat -> r) -> r

val ret : term -> nat -> r

val update_free_variables : nat -> nat -> term -> term

val apply_rec : term -> nat -> term -> term

val apply_m : term -> term -> (term_error * term, term) sum

val eval_m : term -> term

val limit_hit : nat -> nat -> bool

val is_reducible : term -> nat -> nat -> bool

val beta_app : nat -> nat -> nat -> term -> r

val beta_cbn : nat -> nat -> nat -> term -> r

val beta_cbv : nat -> nat -> nat -> term -> r

val beta_hap : nat -> nat -> nat -> term -> r

val beta_hsp : nat -> nat -> nat -> term -> r

val beta_hno : nat -> nat -> nat -> term -> r

val beta_nor : nat -> nat -> nat -> term -> r

val reduce_m : nat -> order -> nat -> term -> r

val beta_fn : nat -> term -> order -> nat -> term option

val run_history :
  nat -> (order * nat) list -> term -> (term * nat list) option

val unvar : term -> (term_error, nat) sum

val unabs : term -> (term_error, term) sum

val unapp : term -> (term_error, term * term) sum

val lhs : term -> (term_error, term) sum

val rhs : term -> (term_error, term) sum

val set_var : nat -> term -> term

val set_abs : term -> term -> term

val set_app_l : term -> term -> term

val set_app_r : term -> term -> term

val abs_c : term -> term

val app_c : term -> term -> term

val abs_macro : nat -> term -> term

val app_macro : term -> term list -> term

val has_free_variables_helper : nat -> term -> bool

val has_free_variables : term -> bool

val max_depth : term -> nat

val is_isomorphic_to : term -> term -> bool

val child_depth : nat -> term -> nat

val sc_loop : nat -> (nat * term) list -> bool option

val is_supercombinator : term -> bool option

type parse_error =
| InvalidCharacter of nat * n
| InvalidExpression
| EmptyExpression

type ctoken =
| CLambda of name
| CLparen
| CRparen
| CName of name

val tokenize_dbr_from : nat -> cchar list -> (parse_error, token list) sum

val tokenize_dbr : cchar list -> (parse_error, token list) sum

val scan_binder :
  nat -> cchar list -> name -> bool -> (parse_error, (name * cchar
  list) * nat) sum

val scan_name : nat -> cchar list -> name -> (name * cchar list) * nat

val tokenize_cla_from :
  nat -> nat -> cchar list -> (parse_error, ctoken list) sum

val tokenize_cla : cchar list -> (parse_error, ctoken list) sum

val rposition : name -> name list -> nat option

val convert_from :
  nat -> ctoken list -> name list -> nat -> token list -> (token
  list * ctoken list) * name list

val convert_classic_tokens : ctoken list -> token list

type expression =
| EAbstraction
| ESequence of expression list
| EVariable of nat

val ast_from :
  nat -> token list -> bool -> expression list -> (parse_error,
  expression * token list) sum

val get_ast : token list -> (parse_error, expression) sum

val fold_terms : term list -> (parse_error, term) sum

val abs_times : nat -> term -> term

val expr_size : expression -> nat

val exprs_size : expression list -> nat

val fold_exprs_from :
  nat -> expression list -> nat -> term list -> (parse_error, term) sum

val fold_exprs : expression list -> (parse_error, term) sum

type notation =
| Classic
| DeBruijn

val parse : cchar list -> notation -> (parse_error, term) sum

type str0 = n list

val base26_loop : nat -> nat -> n list -> n list

val base26_encode : nat -> str0

val s_undefined : str0

val parenthesize_if : str0 -> bool -> str0

val show_precedence_cla : n -> term -> nat -> nat -> nat -> str0

val display : n -> term -> str0

val hex_digit : nat -> n

val hex_loop : nat -> nat -> str0 -> str0

val upper_hex : nat -> str0

val show_precedence_dbr : n -> term -> nat -> str0

val debug : n -> term -> str0

val repeat_fn : nat -> (term -> term) -> term -> term

val into_church : nat -> term

val into_scott : nat -> term

val unabs2 : term -> term

val into_parigot : nat -> term

val into_stumpfu_from : nat -> nat -> term -> term

val into_stumpfu : nat -> term

val binstr_fuel : nat -> nat -> bool list -> bool list

val binstr : nat -> bool list

val into_binary : nat -> term

type encoding =
| Church
| Scott
| Parigot
| StumpFu
| Binary

val tuple_macro : term -> term list -> term

val pi_macro : nat -> nat -> term

val into_signed : bool -> nat -> encoding -> term option

val into_pair : term -> term -> term

val into_option : term option -> term

val into_result : (term, term) sum -> term

val into_pair_list : term list -> term

val into_church_list : term list -> term

val into_scott_list : term list -> term

val into_parigot_list : term list -> term

val lc_combinators_I : term

val lc_combinators_K : term

val lc_combinators_S : term

val lc_combinators_i : term

val lc_combinators_B : term

val lc_combinators_C : term

val lc_combinators_W : term

val lc_combinators_o : term

val lc_combinators_O : term

val lc_combinators_Y : term

val lc_combinators_Z : term

val lc_combinators_R : term

val lc_combinators_T : term

val lc_boolean_tru : term

val lc_boolean_fls : term

val lc_boolean_and : term

val lc_boolean_or : term

val lc_boolean_not : term

val lc_boolean_xor : term

val lc_boolean_nor : term

val lc_boolean_xnor : term

val lc_boolean_nand : term

val lc_boolean_if_else : term

val lc_boolean_imply : term

val lc_pair_pair : term

val lc_pair_fst : term

val lc_pair_snd : term

val lc_pair_uncurry : term

val lc_pair_curry : term

val lc_pair_swap : term

val lc_option_none : term

val lc_option_some : term

val lc_option_is_none : term

val lc_option_is_some : term

val lc_option_map : term

val lc_option_map_or : term

val lc_option_unwrap_or : term

val lc_option_and_then : term

val lc_result_ok : term

val lc_result_err : term

val lc_result_is_ok : term

val lc_result_is_err : term

val lc_result_option_ok : term

val lc_result_option_err : term

val lc_result_unwrap_or : term

val lc_result_map : term

val lc_result_map_err : term

val lc_result_and_then : term

val lc_num_church_zero : term

val lc_num_church_is_zero : term

val lc_num_church_one : term

val lc_num_church_succ : term

val lc_num_church_pred : term

val lc_num_church_add : term

val lc_num_church_sub : term

val lc_num_church_mul : term

val lc_num_church_pow : term

val lc_num_church_lt : term

val lc_num_church_leq : term

val lc_num_church_eq : term

val lc_num_church_neq : term

val lc_num_church_geq : term

val lc_num_church_gt : term

val lc_num_church_div : term

val lc_num_church_quot : term

val lc_num_church_rem : term

val lc_num_church_fac : term

val lc_num_church_min : term

val lc_num_church_max : term

val lc_num_church_shl : term

val lc_num_church_shr : term

val lc_num_church_is_even : term

val lc_num_church_is_odd : term

val lc_num_church_to_scott : term

val lc_num_church_to_parigot : term

val lc_num_church_to_stumpfu : term

val lc_num_scott_zero : term

val lc_num_scott_is_zero : term

val lc_num_scott_one : term

val lc_num_scott_succ : term

val lc_num_scott_pred : term

val lc_num_scott_add : term

val lc_num_scott_mul : term

val lc_num_scott_pow : term

val lc_num_scott_to_church : term

val lc_num_parigot_zero : term

val lc_num_parigot_is_zero : term

val lc_num_parigot_one : term

val lc_num_parigot_succ : term

val lc_num_parigot_pred : term

val lc_num_parigot_add : term

val lc_num_parigot_sub : term

val lc_num_parigot_mul : term

val lc_num_stumpfu_zero : term

val lc_num_stumpfu_is_zero : term

val lc_num_stumpfu_one : term

val lc_num_stumpfu_succ : term

val lc_num_stumpfu_pred : term

val lc_num_stumpfu_add : term

val lc_num_stumpfu_mul : term

val lc_num_stumpfu_to_church : term

val lc_num_stumpfu_to_scott : term

val lc_num_stumpfu_to_parigot : term

val lc_num_binary_b0 : term

val lc_num_binary_b1 : term

val lc_num_binary_zero : term

val lc_num_binary_is_zero : term

val lc_num_binary_one : term

val lc_num_binary_succ : term

val lc_num_binary_pred : term

val lc_num_binary_lsb : term

val lc_num_binary_shl0 : term

val lc_num_binary_shl1 : term

val lc_num_binary_strip : term

val lc_num_signed_neg : term

val lc_list_pair_nil : term

val lc_list_pair_is_nil : term

val lc_list_pair_cons : term

val lc_list_pair_head : term

val lc_list_pair_tail : term

val lc_list_pair_length : term

val lc_list_pair_index : term

val lc_list_pair_reverse : term

val lc_list_pair_list : term

val lc_list_pair_append : term

val lc_list_pair_map : term

val lc_list_pair_foldl : term

val lc_list_pair_foldr : term

val lc_list_pair_filter : term

val lc_list_pair_last : term

val lc_list_pair_init : term

val lc_list_pair_zip : term

val lc_list_pair_zip_with : term

val lc_list_pair_take : term

val lc_list_pair_take_while : term

val lc_list_pair_drop : term

val lc_list_pair_drop_while : term

val lc_list_pair_replicate : term

val lc_list_church_nil : term

val lc_list_church_is_nil : term

val lc_list_church_cons : term

val lc_list_church_head : term

val lc_list_church_tail : term

val lc_list_scott_nil : term

val lc_list_scott_is_nil : term

val lc_list_scott_cons : term

val lc_list_scott_head : term

val lc_list_scott_tail : term

val lc_list_parigot_nil : term

val lc_list_parigot_is_nil : term

val lc_list_parigot_cons : term

val lc_list_parigot_head : term

val lc_list_parigot_tail : term

val lc_num_signed_to_signed_church : term

val lc_num_signed_simplify_church : term

val lc_num_signed_modulus_church : term

val lc_num_signed_add_church : term

val lc_num_signed_sub_church : term

val lc_num_signed_mul_church : term

val lc_num_signed_to_signed_scott : term

val lc_num_signed_simplify_scott : term

val lc_num_signed_modulus_scott : term

val lc_num_signed_add_scott : term

val lc_num_signed_sub_scott : term

val lc_num_signed_mul_scott : term

val lc_num_signed_to_signed_parigot : term

val lc_num_signed_simplify_parigot : term

val lc_num_signed_modulus_parigot : term

val lc_num_signed_add_parigot : term

val lc_num_signed_sub_parigot : term

val lc_num_signed_mul_parigot : term

val lc_num_signed_to_signed_stumpfu : term

val lc_num_signed_simplify_stumpfu : term

val lc_num_signed_modulus_stumpfu : term

val lc_num_signed_add_stumpfu : term

val lc_num_signed_sub_stumpfu : term

val lc_num_signed_mul_stumpfu : term

val all_terms : term list
