(** C15 — signed-number operations implement integer arithmetic on numeral pairs.

    On the GENERATED constants of src/data/num/signed.rs, for each of the four supported encodings E and
    ALL pairs of numerals (p, n) - canonical or not - where [sp E p n] is the pair (E p, E n) denoting
    the integer [sval p n = p - n], and the canonical pair of an integer z is ([zpos z], [zneg z]):
    simplify yields the canonical pair of p - n; modulus yields E |p - n|; neg swaps; to_signed x is (x, 0);
    add / sub / mul yield the canonical pair of the integer sum / difference / product (record [signed_spec]).
    By C07 reduce(NOR, 0) and reduce(HNO, 0) return exactly these pairs; the bounded grid is kept as an
    in-kernel evaluation of the model of reduce. *)
From Coq Require Import ZArith.
From LC Require Import Spec.Encodings Spec.Confluence Spec.NorEval Model.Reduction Gen.Terms
  Proofs.Sound Proofs.ReduceProps Proofs.Normalise Proofs.Convert Proofs.SignedArith Proofs.Returns.

Theorem C15_church : signed_spec church lc_num_signed_simplify_church lc_num_signed_modulus_church
  lc_num_signed_to_signed_church lc_num_signed_add_church lc_num_signed_sub_church lc_num_signed_mul_church.
Proof. exact signed_church. Qed.
Theorem C15_scott : signed_spec scott lc_num_signed_simplify_scott lc_num_signed_modulus_scott
  lc_num_signed_to_signed_scott lc_num_signed_add_scott lc_num_signed_sub_scott lc_num_signed_mul_scott.
Proof. exact signed_scott. Qed.
Theorem C15_parigot : signed_spec parigot lc_num_signed_simplify_parigot lc_num_signed_modulus_parigot
  lc_num_signed_to_signed_parigot lc_num_signed_add_parigot lc_num_signed_sub_parigot lc_num_signed_mul_parigot.
Proof. exact signed_parigot. Qed.
Theorem C15_stumpfu : signed_spec stumpfu lc_num_signed_simplify_stumpfu lc_num_signed_modulus_stumpfu
  lc_num_signed_to_signed_stumpfu lc_num_signed_add_stumpfu lc_num_signed_sub_stumpfu lc_num_signed_mul_stumpfu.
Proof. exact signed_stumpfu. Qed.

(** the statement unfolded once, to be read without the record: Scott addition *)
Theorem C15_scott_add_explicit : forall p1 n1 p2 n2,
  red (App (App lc_num_signed_add_scott (pair_t (scott p1) (scott n1))) (pair_t (scott p2) (scott n2)))
      (pair_t (scott (Z.to_nat ((Z.of_nat p1 - Z.of_nat n1) + (Z.of_nat p2 - Z.of_nat n2))))
              (scott (Z.to_nat (- ((Z.of_nat p1 - Z.of_nat n1) + (Z.of_nat p2 - Z.of_nat n2)))))).
Proof. intros. apply (ss_add _ _ _ _ _ _ _ signed_scott). Qed.

(** canonical pairs have a zero component and denote the integer *)
Theorem C15_canonical : forall z : Z, (zpos z = 0 \/ zneg z = 0) /\ sval (zpos z) (zneg z) = z.
Proof. intros z. unfold zpos, zneg, sval. split; lia. Qed.

(** signed pairs of numerals are normal forms, so "reduces to" determines what NOR / HNO return *)
Theorem C15_pairs_normal : forall p n,
  nfb (sp church p n) = true /\ nfb (sp scott p n) = true /\ nfb (sp parigot p n) = true /\ nfb (sp stumpfu p n) = true.
Proof.
  intros p n. unfold sp, pair_t. cbn [nfb is_abs negb andb].
  rewrite !church_nf, !scott_nf, !stumpfu_nf. rewrite !(proj1 (parigot_nf _)). repeat split.
Qed.
Theorem C15_nor_returns : forall t v, red t v -> nfb v = true -> exists fuel c, reduce_m fuel NOR 0 t = Some (v, c).
Proof. exact nor_normalises. Qed.
Theorem C15_hno_returns : forall t v, red t v -> nfb v = true -> exists fuel c, reduce_m fuel HNO 0 t = Some (v, c).
Proof. exact hno_reduce_normalises. Qed.

(** the property as stated: what [reduce] returns under the two normalising orders, for ALL pairs, per encoding *)
Definition signed_returns (o : order) (enc : nat -> term) (simplify modulus to_signed add sub mul : term) : Prop :=
  forall p1 n1 p2 n2 x : nat,
  returns o (App simplify (sp enc p1 n1)) (sp enc (zpos (sval p1 n1)) (zneg (sval p1 n1))) /\
  returns o (App modulus (sp enc p1 n1)) (enc (Z.abs_nat (sval p1 n1))) /\
  returns o (App lc_num_signed_neg (sp enc p1 n1)) (sp enc n1 p1) /\
  returns o (App to_signed (enc x)) (sp enc x 0) /\
  returns o (App (App add (sp enc p1 n1)) (sp enc p2 n2))
            (sp enc (zpos (sval p1 n1 + sval p2 n2)) (zneg (sval p1 n1 + sval p2 n2))) /\
  returns o (App (App sub (sp enc p1 n1)) (sp enc p2 n2))
            (sp enc (zpos (sval p1 n1 - sval p2 n2)) (zneg (sval p1 n1 - sval p2 n2))) /\
  returns o (App (App mul (sp enc p1 n1)) (sp enc p2 n2))
            (sp enc (zpos (sval p1 n1 * sval p2 n2)) (zneg (sval p1 n1 * sval p2 n2))).
Lemma signed_returns_of o enc s m t a b c : lazy o -> (forall k, nfb (enc k) = true) ->
  signed_spec enc s m t a b c -> signed_returns o enc s m t a b c.
Proof.
  intros L N [H1 H2 H3 H4 H5 H6 H7] p1 n1 p2 n2 x.
  assert (NP : forall a b, nfb (sp enc a b) = true) by (intros; apply pair_nf; apply N).
  repeat split; apply (lazy_returns o); auto; first [apply H5 | apply H6 | apply H7].
Qed.
Theorem C15_reduce_returns : forall o, lazy o ->
  signed_returns o church lc_num_signed_simplify_church lc_num_signed_modulus_church lc_num_signed_to_signed_church
                 lc_num_signed_add_church lc_num_signed_sub_church lc_num_signed_mul_church /\
  signed_returns o scott lc_num_signed_simplify_scott lc_num_signed_modulus_scott lc_num_signed_to_signed_scott
                 lc_num_signed_add_scott lc_num_signed_sub_scott lc_num_signed_mul_scott /\
  signed_returns o parigot lc_num_signed_simplify_parigot lc_num_signed_modulus_parigot lc_num_signed_to_signed_parigot
                 lc_num_signed_add_parigot lc_num_signed_sub_parigot lc_num_signed_mul_parigot /\
  signed_returns o stumpfu lc_num_signed_simplify_stumpfu lc_num_signed_modulus_stumpfu lc_num_signed_to_signed_stumpfu
                 lc_num_signed_add_stumpfu lc_num_signed_sub_stumpfu lc_num_signed_mul_stumpfu.
Proof.
  intros o L. split; [|split; [|split]]; apply signed_returns_of; auto.
  - apply church_nf. - apply signed_church. - apply scott_nf. - apply signed_scott.
  - intros k; apply parigot_nf. - apply signed_parigot. - apply stumpfu_nf. - apply signed_stumpfu.
Qed.

Print Assumptions C15_church.
Print Assumptions C15_scott.
Print Assumptions C15_parigot.
Print Assumptions C15_stumpfu.
Print Assumptions C15_scott_add_explicit.
Print Assumptions C15_canonical.
Print Assumptions C15_pairs_normal.
Print Assumptions C15_nor_returns.
Print Assumptions C15_hno_returns.
Print Assumptions C15_reduce_returns.
