(** * The functions GENERATED from src/term.rs (Gen/TermSrc.v, lib/trans_term.py) are the model functions
      of Model/TermOps.v, hence meet the C18 / C19 definitions.  Re-proved on every run against what the
      source says now; the scripts avoid depending on the order of disjuncts, on [d + 1] vs [S d], and on how
      the source destructures. *)
From LC Require Import Gen.TermSrc Model.TermOps Spec.Predicates Proofs.TermOps.
Require Import Lia.

Ltac bsolve :=
  repeat match goal with
  | |- context[?a <? ?b] => destruct (Nat.ltb_spec a b)
  | |- context[?a <=? ?b] => destruct (Nat.leb_spec a b)
  | |- context[?a =? ?b] => destruct (Nat.eqb_spec a b)
  end; cbn; try reflexivity; try lia; try congruence.

(** ** accessors (each of the 15 source functions separately) *)
Lemma unvar_tie t : TSrc.unvar t = unvar t /\ TSrc.unvar_ref t = unvar t /\ TSrc.unvar_mut t = unvar t.
Proof. destruct t; repeat split; reflexivity. Qed.
Lemma unabs_tie t : TSrc.unabs t = unabs t /\ TSrc.unabs_ref t = unabs t /\ TSrc.unabs_mut t = unabs t.
Proof. destruct t; repeat split; reflexivity. Qed.
Lemma unapp_tie t : TSrc.unapp t = unapp t /\ TSrc.unapp_ref t = unapp t /\ TSrc.unapp_mut t = unapp t.
Proof. destruct t; repeat split; reflexivity. Qed.
Lemma lhs_tie t : TSrc.lhs t = lhs t /\ TSrc.lhs_ref t = lhs t /\ TSrc.lhs_mut t = lhs t.
Proof. destruct t; repeat split; reflexivity. Qed.
Lemma rhs_tie t : TSrc.rhs t = rhs t /\ TSrc.rhs_ref t = rhs t /\ TSrc.rhs_mut t = rhs t.
Proof. destruct t; repeat split; reflexivity. Qed.

Theorem src_accessors_ok : forall n b l r,
  (TSrc.unvar (Var n) = inr n /\ TSrc.unvar_ref (Var n) = inr n /\ TSrc.unvar_mut (Var n) = inr n) /\
  (TSrc.unabs (Abs b) = inr b /\ TSrc.unabs_ref (Abs b) = inr b /\ TSrc.unabs_mut (Abs b) = inr b) /\
  (TSrc.unapp (App l r) = inr (l, r) /\ TSrc.unapp_ref (App l r) = inr (l, r) /\ TSrc.unapp_mut (App l r) = inr (l, r)) /\
  (TSrc.lhs (App l r) = inr l /\ TSrc.lhs_ref (App l r) = inr l /\ TSrc.lhs_mut (App l r) = inr l) /\
  (TSrc.rhs (App l r) = inr r /\ TSrc.rhs_ref (App l r) = inr r /\ TSrc.rhs_mut (App l r) = inr r).
Proof.
  intros n b l r.
  pose proof (unvar_tie (Var n)) as (-> & -> & ->). pose proof (unabs_tie (Abs b)) as (-> & -> & ->).
  pose proof (unapp_tie (App l r)) as (-> & -> & ->). pose proof (lhs_tie (App l r)) as (-> & -> & ->).
  pose proof (rhs_tie (App l r)) as (-> & -> & ->). repeat split.
Qed.

Theorem src_accessors_err : forall t,
  ((forall n, t <> Var n) -> TSrc.unvar t = inl NotVar /\ TSrc.unvar_ref t = inl NotVar /\ TSrc.unvar_mut t = inl NotVar) /\
  ((forall b, t <> Abs b) -> TSrc.unabs t = inl NotAbs /\ TSrc.unabs_ref t = inl NotAbs /\ TSrc.unabs_mut t = inl NotAbs) /\
  ((forall l r, t <> App l r) ->
     (TSrc.unapp t = inl NotApp /\ TSrc.unapp_ref t = inl NotApp /\ TSrc.unapp_mut t = inl NotApp) /\
     (TSrc.lhs t = inl NotApp /\ TSrc.lhs_ref t = inl NotApp /\ TSrc.lhs_mut t = inl NotApp) /\
     (TSrc.rhs t = inl NotApp /\ TSrc.rhs_ref t = inl NotApp /\ TSrc.rhs_mut t = inl NotApp)).
Proof.
  intros t.
  pose proof (unvar_tie t) as (-> & -> & ->). pose proof (unabs_tie t) as (-> & -> & ->).
  pose proof (unapp_tie t) as (-> & -> & ->). pose proof (lhs_tie t) as (-> & -> & ->).
  pose proof (rhs_tie t) as (-> & -> & ->).
  split; [intros H; rewrite (unvar_err t H); auto|].
  split; [intros H; rewrite (unabs_err t H); auto|].
  intros H. rewrite (unapp_err t H), (lhs_err t H), (rhs_err t H). auto.
Qed.

(** ** predicates *)
Lemma hfv_helper_tie : forall t d, TSrc.has_free_variables_helper t d = has_free_variables_helper d t.
Proof.
  induction t as [i|b IH|l IHl r IHr]; intros d; cbn [TSrc.has_free_variables_helper has_free_variables_helper].
  - bsolve.
  - rewrite IH, ?Nat.add_1_r. reflexivity.
  - rewrite IHl, IHr.
    destruct (has_free_variables_helper d l), (has_free_variables_helper d r); reflexivity.
Qed.

Theorem src_has_free_variables : forall t, TSrc.has_free_variables t = has_fv_spec t.
Proof. intros t. unfold TSrc.has_free_variables. rewrite hfv_helper_tie. apply has_free_variables_spec. Qed.

Lemma max_depth_tie : forall t, TSrc.max_depth t = max_depth t.
Proof.
  induction t as [i|b IH|l IHl r IHr]; cbn [TSrc.max_depth max_depth]; cbv zeta; rewrite ?IH, ?IHl, ?IHr; lia.
Qed.

Theorem src_max_depth : forall t, TSrc.max_depth t = max_depth_spec t.
Proof. intros t. rewrite max_depth_tie. apply max_depth_spec_ok. Qed.

Lemma iso_tie : forall t u, TSrc.is_isomorphic_to t u = is_isomorphic_to t u.
Proof.
  induction t as [i|b IH|l IHl r IHr]; destruct u as [j|c|m s];
    cbn [TSrc.is_isomorphic_to is_isomorphic_to]; rewrite ?IH, ?IHl, ?IHr; try reflexivity.
  all: try (destruct (is_isomorphic_to l m), (is_isomorphic_to r s); reflexivity).
  all: bsolve.
Qed.

Theorem src_is_isomorphic_to : forall t u, TSrc.is_isomorphic_to t u = true <-> t = u.
Proof. intros t u. rewrite iso_tie. apply is_isomorphic_to_spec. Qed.

Lemma sc_loop_tie : forall fuel stack, TSrc.sc_loop fuel stack = sc_loop fuel stack.
Proof.
  induction fuel as [|f IH]; intros stack; [reflexivity|].
  destruct stack as [|[d t] rest]; [reflexivity|].
  destruct t as [i|b|l r]; cbn [TSrc.sc_loop sc_loop]; rewrite ?IH, ?Nat.add_1_r; unfold child_depth.
  - bsolve.
  - reflexivity.
  - destruct l, r; reflexivity.
Qed.

Theorem src_is_supercombinator : forall t,
  exists b, TSrc.is_supercombinator t = Some b /\ (b = true <-> supercomb t).
Proof.
  intros t. destruct (is_supercombinator_total t) as [b Hb]. exists b.
  unfold TSrc.is_supercombinator. rewrite sc_loop_tie. split; [exact Hb|].
  apply is_supercombinator_spec. exact Hb.
Qed.
