(** * parse (Display t) = canon t for every term without UD (C10), through the reference parser *)
From Coq Require Import ZArith ZifyNat ZifyBool ZifyN Lia.
From LC Require Import Spec.Grammar Spec.Printing Model.Parser Model.Display
  Proofs.Printing Proofs.ParserCore Proofs.ParserEquiv Proofs.RoundTripDbr Proofs.Base26.

(** ** name resolution without fuel *)
Lemma res_group_suffix : forall f env frees toks,
  length (snd (fst (res_group f env frees toks))) <= length toks.
Proof.
  induction f as [|f IH]; intros env frees toks; [simpl; lia|].
  destruct toks as [|t r]; [simpl; lia|]. cbn [res_group].
  destruct t as [b| | |n|s].
  - specialize (IH (b :: env) frees r). destruct (res_group f (b :: env) frees r) as [[o rest] fr]. simpl in *. lia.
  - pose proof (IH env frees r) as H1. destruct (res_group f env frees r) as [[o1 rest1] fr1]. simpl in H1.
    pose proof (IH env fr1 (tl rest1)) as H2. destruct (res_group f env fr1 (tl rest1)) as [[o2 rest2] fr2]. simpl in *.
    assert (length (tl rest1) <= length rest1) by (destruct rest1; simpl; lia). lia.
  - simpl. lia.
  - specialize (IH env frees r). destruct (res_group f env frees r) as [[o rest] fr]. simpl in *. lia.
  - destruct (index_of s env).
    + specialize (IH env frees r). destruct (res_group f env frees r) as [[o rest] fr]. simpl in *. lia.
    + match goal with |- context[res_group f env ?fr r] => specialize (IH env fr r); destruct (res_group f env fr r) as [[o rest] fr'] end.
      simpl in *. lia.
Qed.

Lemma res_group_fuel : forall f1 f2 env frees toks,
  length toks < f1 -> length toks < f2 -> res_group f1 env frees toks = res_group f2 env frees toks.
Proof.
  induction f1 as [|f1 IH]; intros f2 env frees toks H1 H2; [lia|].
  destruct f2 as [|f2]; [lia|].
  destruct toks as [|t r]; [reflexivity|]. simpl in H1, H2. cbn [res_group].
  destruct t as [b| | |n|s].
  - rewrite (IH f2) by lia. reflexivity.
  - rewrite (IH f2 env frees r) by lia.
    pose proof (res_group_suffix f2 env frees r) as S1.
    destruct (res_group f2 env frees r) as [[o1 rest1] fr1]. simpl in S1.
    assert (length (tl rest1) <= length rest1) by (destruct rest1; simpl; lia).
    rewrite (IH f2 env fr1 (tl rest1)) by lia. reflexivity.
  - reflexivity.
  - rewrite (IH f2) by lia. reflexivity.
  - destruct (index_of s env); rewrite (IH f2) by lia; reflexivity.
Qed.

Definition RG (env frees : list name) (toks : list atok) := res_group (S (length toks)) env frees toks.

Lemma RG_nil env frees : RG env frees [] = ([], [], frees).
Proof. reflexivity. Qed.
Lemma RG_rp env frees r : RG env frees (TRp :: r) = ([Rparen], TRp :: r, frees).
Proof. reflexivity. Qed.
Lemma RG_lam env frees b r :
  RG env frees (TLam b :: r) = let '(o, rest, fr) := RG (b :: env) frees r in (Lambda :: o, rest, fr).
Proof. reflexivity. Qed.
Lemma RG_lp env frees r :
  RG env frees (TLp :: r) =
  let '(o1, rest1, fr1) := RG env frees r in
  let '(o2, rest2, fr2) := RG env fr1 (tl rest1) in
  (Lparen :: o1 ++ o2, rest2, fr2).
Proof.
  unfold RG.
  change (res_group (S (length (TLp :: r))) env frees (TLp :: r)) with
    (let '(o1, rest1, fr1) := res_group (S (length r)) env frees r in
     let '(o2, rest2, fr2) := res_group (S (length r)) env fr1 (tl rest1) in
     (Lparen :: o1 ++ o2, rest2, fr2)).
  pose proof (res_group_suffix (S (length r)) env frees r) as S1.
  destruct (res_group (S (length r)) env frees r) as [[o1 rest1] fr1]. cbn [fst snd] in S1.
  assert (length (tl rest1) <= length rest1) by (destruct rest1; simpl; lia).
  rewrite (res_group_fuel (S (length r)) (S (length (tl rest1))) env fr1 (tl rest1)) by lia. reflexivity.
Qed.
Lemma RG_name_bound env frees s r i : index_of s env = Some i ->
  RG env frees (TName s :: r) = let '(o, rest, fr) := RG env frees r in (Number (S i) :: o, rest, fr).
Proof.
  intros E. unfold RG.
  change (res_group (S (length (TName s :: r))) env frees (TName s :: r)) with
    (match index_of s env with
     | Some i => let '(o, rest, fr) := res_group (S (length r)) env frees r in (Number (S i) :: o, rest, fr)
     | None =>
         let frees' := match index_of s frees with Some _ => frees | None => frees ++ [s] end in
         let j := match index_of s frees' with Some j => j | None => 0 end in
         let '(o, rest, fr) := res_group (S (length r)) env frees' r in (Number (length env + j + 1) :: o, rest, fr)
     end).
  rewrite E. reflexivity.
Qed.
Lemma RG_name_free env frees s r : index_of s env = None ->
  RG env frees (TName s :: r) =
  let frees' := match index_of s frees with Some _ => frees | None => frees ++ [s] end in
  let j := match index_of s frees' with Some j => j | None => 0 end in
  let '(o, rest, fr) := RG env frees' r in (Number (length env + j + 1) :: o, rest, fr).
Proof.
  intros E. unfold RG.
  change (res_group (S (length (TName s :: r))) env frees (TName s :: r)) with
    (match index_of s env with
     | Some i => let '(o, rest, fr) := res_group (S (length r)) env frees r in (Number (S i) :: o, rest, fr)
     | None =>
         let frees' := match index_of s frees with Some _ => frees | None => frees ++ [s] end in
         let j := match index_of s frees' with Some j => j | None => 0 end in
         let '(o, rest, fr) := res_group (S (length r)) env frees' r in (Number (length env + j + 1) :: o, rest, fr)
     end).
  rewrite E. reflexivity.
Qed.

Definition group_end_a (k : list atok) : Prop := k = [] \/ exists r, k = TRp :: r.
Lemma RG_group_end e1 e2 frees k : group_end_a k -> RG e1 frees k = RG e2 frees k.
Proof. intros [->|[r ->]]; reflexivity. Qed.

(** ** the printed tokens and what name resolution makes of them *)
Section printed.
  Variable maxd : nat.

  Definition vname (depth i : nat) : name :=
    if i <=? depth then b26 (depth - i) else b26 (maxd + (i - depth) - 1).

  Fixpoint ctoks (t : term) (pos : position) (depth : nat) : list atok :=
    let body := match t with
                | Var i => [TName (vname depth i)]
                | Abs b => TLam (b26 depth) :: ctoks b Top (S depth)
                | App l r => ctoks l Operator depth ++ ctoks r Operand depth
                end in
    if needs_paren t pos then TLp :: body ++ [TRp] else body.

  Definition benv (d : nat) : list name := map b26 (rev (seq 0 d)).
  Definition fname (lvl : nat) : name := b26 (maxd + lvl - 1).

  Lemma benv_S d : benv (S d) = b26 d :: benv d.
  Proof. unfold benv. rewrite seq_S, rev_app_distr. reflexivity. Qed.
  Lemma benv_length d : length (benv d) = d.
  Proof. unfold benv. rewrite map_length, rev_length, seq_length. reflexivity. Qed.

  Lemma index_benv : forall d x, index_of (b26 x) (benv d) = if x <? d then Some (d - 1 - x) else None.
  Proof.
    induction d; intros x.
    - reflexivity.
    - rewrite benv_S. cbn [index_of]. rewrite name_eqb_b26.
      destruct (Nat.eqb_spec d x) as [->|N].
      + destruct (Nat.ltb_spec x (S x)); [f_equal; lia|lia].
      + rewrite IHd. destruct (Nat.ltb_spec x d), (Nat.ltb_spec x (S d)); try lia; simpl; auto. f_equal. lia.
  Qed.

  Definition pos_levels (levels : list nat) : Prop := Forall (fun l => 1 <= l) levels.

  Lemma index_fname : forall levels lvl, pos_levels levels -> 1 <= lvl ->
    index_of (fname lvl) (map fname levels) = nat_index_of lvl levels.
  Proof.
    induction levels as [|y r IH]; intros lvl P L; [reflexivity|].
    inversion P; subst. cbn [map index_of nat_index_of]. unfold fname at 1 2. rewrite name_eqb_b26.
    destruct (Nat.eqb_spec (maxd + y - 1) (maxd + lvl - 1)), (Nat.eqb_spec lvl y); try lia; auto.
    rewrite IH by auto. reflexivity.
  Qed.

  Lemma canon_levels : forall t d levels, pos_levels levels -> pos_levels (snd (canon_at d levels t)).
  Proof.
    induction t as [i|b IH|l IHl r IHr]; intros d levels P; cbn [canon_at].
    - destruct (Nat.leb_spec i d); auto.
      destruct (nat_index_of (i - d) levels); auto. simpl. apply Forall_app. split; auto. constructor; auto. lia.
    - specialize (IH (S d) levels P). destruct (canon_at (S d) levels b). auto.
    - specialize (IHl d levels P). destruct (canon_at d levels l) as [l' f1]. simpl in IHl.
      specialize (IHr d f1 IHl). destruct (canon_at d f1 r) as [r' f2]. auto.
  Qed.

  Lemma needs_paren_canon t d levels pos : needs_paren (fst (canon_at d levels t)) pos = needs_paren t pos.
  Proof.
    destruct t as [i|b|l r]; cbn [canon_at].
    - destruct (i <=? d); [reflexivity|]. destruct (nat_index_of (i - d) levels); reflexivity.
    - destruct (canon_at (S d) levels b). reflexivity.
    - destruct (canon_at d levels l) as [l' f1]. destruct (canon_at d f1 r). reflexivity.
  Qed.

  Definition RGk (d : nat) (levels : list nat) (k : list atok) := RG (benv d) (map fname levels) k.

  (** the unparenthesised rendering of a term, followed by [k] *)
  Definition body_toks (t : term) (d : nat) : list atok :=
    match t with
    | Var i => [TName (vname d i)]
    | Abs b => TLam (b26 d) :: ctoks b Top (S d)
    | App l r => ctoks l Operator d ++ ctoks r Operand d
    end.
  Definition body_ptoks (t : term) : list token :=
    match t with
    | Var i => [Number i]
    | Abs b => Lambda :: ptoks b Top
    | App l r => ptoks l Operator ++ ptoks r Operand
    end.
  Lemma ctoks_body t pos d : ctoks t pos d = if needs_paren t pos then TLp :: body_toks t d ++ [TRp] else body_toks t d.
  Proof. destruct t; reflexivity. Qed.
  Lemma ptoks_body t pos : ptoks t pos = if needs_paren t pos then Lparen :: body_ptoks t ++ [Rparen] else body_ptoks t.
  Proof. destruct t; reflexivity. Qed.

  Definition resolved (t : term) (pos : position) (d : nat) (levels : list nat) (k : list atok) : Prop :=
    RGk d levels (ctoks t pos d ++ k) =
      (ptoks (fst (canon_at d levels t)) pos ++ fst (fst (RGk d (snd (canon_at d levels t)) k)),
       snd (fst (RGk d (snd (canon_at d levels t)) k)),
       snd (RGk d (snd (canon_at d levels t)) k)).
  Definition body_resolved (t : term) (d : nat) (levels : list nat) (k : list atok) : Prop :=
    RGk d levels (body_toks t d ++ k) =
      (body_ptoks (fst (canon_at d levels t)) ++ fst (fst (RGk d (snd (canon_at d levels t)) k)),
       snd (fst (RGk d (snd (canon_at d levels t)) k)),
       snd (RGk d (snd (canon_at d levels t)) k)).

  (** wrapping a body in parentheses *)
  Lemma paren_wrap t d levels k :
    body_resolved t d levels (TRp :: k) ->
    RGk d levels ((TLp :: body_toks t d ++ [TRp]) ++ k) =
      ((Lparen :: body_ptoks (fst (canon_at d levels t)) ++ [Rparen]) ++ fst (fst (RGk d (snd (canon_at d levels t)) k)),
       snd (fst (RGk d (snd (canon_at d levels t)) k)),
       snd (RGk d (snd (canon_at d levels t)) k)).
  Proof.
    intros H. unfold RGk in *. simpl app. rewrite <- app_assoc. simpl app. rewrite RG_lp.
    unfold body_resolved, RGk in H. rewrite H. rewrite RG_rp. cbn [fst snd tl].
    destruct (RG (benv d) (map fname (snd (canon_at d levels t))) k) as [[o2 rest2] fr2]. cbn [fst snd].
    rewrite <- app_assoc. reflexivity.
  Qed.
End printed.

Section resolution.
  Variable maxd : nat.

  Lemma var_body i d levels k : i <> 0 -> d <= maxd -> pos_levels levels -> body_resolved maxd (Var i) d levels k.
  Proof.
    intros Hi Hd P. unfold body_resolved, RGk. cbn [body_toks app canon_at]. unfold vname.
    destruct (Nat.leb_spec i d) as [Hle|Hgt].
    - cbn [fst snd body_ptoks].
      rewrite (RG_name_bound _ _ _ _ (i - 1)).
      + destruct (RG (benv d) (map (fname maxd) levels) k) as [[o rest] fr]. cbn [fst snd app].
        replace (S (i - 1)) with i by lia. reflexivity.
      + rewrite index_benv. destruct (Nat.ltb_spec (d - i) d); [f_equal; lia|lia].
    - assert (NB : index_of (b26 (maxd + (i - d) - 1)) (benv d) = None).
      { rewrite index_benv. destruct (Nat.ltb_spec (maxd + (i - d) - 1) d); [lia|reflexivity]. }
      rewrite (RG_name_free _ _ _ _ NB). cbv zeta.
      change (b26 (maxd + (i - d) - 1)) with (fname maxd (i - d)).
      rewrite (index_fname maxd levels (i - d) P) by lia.
      destruct (nat_index_of (i - d) levels) as [j|] eqn:Ej.
      + rewrite (index_fname maxd levels (i - d) P) by lia. rewrite Ej. cbn [fst snd body_ptoks].
        destruct (RG (benv d) (map (fname maxd) levels) k) as [[o rest] fr]. cbn [fst snd app].
        rewrite benv_length. reflexivity.
      + assert (E : index_of (fname maxd (i - d)) (map (fname maxd) levels ++ [fname maxd (i - d)]) = Some (length levels)).
        { rewrite index_of_snoc_new; [rewrite map_length; reflexivity|].
          rewrite (index_fname maxd levels (i - d) P) by lia. exact Ej. }
        rewrite E. cbn [fst snd body_ptoks].
        replace (map (fname maxd) levels ++ [fname maxd (i - d)]) with (map (fname maxd) (levels ++ [i - d])) by (rewrite map_app; reflexivity).
        destruct (RG (benv d) (map (fname maxd) (levels ++ [i - d])) k) as [[o rest] fr]. cbn [fst snd app].
        rewrite benv_length. reflexivity.
  Qed.

  Lemma wrap_resolved t pos d levels k :
    (needs_paren t pos = true -> body_resolved maxd t d levels (TRp :: k)) ->
    (needs_paren t pos = false -> body_resolved maxd t d levels k) ->
    resolved maxd t pos d levels k.
  Proof.
    intros Hp Hn. unfold resolved. rewrite ctoks_body, ptoks_body, needs_paren_canon.
    destruct (needs_paren t pos).
    - apply paren_wrap. auto.
    - apply Hn. reflexivity.
  Qed.

  Theorem resolved_all : forall t pos d levels k,
    has_ud t = false -> d + tdepth t <= maxd -> pos_levels levels ->
    (pos = Top -> group_end_a k) -> resolved maxd t pos d levels k.
  Proof.
    induction t as [i|b IH|l IHl r IHr]; intros pos d levels k U D P G.
    - (* variable *)
      simpl in U. apply Nat.eqb_neq in U. simpl in D.
      apply wrap_resolved; intros _; apply var_body; auto; lia.
    - (* abstraction *)
      simpl in U, D.
      assert (B : forall k', group_end_a k' -> body_resolved maxd (Abs b) d levels k').
      { intros k' G'. unfold body_resolved, RGk. cbn [body_toks app canon_at]. rewrite RG_lam.
        rewrite <- benv_S.
        pose proof (IH Top (S d) levels k' U ltac:(lia) P (fun _ => G')) as R. unfold resolved, RGk in R. rewrite R.
        rewrite (RG_group_end (benv (S d)) (benv d) _ k' G').
        destruct (canon_at (S d) levels b) as [b' lv']. cbn [fst snd body_ptoks].
        destruct (RG (benv d) (map (fname maxd) lv') k') as [[o rest] fr]. reflexivity. }
      apply wrap_resolved; intros N.
      + apply B. right. eauto.
      + apply B. destruct pos; try discriminate. auto.
    - (* application *)
      simpl in U, D. apply orb_false_iff in U. destruct U as [Ul Ur].
      assert (B : forall k', body_resolved maxd (App l r) d levels k').
      { intros k'. unfold body_resolved, RGk. cbn [body_toks canon_at]. rewrite <- app_assoc.
        pose proof (IHl Operator d levels (ctoks maxd r Operand d ++ k') Ul ltac:(lia) P ltac:(discriminate)) as Rl.
        unfold resolved, RGk in Rl. rewrite Rl.
        pose proof (canon_levels l d levels P) as P1.
        destruct (canon_at d levels l) as [l' lv1]. cbn [fst snd] in *.
        pose proof (IHr Operand d lv1 k' Ur ltac:(lia) P1 ltac:(discriminate)) as Rr.
        unfold resolved, RGk in Rr. rewrite Rr.
        destruct (canon_at d lv1 r) as [r' lv2]. cbn [fst snd body_ptoks].
        destruct (RG (benv d) (map (fname maxd) lv2) k') as [[o rest] fr]. cbn [fst snd].
        rewrite <- app_assoc. reflexivity. }
      apply wrap_resolved; intros _; apply B.
  Qed.

  (** the whole printed term *)
  Theorem resolve_printed t : has_ud t = false -> tdepth t <= maxd ->
    resolve (ctoks maxd t Top 0) = ptoks (canon t) Top.
  Proof.
    intros U D.
    pose proof (resolved_all t Top 0 [] [] U ltac:(lia) ltac:(constructor) (fun _ => or_introl eq_refl)) as R.
    unfold resolved, RGk in R. rewrite app_nil_r in R. rewrite RG_nil in R. cbn [fst snd] in R. rewrite app_nil_r in R.
    unfold resolve. change (res_group (S (length (ctoks maxd t Top 0))) [] [] (ctoks maxd t Top 0)) with (RG (benv 0) (map (fname maxd) []) (ctoks maxd t Top 0)).
    rewrite R. reflexivity.
  Qed.
End resolution.

(** ** the Classic lexer inverts the renderer *)
Definition push_all (toks : list atok) (res : lex_result) : lex_result :=
  match res with LexOk ts => LexOk (toks ++ ts) | e => e end.

Definition delim (rest : list cchar) : Prop :=
  rest = [] \/ exists c r, rest = c :: r /\ is_alphanumeric c = false.

Lemma classify_lower c : lower c ->
  is_alphabetic (classify c) = true /\ is_alphanumeric (classify c) = true /\ is_whitespace (classify c) = false /\
  is_lambda_glyph (classify c) = false /\ is_char c_lparen (classify c) = false /\
  is_char c_rparen (classify c) = false /\ is_char c_dot (classify c) = false.
Proof.
  unfold lower. intros H. unfold classify, is_lambda_glyph, is_char, c_backslash, c_lambda, c_lparen, c_rparen, c_dot. cbn [code is_alphabetic is_alphanumeric is_whitespace].
  assert (E1 : (97 <=? N.to_nat c) = true) by (apply Nat.leb_le; lia).
  assert (E2 : (N.to_nat c <=? 122) = true) by (apply Nat.leb_le; lia).
  assert (E3 : (N.to_nat c =? 32) = false) by (apply Nat.eqb_neq; lia).
  assert (E4 : (N.to_nat c <=? 13) = false) by (apply Nat.leb_gt; lia).
  assert (E5 : (c =? 92)%N = false) by (apply N.eqb_neq; lia).
  assert (E6 : (c =? 955)%N = false) by (apply N.eqb_neq; lia).
  assert (E7 : (c =? 40)%N = false) by (apply N.eqb_neq; lia).
  assert (E8 : (c =? 41)%N = false) by (apply N.eqb_neq; lia).
  assert (E9 : (c =? 46)%N = false) by (apply N.eqb_neq; lia).
  rewrite E1, E2, E3, E4, E5, E6, E7, E8, E9. rewrite ?andb_false_r. repeat split; reflexivity.
Qed.

Lemma lex_name_tail : forall more acc i rest, Forall lower more -> delim rest ->
  exists i', lex_cla (LName acc) i (map classify more ++ rest) = push_tok (TName (acc ++ more)) (lex_cla LTop i' rest).
Proof.
  induction more as [|c r IH]; intros acc i rest F D.
  - simpl app. rewrite app_nil_r. destruct D as [->|(c & r & -> & A)].
    + exists i. reflexivity.
    + exists i. cbn [lex_cla]. rewrite A. reflexivity.
  - inversion F; subst. destruct (classify_lower c H1) as (_ & A & _).
    simpl map. simpl app. cbn [lex_cla]. rewrite A.
    destruct (IH (acc ++ [code (classify c)]) (S i) rest H2 D) as [i' E]. exists i'. rewrite E.
    simpl code. rewrite <- app_assoc. reflexivity.
Qed.

Lemma lex_name_word nm i rest : Forall lower nm -> nm <> [] -> delim rest ->
  exists i', lex_cla LTop i (map classify nm ++ rest) = push_tok (TName nm) (lex_cla LTop i' rest).
Proof.
  intros F N D. destruct nm as [|c r]; [congruence|]. inversion F; subst.
  destruct (classify_lower c H1) as (A1 & A2 & A3 & A4 & A5 & A6 & A7).
  simpl map. simpl app. cbn [lex_cla]. rewrite A4, A5, A6, A3, A1.
  destruct (lex_name_tail r [code (classify c)] (S i) rest H2 D) as [i' E]. exists i'. rewrite E. reflexivity.
Qed.

Lemma lex_binder_tail : forall more acc i rest, Forall lower more ->
  exists i', lex_cla (LBinder acc) i (map classify more ++ classify 46%N :: rest) = push_tok (TLam (acc ++ more)) (lex_cla LTop i' rest).
Proof.
  induction more as [|c r IH]; intros acc i rest F.
  - simpl app. rewrite app_nil_r. exists (S i). reflexivity.
  - inversion F; subst. destruct (classify_lower c H1) as (_ & A & _ & _ & _ & _ & A7).
    simpl map. simpl app. cbn [lex_cla]. rewrite A7, A.
    destruct (IH (acc ++ [code (classify c)]) (S i) rest H2) as [i' E]. exists i'. rewrite E.
    simpl code. rewrite <- app_assoc. reflexivity.
Qed.

Lemma lex_binder_word lam nm i rest : is_glyph lam -> Forall lower nm -> nm <> [] ->
  exists i', lex_cla LTop i (classify lam :: map classify nm ++ classify 46%N :: rest) = push_tok (TLam nm) (lex_cla LTop i' rest).
Proof.
  intros G F N. destruct nm as [|c r]; [congruence|]. inversion F; subst.
  destruct (classify_lower c H1) as (A1 & _).
  assert (GL : is_lambda_glyph (classify lam) = true) by (destruct G as [->| ->]; reflexivity).
  cbn [lex_cla]. rewrite GL. simpl map. simpl app. cbn [lex_cla]. rewrite A1.
  destruct (lex_binder_tail r [code (classify c)] (S (S i)) rest H2) as [i' E]. exists i'. rewrite E. reflexivity.
Qed.

Lemma push_all_cons t toks res : push_tok t (push_all toks res) = push_all (t :: toks) res.
Proof. destruct res; reflexivity. Qed.
Lemma push_all_app t1 t2 res : push_all t1 (push_all t2 res) = push_all (t1 ++ t2) res.
Proof. destruct res; simpl; auto. rewrite app_assoc. reflexivity. Qed.
Lemma push_all_nil res : push_all [] res = res.
Proof. destruct res; reflexivity. Qed.
Lemma push_tok_all t res : push_tok t res = push_all [t] res.
Proof. destruct res; reflexivity. Qed.

Lemma delim_space r : delim (classify 32%N :: r).
Proof. right. eexists; eexists; split; reflexivity. Qed.
Lemma delim_rparen r : delim (classify 41%N :: r).
Proof. right. eexists; eexists; split; reflexivity. Qed.

Section lex_printed.
  Variables (lam : N) (maxd : nat).
  Hypothesis G : is_glyph lam.

  Lemma vname_word d i : Forall lower (vname maxd d i) /\ vname maxd d i <> [].
  Proof. unfold vname. destruct (i <=? d); apply b26_lower. Qed.

  Definition lexes (s : list N) (toks : list atok) : Prop :=
    forall i rest, delim rest -> exists i', lex_cla LTop i (map classify s ++ rest) = push_all toks (lex_cla LTop i' rest).

  Lemma lexes_paren s toks : lexes s toks -> lexes ([40%N] ++ s ++ [41%N]) (TLp :: toks ++ [TRp]).
  Proof.
    intros H i rest D. rewrite !map_app. simpl map. rewrite <- !app_assoc. simpl app.
    cbn [lex_cla]. change (is_lambda_glyph (classify 40%N)) with false. change (is_char c_lparen (classify 40%N)) with true. cbv iota.
    destruct (H (S i) (classify 41%N :: rest) (delim_rparen rest)) as [i' E]. rewrite E.
    exists (S i'). cbn [lex_cla].
    change (is_lambda_glyph (classify 41%N)) with false. change (is_char c_lparen (classify 41%N)) with false.
    change (is_char c_rparen (classify 41%N)) with true. cbv iota.
    destruct (lex_cla LTop (S i') rest); simpl; auto. rewrite <- app_assoc. reflexivity.
  Qed.

  Lemma lex_printed_cla : forall t pos d, has_ud t = false ->
    lexes (print_cla lam maxd t pos d) (ctoks maxd t pos d).
  Proof.
    induction t as [n|b IH|l IHl r IHr]; intros pos d U.
    - simpl in U. apply Nat.eqb_neq in U. destruct n; [congruence|].
      intros i rest D. destruct (vname_word d (S n)) as [F N].
      assert (E : print_cla lam maxd (Var (S n)) pos d = vname maxd d (S n)) by reflexivity. rewrite E.
      destruct (lex_name_word _ i rest F N D) as [i' E2]. exists i'. rewrite E2.
      assert (E3 : ctoks maxd (Var (S n)) pos d = [TName (vname maxd d (S n))]) by (destruct pos; reflexivity).
      rewrite E3. apply push_tok_all.
    - simpl in U.
      assert (B : lexes ([lam] ++ b26 d ++ [46%N] ++ print_cla lam maxd b Top (S d)) (TLam (b26 d) :: ctoks maxd b Top (S d))).
      { intros i rest D. rewrite !map_app. simpl map. rewrite <- !app_assoc. simpl app.
        destruct (b26_lower d) as [F N].
        destruct (lex_binder_word lam (b26 d) i (map classify (print_cla lam maxd b Top (S d)) ++ rest) G F N) as [i1 E1].
        rewrite E1. destruct (IH Top (S d) U i1 rest D) as [i2 E2]. rewrite E2. exists i2. apply push_all_cons. }
      destruct pos; cbn [print_cla ctoks needs_paren].
      + exact B.
      + apply (lexes_paren _ _ B).
      + apply (lexes_paren _ _ B).
    - simpl in U. apply orb_false_iff in U. destruct U as [Ul Ur].
      assert (B : lexes (print_cla lam maxd l Operator d ++ [32%N] ++ print_cla lam maxd r Operand d)
                        (ctoks maxd l Operator d ++ ctoks maxd r Operand d)).
      { intros i rest D. rewrite !map_app. simpl map. rewrite <- !app_assoc. simpl app.
        destruct (IHl Operator d Ul i (classify 32%N :: map classify (print_cla lam maxd r Operand d) ++ rest) (delim_space _)) as [i1 E1].
        rewrite E1. cbn [lex_cla].
        change (is_lambda_glyph (classify 32%N)) with false. change (is_char c_lparen (classify 32%N)) with false.
        change (is_char c_rparen (classify 32%N)) with false. change (is_whitespace (classify 32%N)) with true. cbv iota.
        destruct (IHr Operand d Ur (S i1) rest D) as [i2 E2]. rewrite E2. exists i2. apply push_all_app. }
      destruct pos; cbn [print_cla ctoks needs_paren].
      + exact B.
      + exact B.
      + apply (lexes_paren _ _ B).
  Qed.
End lex_printed.

Theorem display_roundtrip lam t : is_glyph lam -> has_ud t = false ->
  parse (map classify (display lam t)) Classic = inr (canon t).
Proof.
  intros G U. rewrite display_format. unfold ref_print_cla.
  pose proof (parse_is_reference (map classify (print_cla lam (tdepth t) t Top 0)) true) as P.
  unfold ref_parse in P.
  destruct (lex_printed_cla lam (tdepth t) G t Top 0 U 0 [] (or_introl eq_refl)) as [i' E].
  rewrite app_nil_r in E. rewrite E in P. simpl push_all in P. rewrite app_nil_r in P.
  rewrite (resolve_printed (tdepth t) t U (le_n _)) in P. rewrite rparse_ptoks in P. exact P.
Qed.

Lemma canon_closed_at : forall t d frees, closed_at d t = true -> canon_at d frees t = (t, frees).
Proof.
  induction t as [i|b IH|l IHl r IHr]; intros d frees C; simpl in *.
  - rewrite C. reflexivity.
  - rewrite (IH (S d) frees C). reflexivity.
  - apply andb_true_iff in C. destruct C as [Cl Cr]. rewrite (IHl d frees Cl), (IHr d frees Cr). reflexivity.
Qed.
Theorem canon_closed t : closed t = true -> canon t = t.
Proof. intros C. unfold canon. rewrite (canon_closed_at t 0 [] C). reflexivity. Qed.
